import ComposeVerif.Props.C09Leaves
import ComposeVerif.Model.RoundTripScope
/-!
# C09 — services and builds in the generic round trip: everything except `env_file` and `build.ssh`

`Props/C09Leaves.lean` leaves twelve model types outside the generic theorem.  Two of them are the central ones:
`BuildConfig` (blocked by `SSHConfig`) and `ServiceConfig` (blocked by `EnvFile`, `BuildConfig`, and by its own
`MarshalYAML`, which clears `Name` before rendering the struct by its tags).  Here both come into scope:

* `EnvFile` / `SSHConfig` are admitted as leaves **without values** (`leavesNoEnvSSH`): their short rendering is read
  back only after `transform.Canonical`, a reload stage outside the decode model (`envfile_short_form_needs_canonical`),
  so a stable service / build has no `env_file` / `ssh` entries;
* a struct whose marshaller only pre-processes the value (`GenericF.structOnly`) is in scope for the values the
  pre-processing leaves alone — the first conjunct of `Stable`; for a service: `Name = ""` (`custom_ServiceConfig_unnamed`),
  the state in which the decoder produces it before the loader fills the name in from the key.
-/
namespace CV.C09
open CV CV.TypeDesc CV.Marshal CV.Encode CV.Decode CV.Generic CV.GenericF

def leavesNoEnvSSH : Leaves := { names := allLeafNames ++ ["EnvFile", "SSHConfig"], ok := leafOK, depth := 3 }

theorem leavesNoEnvSSH_sound (env : Env) (henv : leafEnvB env = true) (fmt : Fmt) : LeafSound env fmt leavesNoEnvSSH := by
  intro n hn f v hf hok hnn
  by_cases h : allLeafNames.contains n = true
  · exact allLeaves_sound env henv fmt n h f v hf hok hnn
  · exfalso
    simp only [leavesNoEnvSSH, List.contains_eq_mem, List.mem_append, decide_eq_true_eq] at hn h
    rcases hn with hn | hn
    · exact h hn
    · simp only [List.mem_cons, List.mem_nil_iff, or_false] at hn
      rcases hn with rfl | rfl <;> simp [leavesNoEnvSSH, leafOK] at hok

/-- the full statement is false for the decode model (as for `loader.Transform`): the short form of a required env_file
    entry is a string, which the struct decoder rejects — canonicalisation has to run first -/
theorem envfile_short_form_needs_canonical :
    encode genEnv .yaml 5 (.named "EnvFile") (mkEnvFile "a.env" true "") = .ok (.str "a.env") ∧
    decode genEnv 5 (.named "EnvFile") (.str "a.env") = .err "not-a-mapping" := by
  constructor <;> rfl

/-- … and `ServiceConfig.MarshalYAML` is not the identity on a named service: the name is cleared (the reload restores it
    from the key of the services mapping) -/
theorem service_name_cleared :
    custom .yaml "ServiceConfig" (.map [("Name", .str "web"), ("Image", .str "nginx")]) =
      some (.inr ("ServiceConfig", .map [("Name", .str ""), ("Image", .str "nginx")])) := by
  rfl

theorem setField_same (k : String) (x : Val) :
    ∀ fs : List (String × Val), (∀ p ∈ fs, p.1 = k → p.2 = x) → setField k x fs = fs := by
  intro fs; induction fs with
  | nil => intro _; rfl
  | cons p r ih =>
    intro h
    have hr := ih (fun q hq => h q (List.mem_cons_of_mem _ hq))
    simp only [setField, List.map_cons] at hr ⊢
    rw [hr]
    by_cases hk : p.1 = k
    · have hx := h p (List.mem_cons_self ..) hk
      obtain ⟨a, b⟩ := p
      simp only at hk hx
      subst hk hx
      simp
    · simp [hk]

/-- the first conjunct of `Stable` for a service: `MarshalYAML` leaves a service without name alone (JSON has no marshaller) -/
theorem custom_ServiceConfig_unnamed (fmt : Fmt) (fs : List (String × Val)) (h : ∀ p ∈ fs, p.1 = "Name" → p.2 = .str "") :
    custom fmt "ServiceConfig" (.map fs) = none ∨ custom fmt "ServiceConfig" (.map fs) = some (.inr ("ServiceConfig", .map fs)) := by
  cases fmt with
  | json => exact Or.inl rfl
  | yaml =>
    refine Or.inr ?_
    show some (Sum.inr ("ServiceConfig", Val.map (setField "Name" (.str "") fs))) = _
    rw [setField_same "Name" (.str "") fs h]

/-- `BuildConfig`, `ServiceConfig` and the services mapping are in scope, both renderings, once `env_file` / `ssh` are
    admitted as value-less leaves (JSON skips `ServiceConfig.Name` — `json:"-"` — which `plainB` admits as "left out") -/
theorem plain_service_and_build :
    ([Fmt.yaml, Fmt.json].all fun fmt =>
      GenericF.plainB genEnv fmt leavesNoEnvSSH.names 16 (.named "BuildConfig") &&
      GenericF.plainB genEnv fmt leavesNoEnvSSH.names 16 (.named "ServiceConfig") &&
      GenericF.plainB genEnv fmt leavesNoEnvSSH.names 17 (.named "Services")) = true := by
  decide

theorem plain_service_and_build_fmt (fmt : Fmt) :
    GenericF.plainB genEnv fmt leavesNoEnvSSH.names 16 (.named "BuildConfig") = true ∧
    GenericF.plainB genEnv fmt leavesNoEnvSSH.names 16 (.named "ServiceConfig") = true ∧
    GenericF.plainB genEnv fmt leavesNoEnvSSH.names 17 (.named "Services") = true := by
  have h := plain_service_and_build
  simp only [List.all_cons, List.all_nil, Bool.and_true, Bool.and_eq_true] at h
  cases fmt
  · exact ⟨h.1.1.1, h.1.1.2, h.1.2⟩
  · exact ⟨h.2.1.1, h.2.1.2, h.2.2⟩

/-- **a build section reloads to itself**, both renderings — `_partial`: no `ssh` keys (they need `transform.Canonical`) -/
theorem roundtrip_BuildConfig_partial (fmt : Fmt) (v : Val)
    (hs : GenericF.Stable genEnv fmt leavesNoEnvSSH 16 (.named "BuildConfig") v) :
    ∃ t, encode genEnv fmt 16 (.named "BuildConfig") v = .ok t ∧ decode genEnv 16 (.named "BuildConfig") t = .ok v :=
  generic_roundtrip_fmt genEnv fmt leavesNoEnvSSH (leavesNoEnvSSH_sound genEnv leafEnv_gen fmt) 16 _ v
    (plain_service_and_build_fmt fmt).1 hs

/-- **a service reloads to itself** through either rendering and `loader.Transform` — `_partial`: a service as the
    decoder produces it (name not yet filled in from the key), without `env_file` and `build.ssh`; the full statement fails
    on `envfile_short_form_needs_canonical` / `service_name_cleared`; the stages that repair both are decided by the oracle -/
theorem roundtrip_ServiceConfig_partial (fmt : Fmt) (v : Val)
    (hs : GenericF.Stable genEnv fmt leavesNoEnvSSH 16 (.named "ServiceConfig") v) :
    ∃ t, encode genEnv fmt 16 (.named "ServiceConfig") v = .ok t ∧ decode genEnv 16 (.named "ServiceConfig") t = .ok v :=
  generic_roundtrip_fmt genEnv fmt leavesNoEnvSSH (leavesNoEnvSSH_sound genEnv leafEnv_gen fmt) 16 _ v
    (plain_service_and_build_fmt fmt).2.1 hs

/-- … and so does the whole `services` mapping -/
theorem roundtrip_Services_partial (fmt : Fmt) (v : Val)
    (hs : GenericF.Stable genEnv fmt leavesNoEnvSSH 17 (.named "Services") v) :
    ∃ t, encode genEnv fmt 17 (.named "Services") v = .ok t ∧ decode genEnv 17 (.named "Services") t = .ok v :=
  generic_roundtrip_fmt genEnv fmt leavesNoEnvSSH (leavesNoEnvSSH_sound genEnv leafEnv_gen fmt) 17 _ v
    (plain_service_and_build_fmt fmt).2.2 hs

/-- the harness classifier (`Model/RoundTripScope.lean`, op `c09.rt`) measures the scope of exactly these leaves -/
theorem classifier_leaves_match :
    RoundTripScope.leafNames = leavesNoEnvSSH.names ∧ RoundTripScope.leafDepth = leavesNoEnvSSH.depth := by
  decide

/-! ## non-vacuity: a service with an image, a command and an explicitly empty entrypoint -/

def svcVals (fd : FieldDesc) : Val :=
  if fd.goName = "Image" then .str "nginx" else if fd.goName = "Command" then .seq [.str "nginx", .str "-g"]
  else if fd.goName = "Entrypoint" then .seq [] else zeroVal genEnv 15 fd.ty

def svcSpecial (fd : FieldDesc) : Bool := fd.goName == "Image" || fd.goName == "Command" || fd.goName == "Entrypoint"

def isEmptyStr : Val → Bool
  | .str s => s == ""
  | _ => false

theorem isEmptyStr_eq {v : Val} (h : isEmptyStr v = true) : v = .str "" := by
  cases v <;> simp_all [isEmptyStr]

def minimalService : Val := .map ((Gen.struct_ServiceConfig.fields.filter rendered).map fun fd => (fd.goName, svcVals fd))

theorem svcVals_plain (fd : FieldDesc) (h : svcSpecial fd = false) : svcVals fd = zeroVal genEnv 15 fd.ty := by
  simp only [svcSpecial, Bool.or_eq_false_iff, beq_eq_false_iff_ne, ne_eq] at h
  simp [svcVals, h.1.1, h.1.2, h.2]

theorem minimalService_stable : GenericF.Stable genEnv .yaml leavesNoEnvSSH 16 (.named "ServiceConfig") minimalService := by
  have hfs : findStruct genEnv.structs "ServiceConfig" = some Gen.struct_ServiceConfig := by decide
  have hl : leavesNoEnvSSH.names.contains "ServiceConfig" = false := by decide
  have key1 : (Gen.struct_ServiceConfig.fields.all fun fd =>
      !rendered fd || fd.yamlInline || svcSpecial fd || omittedF genEnv .yaml fd (svcVals fd)) = true := by decide
  have key2 : (Gen.struct_ServiceConfig.fields.all fun fd => !fd.yamlInline || isNull (svcVals fd)) = true := by decide
  have key3 : (Gen.struct_ServiceConfig.fields.all fun fd => !svcSpecial fd ||
      (!fd.yamlInline && !omittedF genEnv .yaml fd (svcVals fd) &&
        ((fd.goName == "Image" && fd.ty == .prim "string") || (fd.goName != "Image" && fd.ty == .named "ShellCommand")))) = true := by
    decide
  have key4 : (Gen.struct_ServiceConfig.fields.all fun fd => fd.goName != "Name" || isEmptyStr (svcVals fd)) = true := by decide
  simp only [List.all_eq_true] at key1 key2 key3 key4
  simp only [GenericF.Stable, hl, hfs, Bool.false_eq_true, if_false]
  refine ⟨?_, svcVals, rfl, ?_⟩
  · refine custom_ServiceConfig_unnamed .yaml _ ?_
    intro p hp hk
    simp only [List.mem_map, List.mem_filter] at hp
    obtain ⟨fd, ⟨hm, _⟩, rfl⟩ := hp
    simp only at hk ⊢
    have := key4 fd hm
    simp only [hk, bne_self_eq_false, Bool.false_or] at this
    exact isEmptyStr_eq this
  · intro fd hm hr
    by_cases hi : fd.yamlInline = true
    · have h2 := key2 fd hm
      simp only [hi, Bool.not_true, Bool.false_or] at h2
      exact ⟨fun _ => isNull_eq h2, fun h => by simp [hi] at h, fun h => by simp [hi] at h⟩
    · have hi' : fd.yamlInline = false := by simpa using hi
      refine ⟨fun h => by simp [hi'] at h, ?_, ?_⟩
      · intro _ hom
        by_cases hsp : svcSpecial fd = true
        · have h3 := key3 fd hm
          simp only [hsp, Bool.not_true, Bool.false_or, Bool.and_eq_true, Bool.not_eq_true'] at h3
          rw [h3.1.2] at hom; cases hom
        · exact svcVals_plain fd (by simpa using hsp)
      · intro _ hom
        by_cases hsp : svcSpecial fd = true
        · have h3 := key3 fd hm
          simp only [hsp, Bool.not_true, Bool.false_or, Bool.and_eq_true, Bool.not_eq_true', Bool.or_eq_true, beq_iff_eq,
            bne_iff_ne, ne_eq] at h3
          rcases h3.2 with ⟨hn, ht⟩ | ⟨hn, ht⟩
          · rw [ht]
            simp [GenericF.Stable, svcVals, hn, isScalar]
          · rw [ht]
            have hl2 : leavesNoEnvSSH.names.contains "ShellCommand" = true := by decide
            simp only [GenericF.Stable, hl2, if_true]
            simp only [svcSpecial, Bool.or_eq_true, beq_iff_eq] at hsp
            rcases hsp with (h | h) | h
            · exact absurd h hn
            · refine ⟨by decide, ?_, by simp [svcVals, h]⟩
              simp [leavesNoEnvSSH, leafOK, IsStrList, svcVals, h, allStr]
            · refine ⟨by decide, ?_, by simp [svcVals, h]⟩
              simp [leavesNoEnvSSH, leafOK, IsStrList, svcVals, h, allStr]
        · have h1 := key1 fd hm
          simp only [hr, hi', Bool.not_true, Bool.false_or, (by simpa using hsp : svcSpecial fd = false)] at h1
          rw [h1] at hom; cases hom

/-- the theorem applies: the minimal service reloads to itself -/
example : ∃ t, encode genEnv .yaml 16 (.named "ServiceConfig") minimalService = .ok t ∧
    decode genEnv 16 (.named "ServiceConfig") t = .ok minimalService :=
  roundtrip_ServiceConfig_partial .yaml minimalService minimalService_stable

end CV.C09
