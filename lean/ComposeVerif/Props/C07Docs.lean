import ComposeVerif.Props.C07Sites
import ComposeVerif.Model.TemplateDocs
/-!
# C07 — no lookup state is carried from one document of a load to the next (round 6)

`Props/C07Sites.lean` fixes the environment of *one* value given the include entries that enclose it.  The walk over
all documents of a load threads a heap of `interp.Options` cells (`Model/TemplateDocs.lean`); the theorems here say
that the threading is invisible: every value of every document — before, inside, after and between include entries and
`extends`, at any nesting depth — is interpolated in the environment of *its own* enclosing entries (`specDocs`),
and a walk never modifies a cell that existed before it started (frame property).  Seed C07-8 (`ApplyInclude` writing
`LookupValue` through the cloned pointer) is the variant `walkDocsShared`, refuted in `Neg/C07.lean`.
-/
namespace CV.Template.Docs
open CV.Template CV.Template.Sites

/-- the code that allocates, copies and writes `interp.Options` cells is the code the heap model was written against:
    `Options.clone` copies the pointer (`Interpolate: o.Interpolate`), `extends` and `ApplyInclude` walk with a clone,
    `toOptions` allocates the project's cell, and the **only** assignment to or through `Interpolate` in package loader
    is `ApplyInclude`'s allocation of a fresh cell (`Heap.alloc`) — no write through an existing pointer (`Heap.write`) -/
theorem options_cells_are_modelled :
    Gen.c07_interpolate_cells =
      ["extends.go: call opts.clone()",
       "include.go: call options.clone()",
       "include.go: loadOptions.Interpolate = &interp.Options{ Substitute: options.Interpolate.Substitute, LookupValue: config.LookupEnv, TypeCastMapping: options.Interpolate.TypeCastMapping, }",
       "loader.go: field Interpolate: o.Interpolate",
       "loader.go: field Interpolate: &interp.Options{ Substitute: template.Substitute, LookupValue: configDetails.LookupEnv, TypeCastMapping: interpolateTypeCastMapping, }"] := rfl

/-- what a walk guarantees about the heap and its outputs -/
structure WalkOK (h : Heap) (env : GoMap) (r : Heap × List Out) (spec : List Out) : Prop where
  out : r.2 = spec
  mono : h.next ≤ r.1.next
  frame : ∀ i, i < h.next → r.1.cell i = h.cell i

theorem alloc_cell_new (h : Heap) (m : GoMap) : (h.alloc m).cell h.next = m := by
  simp [Heap.alloc]

theorem alloc_cell_old (h : Heap) (m : GoMap) (i : Nat) (hi : i < h.next) : (h.alloc m).cell i = h.cell i := by
  have : i ≠ h.next := Nat.ne_of_lt hi
  simp [Heap.alloc, this]

mutual
theorem walkDoc_ok : (d : Doc) → (h : Heap) → (p : Nat) → (env : GoMap) → p < h.next → h.cell p = env →
    WalkOK h env (walkDoc h p env d) (specDoc env d)
  | .value s, h, p, env, _, hc => by
    refine ⟨?_, Nat.le_refl _, fun _ _ => rfl⟩
    simp [walkDoc, specDoc, hc]
  | .incl f ds, h, p, env, _, _ => by
    have ih := walkDocs_ok ds (h.alloc (includeEnv env f)) h.next (includeEnv env f)
      (by simp [Heap.alloc]) (alloc_cell_new h _)
    refine ⟨?_, ?_, ?_⟩
    · simpa [walkDoc, specDoc] using ih.out
    · have := ih.mono
      simp only [walkDoc]
      simp only [Heap.alloc] at this ⊢
      omega
    · intro i hi
      simp only [walkDoc]
      rw [ih.frame i (by simp only [Heap.alloc]; omega)]
      exact alloc_cell_old h _ i hi
  | .ext ds, h, p, env, hp, hc => by
    have ih := walkDocs_ok ds h p env hp hc
    exact ⟨by simpa [walkDoc, specDoc] using ih.out, by simpa [walkDoc] using ih.mono,
      fun i hi => by simpa [walkDoc] using ih.frame i hi⟩
theorem walkDocs_ok : (ds : List Doc) → (h : Heap) → (p : Nat) → (env : GoMap) → p < h.next → h.cell p = env →
    WalkOK h env (walkDocs h p env ds) (specDocs env ds)
  | [], h, _, _, _, _ => ⟨by simp [walkDocs, specDocs], Nat.le_refl _, fun _ _ => rfl⟩
  | d :: ds, h, p, env, hp, hc => by
    have i1 := walkDoc_ok d h p env hp hc
    have hp' : p < (walkDoc h p env d).1.next := Nat.lt_of_lt_of_le hp i1.mono
    have hc' : (walkDoc h p env d).1.cell p = env := by rw [i1.frame p hp]; exact hc
    have i2 := walkDocs_ok ds (walkDoc h p env d).1 p env hp' hc'
    refine ⟨?_, ?_, ?_⟩
    · simp only [walkDocs, specDocs]
      rw [i1.out, i2.out]
    · simp only [walkDocs]
      exact Nat.le_trans i1.mono i2.mono
    · intro i hi
      simp only [walkDocs]
      rw [i2.frame i (Nat.lt_of_lt_of_le hi i1.mono), i1.frame i hi]
end

/-- **statelessness of a load**: the values of the documents of a whole load, in order, are the ones of the
    specification in which every value only sees the env files of the include entries that enclose it -/
theorem load_is_stateless (env : GoMap) (ds : List Doc) : loadValues env ds = specDocs env ds :=
  (walkDocs_ok ds (Heap.init env) 0 env (by simp [Heap.init]) rfl).out

/-- the project's own `interp.Options` cell is never written during a load (frame property) -/
theorem load_keeps_project_lookup (env : GoMap) (ds : List Doc) :
    (walkDocs (Heap.init env) 0 env ds).1.cell 0 = env :=
  (walkDocs_ok ds (Heap.init env) 0 env (by simp [Heap.init]) rfl).frame 0 (by simp [Heap.init])

theorem specDocs_append (env : GoMap) (a b : List Doc) : specDocs env (a ++ b) = specDocs env a ++ specDocs env b := by
  induction a with
  | nil => simp [specDocs]
  | cons d ds ih => simp [specDocs, ih, List.append_assoc]

/-- a value that follows any documents (include entries with any env files, to any depth) in the parent is interpolated
    in the parent's environment: the values before it are what they are, the value itself is `Substitute` under the
    project environment -/
theorem value_after_includes (env : GoMap) (before : List Doc) (s : Str) :
    loadValues env (before ++ [.value s]) = specDocs env before ++ [subst (lookupEnv env) s] := by
  rw [load_is_stateless, specDocs_append]
  simp [specDocs, specDoc]

/-- … and for a template of the grammar it is the grammar's meaning in the project environment, whatever the
    env files of the include entries processed before it set -/
theorem value_after_includes_render (env : GoMap) (before : List Doc) (t : List Seg) (h : WF t = true) :
    loadValues env (before ++ [.value (renderL t)]) = specDocs env before ++ [evalOut (lookupEnv env) t] := by
  rw [value_after_includes, subst_render _ _ h]

/-- the same one level down: a later document of an include entry sees the entry's env file, not the env file of an
    include entry nested before it -/
theorem value_after_nested_include (env f : GoMap) (before : List Doc) (t : List Seg) (h : WF t = true) :
    loadValues env [.incl f (before ++ [.value (renderL t)])]
      = specDocs (includeEnv env f) before ++ [evalOut (lookupEnv (includeEnv env f)) t] := by
  rw [load_is_stateless]
  simp [specDocs, specDoc, specDocs_append, subst_render _ _ h]

/-- the value of an included document is the call-site model of `Props/C07Sites.lean` (so `site_render` etc. apply) -/
theorem value_in_include_is_site (env f : GoMap) (s : Str) :
    loadValues env [.incl f [.value s]] = [siteSubst env [f] s] := by
  rw [load_is_stateless]
  simp [specDocs, specDoc, siteSubst, includeChain]

/-- non-vacuity: an include that sets `A`, then `$A` in the parent where `A` is unset — the empty string -/
example : loadValues [] [.incl [(['A'], ['w'])] [.value ['$', 'A']], .value ['$', 'A']] = [.ok ['w'], .ok []] := by
  decide

/-! ### Composition with the call-site refinement, prefix property, no panic -/

/-- include entries nested inside each other, outermost first, around the documents `ds` -/
def nest : List GoMap → List Doc → List Doc
  | [], ds => ds
  | f :: fs, ds => [.incl f (nest fs ds)]

theorem specDocs_nest (env : GoMap) (files : List GoMap) (ds : List Doc) :
    specDocs env (nest files ds) = specDocs (includeChain env files) ds := by
  induction files generalizing env with
  | nil => rfl
  | cons f fs ih => simp [nest, specDocs, specDoc, includeChain, ih]

/-- **the walk composed with the call-site refinement**: a `WF` template in a document that sits inside include
    entries nested to any depth (env files `files`, outermost first) and *after* any other documents `before` of the
    innermost entry (which may apply further include entries with env files of their own) means what the grammar says in
    the layered environment of the enclosing entries — the first layer that sets a variable wins, and nothing that
    `before` set is visible -/
theorem nested_value_after_includes_render (env : GoMap) (files : List GoMap) (before : List Doc) (t : List Seg)
    (h : WF t = true) :
    loadValues env (nest files (before ++ [.value (renderL t)]))
      = specDocs (includeChain env files) before ++ [evalOut (layered (env :: files)) t] := by
  rw [load_is_stateless, specDocs_nest, specDocs_append]
  simp [specDocs, specDoc, subst_render _ _ h, include_lookup_is_layered]

/-- the outputs of `before` do not depend on what follows them either (prefix property of the walk) -/
theorem load_prefix (env : GoMap) (a b : List Doc) :
    loadValues env (a ++ b) = loadValues env a ++ loadValues env b := by
  rw [load_is_stateless, load_is_stateless, load_is_stateless, specDocs_append]

mutual
theorem specDoc_no_panic : (d : Doc) → (env : GoMap) → (p : PanicSite) → Out.panic p ∉ specDoc env d
  | .value s, env, p => by
    simp only [specDoc, List.mem_singleton]
    exact fun h => subst_never_panics _ s p h.symm
  | .incl f ds, env, p => by simpa [specDoc] using specDocs_no_panic ds (includeEnv env f) p
  | .ext ds, env, p => by simpa [specDoc] using specDocs_no_panic ds env p
theorem specDocs_no_panic : (ds : List Doc) → (env : GoMap) → (p : PanicSite) → Out.panic p ∉ specDocs env ds
  | [], _, _ => by simp [specDocs]
  | d :: ds, env, p => by
    simp only [specDocs, List.mem_append, not_or]
    exact ⟨specDoc_no_panic d env p, specDocs_no_panic ds env p⟩
end

/-- no value of any document of a load is a panic of `Substitute`, whatever the tree, the env files and the strings -/
theorem load_never_panics (env : GoMap) (ds : List Doc) (p : PanicSite) : Out.panic p ∉ loadValues env ds := by
  rw [load_is_stateless]; exact specDocs_no_panic ds env p

/-- non-vacuity of `nested_value_after_includes_render`: two nested entries, an inner include applied before the value -/
example : loadValues [(['B'], ['b'])] (nest [[(['A'], ['1'])], [(['A'], ['2']), (['C'], ['c'])]]
      ([.incl [(['D'], ['d'])] []] ++ [.value (renderL [.var ['A'] true, .var ['C'] false, .op ['D'] .dash [.var ['B'] true]])]))
    = [.ok ['1', 'c', 'b']] := by decide

end CV.Template.Docs
