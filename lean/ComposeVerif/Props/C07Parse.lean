import ComposeVerif.Props.C07
import ComposeVerif.Model.TemplateParse
/-!
# C07 — the refinement theorem as a statement about *strings* (round 5)

`subst_render` quantifies over ASTs.  With the checked parser `parse?` (Model/TemplateParse.lean) the grammar is a
decidable set of strings and the statement becomes: **for every string the grammar derives (unambiguously), and every
variable mapping, `Substitute` returns what the grammar says** — value or empty string for `$VAR` / `${VAR}`, the
operator table with recursively interpolated arguments, `$` for `$$`, literal text verbatim, values never expanded
again, first error in left-to-right order.  The harness evaluates `parse?` on every string of the exhaustive small
scope (and on every generated rendering) and compares the real `template.Substitute` with `evalOut` whenever it
accepts; the share of accepted strings is part of the evidence.
-/
namespace CV.Template

/-- the parser is sound by construction: what it returns is a well-formed AST whose concrete syntax is the text -/
theorem parse_sound (s : Str) (t : List Seg) (h : parse? s = some t) : renderL t = s ∧ WF t = true := by
  unfold parse? at h
  split at h
  · split at h
    · next hc => cases h; exact hc
    · cases h
  · cases h

/-- **the property over strings**: on every string of the grammar `Substitute` computes the grammar's meaning -/
theorem subst_parsed (env : Env) (s : Str) (t : List Seg) (h : parse? s = some t) :
    subst env s = evalOut env t := by
  obtain ⟨hr, hw⟩ := parse_sound s t h
  rw [← hr]; exact subst_render env t hw

/-- two parses of the same text (there is at most one, but the statement does not need it) mean the same: the meaning
    of an accepted string does not depend on the AST chosen for it -/
theorem parsed_meaning_unique (env : Env) (t t' : List Seg) (h : WF t = true) (h' : WF t' = true)
    (hr : renderL t = renderL t') : evalOut env t = evalOut env t' := by
  rw [← subst_render env t h, ← subst_render env t' h', hr]

/-- an accepted string never fails for a reason other than the grammar's own errors: no panic -/
theorem parsed_never_panics (env : Env) (s : Str) (t : List Seg) (h : parse? s = some t) (p : PanicSite) :
    evalOut env t ≠ .panic p := by
  rw [← subst_parsed env s t h]; exact subst_never_panics env s p

/-- every rendering of a well-formed AST that the parser accepts is accepted *with the AST's meaning* (whatever AST the
    parser rebuilt: literals may be split differently) -/
theorem parse_render_meaning (env : Env) (t t' : List Seg) (h : WF t = true) (hp : parse? (renderL t) = some t') :
    evalOut env t' = evalOut env t := by
  rw [← subst_parsed env _ t' hp, subst_render env t h]

/-! non-vacuity: the parser accepts a JSON-like default followed by text and another substitution, nested operators
    with an escape, … -/
example : (parse? ['$', '{', 'A', ':', '-', '{', '}', '}', ' ', '$', '{', 'B', '}']).isSome = true := by decide
example : (parse? ['a', '$', '$', '$', '{', 'A', ':', '?', '$', '{', 'B', '-', 'x', '}', 'y', '}', '$', 'C', '-']).isSome = true := by
  decide
/-- … and rejects what the grammar does not derive unambiguously: an unbalanced brace in a default, an empty name, a
    lone `$`, a newline inside an argument -/
example : (parse? ['$', '{', 'A', ':', '-', '{', '}', ' ', '$', '{', 'B', '}']).isSome = false ∧
    (parse? ['$', '{', '}']).isSome = false ∧ (parse? ['a', '$', ' ']).isSome = false ∧
    (parse? ['$', '{', 'A', '-', '\n', '}']).isSome = false := by decide
/-- the string-level theorem applied: `${A-d}` with `A` set to the empty string is empty, with `A` unset it is `d` -/
example : subst (fun k => if k = ['A'] then some [] else none) ['$', '{', 'A', '-', 'd', '}'] = .ok [] ∧
    subst (fun _ => none) ['$', '{', 'A', '-', 'd', '}'] = .ok ['d'] := by
  have h : parse? ['$', '{', 'A', '-', 'd', '}'] = some [.op ['A'] .dash [.lit ['d']]] := by rfl
  exact ⟨by rw [subst_parsed _ _ _ h]; rfl, by rw [subst_parsed _ _ _ h]; rfl⟩

end CV.Template
