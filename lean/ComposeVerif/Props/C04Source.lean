import ComposeVerif.Gen.C04Source
/-!
# C04 — the modelled functions are the source (regenerated source facts)

`translator/c04.go` prints, on every run, the body (comments stripped, white space normalised) of every Go function the
C04 models mirror.  The theorems below pin those texts: **any edit to a modelled function breaks an obligation here**,
whether or not a generated input tells the two versions apart (e.g. an aliasing slip such as storing one shared default
mapping in `convertIntoMapping`, which the value-typed model cannot see).  After an intended change of the code, the
model is re-read against the new body and the pinned text updated in the same commit.
-/
namespace CV.C04
open CV.Gen

/-- override/merge.go and override/extends.go: the list of functions and the body of every function `Model/Merge.lean` mirrors (`mergeYaml` ↦ `mergeStep`/`defaultStep`/`specialStep`, `mergeMappings` ↦ `mergeKVsWith`, `convertIntoSequence` ↦ `intoSeq`, `convertIntoMapping` ↦ `intoMap`/`listIntoMap`, `mergeIPAMConfig`/`ipamPools` ↦ `ipamStep`/`ipamFold`/`ipamPools`, …) -/
theorem merge_go_is_modelled_source :
    c04_functions_merge =
      ["Merge", "init", "mergeYaml", "mergeMappings", "mergeLogging", "sameScalar", "mergeBuild", "mergeDependsOn", "mergeNetworks", "mergeExtraHosts", "mergeToSequence", "convertIntoSequence", "mergeUlimit", "mergeIPAMConfig", "ipamPools", "convertIntoMapping", "copyMap", "override"] ∧
    c04_body_Merge =
      "{ merged, err := mergeYaml(right, left, tree.NewPath()) if err != nil { return nil, err } return merged.(map[string]any), nil }" ∧
    c04_body_mergeYaml =
      "{ for pattern, merger := range mergeSpecials { if p.Matches(pattern) { merged, err := merger(e, o, p) if err != nil { return nil, err } return merged, nil } } if o == nil { return e, nil } switch value := e.(type) { case map[string]any: other, ok := o.(map[string]any) if !ok { return nil, fmt.Errorf(\"cannot override %s\", p) } return mergeMappings(value, other, p) case []any: other, ok := o.([]any) if !ok { return nil, fmt.Errorf(\"cannot override %s\", p) } return append(value, other...), nil default: return o, nil } }" ∧
    c04_body_mergeMappings =
      "{ if mapping == nil { mapping = make(map[string]any, len(other)) } for k, v := range other { e, ok := mapping[k] if !ok || strings.HasPrefix(k, \"x-\") { mapping[k] = v continue } next := p.Next(k) merged, err := mergeYaml(e, v, next) if err != nil { return nil, err } mapping[k] = merged } return mapping, nil }" ∧
    c04_body_mergeLogging =
      "{ if c == nil { return o, nil } if o == nil { return c, nil } config, ok := c.(map[string]any) if !ok { return nil, fmt.Errorf(\"cannot override %s\", p) } other, ok := o.(map[string]any) if !ok { return nil, fmt.Errorf(\"cannot override %s\", p) } d, ok1 := other[\"driver\"] o, ok2 := config[\"driver\"] if sameScalar(d, o) || !ok1 || !ok2 { return mergeMappings(config, other, p) } return other, nil }" ∧
    c04_body_sameScalar =
      "{ switch d.(type) { case map[string]any, []any: return false } switch o.(type) { case map[string]any, []any: return false } return d == o }" ∧
    c04_body_mergeBuild =
      "{ toBuild := func(c any) (map[string]any, error) { switch v := c.(type) { case nil: return map[string]any{}, nil case string: return map[string]any{ \"context\": v, }, nil case map[string]any: return v, nil } return nil, fmt.Errorf(\"cannot override %s\", path) } right, err := toBuild(c) if err != nil { return nil, err } left, err := toBuild(o) if err != nil { return nil, err } return mergeMappings(right, left, path) }" ∧
    c04_body_mergeDependsOn =
      "{ right, err := convertIntoMapping(c, map[string]any{ \"condition\": \"service_started\", \"required\": true, }, path) if err != nil { return nil, err } left, err := convertIntoMapping(o, map[string]any{ \"condition\": \"service_started\", \"required\": true, }, path) if err != nil { return nil, err } return mergeMappings(right, left, path) }" ∧
    c04_body_mergeNetworks =
      "{ right, err := convertIntoMapping(c, nil, path) if err != nil { return nil, err } left, err := convertIntoMapping(o, nil, path) if err != nil { return nil, err } return mergeMappings(right, left, path) }" ∧
    c04_body_mergeExtraHosts =
      "{ right := convertIntoSequence(c) left := convertIntoSequence(o) // keep only the elements of left that are not already in right; the override's own slice must not be // rewritten in place: the same override can be merged again (a service extended through another file // is resolved once per visit), and a compacted slice with a stale tail then yields duplicates var kept []any for _, v := range left { if !slices.ContainsFunc(right, func(r any) bool { return sameScalar(r, v) }) { kept = append(kept, v) } } return append(right, kept...), nil }" ∧
    c04_body_mergeToSequence =
      "{ right := convertIntoSequence(c) left := convertIntoSequence(o) return append(right, left...), nil }" ∧
    c04_body_convertIntoSequence =
      "{ switch v := value.(type) { case map[string]any: seq := make([]any, 0, len(v)) for k, val := range v { if val == nil { seq = append(seq, k) } else { switch vl := val.(type) { case []any: for _, vlv := range vl { seq = append(seq, fmt.Sprintf(\"%s=%v\", k, vlv)) } default: seq = append(seq, fmt.Sprintf(\"%s=%v\", k, val)) } } } slices.SortFunc(seq, func(a, b any) int { return cmp.Compare(a.(string), b.(string)) }) return seq case []any: return v case string: return []any{v} } return nil }" ∧
    c04_body_mergeUlimit =
      "{ over, ismapping := o.(map[string]any) if base, ok := o.(map[string]any); ok && ismapping { return mergeMappings(base, over, p) } return o, nil }" ∧
    c04_body_mergeIPAMConfig =
      "{ base, err := ipamPools(c, path) if err != nil { return nil, err } other, err := ipamPools(o, path) if err != nil { return nil, err } ipamConfigs := make([]any, 0, len(base)+len(other)) for _, pool := range base { ipamConfigs = append(ipamConfigs, pool) } for _, left := range other { index := slices.IndexFunc(ipamConfigs, func(a any) bool { return sameScalar(a.(map[string]any)[\"subnet\"], left[\"subnet\"]) }) if index < 0 { ipamConfigs = append(ipamConfigs, left) continue } merged, err := mergeMappings(ipamConfigs[index].(map[string]any), left, path) if err != nil { return nil, err } ipamConfigs[index] = merged } return ipamConfigs, nil }" ∧
    c04_body_ipamPools =
      "{ if v == nil { return nil, nil } seq, ok := v.([]any) if !ok { return nil, fmt.Errorf(\"cannot override %s\", path) } pools := make([]map[string]any, 0, len(seq)) for _, e := range seq { pool, err := convertIntoMapping(e, nil, path) if err != nil { return nil, err } pools = append(pools, pool) } return pools, nil }" ∧
    c04_body_convertIntoMapping =
      "{ switch v := a.(type) { case nil: return map[string]any{}, nil case map[string]any: return v, nil case []any: converted := map[string]any{} for _, s := range v { key, ok := s.(string) if !ok { return nil, fmt.Errorf(\"%s: unexpected type %T\", p, s) } if defaultValue == nil { converted[key] = nil } else { converted[key] = copyMap(defaultValue) } } return converted, nil } return nil, fmt.Errorf(\"cannot override %s\", p) }" ∧
    c04_body_copyMap =
      "{ c := make(map[string]any) for k, v := range m { c[k] = v } return c }" ∧
    c04_body_override =
      "{ return other, nil }" ∧
    c04_body_ExtendService =
      "{ yaml, err := mergeYaml(base, override, tree.NewPath(\"services.x\")) if err != nil { return nil, err } return yaml.(map[string]any), nil }" := by
  exact ⟨rfl, rfl, rfl, rfl, rfl, rfl, rfl, rfl, rfl, rfl, rfl, rfl, rfl, rfl, rfl, rfl, rfl, rfl, rfl⟩

/-- override/uncity.go: the list of functions and the body of `enforceUnicity` (↦ `Unicity.enforce`, `dedupKVs`) and of every indexer (↦ `Unicity.index`) -/
theorem uncity_go_is_modelled_source :
    c04_functions_uncity =
      ["init", "EnforceUnicity", "enforceUnicity", "keyValueIndexer", "volumeIndexer", "deviceMappingIndexer", "exposeIndexer", "mountIndexer", "portIndexer", "envFileIndexer"] ∧
    c04_body_EnforceUnicity =
      "{ uniq, err := enforceUnicity(value, tree.NewPath()) if err != nil { return nil, err } return uniq.(map[string]any), nil }" ∧
    c04_body_enforceUnicity =
      "{ switch v := value.(type) { case map[string]any: for k, e := range v { u, err := enforceUnicity(e, p.Next(k)) if err != nil { return nil, err } v[k] = u } return v, nil case []any: for pattern, indexer := range unique { if p.Matches(pattern) { seq := []any{} keys := map[string]int{} for i, entry := range v { key, err := indexer(entry, p.Next(fmt.Sprintf(\"[%d]\", i))) if err != nil { return nil, err } if j, ok := keys[key]; ok { seq[j] = entry } else { seq = append(seq, entry) keys[key] = len(seq) - 1 } } return seq, nil } } } return value, nil }" ∧
    c04_body_keyValueIndexer =
      "{ switch value := v.(type) { case string: key, _, found := strings.Cut(value, \"=\") if found { return key, nil } return value, nil default: return \"\", fmt.Errorf(\"%s: unexpected type %T\", p, v) } }" ∧
    c04_body_volumeIndexer =
      "{ switch value := y.(type) { case map[string]any: target, ok := value[\"target\"].(string) if !ok { return \"\", fmt.Errorf(\"service volume %s is missing a mount target\", p) } return target, nil case string: volume, err := format.ParseVolume(value) if err != nil { return \"\", err } return volume.Target, nil } return \"\", nil }" ∧
    c04_body_deviceMappingIndexer =
      "{ switch value := y.(type) { case map[string]any: target, ok := value[\"target\"].(string) if !ok { return \"\", fmt.Errorf(\"service device %s is missing a mount target\", p) } return target, nil case string: arr := strings.Split(value, \":\") if len(arr) == 1 { return arr[0], nil } return arr[1], nil } return \"\", nil }" ∧
    c04_body_exposeIndexer =
      "{ switch v := a.(type) { case string: return v, nil case int: return strconv.Itoa(v), nil default: return \"\", fmt.Errorf(\"%s: unsupported expose value %s\", path, a) } }" ∧
    c04_body_mountIndexer =
      "{ return func(a any, path tree.Path) (string, error) { switch v := a.(type) { case string: return fmt.Sprintf(\"%s/%s\", defaultPath, v), nil case map[string]any: t, ok := v[\"target\"] if ok { target, isString := t.(string) if !isString { return \"\", fmt.Errorf(\"%s: unexpected type %T\", path, t) } return target, nil } return fmt.Sprintf(\"%s/%s\", defaultPath, v[\"source\"]), nil default: return \"\", fmt.Errorf(\"%s: unsupported expose value %s\", path, a) } } }" ∧
    c04_body_portIndexer =
      "{ switch value := y.(type) { case int: return strconv.Itoa(value), nil case map[string]any: target, ok := value[\"target\"] if !ok { return \"\", fmt.Errorf(\"service ports %s is missing a target port\", p) } published, ok := value[\"published\"] if !ok { if pub, ok := value[\"published\"]; ok { published = fmt.Sprintf(\"%d\", pub) } } host, ok := value[\"host_ip\"] if !ok { host = \"0.0.0.0\" } protocol, ok := value[\"protocol\"] if !ok { protocol = \"tcp\" } return fmt.Sprintf(\"%s:%v:%v/%s\", host, published, target, protocol), nil case string: return value, nil } return \"\", nil }" ∧
    c04_body_envFileIndexer =
      "{ switch value := y.(type) { case string: return value, nil case map[string]any: if pathValue, ok := value[\"path\"]; ok { path, isString := pathValue.(string) if !isString { return \"\", fmt.Errorf(\"%s: unexpected type %T\", p, pathValue) } return path, nil } return \"\", fmt.Errorf(\"environment path attribute %s is missing\", p) } return \"\", nil }" := by
  exact ⟨rfl, rfl, rfl, rfl, rfl, rfl, rfl, rfl, rfl, rfl⟩

/-- loader/reset.go `resolveReset` / `Apply` / `applyNullOverrides` (↦ `Reset.resolve`, `Reset.applyNull`) and tree/path.go `Next` / `Parts` / `Matches` (↦ `Merge.next`, `TPath.pmatch`) -/
theorem reset_and_path_is_modelled_source :
    c04_body_resolveReset =
      "{ pathStr := path.String() if strings.Contains(pathStr, \".<<\") { path = tree.NewPath(strings.Replace(pathStr, \".<<\", \"\", 1)) } if p.active == nil { p.active = make(map[*yaml.Node]int) } if p.active[node] >= 2 { return nil, fmt.Errorf(\"cycle detected: node at path %s is nested inside itself\", path.String()) } p.active[node]++ defer func() { p.active[node]-- }() if node.Kind == yaml.AliasNode { if err := p.checkForCycle(node.Alias, path); err != nil { return nil, err } return p.resolveReset(node.Alias, path) } if node.Tag == \"!reset\" { p.paths = append(p.paths, path) return nil, nil } if node.Tag == \"!override\" { p.paths = append(p.paths, path) return node, nil } switch node.Kind { case yaml.SequenceNode: var nodes []*yaml.Node for idx, v := range node.Content { next := path.Next(strconv.Itoa(idx)) resolved, err := p.resolveReset(v, next) if err != nil { return nil, err } if resolved != nil { nodes = append(nodes, resolved) } } node.Content = nodes case yaml.MappingNode: var key string var nodes []*yaml.Node for idx, v := range node.Content { if idx%2 == 0 { key = v.Value } else { resolved, err := p.resolveReset(v, path.Next(key)) if err != nil { return nil, err } if resolved != nil { nodes = append(nodes, node.Content[idx-1], resolved) } } } node.Content = nodes } return node, nil }" ∧
    c04_body_Apply =
      "{ return p.applyNullOverrides(target, tree.NewPath()) }" ∧
    c04_body_applyNullOverrides =
      "{ switch v := target.(type) { case map[string]any: KEYS: for k, e := range v { next := path.Next(k) for _, pattern := range p.paths { if next.Matches(pattern) { delete(v, k) continue KEYS } } err := p.applyNullOverrides(e, next) if err != nil { return err } } case []any: ITER: for i, e := range v { next := path.Next(fmt.Sprintf(\"[%d]\", i)) for _, pattern := range p.paths { if next.Matches(pattern) { continue ITER } } err := p.applyNullOverrides(e, next) if err != nil { return err } } } return nil }" ∧
    c04_body_Next =
      "{ if p == \"\" { return Path(part) } part = strings.ReplaceAll(part, pathSeparator, \"👻\") return Path(string(p) + pathSeparator + part) }" ∧
    c04_body_Parts =
      "{ return strings.Split(string(p), pathSeparator) }" ∧
    c04_body_Matches =
      "{ patternParts := pattern.Parts() parts := p.Parts() if len(patternParts) != len(parts) { return false } for index, part := range parts { switch patternParts[index] { case PathMatchAll, part: continue default: return false } } return true }" := by
  exact ⟨rfl, rfl, rfl, rfl, rfl, rfl⟩

/-- loader/loader.go `loadYamlFile`: the per-document decode loop (a fresh `ResetProcessor` per `---` document ↦ `Reset.loadDocs`/`docStep`; seeded changes C04-2 / C04-3 hoist it out of the loop) and the order of the stages in `processRawYaml` (`Apply` before `Merge` before `EnforceUnicity` … `Canonical`, `OmitEmpty`, `EnforceUnicity` again); loader/omitEmpty.go `omitEmpty` (empty sequence stays non-nil) -/
theorem document_loop_is_modelled_source :
    c04_body_omitEmpty =
      "{ switch v := data.(type) { case map[string]any: for k, e := range v { if isEmpty(e) && mustOmit(p) { delete(v, k) continue } v[k] = omitEmpty(e, p.Next(k)) } return v case []any: c := make([]any, 0, len(v)) for _, e := range v { if isEmpty(e) && mustOmit(p) { continue } c = append(c, omitEmpty(e, p.Next(\"[]\"))) } return c default: return data } }" ∧
    c04_decodeLoop =
      "for { var raw interface{} reset := &ResetProcessor{target: &raw} err := decoder.Decode(reset) if err != nil && errors.Is(err, io.EOF) { break } if err != nil { return nil, nil, err } processor = reset if err := processRawYaml(raw, processor); err != nil { return nil, nil, err } }" ∧
    c04_stageCalls =
      ["convertToStringKeysRecursive", "interp.Interpolate", "fixEmptyNotNull", "ApplyExtends", "processor.Apply", "ApplyInclude", "override.Merge", "override.EnforceUnicity", "schema.Validate", "opts.warnObsoleteVersion", "transform.Canonical", "OmitEmpty", "override.EnforceUnicity"] := by
  exact ⟨rfl, rfl, rfl⟩

end CV.C04
