import ComposeVerif.Model.EnvLayersUnicity
/-!
# C16 — `override.EnforceUnicity` on the file lists of a whole load (round 7)

`uniqBy` (the loop of `enforceUnicity`, `Model/EnvLayersUnicity.lean`) is the identity on a list whose keys are pairwise
distinct — so every theorem about a whole load stated for the list handed to the Project methods speaks about the list
*as written* whenever no path is repeated — and on `[a, b, a']` with `key a = key a'` it keeps the first position and
the last entry (the shape of the recorded finding `repeated-path-first-position:env_file`, `Neg/C16Repeat.lean`).
-/
namespace CV.EnvLayers

theorem foldl_uniqStep_distinct {α : Type} (key : α → Str) :
    ∀ (l acc : List α), (∀ y, y ∈ acc → ∀ x, x ∈ l → key y ≠ key x) → (l.map key).Pairwise (· ≠ ·) →
      l.foldl (uniqStep key) acc = acc ++ l
  | [], acc, _, _ => by simp
  | x :: l, acc, h1, h2 => by
    have hx : acc.any (fun y => key y == key x) = false := by
      rw [List.any_eq_false]
      intro y hy
      have := h1 y hy x (by simp)
      simpa using this
    have h2' := List.pairwise_cons.mp h2
    have hstep : uniqStep key acc x = acc ++ [x] := by simp [uniqStep, hx]
    rw [List.foldl_cons, hstep, foldl_uniqStep_distinct key l (acc ++ [x]) ?_ h2'.2]
    · simp
    · intro y hy z hz
      rcases List.mem_append.mp hy with hy | hy
      · exact h1 y hy z (List.mem_cons_of_mem _ hz)
      · have : y = x := by simpa using hy
        subst this
        exact h2'.1 (key z) (List.mem_map.mpr ⟨z, hz, rfl⟩)

/-- a list without a repeated key passes `enforceUnicity` unchanged -/
theorem uniqBy_distinct {α : Type} (key : α → Str) (l : List α) (h : (l.map key).Pairwise (· ≠ ·)) :
    uniqBy key l = l := by
  have := foldl_uniqStep_distinct key l [] (by intro y hy; cases hy) h
  simpa [uniqBy] using this

/-- a service whose env_file paths are pairwise distinct reaches the Project methods as written -/
theorem enforceUnicityFiles_distinct (s : Service) (h : (s.envFiles.map (·.path)).Pairwise (· ≠ ·)) :
    enforceUnicityFiles (·.path) s = s := by
  simp [enforceUnicityFiles, uniqBy_distinct _ _ h]

/-- label_file lists are never touched, repeated paths included (no `label_file` row in `override.unique`) -/
theorem enforceUnicityFiles_keeps_label_files (ukey : EnvFile → Str) (s : Service) :
    (enforceUnicityFiles ukey s).labelFiles = s.labelFiles ∧ (enforceUnicityFiles ukey s).labels = s.labels ∧
    (enforceUnicityFiles ukey s).environment = s.environment := ⟨rfl, rfl, rfl⟩

/-- **first position, last entry**: `[a, b, a']` with the key of `a` again at `a'` and another key at `b` becomes `[a', b]` -/
theorem uniqBy_repeated {α : Type} (key : α → Str) (a b a' : α) (hab : key a ≠ key b) (haa : key a = key a') :
    uniqBy key [a, b, a'] = [a', b] := by
  have h1 : ¬ key a' = key b := fun h => hab (haa.trans h)
  have h2 : ¬ key b = key a' := fun h => h1 h.symm
  simp [uniqBy, uniqStep, haa, h1, h2]

example : uniqBy (fun (f : EnvFile) => f.path) [⟨['a'], true, []⟩, ⟨['b'], true, []⟩, ⟨['a'], false, []⟩] =
    [⟨['a'], false, []⟩, ⟨['b'], true, []⟩] := by decide

end CV.EnvLayers
