import ComposeVerif.Lemmas.Schema
import ComposeVerif.Gen.Schema
/-!
# C01 (extension) — what the post-schema stages can be handed

`kindsAt_sound`: in any document accepted by the (regenerated) compose schema, every value found at an
attribute path has one of the JSON types `kindsAt` computes from the schema.  The instances below are
re-decided on every run against `schema/compose-spec.json` as it is now: they are the facts the unchecked
type assertions of `loader.Normalize` rely on — and the one they cannot rely on (`pid` may be null).
-/
namespace CV.Schema
open CV CV.Gen

/-- for ALL documents and ALL paths: schema acceptance bounds the node kinds at the path -/
theorem kindsAt_sound (s : S) (v : Val) (path : List String) (c : Val)
    (hconf : conforms s v = true) (hc : c ∈ descendants [v] (path.map stepOfPart)) :
    ∃ t ∈ kindsAt s path, tyOk t c = true := by
  obtain ⟨s', hm, hc'⟩ := schemasAtPath_sound (path.map stepOfPart) [s] [v]
    (by intro v' hv'; simp only [List.mem_singleton] at hv'; subst hv'; exact ⟨s, List.mem_singleton.mpr rfl, hconf⟩) c hc
  obtain ⟨t, ht, hok⟩ := tysOf_sound s' c hc'
  refine ⟨t, ?_, hok⟩
  simp only [kindsAt, List.mem_eraseDups, List.mem_flatMap]
  exact ⟨s', hm, ht⟩

/-- non-vacuity: a small document that the regenerated schema accepts, with a value at the path -/
example : conforms composeSchema (.map [("services", .map [("a", .map [("image", .str "x"), ("pid", .null)])])]) = true
    ∧ (descendants [Val.map [("services", .map [("a", .map [("image", .str "x"), ("pid", .null)])])]]
        (["services", "*", "pid"].map stepOfPart)).length = 1 := by
  decide +kernel

/-- the schema has no node the translator could not express -/
theorem schema_fully_translated : kindsAt composeSchema [] ≠ [] := by decide

/-- `Normalize` asserts `.(string)` on these attributes; the schema guarantees it for four of the five … -/
theorem namespace_attrs_are_strings :
    kindsAt composeSchema ["services", "*", "network_mode"] = [.string] ∧
    kindsAt composeSchema ["services", "*", "ipc"] = [.string] ∧
    kindsAt composeSchema ["services", "*", "uts"] = [.string] ∧
    kindsAt composeSchema ["services", "*", "cgroup"] = [.string] := by
  decide

/-- … and list items walked with `.(string)` -/
theorem link_items_are_strings :
    kindsAt composeSchema ["services", "*", "links", "[]"] = [.string] ∧
    kindsAt composeSchema ["services", "*", "volumes_from", "[]"] = [.string] ∧
    kindsAt composeSchema ["services", "*", "links"] = [.array] ∧
    kindsAt composeSchema ["services", "*", "volumes_from"] = [.array] := by
  decide

end CV.Schema
