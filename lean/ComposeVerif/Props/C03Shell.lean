import ComposeVerif.Lemmas.ShortShell
import ComposeVerif.Props.C03
/-!
# C03 — string vs list for `command` / `entrypoint` / hook commands (round 6)

The string spelling of a `ShellCommand` goes through go-shellwords (`Model/ShortShell.lean`, the complete loop of
`(*Parser).Parse` for the package defaults); the list spelling is taken as it is. The grammar (`Spec/ShortShell.lean`):
words separated by runs of space / tab / CR / LF, a word = plain runs, `'…'`, `"…"`, `\c`.
-/
namespace CV.Short
open CV CV.Short.Spec

/-- **string ≡ list**: every well-formed command line parses to exactly the values of its words — whatever the words
contain besides the parser's own special characters (any Unicode white space other than the four blanks included) -/
theorem shell_short_eq_long (a : ShSpec) (h : a.wf = true) : shellParse a.render = some a.long := by
  obtain ⟨ws, trail⟩ := a
  simp only [ShSpec.wf, Bool.and_eq_true] at h
  obtain ⟨hw, ht⟩ := h
  simp only [shellParse, ShSpec.render, ShSpec.long]
  cases ws with
  | nil =>
    have := shLoop_blanks_idle [] trail [] ht
    simp only [List.append_nil] at this
    simp [this, shLoop, shFinish]
  | cons w r =>
    simp only [wordsWf, Bool.true_or, Bool.and_true, Bool.and_eq_true, decide_eq_true_eq] at hw
    obtain ⟨⟨⟨hsep, hsegs⟩, hwf⟩, hr⟩ := hw
    have e1 := shLoop_blanks_idle (w.body ++ ((r.map ShWord.render).flatten ++ trail)) w.sep [] hsep
    obtain ⟨g', hg', e2⟩ := shLoop_segs ((r.map ShWord.render).flatten ++ trail) w.segs hwf [] [] .no (Or.inl hsegs)
    have ih := shell_words_tail trail ht r hr [] w.value g' hg'
    simp only [List.map_cons, List.flatten_cons, ShWord.render, List.append_assoc, ShWord.body, ShWord.value,
      List.nil_append] at e1 e2 ih ⊢
    rw [e1, e2, ih]
    simp

/-- the same at the decoder: the string spelling and the list spelling of a command are the same typed value -/
theorem shellCommand_string_eq_list (a : ShSpec) (h : a.wf = true) :
    decodeShellCommand (.str (String.ofList a.render)) = decodeShellCommand (.seq (a.long.map fun w => .str (String.ofList w))) := by
  have hl : ∀ l : List Str, allStrs (l.map fun w => Val.str (String.ofList w)) = some (l.map fun w => Val.str (String.ofList w)) := by
    intro l; induction l with
    | nil => rfl
    | cons x r ih => simp [allStrs, ih]
  simp [decodeShellCommand, decodeShellCommandList, shell_short_eq_long a h, hl]

/-- a word keeps every character that is not one of the parser's four blanks: `Prix\u00a0:\u00a010` is ONE argument
(the statement seeded change C03-8 breaks — `strings.Fields` cuts at every Unicode space) -/
theorem shell_unicode_space_kept (p : Str) (hp : p ≠ []) (ho : p.all ordinary = true) : shellParse p = some [p] := by
  have := shell_short_eq_long { words := [{ sep := [], segs := [.plain p] }], trail := [] }
    (by simp [ShSpec.wf, wordsWf, blanks, ShSeg.wf, hp, ho])
  simpa [ShSpec.render, ShSpec.long, ShWord.render, ShWord.body, ShWord.value, ShSeg.render, ShSeg.value] using this

example : ordinary '\u00a0' = true ∧ ordinary '\u3000' = true ∧ ordinary '\x0c' = true := by decide
example : shellParse "Prix\u00a0:\u00a010".toList = some ["Prix\u00a0:\u00a010".toList] := by decide
example : (ShSpec.mk [⟨[], [.plain "sh".toList]⟩, ⟨" ".toList, [.plain "-c".toList]⟩, ⟨" \t".toList, [.sq "a b".toList, .esc ';', .dq "x'y".toList]⟩] " ".toList).wf = true := by decide
example : shellParse "sh -c 'a b'\\;\"x'y\" ".toList = some ["sh".toList, "-c".toList, "a b;x'y".toList] := by decide

/-! ## `SSHConfig` -/

/-- `build.ssh: [default, ID=PATH]` and `build.ssh: {default: null, ID: PATH}` are the same canonical mapping, which
`SSHConfig.DecodeMapstructure` accepts: the two spellings are the same typed `SSHConfig` -/
theorem sshConfig_short_eq_long (id path : Str) (hid : ∀ x ∈ id, x ≠ '=') (hd : String.ofList id ≠ "default") :
    ∃ t, transformSSH (.seq [.str "default", .str (String.ofList (id ++ '=' :: path))]) = .ok t
      ∧ transformSSH (.map [("default", .null), (String.ofList id, sv path)]) = .ok t
      ∧ (decodeSSHConfig t).isSome = true :=
  ⟨_, transformSSH_short_eq_long id path hid hd, transformSSH_long_id _, rfl⟩

/-- the list spelling never reaches the decoder un-canonicalised: a list is rejected by `SSHConfig.DecodeMapstructure` -/
theorem sshConfig_mapping_only (l : List Val) : decodeSSHConfig (.seq l) = none := rfl

example : decodeSSHConfig (.map [("k", .str "/p"), ("default", .null)])
    = some (.seq [.map [("id", .str "default"), ("path", .str "")], .map [("id", .str "k"), ("path", .str "/p")]]) := by
  simp [decodeSSHConfig, sshInsert, sprint]

/-! near misses: an open quote, a trailing escape are rejected — never a partial command -/

theorem shLoop_sq_open : ∀ (t : Str) (a : List Str) (b : Str) (g : Got), t.all (· ≠ '\'') = true →
    ∃ b' g', shLoop { args := a, buf := b, got := g, sq := true } t = some { args := a, buf := b', got := g', sq := true }
  | [], a, b, g, _ => ⟨b, g, rfl⟩
  | c :: t, a, b, g, h => by
    simp only [List.all_cons, Bool.and_eq_true, decide_eq_true_eq] at h
    obtain ⟨g', hs⟩ := shStep_sq a b g c h.1
    obtain ⟨b2, g2, e⟩ := shLoop_sq_open t a (b ++ [c]) g' (by simpa using h.2)
    exact ⟨b2, g2, by simp only [shLoop, hs, e]⟩

/-- a single quote that is never closed rejects the line, whatever follows it -/
theorem shell_reject_open_single_quote (t : Str) (h : t.all (· ≠ '\'') = true) : shellParse ('\'' :: t) = none := by
  have h0 : shStep {} '\'' = .cont { sq := true } := by
    have : shIsSpace '\'' = false := by decide
    simp [shStep, this]
  obtain ⟨b', g', e⟩ := shLoop_sq_open t [] [] .no h
  simp [shellParse, shLoop, h0, e, shFinish]

/-- a backslash at the very end (nothing to escape) rejects the line -/
theorem shell_reject_trailing_escape (p : Str) (hp : p ≠ []) (ho : p.all ordinary = true) : shellParse (p ++ ['\\']) = none := by
  have e := shLoop_plain ['\\'] p [] [] .no hp ho
  simp only [shellParse, shN] at e ⊢
  rw [e]
  simp [shLoop, shStep, shFinish]

example : shellParse "echo 'a b".toList = none := by decide
example : shellParse "echo a\\".toList = none := by decide
example : shellParse "echo (a)".toList = none := by decide

end CV.Short
