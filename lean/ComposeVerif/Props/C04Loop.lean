import ComposeVerif.Lemmas.UnicityLoop
import ComposeVerif.Props.C04
/-!
# C04 — the loop of `enforceUnicity` as written refines "one entry per key, the later one wins"

`Props/C04.lean` proves the unicity laws (`unicity_last_wins`, `unicity_keeps_first_position`, `kv_later_wins`, …) about
`dedupKVs = foldl insert []`.  The Go code does not fold over an association list: it keeps an output slice `seq` and a
map `keys` from index key to **position in `seq`**, and overwrites `seq[j]`.  `Model/UnicityLoop.lean` keeps those two
variables and the index expression (which can go out of range) as they are; the theorems below show, for every indexer,
every sequence and every tree, that the loop as written

* never goes out of range (`unicity_loop_never_out_of_range`, `enforceL_never_panics`),
* keeps `keys[k]` = the position of `k` in the output (`unicity_loop_keys_are_output_positions`),
* computes exactly `dedup` (`unicity_loop_refines_dedup`), so that `EnforceUnicity` with the literal loop is the modelled
  `enforce` on every tree (`enforceL_eq_enforce`, `enforceTopL_eq_enforceTop`) and all unicity laws transfer
  (`loop_last_wins`).

The stored number is a parameter of the model (`Slot`): with the position in the *input* sequence instead (`keys[key] = i`)
the very same loop runs out of range on `[A, A, B, B]` and silently replaces another key's entry on `[A, A, B, C, B]`
(`slot_matters_out_of_range`, `slot_matters_wrong_entry`) — the refinement is a fact about the code's choice.
-/
namespace CV.C04
open CV CV.Val CV.Merge CV.Unicity

/-- the loop over indexed entries never evaluates `seq[j]` out of range, and its `seq` is the de-duplicated list -/
theorem unicity_loop_never_out_of_range (l : List (String × Val)) :
    ∃ st, loopRun .outLen l 0 LoopSt.empty = some st ∧ st.seq = (dedupKVs l).map Prod.snd := by
  obtain ⟨st, h, r⟩ := loopRun_rep l 0 [] LoopSt.empty rep_empty
  exact ⟨st, h, r.1⟩

/-- loop invariant at exit (and, `l` being arbitrary, after every prefix): `keys[k]` is the position of `k` in the output -/
theorem unicity_loop_keys_are_output_positions (l : List (String × Val)) :
    ∃ st, loopRun .outLen l 0 LoopSt.empty = some st ∧ ∀ k, idxLookup k st.keys = pos k (dedupKVs l) := by
  obtain ⟨st, h, r⟩ := loopRun_rep l 0 [] LoopSt.empty rep_empty
  exact ⟨st, h, r.2⟩

/-- **refinement**: the loop as written (indexer called inside, first error wins) = index all entries, then `dedup` -/
theorem unicity_loop_refines_dedup (ix : Indexer) (xs : List Val) :
    loopGo .outLen ix xs 0 LoopSt.empty = (indexAll ix xs).bind fun ks => .ok (dedup ks xs) :=
  loopGo_rep ix xs 0 [] LoopSt.empty rep_empty

mutual
/-- `enforceUnicity` with the literal loop is the modelled `enforce`, on every tree and at every path -/
theorem enforceL_eq_enforce : ∀ (v : Val) (p : TPath), enforceL .outLen v p = enforce v p
  | .map kvs, p => by simp only [enforceL, enforce, enforceKVsL_eq_enforceKVs kvs p]
  | .seq xs, p => by
    simp only [enforceL, enforce]
    cases indexerAt p with
    | none => rfl
    | some ix =>
      simp only [unicity_loop_refines_dedup]
      cases indexAll ix xs <;> rfl
  | .null, _ => by simp [enforceL, enforce]
  | .bool _, _ => by simp [enforceL, enforce]
  | .int _, _ => by simp [enforceL, enforce]
  | .float _, _ => by simp [enforceL, enforce]
  | .str _, _ => by simp [enforceL, enforce]
theorem enforceKVsL_eq_enforceKVs : ∀ (kvs : KVs) (p : TPath), enforceKVsL .outLen kvs p = enforceKVs kvs p
  | [], _ => by simp [enforceKVsL, enforceKVs]
  | (k, e) :: r, p => by
    simp only [enforceKVsL, enforceKVs, enforceL_eq_enforce e (next p k), enforceKVsL_eq_enforceKVs r p]
end

/-- `override.EnforceUnicity` with the literal loop = the model every other C04 theorem speaks about -/
theorem enforceTopL_eq_enforceTop (v : Val) : enforceTopL .outLen v = enforceTop v := by
  unfold enforceTopL enforceTop
  cases v <;> simp only [enforceL_eq_enforce]

/-- the index expression `seq[j] = entry` never panics, on any tree -/
theorem enforceL_never_panics (v : Val) (s : String) : enforceTopL .outLen v ≠ .panic s := by
  rw [enforceTopL_eq_enforceTop]
  exact enforceTop_never_panics v s

/-- the unicity law on the loop as written: the entry the loop keeps for a key is the last one carrying it (at the
position of the key's first appearance), and a key the input does not carry has no position -/
theorem loop_last_wins (l : List (String × Val)) (k : String) :
    ∃ st, loopRun .outLen l 0 LoopSt.empty = some st ∧
      (∀ j, idxLookup k st.keys = some j → st.seq[j]? = lastVal k l) ∧
      (idxLookup k st.keys = none → lastVal k l = none) := by
  obtain ⟨st, h, r⟩ := loopRun_rep l 0 [] LoopSt.empty rep_empty
  have hl : lookup k (dedupKVs l) = lastVal k l := unicity_last_wins l k
  refine ⟨st, h, ?_, ?_⟩
  · intro j hj
    rw [r.2 k] at hj
    rw [r.1, ← hl]
    exact pos_some_lookup hj
  · intro hn
    rw [r.2 k] at hn
    rw [← hl]
    exact pos_none_lookup hn

/-! ### the stored position matters (the `Slot` parameter is not decoration) -/

/-- with `keys[key] = i` (position in the input) the loop runs out of range: `[A, A, B, B]` -/
theorem slot_matters_out_of_range :
    loopRun .inIdx [("A", .int 1), ("A", .int 2), ("B", .int 1), ("B", .int 2)] 0 LoopSt.empty = none := by
  simp [loopRun, loopStep, idxLookup, Slot.value, LoopSt.empty]

/-- … and on `[A, A, B, C, B]` it silently overwrites `C`'s entry with `B`'s: the output has `B` twice and no `C` -/
theorem slot_matters_wrong_entry :
    (loopRun .inIdx [("A", .str "A=1"), ("A", .str "A=2"), ("B", .str "B=1"), ("C", .str "C=1"), ("B", .str "B=2")] 0
      LoopSt.empty).map (·.seq) = some [.str "A=2", .str "B=1", .str "B=2"] := by
  simp [loopRun, loopStep, idxLookup, Slot.value, LoopSt.empty]

/-- the same two inputs through the loop as written -/
example : (loopRun .outLen [("A", .int 1), ("A", .int 2), ("B", .int 1), ("B", .int 2)] 0 LoopSt.empty).map (·.seq)
    = some [.int 2, .int 2] := by
  simp [loopRun, loopStep, idxLookup, Slot.value, LoopSt.empty]
example : (loopRun .outLen [("A", .str "A=1"), ("A", .str "A=2"), ("B", .str "B=1"), ("C", .str "C=1"), ("B", .str "B=2")] 0
    LoopSt.empty).map (·.seq) = some [.str "A=2", .str "B=2", .str "C=1"] := by
  simp [loopRun, loopStep, idxLookup, Slot.value, LoopSt.empty]

end CV.C04
