import ComposeVerif.Model.IncludeResolve
import ComposeVerif.Model.IncludePipe
import ComposeVerif.Props.C06
/-!
# C06 — the resolvers that run on an included model (`loadYamlModel`, branch `len(included) != 0`)

An included model is loaded by the same pipeline as a project on its own, except for the last statement: on its own all
three environment resolvers run (`ResolveEnvironment`), as an included model only the ones for services and secrets.
The environment they see is the one `ApplyInclude` built (`include_env_precedence`: it *extends* the parent's).

* `included_branch_eq_own_except_configs`, `included_branch_services`, `included_branch_secrets`: every section other
  than `configs` of the model that `ApplyInclude` imports is the section of the project loaded on its own —
  `services.*.environment` and the value of an environment-sourced secret come from the included project's own
  `.env` / `env_file` (this is the statement a dropped resolver call falsifies).
* `resolveSource_stable`, `resolveEnvList_stable`, `included_secret_survives_parent`, `included_service_survives_parent`:
  the including model resolves the imported resources a second time, with its own (smaller) environment — that changes
  nothing: the project carries the values of the included project loaded on its own.
* configs: `included_branch_configs_untouched` + `included_config_eq_paste_partial` (equal iff the variable has the same
  value in both environments); the full statement is refuted in `Neg/C06.lean` (`included_config_eq_paste_refuted`).
-/
namespace CV.Include
open CV CV.Val

/-- what `include_env_precedence` proves about the environment of an included load -/
def Extends (envI envP : Env) : Prop := ∀ k v, Env.get envP k = some v → Env.get envI k = some v

theorem extends_of_includeEnv (W : World) (wd pd : String) (env env' : Env) (ef : List String)
    (h : includeEnv W wd pd env ef = .ok env') : Extends env' env := by
  obtain ⟨_, _, _, _, h1, _⟩ := include_env_precedence W wd pd env env' ef h
  exact h1

/-! ## association lists -/

theorem kv_lookup_insert_self (k : String) (v : Val) (m : KVs) : lookup k (insert k v m) = some v := by
  induction m with
  | nil => simp [Val.insert, Val.lookup]
  | cons e r ih =>
    obtain ⟨k', v'⟩ := e
    by_cases h : k = k'
    · simp [Val.insert, Val.lookup, h]
    · simp [Val.insert, Val.lookup, h, ih]

theorem kv_lookup_insert_ne {k k' : String} (h : k' ≠ k) (v : Val) (m : KVs) :
    lookup k' (insert k v m) = lookup k' m := by
  induction m with
  | nil => simp [Val.insert, Val.lookup, h]
  | cons e r ih =>
    obtain ⟨k2, v2⟩ := e
    by_cases h2 : k = k2
    · subst h2; simp [Val.insert, Val.lookup, h]
    · by_cases h3 : k' = k2
      · simp [Val.insert, Val.lookup, h2, h3]
      · simp [Val.insert, Val.lookup, h2, h3, ih]

theorem kv_insert_insert (k : String) (v w : Val) (m : KVs) : insert k w (insert k v m) = insert k w m := by
  induction m with
  | nil => simp [Val.insert]
  | cons e r ih =>
    obtain ⟨k', v'⟩ := e
    by_cases h : k = k'
    · simp [Val.insert, h]
    · simp [Val.insert, h, ih]

theorem lookup_mapVals (f : Val → Val) (k : String) (m : KVs) : lookup k (mapVals f m) = (lookup k m).map f := by
  induction m with
  | nil => rfl
  | cons e r ih =>
    obtain ⟨k', v'⟩ := e
    by_cases h : k = k'
    · simp [mapVals, Val.lookup, h]
    · simp [mapVals, Val.lookup, h, ih]

/-! ## which sections a resolver writes -/

theorem resolveSection_frame {sect carrier : String} (env : Env) (dict : KVs) {k : String} (h : k ≠ sect) :
    lookup k (resolveSection sect carrier env dict) = lookup k dict := by
  unfold resolveSection
  split
  · exact kv_lookup_insert_ne h _ _
  · rfl

theorem resolveServices_frame (env : Env) (dict : KVs) {k : String} (h : k ≠ "services") :
    lookup k (resolveServicesEnvironment env dict) = lookup k dict := by
  unfold resolveServicesEnvironment
  split
  · exact kv_lookup_insert_ne h _ _
  · rfl

/-- closed form of a section after its resolver -/
def resolvedSection (f : Val → Val) : Option Val → Option Val
  | some (.map os) => some (.map (mapVals f os))
  | o => o

theorem resolveSection_self (sect carrier : String) (env : Env) (dict : KVs) :
    lookup sect (resolveSection sect carrier env dict) = resolvedSection (resolveSource carrier env) (lookup sect dict) := by
  unfold resolveSection
  split
  · next os h => rw [kv_lookup_insert_self, h]; rfl
  · next h =>
    cases hl : lookup sect dict with
    | none => rfl
    | some v =>
      cases v with
      | map os => exact absurd hl (h os)
      | _ => rfl

theorem resolveServices_self (env : Env) (dict : KVs) :
    lookup "services" (resolveServicesEnvironment env dict) = resolvedSection (resolveService env) (lookup "services" dict) := by
  unfold resolveServicesEnvironment
  split
  · next os h => rw [kv_lookup_insert_self, h]; rfl
  · next h =>
    cases hl : lookup "services" dict with
    | none => rfl
    | some v =>
      cases v with
      | map os => exact absurd hl (h os)
      | _ => rfl

/-! ## the included branch against the project loaded on its own -/

/-- **included_branch_eq_own_except_configs**: the model `ApplyInclude` imports and the included project loaded on its
own (same files, same environment) have the same services, volumes, networks, secrets — every key but `configs` -/
theorem included_branch_eq_own_except_configs (env : Env) (dict : KVs) {k : String} (h : k ≠ "configs") :
    lookup k (resolveModelEnv true env dict) = lookup k (resolveModelEnv false env dict) := by
  simp only [resolveModelEnv, if_true, Bool.false_eq_true, if_false, resolveEnvironment, resolveConfigsEnvironment]
  rw [resolveSection_frame _ _ h]

/-- every service of an included model has its `environment` resolved with the include's environment -/
theorem included_branch_services (env : Env) (dict : KVs) :
    lookup "services" (resolveModelEnv true env dict) = resolvedSection (resolveService env) (lookup "services" dict) := by
  simp only [resolveModelEnv, if_true, resolveSecretsEnvironment]
  rw [resolveSection_frame _ _ (by decide), resolveServices_self]

/-- **included_branch_secrets**: every secret of an included model whose source is a variable gets its value from the
include's environment (parent variables, then the included project's `.env` / `env_file`) -/
theorem included_branch_secrets (env : Env) (dict : KVs) :
    lookup "secrets" (resolveModelEnv true env dict) =
      resolvedSection (resolveSource secretCarrier env) (lookup "secrets" dict) := by
  simp only [resolveModelEnv, if_true, resolveSecretsEnvironment]
  rw [resolveSection_self, resolveServices_frame _ _ (by decide)]

/-- an included model leaves its configs as written (the including model validates and resolves them) -/
theorem included_branch_configs_untouched (env : Env) (dict : KVs) :
    lookup "configs" (resolveModelEnv true env dict) = lookup "configs" dict := by
  simp only [resolveModelEnv, if_true, resolveSecretsEnvironment]
  rw [resolveSection_frame _ _ (by decide), resolveServices_frame _ _ (by decide)]

/-- on its own, configs are resolved too -/
theorem own_configs (env : Env) (dict : KVs) :
    lookup "configs" (resolveModelEnv false env dict) =
      resolvedSection (resolveSource "content" env) (lookup "configs" dict) := by
  simp only [resolveModelEnv, Bool.false_eq_true, if_false, resolveEnvironment, resolveConfigsEnvironment, resolveSecretsEnvironment]
  rw [resolveSection_self, resolveSection_frame _ _ (by decide), resolveServices_frame _ _ (by decide)]

/-! ## the including model resolves the imported resources again -/

/-- **resolveSource_stable**: a secret (config) resolved with the include's environment is not changed by the
including model's resolver, whose environment the include's extends -/
theorem resolveSource_stable {carrier : String} (hc : carrier ≠ "environment") {envI envP : Env} (hx : Extends envI envP)
    (s : Val) : resolveSource carrier envP (resolveSource carrier envI s) = resolveSource carrier envI s := by
  cases s with
  | map o =>
    cases hl : lookup "environment" o with
    | none => simp [resolveSource, hl]
    | some ev =>
      cases ev with
      | str e =>
        by_cases he : e = ""
        · simp [resolveSource, hl, he]
        · cases hI : Env.get envI e with
          | some v =>
            have hl' : lookup "environment" (insert carrier (.str v) o) = some (.str e) := by
              rw [kv_lookup_insert_ne (Ne.symm hc)]; exact hl
            cases hP : Env.get envP e with
            | some v' =>
              have := hx e v' hP
              rw [hI] at this
              cases this
              simp [resolveSource, hl, he, hI, hl', hP, kv_insert_insert]
            | none => simp [resolveSource, hl, he, hI, hl', hP]
          | none =>
            cases hP : Env.get envP e with
            | some v' =>
              have := hx e v' hP
              rw [hI] at this
              cases this
            | none => simp [resolveSource, hl, he, hI, hP]
      | _ => simp [resolveSource, hl]
  | _ => rfl

/-- no variable of the environment has `=` in its name (names come from `os.Environ` / dotenv keys) -/
def NoEqNames (env : Env) : Prop := ∀ s v : String, Env.get env (s ++ "=" ++ v) = none

theorem resolveEnvList_stable {envI envP : Env} (hx : Extends envI envP) (hn : NoEqNames envP) (l : List Val) :
    resolveEnvList envP (resolveEnvList envI l) = resolveEnvList envI l := by
  induction l with
  | nil => rfl
  | cons x r ih =>
    cases x with
    | str s =>
      cases hI : Env.get envI s with
      | some v => simp [resolveEnvList, hI, hn s v, ih]
      | none =>
        cases hP : Env.get envP s with
        | some v' =>
          have := hx s v' hP
          rw [hI] at this
          cases this
        | none => simp [resolveEnvList, hI, hP, ih]
    | _ => simpa [resolveEnvList] using ih

theorem resolveService_stable {envI envP : Env} (hx : Extends envI envP) (hn : NoEqNames envP) (s : Val) :
    resolveService envP (resolveService envI s) = resolveService envI s := by
  cases s with
  | map cfg =>
    cases hl : lookup "environment" cfg with
    | none => simp [resolveService, hl]
    | some ev =>
      cases ev with
      | seq l =>
        simp [resolveService, hl, kv_lookup_insert_self, kv_insert_insert, resolveEnvList_stable hx hn]
      | _ => simp [resolveService, hl]
  | _ => rfl

theorem mapVals_mapVals (f g : Val → Val) (m : KVs) : mapVals f (mapVals g m) = mapVals (fun v => f (g v)) m := by
  induction m with
  | nil => rfl
  | cons e r ih => obtain ⟨k, v⟩ := e; simp [mapVals, ih]

theorem mapVals_congr {f g : Val → Val} (h : ∀ v, f v = g v) (m : KVs) : mapVals f m = mapVals g m := by
  induction m with
  | nil => rfl
  | cons e r ih => obtain ⟨k, v⟩ := e; simp [mapVals, ih, h]

theorem resolvedSection_stable {f g : Val → Val} (h : ∀ v, f (g v) = g v) (o : Option Val) :
    resolvedSection f (resolvedSection g o) = resolvedSection g o := by
  cases o with
  | none => rfl
  | some v =>
    cases v with
    | map os => simp [resolvedSection, mapVals_mapVals, mapVals_congr h]
    | _ => rfl

/-- **included_secret_survives_parent**: the secrets section of the included model, resolved again by the including
model with its own environment, is the section of the included project loaded on its own -/
theorem included_secret_survives_parent {envI envP : Env} (hx : Extends envI envP) (dict : KVs) :
    resolvedSection (resolveSource secretCarrier envP) (lookup "secrets" (resolveModelEnv true envI dict)) =
      lookup "secrets" (resolveModelEnv false envI dict) := by
  rw [← included_branch_eq_own_except_configs envI dict (by decide), included_branch_secrets]
  exact resolvedSection_stable (resolveSource_stable (by decide) hx) _

/-- **included_service_survives_parent**: likewise `services.*.environment` -/
theorem included_service_survives_parent {envI envP : Env} (hx : Extends envI envP) (hn : NoEqNames envP) (dict : KVs) :
    resolvedSection (resolveService envP) (lookup "services" (resolveModelEnv true envI dict)) =
      lookup "services" (resolveModelEnv false envI dict) := by
  rw [← included_branch_eq_own_except_configs envI dict (by decide), included_branch_services]
  exact resolvedSection_stable (resolveService_stable hx hn) _

/-! ## nested includes compose -/

theorem extends_refl (env : Env) : Extends env env := fun _ _ h => h

theorem extends_trans {a b c : Env} (hab : Extends a b) (hbc : Extends b c) : Extends a c :=
  fun k v h => hab k v (hbc k v h)

/-- **included_secret_survives_nested**: a model included at depth 2 (environment `env2`, which extends the depth-1
include's `env1`, which extends the root's `env0`) is resolved again by the depth-1 model — itself an included model —
and by the root: its secrets are still the ones of the project loaded on its own -/
theorem included_secret_survives_nested {env2 env1 env0 : Env} (h21 : Extends env2 env1) (h10 : Extends env1 env0)
    (dict : KVs) :
    resolvedSection (resolveSource secretCarrier env0)
        (resolvedSection (resolveSource secretCarrier env1) (lookup "secrets" (resolveModelEnv true env2 dict))) =
      lookup "secrets" (resolveModelEnv false env2 dict) := by
  rw [included_secret_survives_parent h21, ← included_branch_eq_own_except_configs env2 dict (by decide),
    included_branch_secrets]
  exact resolvedSection_stable (resolveSource_stable (by decide) (extends_trans h21 h10)) _

/-- likewise `services.*.environment` -/
theorem included_service_survives_nested {env2 env1 env0 : Env} (h21 : Extends env2 env1) (h10 : Extends env1 env0)
    (hn1 : NoEqNames env1) (hn0 : NoEqNames env0) (dict : KVs) :
    resolvedSection (resolveService env0)
        (resolvedSection (resolveService env1) (lookup "services" (resolveModelEnv true env2 dict))) =
      lookup "services" (resolveModelEnv false env2 dict) := by
  rw [included_service_survives_parent h21 hn1, ← included_branch_eq_own_except_configs env2 dict (by decide),
    included_branch_services]
  exact resolvedSection_stable (resolveService_stable (extends_trans h21 h10) hn0) _

/-- a config declared at depth 2 is resolved by the root only: with the root's environment -/
theorem included_config_nested_untouched (env2 env1 : Env) (dict : KVs) (rest : KVs)
    (h : lookup "configs" rest = lookup "configs" (resolveModelEnv true env2 dict)) :
    lookup "configs" (resolveModelEnv true env1 rest) = lookup "configs" dict := by
  rw [included_branch_configs_untouched, h, included_branch_configs_untouched]

/-! ## configs -/

/-- the full statement for configs: resolved by the including model = as loaded on its own.  **False** in general
(`Neg/C06.lean`, `included_config_eq_paste_refuted`): the including model's environment lacks the included project's
own variables -/
def IncludedConfigEqPaste (envI envP : Env) (c : Val) : Prop :=
  resolveSource "content" envP c = resolveSource "content" envI c

/-- **included_config_eq_paste_partial**: it holds when the source variable has the same value in both environments —
the parent defines it, or neither does -/
theorem included_config_eq_paste_partial (envI envP : Env) (o : KVs)
    (h : ∀ e, lookup "environment" o = some (.str e) → Env.get envI e = Env.get envP e) :
    IncludedConfigEqPaste envI envP (.map o) := by
  unfold IncludedConfigEqPaste
  cases hl : lookup "environment" o with
  | none => simp [resolveSource, hl]
  | some ev =>
    cases ev with
    | str e => simp [resolveSource, hl, h e hl]
    | _ => simp [resolveSource, hl]

theorem included_config_eq_paste_parent_defines {envI envP : Env} (hx : Extends envI envP) (o : KVs) (e v : String)
    (he : lookup "environment" o = some (.str e)) (hv : Env.get envP e = some v) :
    IncludedConfigEqPaste envI envP (.map o) := by
  apply included_config_eq_paste_partial
  intro e' he'
  rw [he] at he'
  cases he'
  rw [hv, hx e v hv]

/-- non-vacuity: parent defines `V`, the included `.env` defines `V` and `W`; a secret sourced from `W` gets the file's
value, one sourced from `V` the parent's; the service entry `W` becomes `W=file` -/
example :
    let envP : Env := [("V", "parent")]
    let envI : Env := envMerge envP [("V", "file"), ("W", "wfile")]
    let d : KVs := [("services", .map [("b", .map [("environment", .seq [.str "V", .str "W", .str "K=k"])])]),
                    ("secrets", .map [("sv", .map [("environment", .str "V")]), ("sw", .map [("environment", .str "W")])]),
                    ("configs", .map [("cw", .map [("environment", .str "W")])])]
    veq (.map (resolveModelEnv true envI d))
      (.map [("services", .map [("b", .map [("environment", .seq [.str "V=parent", .str "W=wfile", .str "K=k"])])]),
       ("secrets", .map [("sv", .map [("environment", .str "V"), ("x-#value", .str "parent")]),
                         ("sw", .map [("environment", .str "W"), ("x-#value", .str "wfile")])]),
       ("configs", .map [("cw", .map [("environment", .str "W")])])]) = true := by
  decide +kernel

/-! ## the executable world: the sub-load *is* the included branch -/

theorem loadYaml_is_included_branch (D : FSData) (n : Nat) (wd L : String) (files : List String) (env : Env) (chain : List String) :
    loadYaml D (n + 1) wd L files env chain =
      ((loadFiles D (worldOf D (loadYaml D n)) wd L env chain files []).bind fun dict =>
        (resolvePaths D.home wd dict).bind fun r => .ok (sortKVs' (resolveModelEnv true env r))) := rfl

/-- the sub-load of an include entry and the same files loaded on their own come from one model `r` (merged,
interpolated, paths resolved) and differ only in the last statement: `included_branch_*` relate the two -/
theorem loadYaml_included_vs_own (D : FSData) (n : Nat) (wd L : String) (files : List String) (env : Env) (a b : KVs)
    (hi : loadYaml D (n + 1) wd L files env [] = .ok a) (ho : loadYamlOwn D n wd L files env = .ok b) :
    ∃ r, a = sortKVs' (resolveModelEnv true env r) ∧ b = sortKVs' (resolveModelEnv false env r) := by
  rw [loadYaml_is_included_branch] at hi
  unfold loadYamlOwn at ho
  obtain ⟨dict, h1, hi⟩ := bind_eq_ok hi
  obtain ⟨r, h2, hi⟩ := bind_eq_ok hi
  simp only [h1] at ho
  obtain ⟨dict', h1', ho⟩ := bind_eq_ok ho
  cases h1'
  simp only [h2] at ho
  obtain ⟨r', h2', ho⟩ := bind_eq_ok ho
  cases h2'
  cases hi
  cases ho
  exact ⟨r, rfl, rfl⟩

end CV.Include
