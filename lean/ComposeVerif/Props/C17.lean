import ComposeVerif.Lemmas.NameDotenv
import ComposeVerif.Gen.NameFacts
import ComposeVerif.Neg.C17
/-!
# C17 — project name and project environment follow the documented precedence

Property theorems over the models of `Model/Name.lean` (all inputs, no bounds).  The specification
(`Spec/Name.lean`) states the name precedence as the decision function `Spec.decide` and the environment
precedence as first-match lookup through ordered layers.
-/
namespace CV.Name
open CV CV.Name.Spec

/-! ## facts regenerated from the source -/

/-- the constants the model was written against are the ones in the source now: the regexp and cutset of
    `NormalizeProjectName` and the order of its string operations, the two environment-variable names, and the
    order of the tests of `withNamePrecedenceLoad` (explicit name first, then `COMPOSE_PROJECT_NAME`) -/
theorem source_constants_are_modelled :
    CV.Gen.normalize_regex = "[a-z0-9_-]" ∧
    CV.Gen.normalize_cutset = "_-" ∧
    CV.Gen.normalize_calls = ["regexp.MustCompile", "strings.ToLower", "strings.Join", "r.FindAllString", "strings.TrimLeft"] ∧
    CV.Gen.const_ComposeProjectName = String.ofList cpn ∧
    CV.Gen.const_ComposeDisableDefaultEnvFile = String.ofList disableKey ∧
    CV.Gen.namePrecedence_conds =
      ["options.Name != \"\"",
       "nameFromEnv, ok := options.Environment[consts.ComposeProjectName]; ok && nameFromEnv != \"\""] := by
  decide

/-- the character class and the cutset, read as sets of characters, are the predicates of the model -/
theorem regex_class_is_isNameChar :
    ((List.range 128).all fun n =>
      isNameChar (Char.ofNat n) == "abcdefghijklmnopqrstuvwxyz0123456789_-".toList.contains (Char.ofNat n) &&
      isSep (Char.ofNat n) == CV.Gen.normalize_cutset.toList.contains (Char.ofNat n)) = true := by
  decide

/-! ## normalisation -/

/-- norm_valid: a normalised name is empty or of the form `[a-z0-9][a-z0-9_-]*` -/
theorem normalize_valid (s : Str) : normalize s = [] ∨ validName (normalize s) = true := norm_valid s

/-- norm_idem: normalising twice is normalising once -/
theorem normalize_idem (s : Str) : normalize (normalize s) = normalize s := norm_idem s

/-- the fixed points of normalisation are exactly the empty string and the valid names: this is why the test
    `NormalizeProjectName(n) != n` of `WithName` / `loader.projectName` rejects exactly the invalid requests -/
theorem normalize_fixed_iff (s : Str) : normalize s = s ↔ (s = [] ∨ validName s = true) := norm_fixed_iff s

example : normalize "My.App".toList = "myapp".toList := by decide
example : normalize "_-K8s".toList = "k8s".toList := by decide
example : normalize "___".toList = [] := by decide
example : validName "my-app_1".toList = true := by decide
example : validName "_x".toList = false := by decide

/-! ## the name decision -/

/-- name_decision, soundness: the name of a successful load is the one the specification selects -/
theorem name_decision {files : List (List (Option Str))} (w : World) (o : PO) (r : Loaded) (h : loadFiles w o files = .ok r) :
    Spec.decide (sourcesOf w o files) = .name r.name := by
  have ⟨h1, h2, _⟩ := load_ok_inv w o r h
  have ha := loaderName_agrees w o
  rw [h1] at ha
  cases hd : Spec.decide (sourcesOf w o files) with
  | name n =>
    rw [hd] at ha
    have := ha.1
    cases this; rfl
  | rejected => rw [hd] at ha; cases ha
  | failed => rw [hd] at ha; rcases ha with ha | ha <;> cases ha
  | noName => rw [hd] at ha; exact absurd (Except.ok.inj ha) h2

theorem name_decision_complete {files : List (List (Option Str))} (w : World) (o : PO) (n p : Str)
    (hd : Spec.decide (sourcesOf w o files) = .name n)
    (h3 : interpAll ((cpn, n) :: o.env) (allNames files) = .ok ())
    (h4 : Template.subst (Env.get ((cpn, n) :: o.env)) w.probe = .ok p) :
    loadFiles w o files = .ok { name := n, env := (cpn, n) :: o.env, probe := p } := by
  have ha := loaderName_agrees w o
  rw [hd] at ha
  exact load_ok_intro w o n p ha.1 ha.2 h3 h4

theorem name_rejected {files : List (List (Option Str))} (w : World) (o : PO) (hd : Spec.decide (sourcesOf w o files) = .rejected) :
    loadFiles w o files = .error .invalidName := by
  have ha := loaderName_agrees w o
  rw [hd] at ha
  unfold loadFiles
  rw [show loaderName files o.env (cliName w o) = .error .invalidName from ha]

theorem name_none {files : List (List (Option Str))} (w : World) (o : PO)
    (hd : Spec.decide (sourcesOf w o files) = .noName ∨ Spec.decide (sourcesOf w o files) = .failed) :
    ∃ e, loadFiles w o files = .error e := by
  cases hl : loadFiles w o files with
  | error e => exact ⟨e, rfl⟩
  | ok r =>
    have := name_decision w o r hl
    rcases hd with hd | hd <;> rw [hd] at this <;> cases this

/-- name_valid: a successful load has a non-empty name of the form `[a-z0-9][a-z0-9_-]*`,
    whatever the options, the environment, the files and the directory -/
theorem name_valid (w : World) (opts : List Opt) (r : Loaded) (h : run w opts = .ok r) :
    validName r.name = true ∧ r.name ≠ [] := by
  obtain ⟨o, _, hl⟩ := run_ok_inv w opts r h
  have hv := decide_name_valid _ _ (name_decision w o r hl)
  exact ⟨hv, valid_ne_nil _ hv⟩

/-- imperative_invalid_rejected (option level): `WithName` refuses a non-empty name that is not already valid -/
theorem withName_invalid_rejected (w : World) (o : PO) (n : Str) (hn : n ≠ []) (hv : validName n = false) :
    applyOpt w o (.withName n) = .error .invalidName := by
  have hne : normalize n ≠ n := by
    intro h
    rcases (norm_fixed_iff n).mp h with h | h
    · exact hn h
    · rw [hv] at h; cases h
  simp [applyOpt, hne]

/-- imperative_invalid_rejected (whole run): if any `WithName` of the sequence requests an invalid name, no
    project is loaded -/
theorem imperative_invalid_rejected (w : World) (opts : List Opt) (n : Str) (hmem : Opt.withName n ∈ opts)
    (hn : n ≠ []) (hv : validName n = false) : ∃ e, run w opts = .error e := by
  obtain ⟨e, he⟩ := runOpts_mem_error w opts {} (.withName n) hmem
    (fun o => ⟨_, withName_invalid_rejected w o n hn hv⟩)
  exact ⟨e, by simp [run, he]⟩

/-- imperative_invalid_rejected (environment): an invalid non-empty `COMPOSE_PROJECT_NAME` in the project
    environment, with no explicit name, is rejected by the load -/
theorem env_name_invalid_rejected {files : List (List (Option Str))} (w : World) (o : PO) (n : Str) (hname : o.name = [])
    (henv : o.env.get cpn = some n) (hn : n ≠ []) (hv : validName n = false) :
    loadFiles w o files = .error .invalidName := by
  apply name_rejected
  simp [Spec.decide, sourcesOf, hname, henv, Option.filter, hn, hv]

/-- explicit_name_wins: whatever else is configured (environment, files, directory, option order), a successful
    load with an explicitly requested name has exactly that name -/
theorem explicit_name_wins (w : World) (opts : List Opt) (r : Loaded) (h : run w opts = .ok r)
    (hreq : requestedName opts [] ≠ []) : r.name = requestedName opts [] := by
  obtain ⟨o, ho, hl⟩ := run_ok_inv w opts r h
  have hn := runOpts_name w opts {} o ho
  have hd := name_decision w o r hl
  have hne : o.name ≠ [] := by rw [hn]; exact hreq
  simp only [Spec.decide, sourcesOf, hne, ne_eq, not_false_eq_true, if_true] at hd
  by_cases hv : validName o.name = true
  · simp [hv] at hd
    rw [← hd]; exact hn
  · simp [hv] at hd

/-- name_visible_to_interpolation: after a successful load the project environment maps
    `COMPOSE_PROJECT_NAME` to the project name, `${COMPOSE_PROJECT_NAME}` interpolates to it, and the strings of the
    model were interpolated against that same environment -/
theorem name_visible_to_interpolation {files : List (List (Option Str))} (w : World) (o : PO) (r : Loaded) (h : loadFiles w o files = .ok r) :
    r.env.get cpn = some r.name ∧
    Template.subst r.env.get "${COMPOSE_PROJECT_NAME}".toList = .ok r.name ∧
    Template.subst r.env.get w.probe = .ok r.probe := by
  obtain ⟨_, _, henv, _, hp⟩ := load_ok_inv w o r h
  have hg : r.env.get cpn = some r.name := by rw [henv]; exact get_cons_self _ _ _
  refine ⟨hg, ?_, hp⟩
  have := subst_cpn r.env.get
  rw [hg] at this
  exact this

/-! ## the project environment -/

/-- env_any_option_order: after ANY sequence of option calls the project environment is, as an ordered list of
    layers, the explicit variables (latest `WithEnv` first), then the initial environment, then what `WithOsEnv` /
    `WithDotEnv` added, in call order.  Lookup is first-match, so this is the precedence for every order. -/
theorem env_any_option_order (w : World) (opts : List Opt) (o o' : PO) (h : runOpts w opts o = .ok o') :
    o'.env = explicitLayer opts ++ o.env ++ underOf w opts o := by
  induction opts generalizing o with
  | nil => simp only [runOpts] at h; cases h; simp [explicitLayer, underOf]
  | cons x xs ih =>
    simp only [runOpts] at h
    split at h
    · rename_i o1 h1
      rw [ih o1 h, explicitLayer_cons, applyOpt_env w o o1 x h1]
      simp only [underOf, h1, List.append_assoc]
    · cases h

theorem explicit_over_all (w : World) (opts : List Opt) (o o' : PO) (h : runOpts w opts o = .ok o')
    (k v : Str) (hk : (explicitLayer opts).get k = some v) : o'.env.get k = some v := by
  rw [env_any_option_order w opts o o' h, List.append_assoc, get_append, hk]

theorem env_precedence_documented_order (w : World) (pre : List Opt)
    (hpre : ∀ x ∈ pre, x ≠ .withDotEnv) (o' : PO)
    (h : runOpts w (pre ++ [.withDotEnv]) {} = .ok o') :
    ∃ o1 m, runOpts w pre {} = .ok o1 ∧
      (∀ k, o1.env.get k = lookupLayers [explicitLayer pre, osLayer w pre] k) ∧
      getEnvFromFile w o1.env o1.envFiles [] = .ok m ∧
      ∀ k, o'.env.get k = lookupLayers [explicitLayer pre, osLayer w pre, m] k := by
  rw [runOpts_append] at h
  cases h1 : runOpts w pre {} with
  | error e => rw [h1] at h; cases h
  | ok o1 =>
    rw [h1] at h
    simp only [runOpts, applyOpt] at h
    cases hm : getEnvFromFile w o1.env o1.envFiles [] with
    | error e => rw [hm] at h; cases h
    | ok m =>
      rw [hm] at h
      cases h
      have hs := env_any_option_order w pre {} o1 h1
      have hk1 : ∀ k, o1.env.get k = lookupLayers [explicitLayer pre, osLayer w pre] k := by
        intro k
        rw [hs, lookupLayers_two]
        simp only [List.append_nil, get_append, underOf_noDot w pre {} o1 hpre h1 k]
      refine ⟨o1, m, rfl, hk1, hm, ?_⟩
      intro k
      simp only [get_append, hk1 k, lookupLayers]
      cases (explicitLayer pre).get k <;> cases (osLayer w pre).get k <;> cases m.get k <;> rfl

/-- later `.env` files win over earlier ones -/
theorem dotenv_later_over_earlier (w : World) (cur : Env) (fs : List FileRef) (f : FileRef) (acc m : Env)
    (h : getEnvFromFile w cur (fs ++ [f]) acc = .ok m) :
    ∃ m0 ls out, getEnvFromFile w cur fs acc = .ok m0 ∧ lookupFile w f = some (.file ls) ∧
      parseLines (chain cur m0) ls [] = .ok out ∧
      ∀ k, m.get k = match out.get k with | some v => some v | none => m0.get k := by
  obtain ⟨m0, ls, out, h1, h2, h3, h4⟩ := getEnvFromFile_snoc w cur fs f acc m h
  exact ⟨m0, ls, out, h1, h2, h3, fun k => by rw [h4, get_append]; cases out.get k <;> rfl⟩

/-- a `.env` value is expanded with the variables above it: the project environment so far, then the
    earlier files, then the earlier lines of the same file -/
theorem dotenv_refs_above (cur envMap out : Env) (k t : Str) (ls : List (Str × Str)) :
    parseLines (chain cur envMap) ((k, t) :: ls) out =
      match Template.subst (lookupLayers [cur, envMap, out]) t with
      | .ok v => parseLines (chain cur envMap) ls ((k, v) :: out)
      | .err _ => .error .dotenvParse
      | .panic _ => .error .panic :=
  parseLines_cons cur envMap out k t ls

/-- the rest of the project environment is untouched by the load: every other variable keeps the value the
    options gave it -/
theorem load_env_frame {files : List (List (Option Str))} (w : World) (o : PO) (r : Loaded) (h : loadFiles w o files = .ok r) (k : Str) (hk : k ≠ cpn) :
    r.env.get k = o.env.get k := by
  obtain ⟨_, _, henv, _, _⟩ := load_ok_inv w o r h
  rw [henv]
  have hb : (k == cpn) = false := by simpa using hk
  simp [Env.get, List.lookup_cons, hb]

/-- dotenv_refines_spec: on env files that exist, `GetEnvFromFile` computes exactly the layers of the
    specification (later file first), flattened -/
theorem dotenv_refines_spec (w : World) (cur : Env) (refs : List FileRef) (contents : List (List (Str × Str)))
    (hfiles : refs.map (lookupFile w) = contents.map (fun ls => some (.file ls))) (acc : List Env) :
    (getEnvFromFile w cur refs acc.flatten).toOption =
      (dotenvLayers cur contents acc).toOption.map List.flatten := by
  induction refs generalizing contents acc with
  | nil =>
    cases contents with
    | nil => rfl
    | cons c cs => cases hfiles
  | cons f fs ih =>
    cases contents with
    | nil => cases hfiles
    | cons c cs =>
      simp only [List.map_cons, List.cons.injEq] at hfiles
      simp only [getEnvFromFile, hfiles.1, dotenvLayers]
      have hp := parseLines_spec cur acc.flatten c []
      cases h1 : parseLines (chain cur acc.flatten) c [] with
      | error e =>
        rw [h1] at hp
        cases h2 : fileLayer cur acc.flatten c [] with
        | error e2 => rfl
        | ok out2 => rw [h2] at hp; cases hp
      | ok out =>
        rw [h1] at hp
        cases h2 : fileLayer cur acc.flatten c [] with
        | error e2 => rw [h2] at hp; cases hp
        | ok out2 =>
          rw [h2] at hp
          cases hp
          have := ih cs hfiles.2 (out :: acc)
          simpa using this

/-- the documented call sequence end to end: with the options in the documented order, a successful load has
    the name `Spec.decide` selects from (last `WithName`, `COMPOSE_PROJECT_NAME` read through the layers
    explicit > OS > .env, the compose files, the project directory) -/
theorem name_decision_documented_order {files : List (List (Option Str))} (w : World) (pre : List Opt)
    (hpre : ∀ x ∈ pre, x ≠ .withDotEnv) (r : Loaded)
    (h : run w (pre ++ [.withDotEnv]) = .ok r) :
    ∃ o' m, runOpts w (pre ++ [.withDotEnv]) {} = .ok o' ∧
      o'.name = requestedName pre [] ∧
      o'.env.get cpn = lookupLayers [explicitLayer pre, osLayer w pre, m] cpn ∧
      Spec.decide (sourcesOf w o' files) = .name r.name := by
  obtain ⟨o', ho, hl⟩ := run_ok_inv w _ r h
  obtain ⟨o1, m, _, _, _, hk⟩ := env_precedence_documented_order w pre hpre o' ho
  refine ⟨o', m, ho, ?_, hk cpn, name_decision w o' r hl⟩
  rw [runOpts_name w _ {} o' ho]
  simp [requestedName]

/-! ## non-vacuity: concrete worlds on which the hypotheses of the theorems hold -/

/-- a world with all four name sources and a variable `V` defined in OS env, two env files -/
def exW : World where
  dir := "My.Dir".toList
  os := strs ["COMPOSE_PROJECT_NAME=os", "V=o"]
  files := [[some "f1".toList], [some "F.2".toList]]
  envFiles := [("a".toList, .file [("V".toList, "a".toList), ("R".toList, "$V".toList), ("X".toList, "1".toList)]),
               ("b".toList, .file [("X".toList, "2".toList), ("S".toList, "$X$R".toList)])]
  dotEnv := none
  probe := "$V$X".toList

def exDoc : List Opt := [.withEnv (strs ["Y=e"]), .withOsEnv, .withEnvFiles (strs ["a", "b"]), .withDotEnv]

def nameOf (r : Except Err Loaded) : Option String := r.toOption.map (fun l => String.ofList l.name)
def errOf (r : Except Err Loaded) : Option Err := match r with | .error e => some e | .ok _ => none
def varOf (k : String) (r : Except Err Loaded) : Option String := r.toOption.bind (fun l => (l.env.get k.toList).map String.ofList)

-- explicit name over COMPOSE_PROJECT_NAME over file over directory
example : nameOf (run exW (.withName "ex".toList :: exDoc)) = some "ex" := by decide
example : nameOf (run exW exDoc) = some "os" := by decide
example : nameOf (run { exW with os := strs ["V=o"] } exDoc) = some "f2" := by decide
example : nameOf (run { exW with os := [], files := [[none]] } exDoc) = some "mydir" := by decide
-- a file name that normalises to empty falls through to the directory
example : nameOf (run { exW with os := [], files := [[some "f1".toList], [some "_.".toList]] } exDoc) = some "mydir" := by decide
-- invalid requests are rejected; nothing yields a name
example : errOf (run exW (exDoc ++ [.withName "Ex".toList])) = some .invalidName := by decide
example : errOf (run { exW with os := strs ["COMPOSE_PROJECT_NAME=a.b"] } exDoc) = some .invalidName := by decide
example : errOf (run { exW with os := [], files := [[none]], dir := "日本".toList } exDoc) = some .emptyName := by decide
-- environment: explicit over OS over later file over earlier file; references see the variables above
example : varOf "V" (run exW (.withEnv (strs ["V=e"]) :: exDoc)) = some "e" := by decide
example : varOf "V" (run exW (exDoc ++ [.withEnv (strs ["V=e"])])) = some "e" := by decide
example : varOf "V" (run exW exDoc) = some "o" := by decide
example : varOf "X" (run exW exDoc) = some "2" := by decide
example : varOf "R" (run exW exDoc) = some "o" := by decide     -- `$V` in file a: the OS value, not the file's own
-- `$X` in file b resolves to the EARLIER FILE's value (lookup chain: project env, earlier files, earlier lines), `$R` to file a's
example : varOf "S" (run exW exDoc) = some "1o" := by decide
example : varOf "COMPOSE_PROJECT_NAME" (run exW exDoc) = some "os" := by decide
example : (run exW exDoc).toOption.map (fun l => String.ofList l.probe) = some "o2" := by decide
-- the hypotheses of `env_precedence_documented_order` / `dotenv_later_over_earlier` are satisfiable
example : (∀ x ∈ exDoc.dropLast, x ≠ Opt.withDotEnv) ∧ (runOpts exW (exDoc.dropLast ++ [.withDotEnv]) {}).toOption.isSome = true := by decide
example : (getEnvFromFile exW [] ([.named "a".toList] ++ [.named "b".toList]) []).toOption.isSome = true := by decide
-- an undocumented order: `WithDotEnv` before `WithOsEnv` lets the file value win (covered by `env_any_option_order`)
example : varOf "V" (run exW [.withEnvFiles (strs ["a"]), .withDotEnv, .withOsEnv]) = some "a" := by decide

end CV.Name
