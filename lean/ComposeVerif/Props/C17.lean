import ComposeVerif.Lemmas.NameDotenv
import ComposeVerif.Lemmas.NameSplit
import ComposeVerif.Lemmas.NameExamples
import ComposeVerif.Gen.NameFacts
import ComposeVerif.Neg.C17
/-!
# C17 — project name and project environment follow the documented precedence

Property theorems over the models of `Model/Name.lean` (all inputs, no bounds).  The specification
(`Spec/Name.lean`) states the name precedence as the decision function `Spec.decide` and the environment
precedence as first-match lookup through ordered layers.
-/
namespace CV.Name
open CV CV.Name.Spec

/-! ## facts regenerated from the source -/

/-- the constants the model was written against are the ones in the source now: the regexp and cutset of
    `NormalizeProjectName` and the order of its string operations, the two environment-variable names, and the
    order of the tests of `withNamePrecedenceLoad` (explicit name first, then `COMPOSE_PROJECT_NAME`) -/
theorem source_constants_are_modelled :
    CV.Gen.normalize_regex = "[a-z0-9_-]" ∧
    CV.Gen.normalize_cutset = "_-" ∧
    CV.Gen.normalize_calls = ["regexp.MustCompile", "strings.ToLower", "strings.Join", "r.FindAllString", "strings.TrimLeft"] ∧
    CV.Gen.const_ComposeProjectName = String.ofList cpn ∧
    CV.Gen.const_ComposeDisableDefaultEnvFile = String.ofList disableKey ∧
    CV.Gen.const_ComposeFilePath = String.ofList composeFileKey ∧
    CV.Gen.const_ComposePathSeparator = String.ofList pathSepKey ∧
    CV.Gen.cli_DefaultFileNames = defaultFileNames.map String.ofList ∧
    CV.Gen.cli_DefaultOverrideFileNames = defaultOverrideFileNames.map String.ofList ∧
    CV.Gen.namePrecedence_conds =
      ["options.Name != \"\"",
       "nameFromEnv, ok := options.Environment[consts.ComposeProjectName]; ok && nameFromEnv != \"\""] := by
  decide

/-- **the function bodies the model mirrors are the ones in the source now** (printed without comments,
    regenerated on every run): the option functions of `cli/options.go`, `GetWorkingDir`, `withNamePrecedenceLoad`,
    `findFiles`, `absolutePaths`, `loader.projectName`, `NormalizeProjectName`, `dotenv.GetEnvFromFile`,
    `Mapping.Merge`, `utils.GetAsEqualsMap`.  Any edit to one of them breaks this theorem, on top of whatever the
    correspondence finds. -/
theorem modelled_functions_are_source :
    CV.Gen.c17_body_NewProjectOptions =
      "{ options := &ProjectOptions{ ConfigPaths: configs, Environment: map[string]string{}, Listeners: []loader.Listener{}, } for _, o := range opts { err := o(options) if err != nil { return nil, err } } return options, nil }" ∧
    CV.Gen.c17_body_WithName =
      "{ return func(o *ProjectOptions) error { if name != loader.NormalizeProjectName(name) { return loader.InvalidProjectNameErr(name) } o.Name = name return nil } }" ∧
    CV.Gen.c17_body_WithWorkingDirectory =
      "{ return func(o *ProjectOptions) error { if wd == \"\" { return nil } abs, err := filepath.Abs(wd) if err != nil { return err } o.WorkingDir = abs return nil } }" ∧
    CV.Gen.c17_body_WithConfigFileEnv =
      "{ if len(o.ConfigPaths) > 0 { return nil } sep := o.Environment[consts.ComposePathSeparator] if sep == \"\" { sep = string(os.PathListSeparator) } f, ok := o.Environment[consts.ComposeFilePath] if ok { paths, err := absolutePaths(strings.Split(f, sep)) o.ConfigPaths = paths return err } return nil }" ∧
    CV.Gen.c17_body_WithDefaultConfigPath =
      "{ if len(o.ConfigPaths) > 0 { return nil } pwd, err := o.GetWorkingDir() if err != nil { return err } for { candidates := findFiles(DefaultFileNames, pwd) if len(candidates) > 0 { winner := candidates[0] if len(candidates) > 1 { logrus.Warnf(\"Found multiple config files with supported names: %s\", strings.Join(candidates, \", \")) logrus.Warnf(\"Using %s\", winner) } o.ConfigPaths = append(o.ConfigPaths, winner) overrides := findFiles(DefaultOverrideFileNames, pwd) if len(overrides) > 0 { if len(overrides) > 1 { logrus.Warnf(\"Found multiple override files with supported names: %s\", strings.Join(overrides, \", \")) logrus.Warnf(\"Using %s\", overrides[0]) } o.ConfigPaths = append(o.ConfigPaths, overrides[0]) } return nil } parent := filepath.Dir(pwd) if parent == pwd { return nil } pwd = parent } }" ∧
    CV.Gen.c17_body_WithEnv =
      "{ return func(o *ProjectOptions) error { for k, v := range utils.GetAsEqualsMap(env) { o.Environment[k] = v } return nil } }" ∧
    CV.Gen.c17_body_WithOsEnv =
      "{ for k, v := range utils.GetAsEqualsMap(os.Environ()) { if _, set := o.Environment[k]; set { continue } o.Environment[k] = v } return nil }" ∧
    CV.Gen.c17_body_WithEnvFiles =
      "{ return func(o *ProjectOptions) error { if len(file) > 0 { o.EnvFiles = file return nil } if v, ok := os.LookupEnv(consts.ComposeDisableDefaultEnvFile); ok { b, err := strconv.ParseBool(v) if err != nil { return err } if b { return nil } } wd, err := o.GetWorkingDir() if err != nil { return err } defaultDotEnv := filepath.Join(wd, \".env\") s, err := os.Stat(defaultDotEnv) if errors.Is(err, fs.ErrNotExist) || errors.Is(err, syscall.ENOTDIR) { return nil } if err != nil { return err } if !s.IsDir() { o.EnvFiles = []string{defaultDotEnv} } return nil } }" ∧
    CV.Gen.c17_body_WithDotEnv =
      "{ envMap, err := dotenv.GetEnvFromFile(o.Environment, o.EnvFiles) if err != nil { return err } o.Environment.Merge(envMap) return nil }" ∧
    CV.Gen.c17_body_GetWorkingDir =
      "{ if o.WorkingDir != \"\" { return filepath.Abs(o.WorkingDir) } for _, path := range o.ConfigPaths { if path != \"-\" { absPath, err := filepath.Abs(path) if err != nil { return \"\", err } return filepath.Dir(absPath), nil } } return os.Getwd() }" ∧
    CV.Gen.c17_body_withNamePrecedenceLoad =
      "{ return func(opts *loader.Options) { if options.Name != \"\" { opts.SetProjectName(options.Name, true) } else if nameFromEnv, ok := options.Environment[consts.ComposeProjectName]; ok && nameFromEnv != \"\" { opts.SetProjectName(nameFromEnv, true) } else { dirname := filepath.Base(absWorkingDir) symlink, err := filepath.EvalSymlinks(absWorkingDir) if err == nil && filepath.Base(symlink) != dirname { logrus.Warnf(\"project has been loaded without an explicit name from a symlink. Using name %q\", dirname) } opts.SetProjectName( loader.NormalizeProjectName(dirname), false, ) } } }" ∧
    CV.Gen.c17_body_findFiles =
      "{ candidates := []string{} for _, n := range names { f := filepath.Join(pwd, n) if _, err := os.Stat(f); err == nil { candidates = append(candidates, f) } } return candidates }" ∧
    CV.Gen.c17_body_absolutePaths =
      "{ var paths []string for _, f := range p { if f == \"-\" { paths = append(paths, f) continue } abs, err := filepath.Abs(f) if err != nil { return nil, err } f = abs if _, err := os.Stat(f); err != nil { return nil, err } paths = append(paths, f) } return paths, nil }" ∧
    CV.Gen.c17_body_projectName =
      "{ defer func() { if details.Environment == nil { details.Environment = map[string]string{} } details.Environment[consts.ComposeProjectName] = opts.projectName }() if opts.projectNameImperativelySet { if NormalizeProjectName(opts.projectName) != opts.projectName { return InvalidProjectNameErr(opts.projectName) } return nil } type named struct { Name string `yaml:\"name\"` } // if user did NOT provide a name explicitly, then see if one is defined // in any of the config files var pjNameFromConfigFile string for _, configFile := range details.ConfigFiles { content := configFile.Content if content == nil { d, err := os.ReadFile(configFile.Filename) if err != nil { return fmt.Errorf(\"failed to read file %q: %w\", configFile.Filename, err) } content = d configFile.Content = d } var n named r := bytes.NewReader(content) decoder := yaml.NewDecoder(r) for { err := decoder.Decode(&n) if err != nil && errors.Is(err, io.EOF) { break } if err != nil { break } if n.Name != \"\" { pjNameFromConfigFile = n.Name } } } if !opts.SkipInterpolation { interpolated, err := interp.Interpolate( map[string]interface{}{\"name\": pjNameFromConfigFile}, *opts.Interpolate, ) if err != nil { return err } pjNameFromConfigFile = interpolated[\"name\"].(string) } pjNameFromConfigFile = NormalizeProjectName(pjNameFromConfigFile) if pjNameFromConfigFile != \"\" { opts.projectName = pjNameFromConfigFile } else { opts.projectName = NormalizeProjectName(opts.projectName) } return nil }" ∧
    CV.Gen.c17_body_NormalizeProjectName =
      "{ r := regexp.MustCompile(\"[a-z0-9_-]\") s = strings.ToLower(s) s = strings.Join(r.FindAllString(s, -1), \"\") return strings.TrimLeft(s, \"_-\") }" ∧
    CV.Gen.c17_body_GetEnvFromFile =
      "{ envMap := make(map[string]string) for _, dotEnvFile := range filenames { abs, err := filepath.Abs(dotEnvFile) if err != nil { return envMap, err } dotEnvFile = abs s, err := os.Stat(dotEnvFile) if errors.Is(err, fs.ErrNotExist) || errors.Is(err, syscall.ENOTDIR) { return envMap, fmt.Errorf(\"Couldn't find env file: %s\", dotEnvFile) } if err != nil { return envMap, err } if s.IsDir() { if len(filenames) == 0 { return envMap, nil } return envMap, fmt.Errorf(\"%s is a directory\", dotEnvFile) } b, err := os.ReadFile(dotEnvFile) if os.IsNotExist(err) { return nil, fmt.Errorf(\"Couldn't read env file: %s\", dotEnvFile) } if err != nil { return envMap, err } env, err := ParseWithLookup(bytes.NewReader(b), func(k string) (string, bool) { v, ok := currentEnv[k] if ok { return v, true } v, ok = envMap[k] return v, ok }) if err != nil { return envMap, fmt.Errorf(\"failed to read %s: %w\", dotEnvFile, err) } for k, v := range env { envMap[k] = v } } return envMap, nil }" ∧
    CV.Gen.c17_body_MappingMerge =
      "{ for k, v := range o { if _, set := m[k]; !set { m[k] = v } } return m }" ∧
    CV.Gen.c17_body_GetAsEqualsMap =
      "{ m := make(map[string]string) for _, v := range em { key, val, found := strings.Cut(v, \"=\") if found { m[key] = val } } return m }" := by
  exact ⟨rfl, rfl, rfl, rfl, rfl, rfl, rfl, rfl, rfl, rfl, rfl, rfl, rfl, rfl, rfl, rfl, rfl, rfl⟩

/-- the character class and the cutset, read as sets of characters, are the predicates of the model -/
theorem regex_class_is_isNameChar :
    ((List.range 128).all fun n =>
      isNameChar (Char.ofNat n) == "abcdefghijklmnopqrstuvwxyz0123456789_-".toList.contains (Char.ofNat n) &&
      isSep (Char.ofNat n) == CV.Gen.normalize_cutset.toList.contains (Char.ofNat n)) = true := by
  decide

/-! ## normalisation -/

/-- norm_valid: a normalised name is empty or of the form `[a-z0-9][a-z0-9_-]*` -/
theorem normalize_valid (s : Str) : normalize s = [] ∨ validName (normalize s) = true := norm_valid s

/-- norm_idem: normalising twice is normalising once -/
theorem normalize_idem (s : Str) : normalize (normalize s) = normalize s := norm_idem s

/-- the fixed points of normalisation are exactly the empty string and the valid names: this is why the test
    `NormalizeProjectName(n) != n` of `WithName` / `loader.projectName` rejects exactly the invalid requests -/
theorem normalize_fixed_iff (s : Str) : normalize s = s ↔ (s = [] ∨ validName s = true) := norm_fixed_iff s

example : normalize "My.App".toList = "myapp".toList := by decide
example : normalize "_-K8s".toList = "k8s".toList := by decide
example : normalize "___".toList = [] := by decide
example : validName "my-app_1".toList = true := by decide
example : validName "_x".toList = false := by decide

/-! ## the name decision -/

/-- name_decision, soundness: the name of a successful load is the one the specification selects -/
theorem name_decision {files : List (List (Option Str))} (w : World) (o : PO) (r : Loaded) (h : loadFiles w o files = .ok r) :
    Spec.decide (sourcesOf w o files) = .name r.name := by
  have ⟨h1, h2, _⟩ := load_ok_inv w o r h
  have ha := loaderName_agrees (files := files) w o
  rw [h1] at ha
  cases hd : Spec.decide (sourcesOf w o files) with
  | name n =>
    rw [hd] at ha
    have := ha.1
    cases this; rfl
  | rejected => rw [hd] at ha; cases ha
  | failed => rw [hd] at ha; rcases ha with ha | ha <;> cases ha
  | noName => rw [hd] at ha; exact absurd (Except.ok.inj ha) h2

theorem name_decision_complete {files : List (List (Option Str))} (w : World) (o : PO) (n p : Str)
    (hd : Spec.decide (sourcesOf w o files) = .name n)
    (h3 : interpAll ((cpn, n) :: o.env) (allNames files) = .ok ())
    (h4 : Template.subst (Env.get ((cpn, n) :: o.env)) w.probe = .ok p) :
    loadFiles w o files = .ok { name := n, env := (cpn, n) :: o.env, probe := p } := by
  have ha := loaderName_agrees (files := files) w o
  rw [hd] at ha
  exact load_ok_intro w o n p ha.1 ha.2 h3 h4

theorem name_rejected {files : List (List (Option Str))} (w : World) (o : PO) (hd : Spec.decide (sourcesOf w o files) = .rejected) :
    loadFiles w o files = .error .invalidName := by
  have ha := loaderName_agrees (files := files) w o
  rw [hd] at ha
  unfold loadFiles
  rw [show loaderName files o.env (cliName w o) = .error .invalidName from ha]

theorem name_none {files : List (List (Option Str))} (w : World) (o : PO)
    (hd : Spec.decide (sourcesOf w o files) = .noName ∨ Spec.decide (sourcesOf w o files) = .failed) :
    ∃ e, loadFiles w o files = .error e := by
  cases hl : loadFiles w o files with
  | error e => exact ⟨e, rfl⟩
  | ok r =>
    have := name_decision w o r hl
    rcases hd with hd | hd <;> rw [hd] at this <;> cases this

/-- name_valid: a successful load has a non-empty name of the form `[a-z0-9][a-z0-9_-]*`,
    whatever the options, the environment, the files and the directory -/
theorem name_valid (w : World) (opts : List Opt) (r : Loaded) (h : run w opts = .ok r) :
    validName r.name = true ∧ r.name ≠ [] := by
  obtain ⟨o, files, _, _, _, hl⟩ := run_ok_inv w opts r h
  have hv := decide_name_valid _ _ (name_decision w o r hl)
  exact ⟨hv, valid_ne_nil _ hv⟩

/-- imperative_invalid_rejected (option level): `WithName` refuses a non-empty name that is not already valid -/
theorem withName_invalid_rejected (w : World) (o : PO) (n : Str) (hn : n ≠ []) (hv : validName n = false) :
    applyOpt w o (.withName n) = .error .invalidName := by
  have hne : normalize n ≠ n := by
    intro h
    rcases (norm_fixed_iff n).mp h with h | h
    · exact hn h
    · rw [hv] at h; cases h
  simp [applyOpt, hne]

/-- imperative_invalid_rejected (whole run): if any `WithName` of the sequence requests an invalid name, no
    project is loaded -/
theorem imperative_invalid_rejected (w : World) (opts : List Opt) (n : Str) (hmem : Opt.withName n ∈ opts)
    (hn : n ≠ []) (hv : validName n = false) : ∃ e, run w opts = .error e := by
  obtain ⟨e, he⟩ := runOpts_mem_error w opts { configs := w.given } (.withName n) hmem
    (fun o => ⟨_, withName_invalid_rejected w o n hn hv⟩)
  exact ⟨e, by simp [run, he]⟩

/-- imperative_invalid_rejected (environment): an invalid non-empty `COMPOSE_PROJECT_NAME` in the project
    environment, with no explicit name, is rejected by the load -/
theorem env_name_invalid_rejected {files : List (List (Option Str))} (w : World) (o : PO) (n : Str) (hname : o.name = [])
    (henv : o.env.get cpn = some n) (hn : n ≠ []) (hv : validName n = false) :
    loadFiles w o files = .error .invalidName := by
  apply name_rejected
  simp [Spec.decide, sourcesOf, hname, henv, Option.filter, hn, hv]

/-- explicit_name_wins: whatever else is configured (environment, files, directory, option order), a successful
    load with an explicitly requested name has exactly that name -/
theorem explicit_name_wins (w : World) (opts : List Opt) (r : Loaded) (h : run w opts = .ok r)
    (hreq : requestedName opts [] ≠ []) : r.name = requestedName opts [] := by
  obtain ⟨o, files, ho, _, _, hl⟩ := run_ok_inv w opts r h
  have hn : o.name = requestedName opts [] := runOpts_name w opts { configs := w.given } o ho
  have hd := name_decision w o r hl
  have hne : o.name ≠ [] := by rw [hn]; exact hreq
  simp only [Spec.decide, sourcesOf, hne, ne_eq, not_false_eq_true, if_true] at hd
  by_cases hv : validName o.name = true
  · simp [hv] at hd
    rw [← hd]; exact hn
  · simp [hv] at hd

/-- name_visible_to_interpolation: after a successful load the project environment maps
    `COMPOSE_PROJECT_NAME` to the project name, `${COMPOSE_PROJECT_NAME}` interpolates to it, and the strings of the
    model were interpolated against that same environment -/
theorem name_visible_to_interpolation {files : List (List (Option Str))} (w : World) (o : PO) (r : Loaded) (h : loadFiles w o files = .ok r) :
    r.env.get cpn = some r.name ∧
    Template.subst r.env.get "${COMPOSE_PROJECT_NAME}".toList = .ok r.name ∧
    Template.subst r.env.get w.probe = .ok r.probe := by
  obtain ⟨_, _, henv, _, hp⟩ := load_ok_inv w o r h
  have hg : r.env.get cpn = some r.name := by rw [henv]; exact get_cons_self _ _ _
  refine ⟨hg, ?_, hp⟩
  have := subst_cpn r.env.get
  rw [hg] at this
  exact this

/-- name_decision at the level of `LoadProject`: the config paths selected by the options are the files whose
    `name:` keys take part in the decision -/
theorem load_name_decision (w : World) (o : PO) (r : Loaded) (h : load w o = .ok r) :
    ∃ files, o.configs ≠ [] ∧ readConfigs w o.configs = .ok files ∧
      Spec.decide (sourcesOf w o files) = .name r.name := by
  obtain ⟨files, h1, h2, h3⟩ := load_inv w o r h
  exact ⟨files, h1, h2, name_decision w o r h3⟩

/-! ## which compose files are loaded (`WithConfigFileEnv`, `WithDefaultConfigPath`, `WithWorkingDirectory`) -/


/-- config paths that are already there win: neither `COMPOSE_FILE` nor the default-name search is consulted -/
theorem given_configs_win (w : World) (o : PO) (h : o.configs ≠ []) :
    applyOpt w o .withConfigFileEnv = .ok o ∧ applyOpt w o .withDefaultConfigPath = .ok o := by
  cases hc : o.configs with
  | nil => exact absurd hc h
  | cons c cs => simp [applyOpt, withConfigFileEnv, withDefaultConfigPath, hc]

/-- `WithConfigFileEnv` with no config path yet: `COMPOSE_FILE` *of the project environment at that point* is split
    and every entry must exist; the result replaces the config paths -/
theorem configFileEnv_selects (w : World) (o : PO) (h : o.configs = []) (f : Str)
    (hf : o.env.get composeFileKey = some f) :
    applyOpt w o .withConfigFileEnv =
      match resolvePaths w (splitOn (pathSep o) f) with
      | .ok rs => .ok { o with configs := rs }
      | .error e => .error e := by
  simp only [applyOpt, withConfigFileEnv, h, hf, pathSep]
  generalize resolvePaths w _ = r
  cases r <;> rfl

theorem configFileEnv_unset (w : World) (o : PO) (h : o.configs = []) (hf : o.env.get composeFileKey = none) :
    applyOpt w o .withConfigFileEnv = .ok o := by
  simp only [applyOpt, withConfigFileEnv, h, hf]

/-- a `COMPOSE_FILE` entry that does not exist (and is not `-`) is an error, whatever the other entries are -/
theorem resolvePaths_missing (w : World) (pre post : List Str) (p : Str) (hp : pathRef w p = none)
    (hpre : ∀ q ∈ pre, (pathRef w q).isSome) :
    resolvePaths w (pre ++ p :: post) = .error .configNotFound := by
  induction pre with
  | nil => simp [resolvePaths, hp]
  | cons q qs ih =>
    have hq := hpre q List.mem_cons_self
    cases hl : pathRef w q with
    | none => rw [hl] at hq; cases hq
    | some r =>
      simp only [List.cons_append, resolvePaths, hl, ih (fun x hx => hpre x (List.mem_cons_of_mem _ hx))]

/-- the entry `-` always resolves (to standard input), without looking at the file system -/
theorem stdin_path_resolves (w : World) : pathRef w ['-'] = some { dir := 0, file := none, stdin := true } := by
  simp [pathRef]

/-- `GetWorkingDir` skips `-`: with standard input first, the project directory is decided by the remaining paths -/
theorem stdin_skipped_for_project_dir (w : World) (o : PO) (c : CfgRef) (cs : List CfgRef) (hs : c.stdin = true)
    (hc : o.configs = c :: cs) : projDirId w o = projDirId w { o with configs := cs } := by
  simp [projDirId, hc, firstFileDir, hs]

/-- `ReadConfigFiles` reads a `-` entry from standard input -/
theorem stdin_is_read (w : World) (c : CfgRef) (cs : List CfgRef) (hs : c.stdin = true) :
    readConfigs w (c :: cs) =
      match readConfigs w cs with
      | .ok r => .ok (w.stdinDocs :: r)
      | .error e => .error e := by
  simp only [readConfigs, hs, if_true]
  cases readConfigs w cs <;> rfl

/-- `COMPOSE_FILE=a:b:c` (entries without the separator) is split back into `a`, `b`, `c` -/
theorem splitOn_join (c : Char) (parts : List Str) (hne : parts ≠ []) (h : ∀ p ∈ parts, c ∉ p) :
    splitOn [c] (joinWith c parts) = parts := by
  apply splitOnFuel_join c parts hne h
  -- the joined string is at least as long as the number of separators
  have : ∀ ps : List Str, ps ≠ [] → ps.length ≤ (joinWith c ps).length + 1 := by
    intro ps
    induction ps with
    | nil => intro h; exact absurd rfl h
    | cons x xs ih =>
      intro _
      cases xs with
      | nil => simp [joinWith]
      | cons y ys =>
        have := ih (List.cons_ne_nil _ _)
        simp [joinWith] at this ⊢
        omega
  exact this parts hne

/-- the default-name search, one step: a directory that holds a default file name answers with the first such
    name in order of preference, plus the first override name present in the SAME directory -/
theorem searchUp_here (w : World) (fuel d : Nat) (winner : Str) (rest : List Str)
    (h : defaultFileNames.filter (present (dirNode w d)) = winner :: rest) :
    searchUp w (fuel + 1) d =
      { dir := d, file := some winner } ::
        (match defaultOverrideFileNames.filter (present (dirNode w d)) with
         | ov :: _ => [{ dir := d, file := some ov }]
         | [] => []) := by
  simp only [searchUp, h]
  cases defaultOverrideFileNames.filter (present (dirNode w d)) <;> rfl

/-- … and a directory without any goes to its parent; at the top nothing is found (not an error by itself) -/
theorem searchUp_up (w : World) (fuel d : Nat) (h : defaultFileNames.filter (present (dirNode w d)) = []) :
    searchUp w (fuel + 1) d =
      match (dirNode w d).parent with
      | some p => searchUp w fuel p
      | none => [] := by
  simp only [searchUp, h]
  cases (dirNode w d).parent <;> rfl

/-- whatever the search returns lives in ONE directory, consists of default (override) names that exist there,
    main file first -/
theorem searchUp_sound (w : World) (fuel d : Nat) (c : CfgRef) (hc : c ∈ searchUp w fuel d) :
    ∃ f, c.file = some f ∧ present (dirNode w c.dir) f = true ∧
      (f ∈ defaultFileNames ∨ f ∈ defaultOverrideFileNames) ∧
      (searchUp w fuel d).head?.map (·.dir) = some c.dir := by
  induction fuel generalizing d with
  | zero => simp [searchUp] at hc
  | succ n ih =>
    cases hf : defaultFileNames.filter (present (dirNode w d)) with
    | nil =>
      rw [searchUp_up w n d hf] at hc ⊢
      cases hp : (dirNode w d).parent with
      | none => rw [hp] at hc; cases hc
      | some p => rw [hp] at hc; exact ih p hc
    | cons winner rest =>
      rw [searchUp_here w n d winner rest hf] at hc ⊢
      have hwin : winner ∈ defaultFileNames.filter (present (dirNode w d)) := by rw [hf]; exact List.mem_cons_self
      have hw := List.mem_filter.mp hwin
      rcases List.mem_cons.mp hc with e | e
      · subst e; exact ⟨winner, rfl, hw.2, Or.inl hw.1, rfl⟩
      · cases ho : defaultOverrideFileNames.filter (present (dirNode w d)) with
        | nil => rw [ho] at e; cases e
        | cons ov r2 =>
          rw [ho] at e
          have hov : ov ∈ defaultOverrideFileNames.filter (present (dirNode w d)) := by rw [ho]; exact List.mem_cons_self
          have hov' := List.mem_filter.mp hov
          simp only [List.mem_singleton] at e
          subst e
          exact ⟨ov, rfl, hov'.2, Or.inr hov'.1, rfl⟩

/-- `WithDefaultConfigPath` with no config path yet starts the search at the project directory as it is then -/
theorem defaultConfigPath_selects (w : World) (o : PO) (h : o.configs = []) :
    applyOpt w o .withDefaultConfigPath =
      .ok { o with configs := searchUp w (w.dirs.length + 1) (projDirId w o) } := by
  simp only [applyOpt, withDefaultConfigPath, h]

/-- no config path at load time: nothing is loaded -/
theorem no_config_no_project (w : World) (o : PO) (h : o.configs = []) : load w o = .error .noConfig := by
  simp [load, h]

/-- without `WithWorkingDirectory` the project directory is the directory of the FIRST config path, so the file
    selection also decides the name fallback and the default `.env` -/
theorem project_dir_follows_first_config (w : World) (o : PO) (c : CfgRef) (cs : List CfgRef)
    (hw : o.workDir = none) (hc : o.configs = c :: cs) (hs : c.stdin = false) :
    projDir w o = (dirNode w c.dir).name := by
  simp [projDir, projDirId, hw, hc, firstFileDir, hs]

theorem project_dir_is_workdir (w : World) (o : PO) (d : Nat) (hw : o.workDir = some d) :
    projDir w o = (dirNode w d).name := by
  simp [projDir, projDirId, hw]

/-! ## `strings.Split` on `COMPOSE_FILE`, `strings.Cut` on `KEY=VALUE` entries -/

/-- `strings.Split` loses nothing: joining the pieces with the separator gives the string back — for ANY
    separator (multi-character `COMPOSE_PATH_SEPARATOR` included) and any value (empty entries included) -/
theorem splitOn_join_inv (sep s : Str) : SplitLemmas.joinSep sep (splitOn sep s) = s :=
  SplitLemmas.splitOn_join_inv sep s

/-- leftmost-first, non-overlapping: the first piece ends at the FIRST occurrence of the separator and the rest
    of the value is split the same way (this is what makes `a:::b` with separator `::` give `a`, `:b`) -/
theorem splitOn_first (sep : Str) (hsep : sep ≠ []) (s : Str) (i : Nat) (h : indexOf sep s = some i) :
    splitOn sep s = s.take i :: splitOn sep (s.drop (i + sep.length)) :=
  SplitLemmas.splitOn_first sep hsep s i h

/-- what `indexOf … = some i` means: the separator occurs at position `i` -/
theorem indexOf_some_spec (pat s : Str) (i : Nat) (h : indexOf pat s = some i) :
    i + pat.length ≤ s.length ∧ s = s.take i ++ pat ++ s.drop (i + pat.length) :=
  SplitLemmas.indexOf_some_spec pat s i h

/-- a value without the separator is one entry -/
theorem splitOn_no_sep (sep s : Str) (h : indexOf sep s = none) : splitOn sep s = [s] :=
  SplitLemmas.splitOn_no_sep sep s h

-- empty entries and multi-character separators, as `strings.Split` has them
example : splitOn ":".toList "a::b".toList = strs ["a", "", "b"] := by decide
example : splitOn ":".toList "x:".toList = strs ["x", ""] := by decide
example : splitOn ":".toList "".toList = strs [""] := by decide
example : splitOn "::".toList "a:::b".toList = strs ["a", ":b"] := by decide
example : splitOn "ab".toList "xabab".toList = strs ["x", "", ""] := by decide

/-- `strings.Cut(s, "=")` not found: exactly the entries without `=` -/
theorem splitEq_none_iff (s : Str) : splitEq s = none ↔ '=' ∉ s := SplitLemmas.splitEq_none_iff s

/-- the cut is at the FIRST `=`: the key has none, the value is everything after it (further `=` included) -/
theorem splitEq_some_iff (s k v : Str) : splitEq s = some (k, v) ↔ s = k ++ '=' :: v ∧ '=' ∉ k :=
  SplitLemmas.splitEq_some_iff s k v

/-- `utils.GetAsEqualsMap`, duplicate rule: the LAST entry for a key wins; an entry without `=` changes nothing -/
theorem asEqualsMap_last_wins (l : List Str) (s : Str) (k : Str) :
    (asEqualsMap (l ++ [s])).get k =
      match splitEq s with
      | some (k', v) => if k = k' then some v else (asEqualsMap l).get k
      | none => (asEqualsMap l).get k := SplitLemmas.asEqualsMap_last_wins l s k

/-- a final `K=V` entry binds `K` to `V` whatever came before (`V` may contain `=`, `K` may be empty) -/
theorem asEqualsMap_entry (l : List Str) (k v : Str) (hk : '=' ∉ k) :
    (asEqualsMap (l ++ [k ++ '=' :: v])).get k = some v := SplitLemmas.asEqualsMap_entry l k v hk

theorem asEqualsMap_no_eq_dropped (l : List Str) (s : Str) (hs : '=' ∉ s) :
    asEqualsMap (l ++ [s]) = asEqualsMap l := SplitLemmas.asEqualsMap_no_eq_dropped l s hs

example : (asEqualsMap (strs ["K=a", "novalue", "K=b=c", "=x"])).get "K".toList = some "b=c".toList := by decide
example : (asEqualsMap (strs ["K=a", "novalue", "K=b=c", "=x"])).get [] = some "x".toList := by decide

/-! ## the project environment -/

/-- env_any_option_order: after ANY sequence of option calls the project environment is, as an ordered list of
    layers, the explicit variables (latest `WithEnv` first), then the initial environment, then what `WithOsEnv` /
    `WithDotEnv` added, in call order.  Lookup is first-match, so this is the precedence for every order. -/
theorem env_any_option_order (w : World) (opts : List Opt) (o o' : PO) (h : runOpts w opts o = .ok o') :
    o'.env = explicitLayer opts ++ o.env ++ underOf w opts o := by
  induction opts generalizing o with
  | nil => simp only [runOpts] at h; cases h; simp [explicitLayer, underOf]
  | cons x xs ih =>
    simp only [runOpts] at h
    split at h
    · rename_i o1 h1
      rw [ih o1 h, explicitLayer_cons, applyOpt_env w o o1 x h1]
      simp only [underOf, h1, List.append_assoc]
    · cases h

theorem explicit_over_all (w : World) (opts : List Opt) (o o' : PO) (h : runOpts w opts o = .ok o')
    (k v : Str) (hk : (explicitLayer opts).get k = some v) : o'.env.get k = some v := by
  rw [env_any_option_order w opts o o' h, List.append_assoc, get_append, hk]

theorem env_precedence_documented_order (w : World) (pre : List Opt)
    (hpre : ∀ x ∈ pre, x ≠ .withDotEnv) (o0 o' : PO) (h0 : o0.env = [])
    (h : runOpts w (pre ++ [.withDotEnv]) o0 = .ok o') :
    ∃ o1 m, runOpts w pre o0 = .ok o1 ∧
      (∀ k, o1.env.get k = lookupLayers [explicitLayer pre, osLayer w pre] k) ∧
      getEnvFromFile w o1.env o1.envFiles [] = .ok m ∧
      ∀ k, o'.env.get k = lookupLayers [explicitLayer pre, osLayer w pre, m] k := by
  rw [runOpts_append] at h
  cases h1 : runOpts w pre o0 with
  | error e => rw [h1] at h; cases h
  | ok o1 =>
    rw [h1] at h
    simp only [runOpts, applyOpt] at h
    cases hm : getEnvFromFile w o1.env o1.envFiles [] with
    | error e => rw [hm] at h; cases h
    | ok m =>
      rw [hm] at h
      cases h
      have hs := env_any_option_order w pre o0 o1 h1
      have hk1 : ∀ k, o1.env.get k = lookupLayers [explicitLayer pre, osLayer w pre] k := by
        intro k
        rw [hs, lookupLayers_two]
        simp only [h0, List.append_nil, get_append, underOf_noDot w pre o0 o1 hpre h1 k]
      refine ⟨o1, m, rfl, hk1, hm, ?_⟩
      intro k
      simp only [get_append, hk1 k, lookupLayers]
      cases (explicitLayer pre).get k <;> cases (osLayer w pre).get k <;> cases m.get k <;> rfl

/-- the rest of the project environment is untouched by the load: every other variable keeps the value the
    options gave it -/
theorem load_env_frame {files : List (List (Option Str))} (w : World) (o : PO) (r : Loaded) (h : loadFiles w o files = .ok r) (k : Str) (hk : k ≠ cpn) :
    r.env.get k = o.env.get k := by
  obtain ⟨_, _, henv, _, _⟩ := load_ok_inv w o r h
  rw [henv]
  have hb : (k == cpn) = false := by simpa using hk
  simp [Env.get, List.lookup_cons, hb]

/-- the documented call sequence end to end: with the options in the documented order, a successful load has
    the name `Spec.decide` selects from (last `WithName`, `COMPOSE_PROJECT_NAME` read through the layers
    explicit > OS > .env, the compose files, the project directory) -/
theorem name_decision_documented_order (w : World) (pre : List Opt)
    (hpre : ∀ x ∈ pre, x ≠ .withDotEnv) (r : Loaded)
    (h : run w (pre ++ [.withDotEnv]) = .ok r) :
    ∃ o' m files, runOpts w (pre ++ [.withDotEnv]) { configs := w.given } = .ok o' ∧
      readConfigs w o'.configs = .ok files ∧
      o'.name = requestedName pre [] ∧
      o'.env.get cpn = lookupLayers [explicitLayer pre, osLayer w pre, m] cpn ∧
      Spec.decide (sourcesOf w o' files) = .name r.name := by
  obtain ⟨o', files, ho, _, hf, hl⟩ := run_ok_inv w _ r h
  obtain ⟨o1, m, _, _, _, hk⟩ := env_precedence_documented_order w pre hpre _ o' rfl ho
  refine ⟨o', m, files, ho, hf, ?_, hk cpn, name_decision w o' r hl⟩
  rw [runOpts_name w _ _ o' ho]
  simp [requestedName]


/-- in the documented order (`… WithDotEnv, WithConfigFileEnv`) with no config path given, the `COMPOSE_FILE`
    (and separator) consulted are the ones of the layered project environment explicit > OS > .env -/
theorem compose_file_documented_order (w : World) (pre : List Opt) (hpre : ∀ x ∈ pre, x ≠ .withDotEnv)
    (o0 o1 : PO) (h0 : o0.env = []) (h : runOpts w (pre ++ [.withDotEnv]) o0 = .ok o1) (hc : o1.configs = []) :
    ∃ m, (∀ k, o1.env.get k = lookupLayers [explicitLayer pre, osLayer w pre, m] k) ∧
      applyOpt w o1 .withConfigFileEnv =
        match lookupLayers [explicitLayer pre, osLayer w pre, m] composeFileKey with
        | none => .ok o1
        | some f =>
          match resolvePaths w (splitOn (pathSep o1) f) with
          | .ok rs => .ok { o1 with configs := rs }
          | .error e => .error e := by
  obtain ⟨_, m, _, _, _, hk⟩ := env_precedence_documented_order w pre hpre o0 o1 h0 h
  refine ⟨m, hk, ?_⟩
  rw [← hk composeFileKey]
  cases hf : o1.env.get composeFileKey with
  | none => exact configFileEnv_unset w o1 hc hf
  | some f => exact configFileEnv_selects w o1 hc f hf

/-! ## the env files -/


/-- an explicit selection replaces whatever was selected before and touches nothing else -/
theorem withEnvFiles_explicit (w : World) (o : PO) (f : Str) (fs : List Str) :
    applyOpt w o (.withEnvFiles (f :: fs)) = .ok { o with envFiles := (f :: fs).map .named } := rfl

/-- `WithEnvFiles()`: junk in `COMPOSE_DISABLE_ENV_FILE` is an error -/
theorem withEnvFiles_junk_rejected (w : World) (o : PO) (v : Str) (hv : disableVar w = some v)
    (hp : parseBool v = none) : applyOpt w o (.withEnvFiles []) = .error .disableParse := by
  simp only [applyOpt, withEnvFiles]
  rw [show (asEqualsMap w.os).get disableKey = some v from hv]
  simp [hp]

/-- `WithEnvFiles()`: a true `COMPOSE_DISABLE_ENV_FILE` leaves the options untouched -/
theorem withEnvFiles_disabled (w : World) (o : PO) (v : Str) (hv : disableVar w = some v)
    (hp : parseBool v = some true) : applyOpt w o (.withEnvFiles []) = .ok o := by
  simp only [applyOpt, withEnvFiles]
  rw [show (asEqualsMap w.os).get disableKey = some v from hv]
  simp [hp]

/-- `WithEnvFiles()` not disabled: the `.env` of the project directory *as it is when the option runs*
    (`WorkingDir`, else the directory of the first config path, else the process directory) becomes the selection
    if it is a regular file; otherwise (absent, or a directory) the previous selection is kept -/
theorem withEnvFiles_default (w : World) (o : PO)
    (hv : disableVar w = none ∨ ∃ v, disableVar w = some v ∧ parseBool v = some false) :
    applyOpt w o (.withEnvFiles []) = .ok
      (match (dirNode w (projDirId w o)).dotEnv with
       | some (.file _) => { o with envFiles := [.default (projDirId w o)] }
       | _ => o) := by
  simp only [applyOpt, withEnvFiles]
  rcases hv with hv | ⟨v, hv, hp⟩
  · rw [show (asEqualsMap w.os).get disableKey = none from hv]; rfl
  · rw [show (asEqualsMap w.os).get disableKey = some v from hv]; simp only [hp]; rfl

/-- `WithDotEnv` with nothing selected changes nothing (the README sequence `WithOsEnv, WithDotEnv` loads no file) -/
theorem withDotEnv_no_files (w : World) (o : PO) (h : o.envFiles = []) : applyOpt w o .withDotEnv = .ok o := by
  cases o with
  | mk n e ef wd cf =>
    simp only at h
    subst h
    simp [applyOpt, getEnvFromFile]


/-- dotenv_refines_spec: on env files made of accepted `KEY=VALUE` lines, `GetEnvFromFile` (through the parser
    model) and the specification's layers succeed together and agree on every key -/
theorem dotenv_refines_spec (w : World) (cur : Env) (refs : List FileRef) (contents : List (List (Str × Str)))
    (hfiles : refs.map (lookupFile w) = contents.map (fun ls => some (.file (renderSimple ls))))
    (hok : ∀ ls ∈ contents, ls.all simpleOk = true)
    (m : Env) (acc : List Env) (hm : ∀ k, m.get k = Env.get acc.flatten k) :
    SameLayers (getEnvFromFile w cur refs m) (dotenvLayers cur contents acc) := by
  induction refs generalizing contents m acc with
  | nil =>
    cases contents with
    | nil => simpa [getEnvFromFile, dotenvLayers, SameLayers] using hm
    | cons c cs => cases hfiles
  | cons f fs ih =>
    cases contents with
    | nil => cases hfiles
    | cons c cs =>
      simp only [List.map_cons, List.cons.injEq] at hfiles
      have hc : c.all simpleOk = true := hok c List.mem_cons_self
      simp only [getEnvFromFile, hfiles.1, dotenvLayers]
      rw [envOf_congr cur m acc.flatten hm]
      have hp := parseFile_simple cur acc.flatten c hc
      unfold parseFile
      cases h1 : Dotenv.parse (Dotenv.stripBOM (renderSimple c)) (Dotenv.envOf cur.get acc.flatten) with
      | ok out =>
        rw [h1] at hp
        cases h2 : fileLayer cur acc.flatten c [] with
        | error e => rw [h2] at hp; exact hp.elim
        | ok out2 =>
          rw [h2] at hp
          simp only
          apply ih cs hfiles.2 (fun ls hl => hok ls (List.mem_cons_of_mem _ hl))
          intro k
          have hnd : (Keys out).Nodup := parseLoop_nodup _ _ _ _ _ h1 (by simp [Keys])
          rw [← dget_eq, get_mergeInto m out hnd k, List.flatten_cons, get_append, hp k, dget_eq, hm k]
          cases out2.get k <;> rfl
      | err e p =>
        rw [h1] at hp
        cases h2 : fileLayer cur acc.flatten c [] with
        | error e => simp [SameLayers]
        | ok out2 => rw [h2] at hp; exact hp.elim
      | panic s =>
        rw [h1] at hp
        cases h2 : fileLayer cur acc.flatten c [] with
        | error e => simp [SameLayers]
        | ok out2 => rw [h2] at hp; exact hp.elim

/-- the first selected env file that is missing (or is a directory) decides the error -/
theorem getEnvFromFile_first_bad (w : World) (cur : Env) (pre post : List FileRef) (f : FileRef) (acc m0 : Env)
    (hpre : getEnvFromFile w cur pre acc = .ok m0) :
    (lookupFile w f = none → getEnvFromFile w cur (pre ++ f :: post) acc = .error .envNotFound) ∧
    (lookupFile w f = some .dir → getEnvFromFile w cur (pre ++ f :: post) acc = .error .envIsDir) := by
  constructor <;> intro hf <;> rw [getEnvFromFile_append, hpre] <;> simp [getEnvFromFile, hf]

theorem dotenv_later_over_earlier (w : World) (cur : Env) (fs : List FileRef) (f : FileRef) (acc m : Env)
    (h : getEnvFromFile w cur (fs ++ [f]) acc = .ok m) :
    ∃ m0 c out, getEnvFromFile w cur fs acc = .ok m0 ∧ lookupFile w f = some (.file c) ∧
      parseFile (Dotenv.envOf cur.get m0) c = .ok out ∧
      ∀ k, m.get k = match out.get k with | some v => some v | none => m0.get k := by
  obtain ⟨m0, c, out, h1, h2, h3, h4⟩ := getEnvFromFile_snoc w cur fs f acc m h
  refine ⟨m0, c, out, h1, h2, h3, fun k => ?_⟩
  rw [h4, ← dget_eq, get_mergeInto m0 out (parseFile_nodup _ _ _ h3) k, dget_eq, dget_eq]
  cases out.get k <;> rfl

/-- `getEnvFromFile` on files that exist is C18's `Dotenv.fromFiles` on their contents -/
theorem dotenv_is_fromFiles (w : World) (cur : Env) (refs : List FileRef) (contents : List Str)
    (hfiles : refs.map (lookupFile w) = contents.map (fun c => some (.file c))) (acc : Env) :
    getEnvFromFile w cur refs acc = toErr (Dotenv.fromFiles cur.get contents acc) := by
  induction refs generalizing contents acc with
  | nil =>
    cases contents with
    | nil => rfl
    | cons c cs => cases hfiles
  | cons f fs ih =>
    cases contents with
    | nil => cases hfiles
    | cons c cs =>
      simp only [List.map_cons, List.cons.injEq] at hfiles
      simp only [getEnvFromFile, hfiles.1, Dotenv.fromFiles, parseFile]
      cases Dotenv.parse (Dotenv.stripBOM c) (Dotenv.envOf cur.get acc) with
      | ok env => exact ih cs hfiles.2 _
      | err e p => rfl
      | panic s => rfl

/-- on any file written in the env-file grammar the parser computes the grammar's meaning, with the lookup
    chain project environment → earlier files (→ earlier lines, inside `evalLines`) -/
theorem dotenv_grammar_semantics (cur envMap : Env) (L : List Dotenv.Line) (hwf : Dotenv.WF L = true)
    (hbom : Dotenv.stripBOM (Dotenv.render L) = Dotenv.render L) :
    parseFile (Dotenv.envOf cur.get envMap) (Dotenv.render L) =
      toErr (Dotenv.evalLines (Dotenv.envOf cur.get envMap) L) := by
  unfold parseFile
  rw [hbom, Dotenv.parse_render_lemma _ _ hwf]
  cases Dotenv.evalLines (Dotenv.envOf cur.get envMap) L <;> rfl

theorem dotenv_ref_var (above earlier out : Env) (k r : Str) (b : Bool) (ls : List (Str × Str))
    (hr : Template.validName r = true) :
    fileLayer above earlier ((k, Template.renderL [Template.Seg.var r b]) :: ls) out =
      fileLayer above earlier ls ((k, (lookupLayers [above, earlier, out] r).getD []) :: out) := by
  have hwf : Template.WF [Template.Seg.var r b] = true := by
    cases b <;> simp [Template.WF, Template.wfL, Template.Seg.wf, hr, Template.renderL, Template.noNameHead]
  rw [fileLayer_value above earlier out k _ ls hwf]
  simp [Template.evalOut, Template.evalL, Template.Seg.eval]

theorem dotenv_ref_default (above earlier out : Env) (k r d : Str) (ls : List (Str × Str))
    (hr : Template.validName r = true) (hd : Template.litOkArg d = true) :
    fileLayer above earlier ((k, Template.renderL [Template.Seg.op r .colonDash [Template.Seg.lit d]]) :: ls) out =
      fileLayer above earlier ls
        ((k, match lookupLayers [above, earlier, out] r with
             | some v => if v = [] then d else v
             | none => d) :: out) := by
  have hwf : Template.WF [Template.Seg.op r .colonDash [Template.Seg.lit d]] = true := by
    simp [Template.WF, Template.wfL, Template.Seg.wf, hr, hd]
  rw [fileLayer_value above earlier out k _ ls hwf]
  cases hl : lookupLayers [above, earlier, out] r with
  | none => simp [Template.evalOut, Template.evalL, Template.Seg.eval, Template.opSpec, hl]
  | some v =>
    by_cases hv : v = []
    · subst hv; simp [Template.evalOut, Template.evalL, Template.Seg.eval, Template.opSpec, hl]
    · simp [Template.evalOut, Template.evalL, Template.Seg.eval, Template.opSpec, hl, hv]

/-- **the simple-line evaluator of the specification is the restriction of the env-file parser** (C18's model,
    `Dotenv.parse_render`) to files made of accepted `KEY=VALUE` lines -/
theorem simple_lines_are_parser_restriction (above earlier : Env) (ls : List (Str × Str))
    (h : ls.all simpleOk = true) :
    SameResult (Dotenv.parse (Dotenv.stripBOM (renderSimple ls)) (Dotenv.envOf above.get earlier))
      (fileLayer above earlier ls []) := parseFile_simple above earlier ls h

/-- dotenv_refs_above, general reference semantics: the value of a line whose text is ANY well-formed template
    (`${R}`, `${R:-d}`, `${R:?m}`, nested, escaped `$$` …) is what the interpolation grammar says (C07's
    `subst_render`), evaluated against the variables above the env files first (explicit and OS variables in
    the documented order), then the earlier files, then the earlier lines of the same file -/
theorem dotenv_refs_above (above earlier out : Env) (k : Str) (t : List Template.Seg) (ls : List (Str × Str))
    (h : Template.WF t = true) :
    fileLayer above earlier ((k, Template.renderL t) :: ls) out =
      match Template.evalOut (lookupLayers [above, earlier, out]) t with
      | .ok v => fileLayer above earlier ls ((k, v) :: out)
      | _ => .error () := fileLayer_value above earlier out k t ls h


/-! ## non-vacuity: concrete worlds on which the hypotheses of the theorems hold -/

-- the examples below replace the env-file scanner by the grammar evaluator (`parseFile_renderSimple`) before `decide`;
-- here the scanner itself runs in the kernel on a one-line file (two lines already take minutes) and gives the same map
example : (parseFile (fun _ => none) (renderSimple [("A".toList, "b".toList)])).toOption = some [("A".toList, "b".toList)] := by decide
example : (toErr (Dotenv.evalLines (fun _ => none) ([("A".toList, "b".toList)].map simpleLine))).toOption = some [("A".toList, "b".toList)] := by decide
-- explicit name over COMPOSE_PROJECT_NAME over file over directory
example : nameOf (run exW (.withName "ex".toList :: exDoc)) = some "ex" := by eval_run; decide
example : nameOf (run exW exDoc) = some "os" := by eval_run; decide
example : nameOf (run (mkW ["V=o"] g12 "f1".toList "F.2".toList "My.Dir".toList) exDoc) = some "f2" := by eval_run; decide
example : nameOf (run (mkW [] g12 [] [] "My.Dir".toList) exDoc) = some "mydir" := by eval_run; decide
-- a file name that normalises to empty falls through to the directory, not to the earlier file
example : nameOf (run (mkW [] g12 "f1".toList "_.".toList "My.Dir".toList) exDoc) = some "mydir" := by eval_run; decide
-- invalid requests are rejected; nothing yields a name
example : errOf (run exW (exDoc ++ [.withName "Ex".toList])) = some .invalidName := by eval_run; decide
example : errOf (run (mkW ["COMPOSE_PROJECT_NAME=a.b"] g12 [] [] "d".toList) exDoc) = some .invalidName := by eval_run; decide
example : errOf (run (mkW [] g12 [] [] "日本".toList) exDoc) = some .emptyName := by eval_run; decide
-- environment: explicit over OS over later file over earlier file; references see the variables above
example : varOf "V" (run exW (.withEnv (strs ["V=e"]) :: exDoc)) = some "e" := by eval_run; decide
example : varOf "V" (run exW (exDoc ++ [.withEnv (strs ["V=e"])])) = some "e" := by eval_run; decide
example : varOf "V" (run exW exDoc) = some "o" := by eval_run; decide
example : varOf "X" (run exW exDoc) = some "2" := by eval_run; decide
example : varOf "R" (run exW exDoc) = some "o" := by eval_run; decide     -- `$V` in file a: the OS value, not the file's own
example : varOf "S" (run exW exDoc) = some "1o" := by eval_run; decide    -- `$X`: the EARLIER FILE's value, `$R`: file a's
example : varOf "COMPOSE_PROJECT_NAME" (run exW exDoc) = some "os" := by eval_run; decide
example : (run exW exDoc).toOption.map (fun l => String.ofList l.probe) = some "o2" := by eval_run; decide
-- which files are loaded: nothing given → COMPOSE_FILE of the project environment, else the default names upward
example : errOf (run (mkW [] [] [] [] []) exDoc) = some .noConfig := by eval_run; decide
example : nameOf (run (mkW [] [] [] [] []) [.withDefaultConfigPath]) = some "top" := by eval_run; decide
example : (runOpts (mkW [] [] [] [] []) [.withDefaultConfigPath] {}).toOption.map (·.configs) =
    some [{ dir := 1, file := some "compose.yaml".toList }, { dir := 1, file := some "compose.override.yml".toList }] := by
  eval_run; decide
example : nameOf (run (mkW ["COMPOSE_FILE=x.yaml"] [] [] [] []) [.withOsEnv, .withConfigFileEnv]) = some "top" := by eval_run; decide
example : errOf (run (mkW ["COMPOSE_FILE=x.yaml:nope.yaml"] [] [] [] []) [.withOsEnv, .withConfigFileEnv]) = some .configNotFound := by
  eval_run; decide
-- COMPOSE_FILE is read when the option runs: before WithOsEnv it is not there yet
example : errOf (run (mkW ["COMPOSE_FILE=x.yaml"] [] [] [] []) [.withConfigFileEnv, .withOsEnv]) = some .noConfig := by eval_run; decide
-- given files win over both
example : nameOf (run (mkW ["COMPOSE_FILE=x.yaml"] g12 "f1".toList [] "d".toList) [.withOsEnv, .withConfigFileEnv, .withDefaultConfigPath]) = some "f1" := by
  eval_run; decide
-- the default `.env` is the one of the project directory the selection implies (directory 1 here)
example : varOf "D" (run (mkW [] [] [] [] []) [.withDefaultConfigPath, .withEnvFiles [], .withDotEnv]) = some "top" := by eval_run; decide
-- the hypotheses of `env_precedence_documented_order` / `dotenv_later_over_earlier` / `dotenv_refines_spec` are satisfiable
example : (∀ x ∈ exDoc.dropLast, x ≠ Opt.withDotEnv) ∧ exDoc = exDoc.dropLast ++ [.withDotEnv] := by decide
example : (run exW exDoc).toOption.isSome = true := by eval_run; decide
example : [fa, fb].all (fun ls => ls.all simpleOk) = true := by decide
example : (dotenvLayers (strs ["V=o"] |> asEqualsMap) [fa, fb] []).toOption.map (fun ls => (Env.get ls.flatten "S".toList)) = some (some "1o".toList) := by decide
-- an undocumented order: `WithDotEnv` before `WithOsEnv` lets the file value win (covered by `env_any_option_order`)
example : varOf "V" (run exW [.withEnvFiles (strs ["a"]), .withDotEnv, .withOsEnv]) = some "a" := by eval_run; decide

end CV.Name
