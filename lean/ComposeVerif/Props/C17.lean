import ComposeVerif.Lemmas.Name
/-!
# C17 — project name and project environment follow the documented precedence

Property theorems over the models of `Model/Name.lean` (all inputs, no bounds).  The specification
(`Spec/Name.lean`) states the name precedence as the decision function `Spec.decide` and the environment
precedence as first-match lookup through ordered layers.
-/
namespace CV.Name
open CV CV.Name.Spec

/-! ## normalisation -/

/-- normalize_valid: a normalised name is empty or of the form `[a-z0-9][a-z0-9_-]*` -/
theorem normalize_valid' (s : Str) : normalize s = [] ∨ validName (normalize s) = true := normalize_valid s

/-- normalize_idem: normalising twice is normalising once -/
theorem normalize_idem' (s : Str) : normalize (normalize s) = normalize s := normalize_idem s

/-- the fixed points of normalisation are exactly the empty string and the valid names: this is why the test
    `NormalizeProjectName(n) != n` of `WithName` / `loader.projectName` rejects exactly the invalid requests -/
theorem normalize_fixed_iff' (s : Str) : normalize s = s ↔ (s = [] ∨ validName s = true) := normalize_fixed_iff s

example : normalize "My.App".toList = "myapp".toList := by decide
example : normalize "_-K8s".toList = "k8s".toList := by decide
example : normalize "___".toList = [] := by decide
example : validName "my-app_1".toList = true := by decide
example : validName "_x".toList = false := by decide

/-! ## the name decision -/

/-- name_decision, soundness: the name of a successful load is the one the specification selects -/
theorem name_decision (w : World) (o : PO) (r : Loaded) (h : load w o = .ok r) :
    Spec.decide (sourcesOf w o) = .name r.name := by
  have ⟨h1, h2, _⟩ := load_ok_inv w o r h
  have ha := loaderName_agrees w o
  rw [h1] at ha
  cases hd : Spec.decide (sourcesOf w o) with
  | name n =>
    rw [hd] at ha
    have := ha.1
    cases this; rfl
  | rejected => rw [hd] at ha; cases ha
  | failed => rw [hd] at ha; rcases ha with ha | ha <;> cases ha
  | noName => rw [hd] at ha; exact absurd (Except.ok.inj ha) h2

theorem name_decision_complete (w : World) (o : PO) (n p : Str)
    (hd : Spec.decide (sourcesOf w o) = .name n)
    (h3 : interpAll ((cpn, n) :: o.env) (allNames w) = .ok ())
    (h4 : Template.subst (Env.get ((cpn, n) :: o.env)) w.probe = .ok p) :
    load w o = .ok { name := n, env := (cpn, n) :: o.env, probe := p } := by
  have ha := loaderName_agrees w o
  rw [hd] at ha
  exact load_ok_intro w o n p ha.1 ha.2 h3 h4

theorem name_rejected (w : World) (o : PO) (hd : Spec.decide (sourcesOf w o) = .rejected) :
    load w o = .error .invalidName := by
  have ha := loaderName_agrees w o
  rw [hd] at ha
  unfold load
  rw [show loaderName w o.env (cliName w o) = .error .invalidName from ha]

theorem name_none (w : World) (o : PO)
    (hd : Spec.decide (sourcesOf w o) = .noName ∨ Spec.decide (sourcesOf w o) = .failed) :
    ∃ e, load w o = .error e := by
  cases hl : load w o with
  | error e => exact ⟨e, rfl⟩
  | ok r =>
    have := name_decision w o r hl
    rcases hd with hd | hd <;> rw [hd] at this <;> cases this

/-! ## the project environment -/

/-- env_any_option_order: after ANY sequence of option calls the project environment is, as an ordered list of
    layers, the explicit variables (latest `WithEnv` first), then the initial environment, then what `WithOsEnv` /
    `WithDotEnv` added, in call order.  Lookup is first-match, so this is the precedence for every order. -/
theorem env_any_option_order (w : World) (opts : List Opt) (o o' : PO) (h : runOpts w opts o = .ok o') :
    o'.env = explicitLayer opts ++ o.env ++ underOf w opts o := by
  induction opts generalizing o with
  | nil => simp only [runOpts] at h; cases h; simp [explicitLayer, underOf]
  | cons x xs ih =>
    simp only [runOpts] at h
    split at h
    · rename_i o1 h1
      rw [ih o1 h, explicitLayer_cons, applyOpt_env w o o1 x h1]
      simp only [underOf, h1, List.append_assoc]
    · cases h

theorem explicit_over_all (w : World) (opts : List Opt) (o o' : PO) (h : runOpts w opts o = .ok o')
    (k v : Str) (hk : (explicitLayer opts).get k = some v) : o'.env.get k = some v := by
  rw [env_any_option_order w opts o o' h, List.append_assoc, get_append, hk]

theorem env_precedence_documented_order (w : World) (pre : List Opt)
    (hpre : ∀ x ∈ pre, x ≠ .withDotEnv) (o' : PO)
    (h : runOpts w (pre ++ [.withDotEnv]) {} = .ok o') :
    ∃ o1 m, runOpts w pre {} = .ok o1 ∧
      (∀ k, o1.env.get k = lookupLayers [explicitLayer pre, osLayer w pre] k) ∧
      getEnvFromFile w o1.env o1.envFiles [] = .ok m ∧
      ∀ k, o'.env.get k = lookupLayers [explicitLayer pre, osLayer w pre, m] k := by
  rw [runOpts_append] at h
  cases h1 : runOpts w pre {} with
  | error e => rw [h1] at h; cases h
  | ok o1 =>
    rw [h1] at h
    simp only [runOpts, applyOpt] at h
    cases hm : getEnvFromFile w o1.env o1.envFiles [] with
    | error e => rw [hm] at h; cases h
    | ok m =>
      rw [hm] at h
      cases h
      have hs := env_any_option_order w pre {} o1 h1
      have hk1 : ∀ k, o1.env.get k = lookupLayers [explicitLayer pre, osLayer w pre] k := by
        intro k
        rw [hs, lookupLayers_two]
        simp only [List.append_nil, get_append, underOf_noDot w pre {} o1 hpre h1 k]
      refine ⟨o1, m, rfl, hk1, hm, ?_⟩
      intro k
      simp only [get_append, hk1 k, lookupLayers]
      cases (explicitLayer pre).get k <;> cases (osLayer w pre).get k <;> cases m.get k <;> rfl

/-- later `.env` files win over earlier ones -/
theorem dotenv_later_over_earlier (w : World) (cur : Env) (fs : List FileRef) (f : FileRef) (acc m : Env)
    (h : getEnvFromFile w cur (fs ++ [f]) acc = .ok m) :
    ∃ m0 ls out, getEnvFromFile w cur fs acc = .ok m0 ∧ lookupFile w f = some (.file ls) ∧
      parseLines (chain cur m0) ls [] = .ok out ∧
      ∀ k, m.get k = match out.get k with | some v => some v | none => m0.get k := by
  obtain ⟨m0, ls, out, h1, h2, h3, h4⟩ := getEnvFromFile_snoc w cur fs f acc m h
  exact ⟨m0, ls, out, h1, h2, h3, fun k => by rw [h4, get_append]; cases out.get k <;> rfl⟩

/-- a `.env` value is expanded with the variables above it: the project environment so far, then the
    earlier files, then the earlier lines of the same file -/
theorem dotenv_refs_above (cur envMap out : Env) (k t : Str) (ls : List (Str × Str)) :
    parseLines (chain cur envMap) ((k, t) :: ls) out =
      match Template.subst (lookupLayers [cur, envMap, out]) t with
      | .ok v => parseLines (chain cur envMap) ls ((k, v) :: out)
      | .err _ => .error .dotenvParse
      | .panic _ => .error .panic :=
  parseLines_cons cur envMap out k t ls

end CV.Name
