import ComposeVerif.Lemmas.Locked
import ComposeVerif.Gen.LockSource
import ComposeVerif.Neg.C19Locks
/-!
# C19 — the lock-guarded shared state: no race, no lost update, result independent of the schedule

`Model/Locked.lean`: any number of goroutines (`Tid` is an arbitrary type), each running any list of critical sections
`lock ; read ; write ; unlock` on one piece of guarded state, under EVERY interleaving of the four primitive steps.
Instances: `loader.versionWarning` (guarded by `versionWarningMu`) and `t.status` / `t.results` of the traversal
(guarded by `t.mu`).  The source facts (`Gen/LockSource.lean`) say that the functions have exactly this shape and that
every access of the guarded state holds the mutex the fact names.
-/
namespace CV.Locked

variable {σ Tid : Type} [DecidableEq Tid] {prog : Tid → List (σ → σ)} {m0 : σ} {s : St σ Tid}

/-- **mutual exclusion**: at most one goroutine is between `Lock()` and `Unlock()` -/
theorem locked_mutual_exclusion (hR : Reach true prog m0 s) {t u : Tid}
    (ht : inCS (s.pc t) = true) (hu : inCS (s.pc u) = true) : t = u := by
  have hI := inv_reach hR
  have h1 := hI.held t ht
  have h2 := hI.held u hu
  rw [h1] at h2; injection h2

/-- **every access is protected**: no reachable state enables two conflicting accesses of the guarded state by
    different goroutines -/
theorem locked_no_race (hR : Reach true prog m0 s) : ¬ RaceAt true s := by
  rintro ⟨l₁, l₂, t₁, t₂, w₁, w₂, ha₁, ha₂, hne, _, he₁, he₂⟩
  exact hne (locked_mutual_exclusion hR (enabled_access_inCS ha₁ he₁) (enabled_access_inCS ha₂ he₂))

/-- **no lost update / serialisability**: in every reachable state the guarded state is exactly what the SERIAL execution
    of the sections yields, in the order of their `write` steps (`hist`), one section at a time — and what each goroutine
    has left to run is what that serial execution leaves.  (The atomic `ready` / `enter` / `done` steps of
    `Model/Trav.lean` are this serial execution.) -/
theorem locked_serializable (hR : Reach true prog m0 s) : serial prog s.hist m0 = (s.mem, restAbs s) :=
  (inv_reach hR).ser

/-- a local copy read inside a section is never stale: nobody else can have written since -/
theorem locked_read_is_current (hR : Reach true prog m0 s) {t : Tid} {x : σ} (h : s.pc t = .loaded x) : x = s.mem :=
  (inv_reach hR).loaded t x h

/-- **no deadlock**: every goroutine has finished or some step is enabled -/
theorem locked_deadlock_free (hR : Reach true prog m0 s) : quiescent s ∨ ∃ l s', step? true s l = some s' := by
  have hI := inv_reach hR
  cases hh : s.holder with
  | some t =>
    right
    have hin := hI.holderIn t hh
    cases hpc : s.pc t with
    | out => rw [hpc] at hin; cases hin
    | holding => exact ⟨.read t, _, by simp only [step?, hpc]; rfl⟩
    | loaded x =>
      have hne := hI.restNe t hin
      cases hr : s.rest t with
      | nil => exact absurd hr hne
      | cons f r => exact ⟨.write t, _, by simp only [step?, hpc, hr]; rfl⟩
    | written => exact ⟨.unlock t, _, by simp only [step?, hpc]; rfl⟩
  | none =>
    by_cases hq : quiescent s
    · exact .inl hq
    · right
      have : ∃ t, s.rest t ≠ [] := Classical.byContradiction fun hn =>
        hq fun t => Classical.byContradiction fun h => hn ⟨t, h⟩
      obtain ⟨t, ht⟩ := this
      have hout : inCS (s.pc t) = false := by
        cases hc : inCS (s.pc t) with
        | false => rfl
        | true => have := hI.held t hc; rw [hh] at this; cases this
      cases hpc : s.pc t with
      | out =>
        cases hr : s.rest t with
        | nil => exact absurd hr ht
        | cons f r => exact ⟨.lock t, _, by simp [step?, hpc, hr, hh]; rfl⟩
      | holding => rw [hpc] at hout; cases hout
      | loaded x => rw [hpc] at hout; cases hout
      | written => rw [hpc] at hout; cases hout

/-- **what every section keeps true stays true under every interleaving** -/
theorem locked_preserves (P : σ → Prop) (hP : ∀ t, ∀ f ∈ prog t, ∀ m, P m → P (f m)) (h0 : P m0)
    (hR : Reach true prog m0 s) : P s.mem := by
  have := serial_preserves P prog hP s.hist m0 h0
  rw [locked_serializable hR] at this; exact this

/-! ### `loader.versionWarning`: any number of loads, each meeting `version:` in any list of files -/

/-- when every load is through: no append is lost — `versionWarning` is a permutation of what it held before and ALL the
    files of ALL the loads (so its content as a multiset does not depend on the schedule) -/
theorem version_warning_no_lost_append (files : Tid → List String) (threads : List Tid) (hN : threads.Nodup)
    (hT : ∀ t, t ∉ threads → files t = []) {m0 : VW} {s : St VW Tid}
    (hR : Reach true (fun t => warnProg (files t)) m0 s) (hq : quiescent s) :
    s.mem.1.Perm (m0.1 ++ threads.flatMap files) := by
  have hser := locked_serializable hR
  unfold warnProg at hser
  rw [serial_ops warn files s.hist m0] at hser
  have hmem : s.mem = (trace files s.hist).foldl (fun m a => warn a m) m0 := (congrArg Prod.fst hser).symm
  have hleft : ∀ t, left files s.hist t = [] := by
    intro t
    have h2 := congrFun (congrArg Prod.snd hser) t
    simp only at h2
    have hr : restAbs s t = [] := by
      have := hq t
      simp only [restAbs]; split <;> simp [this]
    rw [hr] at h2
    exact List.map_eq_nil_iff.mp h2
  have hperm := trace_left_perm threads hN files hT s.hist
  have hz : threads.flatMap (left files s.hist) = [] := by
    rw [List.flatMap_eq_nil_iff]; intro t _; exact hleft t
  rw [hz, List.append_nil] at hperm
  obtain ⟨w0, l0⟩ := m0
  rw [hmem, warn_foldl_fst]
  exact hperm.append_left w0

/-- under every interleaving a warning is logged exactly once per recorded file, never twice -/
theorem version_warning_logged_once (files : Tid → List String) {s : St VW Tid}
    (hR : Reach true (fun t => warnProg (files t)) ([], []) s) : s.mem.2.Nodup ∧ ∀ f, f ∈ s.mem.2 ↔ f ∈ s.mem.1 := by
  apply locked_preserves LoggedOnce ?_ ?_ hR
  · intro t g hg m hm
    simp only [warnProg, List.mem_map] at hg
    obtain ⟨file, _, rfl⟩ := hg
    exact warn_loggedOnce file m hm
  · exact ⟨List.nodup_nil, fun f => Iff.rfl⟩

/-! ### `t.status` of the traversal: `enter` is a test-and-set -/

/-- guarded state of the traversal with a ghost list of the vertices whose `enter` returned `true` -/
abbrev TS := (Nat → Status) × List Nat

def enterG (v : Nat) : TS → TS := fun (st, won) => (enterF v st, if st v = .absent then won ++ [v] else won)
def doneG (v : Nat) : TS → TS := fun (st, won) => (doneF v st, won)
def readyG (v : Nat) : TS → TS := fun (st, won) => (readyF v st, won)

def EnteredOnce (m : TS) : Prop := m.2.Nodup ∧ ∀ v ∈ m.2, m.1 v ≠ .absent

/-- **a vertex is entered at most once**, whatever `ready` / `enter` / `done` calls the goroutines make and however they
    interleave: `enter` wins only on an absent vertex and nothing ever makes a vertex absent again -/
theorem traversal_enter_wins_once {prog : Tid → List (TS → TS)}
    (hP : ∀ t, ∀ f ∈ prog t, ∃ v, f = enterG v ∨ f = doneG v ∨ f = readyG v) {s : St TS Tid}
    (hR : Reach true prog (fun _ => .absent, []) s) : s.mem.2.Nodup := by
  refine (locked_preserves EnteredOnce ?_ ?_ hR).1
  · intro t f hf m ⟨hn, ha⟩
    obtain ⟨st, won⟩ := m
    obtain ⟨v, rfl | rfl | rfl⟩ := hP t f hf
    · simp only [EnteredOnce, enterG, enterF] at hn ha ⊢
      by_cases hv : st v = .absent
      · simp only [hv, if_true]
        refine ⟨?_, ?_⟩
        · rw [List.nodup_append]
          refine ⟨hn, by simp, ?_⟩
          intro a ha' b hb
          simp only [List.mem_singleton] at hb
          subst hb; intro e; subst e; exact ha a ha' hv
        · intro u hu
          simp only [List.mem_append, List.mem_singleton] at hu
          simp only [setSt]
          split
          · simp
          · rcases hu with hu | hu
            · exact ha u hu
            · next hne => exact absurd hu hne
      · simp only [hv, if_false]; exact ⟨hn, ha⟩
    · simp only [EnteredOnce, doneG, doneF] at hn ha ⊢
      refine ⟨hn, fun u hu => ?_⟩
      simp only [setSt]; split
      · simp
      · exact ha u hu
    · exact ⟨hn, ha⟩
  · exact ⟨List.nodup_nil, fun v hv => by cases hv⟩

end CV.Locked

namespace CV.Gen

set_option maxRecDepth 8192 in
/-- **the modelled sections are the source's**: `warnObsoleteVersion` is `Lock(); defer Unlock(); read (Contains); write (append)` -/
theorem warn_source_is_modelled :
    warnSource =
    ["func (o *Options) warnObsoleteVersion(file string) {",
     "versionWarningMu.Lock()",
     "defer versionWarningMu.Unlock()",
     "if !slices.Contains(versionWarning, file) {",
     "logrus.Warning(fmt.Sprintf(\"%s: the attribute `version` is obsolete, it will be ignored, please remove it to avoid potential confusion\", file))",
     "}",
     "versionWarning = append(versionWarning, file)",
     "}"] := by
  decide

/-- `ready`, `enter`, `done` of the traversal hold `t.mu` for their whole body and are `readyF`, `enterF`, `doneF` -/
theorem traversal_sections_source_is_modelled :
    travReadySource =
    ["func (t *traversal[S, T]) ready(v *vertex[S]) bool {", "t.mu.Lock()", "defer t.mu.Unlock()", "depends := v.children",
     "if t.inverse {", "depends = v.parents", "}", "for name := range depends {", "if t.status[name] != vertexVisited {",
     "return false", "}", "}", "return true", "}"] ∧
    travEnterSource =
    ["func (t *traversal[S, T]) enter(v *vertex[S]) bool {", "t.mu.Lock()", "defer t.mu.Unlock()",
     "if _, ok := t.status[v.key]; ok {", "return false", "}", "t.status[v.key] = vertexEntered", "return true", "}"] ∧
    travDoneSource =
    ["func (t *traversal[S, T]) done(v *vertex[S], result T) {", "t.mu.Lock()", "defer t.mu.Unlock()",
     "t.status[v.key] = vertexVisited", "t.results[v.key] = result", "}"] := by
  decide

/-- **every shared access is protected by the lock the source names**: each access of `loader.versionWarning` holds
    `versionWarningMu` and nothing else -/
theorem version_warning_accesses_hold_its_mutex :
    versionWarningAccesses ≠ [] ∧ versionWarningAccesses.all (fun (_, _, _, held) => held == ["versionWarningMu"]) = true := by
  decide

set_option maxRecDepth 8192 in
/-- each access of `t.status` / `t.results` inside package graph holds `t.mu` — except the one read of `t.results` by
    `CollectInDependencyOrder`, which happens after `walk` has returned (every goroutine joined by `eg.Wait`) -/
theorem traversal_field_accesses_hold_its_mutex :
    travGuardedFieldAccesses.filter (fun (_, _, _, held) => held != ["t.mu"]) =
      [("t.results", "graph.CollectInDependencyOrder", "read", [])] ∧
    travResultsReadAfterWalk = true ∧
    (travGuardedFieldAccesses.filter (fun (_, _, k, _) => k == "write")).map (fun (e, f, _, _) => (e, f)) =
      [("t.status", "graph.traversal.enter"), ("t.status", "graph.traversal.done"), ("t.results", "graph.traversal.done")] := by
  decide

end CV.Gen

/-! ### non-vacuity -/
namespace CV.Locked

/-- two loads, both meet `version:` in `a.yml`, the second also in `b.yml` -/
def exFiles : Bool → List String := fun b => if b then ["a.yml", "b.yml"] else ["a.yml"]

/-- an interleaved run (the second load starts inside the first load's section's shadow) reaches a quiescent state with
    every append present and one warning per file -/
def exRun : List (Label Bool) :=
  [.lock false, .read false, .write false, .unlock false, .lock true, .read true, .write true, .unlock true,
   .lock true, .read true, .write true, .unlock true]

example : ((run true (init (fun t => warnProg (exFiles t)) ([], [])) exRun).map fun s => (s.mem, s.hist, s.holder)) =
    some ((["a.yml", "a.yml", "b.yml"], ["a.yml", "b.yml"]), [false, true, true], none) := by decide

/-- a reachable state in which a goroutine is blocked on the mutex (`lock true` refused while `false` holds it) -/
example : ((run true (init (fun t => warnProg (exFiles t)) ([], [])) [.lock false, .read false]).bind
    fun s => step? true s (.lock true)).isNone = true := by decide

end CV.Locked
