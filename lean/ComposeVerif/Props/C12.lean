import ComposeVerif.Model.Paths
import ComposeVerif.Spec.Paths
import ComposeVerif.Lemmas.PathsTree
import ComposeVerif.Lemmas.PathsWinSpec
import ComposeVerif.Lemmas.PathsCompose
import ComposeVerif.Gen.Tables
import ComposeVerif.Gen.PathsConsts
import ComposeVerif.Neg.C12
import ComposeVerif.Lemmas.AuditCmd
/-!
# C12 — relative paths resolve against the right directory, everything else is untouched

Property theorems only (helper lemmas: `Lemmas/PathsClean.lean`, `PathsWin.lean`, `PathsStr.lean`,
`PathsTree.lean`; refuted full-strength statements: `Neg/C12.lean`).
All statements quantify over every string / tree / base directory; nothing is bounded.
-/
namespace CV.Paths
open CV CV.TPath CV.Paths.Spec

/-! ## the regenerated facts the model was written against -/

/-- the resolver table in the source now is the one the theorems below talk about: these 13 rows are
exactly the path-bearing attributes -/
theorem resolvers_is_modelled :
    CV.Gen.resolvers = [
      (["services", "*", "build", "context"], "absContextPath"),
      (["services", "*", "build", "additional_contexts", "*"], "absContextPath"),
      (["services", "*", "env_file", "*", "path"], "absPath"),
      (["services", "*", "label_file", "*"], "absPath"),
      (["services", "*", "extends", "file"], "absExtendsPath"),
      (["services", "*", "develop", "watch", "*", "path"], "absSymbolicLink"),
      (["services", "*", "volumes", "*"], "absVolumeMount"),
      (["configs", "*", "file"], "maybeUnixPath"),
      (["secrets", "*", "file"], "maybeUnixPath"),
      (["include", "path"], "absPath"),
      (["include", "project_directory"], "absPath"),
      (["include", "env_file"], "absPath"),
      (["volumes", "*"], "volumeDriverOpts")] := by decide

/-- no two rows can match the same path … -/
theorem resolvers_exclusive : PairwiseExclusive CV.Gen.resolvers := by decide

/-- … so the order in which Go ranges over the `map[tree.Path]resolver` is irrelevant: every permutation of
the table gives the same walk -/
theorem resolve_table_order_irrelevant (t' : Table) (hp : t'.Perm CV.Gen.resolvers) (cfg : Cfg) (p : TPath) (v : Val) :
    walk t' cfg p v = walk CV.Gen.resolvers cfg p v :=
  walk_congr _ _ cfg (fun x => firstMatch_perm resolvers_exclusive hp x) p v

/-- every handler named by the table is one of the seven modelled resolvers -/
theorem resolvers_handlers_known :
    ∀ e ∈ CV.Gen.resolvers, e.2 ∈ ["absPath", "absContextPath", "absExtendsPath", "absSymbolicLink",
      "absVolumeMount", "maybeUnixPath", "volumeDriverOpts"] := by decide

/-- prefixes, the `://` test, the `~` prefix and the literals of the two map resolvers are the modelled ones -/
theorem constants_are_modelled :
    CV.Gen.paths_remotePrefixes.map String.toList = remotePrefixes ∧
    CV.Gen.paths_contextLits = ["unexpected type %T", "://"] ∧ "://".toList = schemeSep ∧
    CV.Gen.paths_expandUserLits.head? = some "~" ∧
    CV.Gen.paths_volumeMountLits = ["type", "source", "invalid mount config for type \"bind\": field Source must not be empty", "source"] ∧
    CV.Gen.types_VolumeTypeBind = "bind" ∧
    CV.Gen.paths_driverOptsLits = ["unexpected type %T", "driver", "local", "driver_opts", "unexpected type %T", "device", "o", "bind", "device"] := by decide

/-! ## `filepath.Clean` / `Join` (lexical, modelled in full) -/

/-- Clean is idempotent -/
theorem clean_idempotent (p : Str) : clean (clean p) = clean p := clean_idem p

/-- Clean keeps absolute paths absolute and relative paths relative, and never returns the empty string -/
theorem clean_keeps_anchor (p : Str) : isAbs (clean p) = isAbs p ∧ clean p ≠ [] := ⟨isAbs_clean p, clean_ne_nil p⟩

/-- joining onto an absolute directory gives an absolute path -/
theorem join_abs (a b : Str) (ha : isAbs a = true) : isAbs (join a b) = true := isAbs_join a b ha

/-- `Join(Join(a, b), c) = Join(a, Join(b, c))` when the middle directory is relative (and non-empty) -/
theorem join_associative (a b c : Str) (ha : a ≠ []) (hb : b ≠ []) (hbr : isAbs b = false) :
    join (join a b) c = join a (join b c) := join_assoc a b c ha hb hbr

example : join ['/', 'w'] (join ['s'] ['.', '.', '/', 'x']) = ['/', 'w', '/', 'x'] := by decide

/-! ## Windows-absolute detection is total (no index or slice bound out of range) -/

theorem volumeNameLen_never_panics (p : Str) : ∃ n, volumeNameLen? p = some n ∧ n ≤ p.length :=
  volumeNameLen_total p

theorem isWindowsAbs_never_panics (p : Str) : isWindowsAbs? p ≠ none := by
  obtain ⟨b, hb⟩ := isWindowsAbs_total p
  rw [hb]; simp

/-- **the index-based code decides the specification of "Windows-absolute"**: drive letter + `:` + slash, or
`\\\\server\\share\\…` with non-empty server and share names that do not start with a dot (either slash) -/
theorem isWindowsAbs_decides_spec (p : Str) : isWindowsAbs? p = some (Spec.winAbs p) := isWindowsAbs_eq_spec p

example : Spec.winAbs ['\\', '\\', 's', '\\', 'h', '\\', 'x'] = true ∧ Spec.winAbs ['c', ':', '/'] = true ∧
    Spec.winAbs ['c', ':', 'x'] = false ∧ Spec.winAbs ['\\', '\\', '.', '\\', 'p', '\\'] = false := by decide

/-- `maybeUnixPath` on a string never fails -/
theorem maybeUnixPath_total (cfg : Cfg) (s : Str) : ∃ r, maybeUnixStr cfg s = .ok r := maybeUnixStr_total cfg s

/-! ## one attribute: the model against the specification -/

/-- the string part of the resolver the table attaches to an attribute of kind `k` -/
def resolveStr (k : Kind) (cfg : Cfg) (s : Str) : Out Str :=
  match k with
  | .localPath => .ok (absPathStr cfg s)
  | .context => .ok (absContextStr cfg s)
  | .extendsFile => .ok (absExtendsStr cfg s)
  | .mount => maybeUnixStr cfg s

/-- absolute paths are left as written, for every kind of attribute -/
theorem abs_untouched (k : Kind) (cfg : Cfg) (s : Str) (h : isAbs s = true) : resolveStr k cfg s = .ok s := by
  cases k with
  | localPath => simp [resolveStr, absPathStr_abs_untouched cfg s h]
  | context =>
    simp only [resolveStr, Out.ok.injEq]
    cases hu : Paths.urlLike s with
    | true => exact absContextStr_url cfg s hu
    | false => rw [absContextStr_local cfg s hu]; exact absPathStr_abs_untouched cfg s h
  | extendsFile =>
    simp only [resolveStr, absExtendsStr, Out.ok.injEq]
    split
    · rfl
    · exact absPathStr_abs_untouched cfg s h
  | mount => exact maybeUnixStr_abs_untouched cfg s h

/-- remote / URL-like build contexts (`://` anywhere, or one of the six prefixes) are left as written -/
theorem remote_untouched (cfg : Cfg) (s : Str) (h : Spec.urlLike s = true) : resolveStr .context cfg s = .ok s := by
  simp only [resolveStr, Out.ok.injEq]
  exact absContextStr_url cfg s h

/-- each prefix of the list, and any `scheme://`, is recognised -/
theorem remote_prefix_recognised (pre rest : Str) (h : pre ∈ remotePrefixes) : Spec.urlLike (pre ++ rest) = true := by
  have : isRemoteContext (pre ++ rest) = true := by
    simp only [isRemoteContext, List.any_eq_true]
    exact ⟨pre, h, by simp⟩
  simp [Spec.urlLike, this]

/-- a loader-recognised remote reference in `extends.file` is left as written -/
theorem loader_remote_untouched (cfg : Cfg) (s : Str) (h : cfg.remote s = true) : resolveStr .extendsFile cfg s = .ok s := by
  simp [resolveStr, absExtendsStr, h]

/-- Windows-absolute mount sources / secret and config files / bind devices are left as written -/
theorem winabs_untouched_for_mounts (cfg : Cfg) (s : Str) (h : isWindowsAbs? s = some true) :
    resolveStr .mount cfg s = .ok s := maybeUnixStr_winabs_untouched cfg s h

/-- … and only for those: for the other kinds a Windows-absolute value is an ordinary relative path -/
theorem winabs_is_relative_elsewhere (cfg : Cfg) (s : Str) (ha : isAbs s = false) (hne : s ≠ []) (ht : tilde s = false)
    (hu : Spec.urlLike s = false) (hr : cfg.remote s = false) :
    resolveStr .localPath cfg s = .ok (joinWd cfg.wd s) ∧ resolveStr .context cfg s = .ok (joinWd cfg.wd s) ∧
    resolveStr .extendsFile cfg s = .ok (joinWd cfg.wd s) := by
  refine ⟨?_, ?_, ?_⟩
  · simp [resolveStr, absPathStr_relative cfg s ha hne ht]
  · simp only [resolveStr, Out.ok.injEq]
    rw [absContextStr_local cfg s hu, absPathStr_relative cfg s ha hne ht]
  · simp [resolveStr, absExtendsStr, hr, absPathStr_relative cfg s ha hne ht]

/-- a relative value becomes the base directory joined with it (`joinWd`: lexically cleaned; against a *relative*
base a leading `./` is kept where the result would otherwise be re-read as `~`, remote or Windows-absolute) -/
theorem relative_is_guarded_join (k : Kind) (cfg : Cfg) (s : Str) (ha : isAbs s = false) (hne : s ≠ []) (ht : tilde s = false)
    (hu : k = .context → Spec.urlLike s = false) (hr : k = .extendsFile → cfg.remote s = false)
    (hw : k = .mount → isWindowsAbs? s = some false) :
    resolveStr k cfg s = .ok (joinWd cfg.wd s) := by
  cases k with
  | localPath => simp [resolveStr, absPathStr_relative cfg s ha hne ht]
  | context =>
    simp only [resolveStr, Out.ok.injEq]
    rw [absContextStr_local cfg s (hu rfl), absPathStr_relative cfg s ha hne ht]
  | extendsFile => simp [resolveStr, absExtendsStr, hr rfl, absPathStr_relative cfg s ha hne ht]
  | mount => exact maybeUnixStr_relative cfg s ha ht (hw rfl)

/-- **against an absolute base a relative value becomes exactly `Join(base, value)`** -/
theorem relative_is_join (k : Kind) (cfg : Cfg) (s : Str) (hwd : isAbs cfg.wd = true)
    (ha : isAbs s = false) (hne : s ≠ []) (ht : tilde s = false)
    (hu : k = .context → Spec.urlLike s = false) (hr : k = .extendsFile → cfg.remote s = false)
    (hw : k = .mount → isWindowsAbs? s = some false) :
    resolveStr k cfg s = .ok (join cfg.wd s) := by
  rw [relative_is_guarded_join k cfg s ha hne ht hu hr hw, joinWd_of_abs _ _ hwd]

/-- the guard of a relative result is the specification's `localize` -/
theorem joinWd_is_localized_join (wd s : Str) : joinWd wd s = Spec.localize (join wd s) := by
  have : ambiguous (join wd s) = Spec.reread (join wd s) := by
    have hw : isWindowsAbsT (join wd s) = Spec.winAbs (join wd s) := by
      have h1 := isWindowsAbs_eq_T (join wd s)
      rw [isWindowsAbs_eq_spec] at h1
      exact (Option.some.inj h1).symm
    simp [ambiguous, Spec.reread, hw]
  simp [joinWd, Spec.localize, this]

/-- a guarded result denotes the same path: joining it onto any directory ignores the `./` -/
theorem guarded_join_same_path (W R v : Str) (hW : W ≠ []) : join W (joinWd R v) = join W (join R v) :=
  join_joinWd W R v hW

/-- with a non-empty base, "joined" is `Clean(base + "/" + value)` -/
theorem join_is_clean_concat (wd s : Str) (h : wd ≠ []) : join wd s = clean (wd ++ '/' :: s) := join_of_ne wd s h

/-- a leading `~` expands to the home directory joined with the rest -/
theorem tilde_expands (k : Kind) (cfg : Cfg) (h rest : Str) (hh : cfg.home = some h) (ha : isAbs h = true)
    (hu : k = .context → Spec.urlLike ('~' :: rest) = false) (hr : k = .extendsFile → cfg.remote ('~' :: rest) = false) :
    resolveStr k cfg ('~' :: rest) = .ok (join h rest) := by
  cases k with
  | localPath => simp [resolveStr, absPathStr_tilde cfg h rest hh ha]
  | context =>
    simp only [resolveStr, Out.ok.injEq]
    rw [absContextStr_local cfg _ (hu rfl), absPathStr_tilde cfg h rest hh ha]
  | extendsFile => simp [resolveStr, absExtendsStr, hr rfl, absPathStr_tilde cfg h rest hh ha]
  | mount => exact maybeUnixStr_tilde cfg h rest hh ha

/-- **the model refines the specification**, for every kind of path attribute:
whatever `Spec.expected?` prescribes is what the resolver computes -/
theorem model_meets_spec (k : Kind) (cfg : Cfg) (s r : Str)
    (h : expected? k cfg.wd cfg.home cfg.remote s = some r) : resolveStr k cfg s = .ok r := by
  unfold expected? at h
  unfold classify at h
  by_cases h1 : k = .context ∧ Spec.urlLike s = true
  · simp only [h1, and_self, if_true, Option.some.injEq] at h
    subst h
    rw [h1.1]; exact remote_untouched cfg s h1.2
  simp only [h1, if_false] at h
  by_cases h2 : k = .extendsFile ∧ cfg.remote s = true
  · simp only [h2, and_self, if_true, Option.some.injEq] at h
    subst h
    rw [h2.1]; exact loader_remote_untouched cfg s h2.2
  simp only [h2, if_false] at h
  by_cases h3 : s = []
  · simp [h3] at h
  simp only [h3, if_false] at h
  have hu : k = .context → Spec.urlLike s = false := fun e => by
    cases hh : Spec.urlLike s with
    | false => rfl
    | true => exact absurd ⟨e, hh⟩ h1
  have hr : k = .extendsFile → cfg.remote s = false := fun e => by
    cases hh : cfg.remote s with
    | false => rfl
    | true => exact absurd ⟨e, hh⟩ h2
  by_cases h4 : s.head? = some '~'
  · simp only [h4, if_true] at h
    cases s with
    | nil => simp at h4
    | cons c rest =>
      simp only [List.head?_cons, Option.some.injEq] at h4
      subst h4
      cases hh : cfg.home with
      | none => rw [hh] at h; simp at h
      | some hm =>
        rw [hh] at h
        simp only at h
        by_cases ha : isAbs hm = true
        · simp only [ha, if_true, List.drop_succ_cons, List.drop_zero, Option.some.injEq] at h
          subst h
          exact tilde_expands k cfg hm rest hh ha hu hr
        · simp [ha] at h
  simp only [h4, if_false] at h
  by_cases h5 : isAbs s = true
  · simp only [h5, if_true, Option.some.injEq] at h
    subst h
    exact abs_untouched k cfg s h5
  simp only [h5, Bool.false_eq_true, if_false] at h
  by_cases h6 : k = .mount ∧ winAbs s = true
  · simp only [h6, and_self, if_true, Option.some.injEq] at h
    subst h
    rw [h6.1]
    exact winabs_untouched_for_mounts cfg s (by rw [isWindowsAbs_eq_spec, h6.2])
  simp only [h6, if_false, Option.some.injEq] at h
  subst h
  rw [← joinWd_is_localized_join]
  refine relative_is_guarded_join k cfg s (by simpa using h5) h3 (by simp [tilde, h4]) hu hr (fun e => ?_)
  rw [isWindowsAbs_eq_spec]
  cases hw : winAbs s with
  | false => rfl
  | true => exact absurd ⟨e, hw⟩ h6

example : expected? .context ['/', 'w'] (some ['/', 'h']) (fun _ => false) ['.', '/', 'x'] = some ['/', 'w', '/', 'x'] := by decide

/-- **every resolved path attribute is absolute or exempt**: with an absolute base and an absolute (or unset) home,
the resolved value is absolute, or it is the written value and that value is exempt (remote/URL-like context,
loader-recognised remote reference, Windows-absolute mount source) — or the written value was empty -/
theorem resolved_abs_or_exempt (k : Kind) (cfg : Cfg) (s r : Str) (hwd : isAbs cfg.wd = true)
    (hhome : ∀ h, cfg.home = some h → isAbs h = true) (hne : s ≠ []) (h : resolveStr k cfg s = .ok r) :
    isAbs r = true ∨
    (r = s ∧ ((k = .context ∧ Spec.urlLike s = true) ∨ (k = .extendsFile ∧ cfg.remote s = true) ∨
              (k = .mount ∧ isWindowsAbs? s = some true))) := by
  -- the expansion of a non-empty value is never empty when home directories are absolute
  have hv : expandUser cfg.home s ≠ [] := by
    cases s with
    | nil => exact absurd rfl hne
    | cons c rest =>
      by_cases hc : c = '~'
      · subst hc
        cases hh : cfg.home with
        | none => simp [expandUser]
        | some hm =>
          rw [expandUser_tilde]
          have := hhome hm hh
          exact join_ne_nil _ _ (by intro e; simp [e, isAbs] at this)
      · rw [expandUser_of_not_tilde _ _ (by simp [tilde, hc])]; simp
  have habs : isAbs (absPathStr cfg s) = true := by
    rcases absPathStr_cases cfg s with ⟨h1, h2⟩ | ⟨h1, _⟩ | ⟨_, _, h2⟩
    · rw [h2]; exact h1
    · exact absurd h1 hv
    · rw [h2, joinWd_of_abs _ _ hwd]; exact isAbs_join _ _ hwd
  cases k with
  | localPath =>
    simp only [resolveStr, Out.ok.injEq] at h
    subst h; exact .inl habs
  | context =>
    simp only [resolveStr, Out.ok.injEq] at h
    subst h
    cases hu : Paths.urlLike s with
    | true => rw [absContextStr_url cfg s hu]; exact .inr ⟨rfl, .inl ⟨rfl, hu⟩⟩
    | false => rw [absContextStr_local cfg s hu]; exact .inl habs
  | extendsFile =>
    simp only [resolveStr, Out.ok.injEq] at h
    subst h
    cases hr : cfg.remote s with
    | true =>
      have e : absExtendsStr cfg s = s := by simp [absExtendsStr, hr]
      rw [e]; exact .inr ⟨rfl, .inr (.inl ⟨rfl, rfl⟩)⟩
    | false => simp only [absExtendsStr, hr, Bool.false_eq_true, if_false]; exact .inl habs
  | mount =>
    simp only [resolveStr] at h
    rcases maybeUnixStr_result cfg s r hwd h with ha | hw
    · exact .inl ha
    · -- Windows-absolute result: it is the written value (a `~` expansion would have been absolute)
      by_cases ht : tilde s = true
      · cases s with
        | nil => simp [tilde] at ht
        | cons c rest =>
          simp only [tilde, List.head?_cons, Option.some.injEq, decide_eq_true_eq] at ht
          subst ht
          cases hh : cfg.home with
          | none =>
            simp only [maybeUnixStr, hh, expandUser_nohome] at h
            have hw0 := isWindowsAbs_tilde ('~' :: rest) (by simp [tilde])
            rw [hw0] at h
            have hia : isAbs ('~' :: rest) = false := by simp [isAbs]
            simp only [hia, Bool.false_eq_true, if_false, Out.ok.injEq] at h
            subst h
            rw [joinWd_of_abs _ _ hwd]
            exact .inl (isAbs_join _ _ hwd)
          | some hm =>
            rw [maybeUnixStr_tilde cfg hm rest hh (hhome hm hh)] at h
            simp only [Out.ok.injEq] at h
            subst h
            exact .inl (isAbs_join _ _ (hhome hm hh))
      · have ht' : tilde s = false := by simpa using ht
        simp only [maybeUnixStr, expandUser_of_not_tilde _ _ ht'] at h
        by_cases ha : isAbs s = true
        · simp only [ha, if_true, Out.ok.injEq] at h
          subst h; exact .inl ha
        · simp only [ha, Bool.false_eq_true, if_false] at h
          obtain ⟨b, hb⟩ := isWindowsAbs_total s
          rw [hb] at h
          cases b with
          | true =>
            simp only [Out.ok.injEq] at h
            subst h
            exact .inr ⟨rfl, .inr (.inr ⟨rfl, hb⟩)⟩
          | false =>
            simp only [Out.ok.injEq] at h
            subst h
            rw [joinWd_of_abs _ _ hwd]
            exact .inl (isAbs_join _ _ hwd)

example : resolveStr .mount ⟨['/', 'w'], none, fun _ => false, some⟩ ['C', ':', '\\', 'x'] = .ok ['C', ':', '\\', 'x'] := by decide
example : resolveStr .localPath ⟨['/', 'w'], none, fun _ => false, some⟩ ['C', ':', '\\', 'x'] = .ok ['/', 'w', '/', 'C', ':', '\\', 'x'] := by decide

/-! ## frame: nothing but path attributes is ever rewritten -/

/-- the resolved tree differs from the input only inside nodes whose path matches a resolver row: same keys in the
same order, same list lengths, every scalar elsewhere identical -/
theorem frame (cfg : Cfg) (v v' : Val) (h : resolve cfg v = .ok v') : Frame CV.Gen.resolvers TPath.root v v' :=
  walk_frame _ cfg _ v v' h

/-- at a node whose path matches a row, the walker does exactly what that row's resolver does (and does not descend) -/
theorem walk_at_row (cfg : Cfg) (p : TPath) (v : Val) (h : String) (hm : firstMatch CV.Gen.resolvers p = some h) :
    walk CV.Gen.resolvers cfg p v = applyResolver cfg h v :=
  walk_of_match _ cfg p v h hm

example : firstMatch CV.Gen.resolvers ["services", "a", "build", "context"] = some "absContextPath" := by decide

/-- a scalar at a path no row matches is returned as it is -/
theorem frame_scalar (cfg : Cfg) (p : TPath) (v : Val) (hm : firstMatch CV.Gen.resolvers p = none)
    (hs : (∀ kvs, v ≠ .map kvs) ∧ (∀ xs, v ≠ .seq xs)) : walk CV.Gen.resolvers cfg p v = .ok v :=
  walk_scalar _ cfg p v hm hs

example : firstMatch CV.Gen.resolvers ["services", "a", "image"] = none := by decide
example : firstMatch CV.Gen.resolvers ["services", "a", "build", "dockerfile"] = none := by decide
example : firstMatch CV.Gen.resolvers ["services", "a", "volumes", "[]"] = some "absVolumeMount" := by decide

/-- inside a service volume only `source` of a bind mount can change: named-volume (and tmpfs, npipe, …) sources are
never rewritten -/
theorem named_volume_untouched (cfg : Cfg) (kvs : Val.KVs) (h : Val.lookup "type" kvs ≠ some (.str "bind")) :
    absVolumeMount cfg (.map kvs) = .ok (.map kvs) := by
  cases hl : Val.lookup "type" kvs with
  | none => simp [absVolumeMount, hl]
  | some t =>
    cases t with
    | str x =>
      by_cases hx : x = "bind"
      · subst hx; exact absurd hl h
      · simp [absVolumeMount, hl, hx]
    | _ => simp [absVolumeMount, hl]

/-- what can happen to a bind mount: its `source` is replaced by the resolved path, nothing else -/
theorem bind_mount_only_source (cfg : Cfg) (kvs : Val.KVs) (v' : Val) (h : absVolumeMount cfg (.map kvs) = .ok v') :
    v' = .map kvs ∨ ∃ s r, Val.lookup "source" kvs = some (.str s) ∧ maybeUnixStr cfg s.toList = .ok r ∧
      v' = .map (Val.insert "source" (.str (String.ofList r)) kvs) := by
  rcases absVolumeMount_shape cfg kvs v' h with h | ⟨_, s, r, h1, h2, h3⟩
  · exact .inl h
  · exact .inr ⟨s, r, h1, h2, h3⟩

/-- a top-level volume is rewritten only at `driver_opts.device`, only for `driver: local` with `o: bind` -/
theorem volume_only_bind_device (cfg : Cfg) (kvs : Val.KVs) (v' : Val) (h : volumeDriverOpts cfg (.map kvs) = .ok v') :
    v' = .map kvs ∨
    (Val.lookup "driver" kvs = some (.str "local") ∧
      ∃ opts dev d, Val.lookup "driver_opts" kvs = some (.map opts) ∧ Val.lookup "o" opts = some (.str "bind") ∧
        Val.lookup "device" opts = some dev ∧ maybeUnixPath cfg dev = .ok d ∧
        v' = .map (Val.insert "driver_opts" (.map (Val.insert "device" d opts)) kvs)) :=
  volumeDriverOpts_shape cfg kvs v' h

/-! ## idempotence -/

/-- **resolving an already resolved model changes nothing** (absolute base; symbolic-link resolution a projection) -/
theorem resolve_idem (cfg : Cfg) (hok : IdemOK cfg) (v v' : Val) (h : resolve cfg v = .ok v') :
    resolve cfg v' = .ok v' :=
  walk_idem _ cfg hok _ v v' h

/-- the hypotheses of `resolve_idem` are satisfiable: an absolute base, no symbolic links -/
example : IdemOK ⟨['/', 'w'], none, fun _ => false, some⟩ :=
  ⟨by decide, fun s r h => by simp only [Option.some.injEq] at h; subst h; simp⟩

/-! ## no resolver panics -/

/-- **path resolution never panics**, whatever the shape of the tree (the unchecked type assertions of
`absContextPath`, `absExtendsPath`, `maybeUnixPath`, `absVolumeMount`, `volumeDriverOpts` were replaced by errors) -/
theorem resolve_never_panics (cfg : Cfg) (v : Val) (s : String) : resolve cfg v ≠ .panic s :=
  walk_no_panic _ (by decide) cfg _ v s

/-- a value of the wrong kind at a path attribute is an error of class `unexpectedType` -/
theorem wrong_kind_is_error (cfg : Cfg) (n : Int) :
    absContextPath cfg (.int n) = .err "unexpectedType" ∧ absExtendsPath cfg .null = .err "unexpectedType" ∧
    maybeUnixPath cfg (.seq []) = .err "unexpectedType" ∧ volumeDriverOpts cfg (.str "x") = .err "unexpectedType" := by
  simp [absContextPath, absExtendsPath, maybeUnixPath, volumeDriverOpts]

/-! ## two-stage resolution (include / extends) = one-stage resolution against the joined directory

Included and extended files are resolved first against a directory `R` relative to the project directory, then —
with the rest of the model — against the project directory `W`.  Before the round-2 repair this was *not* the same
as resolving against `Join(W, R)` (`Neg/C12.lean`: `compose_failed_*`, about the resolvers as they were). -/

/-- env/label files, watch paths -/
theorem resolve_compose (home : Option Str) (remote : Str → Bool) (sym : Str → Option Str) (W R s : Str)
    (hW : W ≠ []) (hR : R ≠ []) (hRr : isAbs R = false) :
    absPathStr ⟨W, home, remote, sym⟩ (absPathStr ⟨R, home, remote, sym⟩ s) =
      absPathStr ⟨join W R, home, remote, sym⟩ s :=
  absPathStr_compose home remote sym W R s hW hR hRr

/-- build contexts -/
theorem resolve_compose_context (home : Option Str) (remote : Str → Bool) (sym : Str → Option Str) (W R s : Str)
    (hW : W ≠ []) (hR : R ≠ []) (hRr : isAbs R = false) (hhome : ∀ h, home = some h → h ≠ []) :
    absContextStr ⟨W, home, remote, sym⟩ (absContextStr ⟨R, home, remote, sym⟩ s) =
      absContextStr ⟨join W R, home, remote, sym⟩ s :=
  absContextStr_compose home remote sym W R s hW hR hRr hhome

/-- mount sources, secret/config files, bind devices -/
theorem resolve_compose_mount (home : Option Str) (remote : Str → Bool) (sym : Str → Option Str) (W R s m : Str)
    (hW : W ≠ []) (hR : R ≠ []) (hRr : isAbs R = false)
    (h1 : maybeUnixStr ⟨R, home, remote, sym⟩ s = .ok m) :
    maybeUnixStr ⟨W, home, remote, sym⟩ m = maybeUnixStr ⟨join W R, home, remote, sym⟩ s :=
  maybeUnixStr_compose home remote sym W R s m hW hR hRr h1

/-- the witnesses that refuted the statement before the repair now satisfy it -/
example : absPathStr ⟨Neg.W, Neg.H, fun _ => false, some⟩ (absPathStr ⟨['~'], Neg.H, fun _ => false, some⟩ ['x'])
    = ['/', 'w', '/', '~', '/', 'x'] := by decide

/-- at every node matched by a row, for every resolver, the second stage composes with the first
(no remote resource loaders — the default —, no symbolic links) -/
theorem compose_at_every_node (home : Option Str) (W R : Str) (hW : W ≠ []) (hR : R ≠ []) (hRr : isAbs R = false)
    (hhome : ∀ h, home = some h → h ≠ []) (hn : String) (v : Val) :
    ComposeAt ⟨R, home, fun _ => false, some⟩ ⟨W, home, fun _ => false, some⟩ ⟨join W R, home, fun _ => false, some⟩ hn v :=
  composeAt_all home (fun _ => false) W R hW hR hRr hhome (fun _ => rfl) hn v

/-- **whole trees, full strength**: resolving against the relative directory `R` and then against `W` is resolving
against `Join(W, R)` — same result tree, same error — for every tree, every non-empty `W`, every non-empty relative `R` -/
theorem resolve_compose_tree (home : Option Str) (W R : Str) (hW : W ≠ []) (hR : R ≠ []) (hRr : isAbs R = false)
    (hhome : ∀ h, home = some h → h ≠ []) (v v1 : Val)
    (h : resolve ⟨R, home, fun _ => false, some⟩ v = .ok v1) :
    resolve ⟨W, home, fun _ => false, some⟩ v1 = resolve ⟨join W R, home, fun _ => false, some⟩ v :=
  walk_compose _ _ _ _ _ v v1
    ((rowsOK_of_forall _ (compose_at_every_node home W R hW hR hRr hhome) _).1 _ v) h

/-- three stages (include inside include, extends inside include): still the joined directory -/
theorem resolve_compose_tree_twice (home : Option Str) (W R1 R2 : Str) (hW : W ≠ []) (h1 : R1 ≠ []) (h1r : isAbs R1 = false)
    (h2 : R2 ≠ []) (h2r : isAbs R2 = false) (hhome : ∀ h, home = some h → h ≠ []) (v va vb : Val)
    (ha : resolve ⟨R2, home, fun _ => false, some⟩ v = .ok va)
    (hb : resolve ⟨R1, home, fun _ => false, some⟩ va = .ok vb) :
    resolve ⟨W, home, fun _ => false, some⟩ vb = resolve ⟨join W (join R1 R2), home, fun _ => false, some⟩ v := by
  have e1 := resolve_compose_tree home R1 R2 h1 h2 h2r hhome v va ha
  rw [hb] at e1
  have hj : join R1 R2 ≠ [] := join_ne_nil _ _ h1
  have hjr : isAbs (join R1 R2) = false := isAbs_join_rel _ _ h1 h1r
  exact resolve_compose_tree home W (join R1 R2) hW hj hjr hhome v vb e1.symm

end CV.Paths
