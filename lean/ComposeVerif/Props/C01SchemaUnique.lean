import ComposeVerif.Model.Schema
import ComposeVerif.Lemmas.SecretsOrder
/-!
# C01 (schema model) — `uniqueItems` does not read the order in which a mapping is spelled

gojsonschema decides `uniqueItems` on the JSON text of the items, and `encoding/json` writes the keys of a map in sorted
order: two mappings with the same entries are the same item.  `Schema.jsonEq` (round 6; before that the model compared
texts spelled in list order, which was right only on the key-sorted trees the driver is fed) has that property for every
pair of association lists with distinct keys — so `Schema.conforms` is a function of the Go map, not of its spelling, at
the one place where the schema looks at two values at once.  `Props/C02Whole` needed this for the `schema` stage.
-/
namespace CV.Schema
open CV CV.Val CV.Secrets

theorem jsonSub_eq_all (r m : KVs) :
    jsonSub r m = r.all (fun kv => match Val.lookup kv.1 m with | some v' => jsonEq kv.2 v' | none => false) := by
  induction r with
  | nil => simp [jsonSub]
  | cons kv r ih =>
    obtain ⟨k, v⟩ := kv
    show (_ && jsonSub r m) = _
    rw [ih]; rfl

/-- the mapping looked into may be spelled in any order -/
theorem jsonSub_perm_right (r : KVs) {m m' : KVs} (hp : m.Perm m') (hn : KeysNodup m) :
    jsonSub r m = jsonSub r m' := by
  induction r with
  | nil => simp [jsonSub]
  | cons kv r ih => obtain ⟨k, v⟩ := kv; simp only [jsonSub]; rw [lookup_perm hp hn, ih]

/-- the mapping whose entries are looked up may be spelled in any order -/
theorem jsonSub_perm_left {r r' : KVs} (hp : r.Perm r') (m : KVs) : jsonSub r m = jsonSub r' m := by
  rw [jsonSub_eq_all, jsonSub_eq_all]
  exact hp.all_eq

/-- **an item spelled in another order is the same item** (first argument) -/
theorem jsonEq_map_perm_left {a a' : KVs} (hp : a.Perm a') (x : Val) :
    jsonEq (.map a) x = jsonEq (.map a') x := by
  cases x <;> simp only [jsonEq]
  rw [hp.length_eq, jsonSub_perm_left hp]

/-- **an item spelled in another order is the same item** (second argument; distinct keys, as in a Go map) -/
theorem jsonEq_map_perm_right {b b' : KVs} (hp : b.Perm b') (hn : KeysNodup b) (x : Val) :
    jsonEq x (.map b) = jsonEq x (.map b') := by
  cases x <;> simp only [jsonEq]
  rw [hp.length_eq, jsonSub_perm_right _ hp hn]

/-- `uniqueItems` on an array whose last-compared item is respelled: the verdict about that item does not change -/
theorem uniqueJson_head_perm {a a' : KVs} (hp : a.Perm a') (hn : KeysNodup a) (xs : List Val) :
    uniqueJson (.map a :: xs) = uniqueJson (.map a' :: xs) := by
  simp only [uniqueJson]
  have : (xs.any fun y => jsonEq y (.map a)) = (xs.any fun y => jsonEq y (.map a')) := by
    induction xs with
    | nil => rfl
    | cons y ys ih => simp only [List.any_cons, ih, jsonEq_map_perm_right hp hn y]
  rw [this]

/-! The witness that `Neg/C02Whole` used against the earlier model, now decided the way the validator decides it. -/
def p1 : Val := .map [("target", .int 80), ("published", .str "81")]
def p2 : Val := .map [("published", .str "81"), ("target", .int 80)]
/-- `{"uniqueItems": true}` -/
def uniq : S := .node [] [] [] .allow none [] [] none [] true none none none

theorem schema_model_ignores_key_order :
    conforms uniq (.seq [p1, p2]) = false ∧ conforms uniq (.seq [p1, p1]) = false := by
  constructor <;> decide

example : KeysNodup [("target", Val.int 80), ("published", Val.str "81")] := by unfold KeysNodup; decide

end CV.Schema
