import ComposeVerif.Props.C12
import ComposeVerif.Props.C12Origin
import ComposeVerif.Lemmas.AuditCmd
/-!
# C12 — the whole pipeline against the specification (round 5)

`Props/C12.lean` proves that ONE resolution meets the specification (`model_meets_spec`); `Props/C12Origin.lean` proves
that the staged resolution the loader performs for an origin is ONE resolution against the origin's directory.  Composed:
the value of a path attribute in the loaded project — `predict`, tied to the real loader on every load of `c12.load` —
is what the property's short specification `Spec.expected?` says, with the directory the property names as the base,
for include chains of every depth.
-/
namespace CV.Paths
open CV.Paths.Spec

/-- the attribute kinds of `predict` / `resolveKind` (0 env/label/watch paths, 1 build contexts, ≥ 2 mount sources,
secret/config files, bind devices) as kinds of the specification -/
def kindOf : Nat → Kind
  | 0 => .localPath
  | 1 => .context
  | _ => .mount

theorem resolveKind_is_resolveStr (k : Nat) (cfg : Cfg) (s : Str) : resolveKind k cfg s = resolveStr (kindOf k) cfg s := by
  match k with
  | 0 => rfl
  | 1 => rfl
  | _ + 2 => rfl

/-- **main file, included files at any depth**: whatever the specification prescribes for the attribute value `s` with
the directory of the (innermost) file as base — absolute / remote / Windows-absolute left as written, `~` expanded,
a relative value joined with that directory — is the value in the loaded project (`ps = []`: the main files, base =
project directory) -/
theorem include_chain_meets_spec (k : Nat) (cfg : Cfg) (isDir : Str → Bool) (ps : List Str) (s r : Str)
    (hW : isAbs cfg.wd = true) (hok : InclOK isDir (fun _ => True) cfg.wd ps)
    (hhome : ∀ h, cfg.home = some h → h ≠ [])
    (h : expected? (kindOf k) (inclDir id cfg.wd ps) cfg.home cfg.remote s = some r) :
    predict k cfg isDir (inclSteps ps) true s = .ok r := by
  rw [include_chain_origin k cfg isDir ps s hW hok hhome, resolveKind_is_resolveStr]
  exact model_meets_spec (kindOf k) { cfg with wd := inclDir id cfg.wd ps } s r h

/-- **attributes inherited through `extends.file: f`** written in the main file (`ps = []`) or in an included file at any
depth: the base is the directory part of `f` taken from the directory of the file that says `extends` -/
theorem include_chain_extends_meets_spec (k : Nat) (cfg : Cfg) (isDir : Str → Bool) (ps : List Str) (f s r : Str)
    (hW : isAbs cfg.wd = true) (hok : InclOK isDir (fun L => isDir (absIn L f) = false) cfg.wd ps)
    (hhome : ∀ h, cfg.home = some h → h ≠ [])
    (h : expected? (kindOf k) (inclDir (fun L => clean (absIn L (dir f))) cfg.wd ps) cfg.home cfg.remote s = some r) :
    predict k cfg isDir (inclSteps ps ++ [.ext f]) true s = .ok r := by
  rw [include_chain_extends_origin k cfg isDir ps f s hW hok hhome, resolveKind_is_resolveStr]
  exact model_meets_spec (kindOf k) { cfg with wd := inclDir (fun L => clean (absIn L (dir f))) cfg.wd ps } s r h

/-- non-vacuity: `/w` includes `a/i`, which includes `../b/j`; `j` says `env_file: ./x`, `context: ~/c`, a bind source
`C:\d` — the specification (hence the loaded project) has `/w/b/x`, `/h/c`, `C:\d` -/
example :
    expected? (kindOf 0) (inclDir id ['/', 'w'] [['a', '/', 'i'], ['.', '.', '/', 'b', '/', 'j']]) (some ['/', 'h']) (fun _ => false)
        ['.', '/', 'x'] = some ['/', 'w', '/', 'b', '/', 'x'] ∧
    expected? (kindOf 1) (inclDir id ['/', 'w'] [['a', '/', 'i'], ['.', '.', '/', 'b', '/', 'j']]) (some ['/', 'h']) (fun _ => false)
        ['~', '/', 'c'] = some ['/', 'h', '/', 'c'] ∧
    expected? (kindOf 2) (inclDir id ['/', 'w'] [['a', '/', 'i'], ['.', '.', '/', 'b', '/', 'j']]) (some ['/', 'h']) (fun _ => false)
        ['C', ':', '\\', 'd'] = some ['C', ':', '\\', 'd'] := by decide

end CV.Paths
