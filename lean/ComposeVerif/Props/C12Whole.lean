import ComposeVerif.Props.C12
import ComposeVerif.Props.C12Origin
import ComposeVerif.Model.Pipeline
import ComposeVerif.Lemmas.PathsRows
import ComposeVerif.Lemmas.AuditCmd
/-!
# C12 — the whole pipeline against the specification (round 5)

`Props/C12.lean` proves that ONE resolution meets the specification (`model_meets_spec`); `Props/C12Origin.lean` proves
that the staged resolution the loader performs for an origin is ONE resolution against the origin's directory.  Composed:
the value of a path attribute in the loaded project — `predict`, tied to the real loader on every load of `c12.load` —
is what the property's short specification `Spec.expected?` says, with the directory the property names as the base,
for include chains of every depth.
-/
namespace CV.Paths
open CV.Paths.Spec

/-- the attribute kinds of `predict` / `resolveKind` (0 env/label/watch paths, 1 build contexts, ≥ 2 mount sources,
secret/config files, bind devices) as kinds of the specification -/
def kindOf : Nat → Kind
  | 0 => .localPath
  | 1 => .context
  | _ => .mount

theorem resolveKind_is_resolveStr (k : Nat) (cfg : Cfg) (s : Str) : resolveKind k cfg s = resolveStr (kindOf k) cfg s := by
  match k with
  | 0 => rfl
  | 1 => rfl
  | _ + 2 => rfl

/-- **main file, included files at any depth**: whatever the specification prescribes for the attribute value `s` with
the directory of the (innermost) file as base — absolute / remote / Windows-absolute left as written, `~` expanded,
a relative value joined with that directory — is the value in the loaded project (`ps = []`: the main files, base =
project directory) -/
theorem include_chain_meets_spec (k : Nat) (cfg : Cfg) (isDir : Str → Bool) (ps : List Str) (s r : Str)
    (hW : isAbs cfg.wd = true) (hok : InclOK isDir (fun _ => True) cfg.wd ps)
    (hhome : ∀ h, cfg.home = some h → h ≠ [])
    (h : expected? (kindOf k) (inclDir id cfg.wd ps) cfg.home cfg.remote s = some r) :
    predict k cfg isDir (inclSteps ps) true s = .ok r := by
  rw [include_chain_origin k cfg isDir ps s hW hok hhome, resolveKind_is_resolveStr]
  exact model_meets_spec (kindOf k) { cfg with wd := inclDir id cfg.wd ps } s r h

/-- **attributes inherited through `extends.file: f`** written in the main file (`ps = []`) or in an included file at any
depth: the base is the directory part of `f` taken from the directory of the file that says `extends` -/
theorem include_chain_extends_meets_spec (k : Nat) (cfg : Cfg) (isDir : Str → Bool) (ps : List Str) (f s r : Str)
    (hW : isAbs cfg.wd = true) (hok : InclOK isDir (fun L => isDir (absIn L f) = false) cfg.wd ps)
    (hhome : ∀ h, cfg.home = some h → h ≠ [])
    (h : expected? (kindOf k) (inclDir (fun L => clean (absIn L (dir f))) cfg.wd ps) cfg.home cfg.remote s = some r) :
    predict k cfg isDir (inclSteps ps ++ [.ext f]) true s = .ok r := by
  rw [include_chain_extends_origin k cfg isDir ps f s hW hok hhome, resolveKind_is_resolveStr]
  exact model_meets_spec (kindOf k) { cfg with wd := inclDir (fun L => clean (absIn L (dir f))) cfg.wd ps } s r h

/-- non-vacuity: `/w` includes `a/i`, which includes `../b/j`; `j` says `env_file: ./x`, `context: ~/c`, a bind source
`C:\d` — the specification (hence the loaded project) has `/w/b/x`, `/h/c`, `C:\d` -/
example :
    expected? (kindOf 0) (inclDir id ['/', 'w'] [['a', '/', 'i'], ['.', '.', '/', 'b', '/', 'j']]) (some ['/', 'h']) (fun _ => false)
        ['.', '/', 'x'] = some ['/', 'w', '/', 'b', '/', 'x'] ∧
    expected? (kindOf 1) (inclDir id ['/', 'w'] [['a', '/', 'i'], ['.', '.', '/', 'b', '/', 'j']]) (some ['/', 'h']) (fun _ => false)
        ['~', '/', 'c'] = some ['/', 'h', '/', 'c'] ∧
    expected? (kindOf 2) (inclDir id ['/', 'w'] [['a', '/', 'i'], ['.', '.', '/', 'b', '/', 'j']]) (some ['/', 'h']) (fun _ => false)
        ['C', ':', '\\', 'd'] = some ['C', ':', '\\', 'd'] := by decide

/-! ## round 6 — resolving what a load returned changes nothing (value level) -/

/-- **a resolved value is a fixpoint of every later resolution**, whatever directory that later resolution uses: what one
resolution against an absolute base returns is left as written by a resolution against any base, with any `$HOME`
(attribute kinds of `predict`: 0 env/label/watch paths, 1 build contexts, ≥ 2 mount sources and secret/config files) -/
theorem resolved_is_fixpoint (k : Nat) (cfg cfg' : Cfg) (s r : Str) (hwd : isAbs cfg.wd = true)
    (h : resolveKind k cfg s = .ok r) : resolveKind k cfg' r = .ok r := by
  match k with
  | 0 =>
    simp only [resolveKind, Out.ok.injEq] at h ⊢
    subst h
    exact absPathStr_fix cfg' _ (absPathStr_abs_or_nil cfg s hwd)
  | 1 =>
    simp only [resolveKind, Out.ok.injEq] at h ⊢
    subst h
    cases hu : urlLike s with
    | true => rw [absContextStr_url cfg s hu]; exact absContextStr_url cfg' s hu
    | false =>
      rw [absContextStr_local cfg s hu]
      cases h2 : urlLike (absPathStr cfg s) with
      | true => exact absContextStr_url cfg' _ h2
      | false =>
        rw [absContextStr_local cfg' _ h2]
        exact absPathStr_fix cfg' _ (absPathStr_abs_or_nil cfg s hwd)
  | _ + 2 =>
    simp only [resolveKind] at h ⊢
    exact maybeUnixStr_fix cfg' r (maybeUnixStr_result cfg s r hwd h)

theorem isAbs_inclDir (ps : List Str) : ∀ (L : Str), isAbs L = true → isAbs (inclDir id L ps) = true := by
  induction ps with
  | nil => intro L h; exact h
  | cons p ps ih => intro L h; exact ih _ (isAbs_dir _ (isAbs_absIn L p h))

/-- **resolving an already loaded project changes nothing**: the value of a path attribute of the main files / of an
included file at any depth in the loaded project (`predict`) is left as written by a further resolution against the
project directory — or against any other directory -/
theorem loaded_value_is_fixpoint (k : Nat) (cfg cfg' : Cfg) (isDir : Str → Bool) (ps : List Str) (s r : Str)
    (hW : isAbs cfg.wd = true) (hok : InclOK isDir (fun _ => True) cfg.wd ps)
    (hhome : ∀ h, cfg.home = some h → h ≠ [])
    (h : predict k cfg isDir (inclSteps ps) true s = .ok r) : resolveKind k cfg' r = .ok r := by
  rw [include_chain_origin k cfg isDir ps s hW hok hhome] at h
  exact resolved_is_fixpoint k { cfg with wd := inclDir id cfg.wd ps } cfg' s r (isAbs_inclDir ps cfg.wd hW) h

/-- … and loading is total on path attributes: for every chain of includes the loader's staged resolution yields a value
(no stage fails or panics on a string) -/
theorem loaded_value_exists (k : Nat) (cfg : Cfg) (isDir : Str → Bool) (ps : List Str) (s : Str)
    (hW : isAbs cfg.wd = true) (hok : InclOK isDir (fun _ => True) cfg.wd ps)
    (hhome : ∀ h, cfg.home = some h → h ≠ []) :
    ∃ r, predict k cfg isDir (inclSteps ps) true s = .ok r := by
  rw [include_chain_origin k cfg isDir ps s hW hok hhome]
  exact resolveKind_total k _ s

/-! ## round 6 — every path attribute of a resolved tree is absolute or exempt (tree level) -/

/-- **every resolver row of the output is an output of its resolver**: the walker leaves no node that matches a row of
the table unresolved, however deep it sits and whatever surrounds it (the complement of `frame`) -/
theorem resolve_rows_are_resolved (cfg : Cfg) (v v' : Val) (h : resolve cfg v = .ok v') :
    RowsAre CV.Gen.resolvers (ImageOf cfg) TPath.root v' :=
  walk_rows _ cfg _ v v' h

/-- **after resolution against an absolute base every string at a row of `absPath` (env files, label files),
`absContextPath` (build contexts, additional contexts) or `maybeUnixPath` (secret / config files, bind devices) is
absolute — or empty, or URL-like (contexts), or Windows-absolute (secret / config files)**: the first sentence of the
property, for every tree -/
theorem resolve_rows_abs_or_exempt (cfg : Cfg) (hwd : isAbs cfg.wd = true) (v v' : Val) (h : resolve cfg v = .ok v') :
    RowsAre CV.Gen.resolvers PathOK TPath.root v' :=
  rowsAre_mono _ _ _ (fun hn out hi => image_pathOK cfg hwd hn out hi) _ _ (resolve_rows_are_resolved cfg v v' h)

/-- non-vacuity: the rows in question exist and are string rows of these three resolvers -/
example :
    TPath.firstMatch CV.Gen.resolvers ["services", "a", "build", "context"] = some "absContextPath" ∧
    TPath.firstMatch CV.Gen.resolvers ["services", "a", "build", "additional_contexts", "k"] = some "absContextPath" ∧
    TPath.firstMatch CV.Gen.resolvers ["secrets", "s", "file"] = some "maybeUnixPath" ∧
    TPath.firstMatch CV.Gen.resolvers ["configs", "c", "file"] = some "maybeUnixPath" ∧
    TPath.firstMatch CV.Gen.resolvers ["services", "a", "label_file", "[]"] = some "absPath" := by decide

end CV.Paths

/-! # Round 6 — the clause of C12 about the composed pipeline (`Model/Pipeline.lean`: `Pipeline.load`, `Pipeline.loadY`)

The composed model runs the stage models in the loader's order; C12 owns `pathsStage`
(`if opts.ResolvePaths { paths.ResolveRelativePaths(dict, config.WorkingDir, remotes) }`), which sits between
`validateStage` and `ResolveEnvironment`.  The theorems below are about the whole function: whenever `Pipeline.load`
(documents) or `Pipeline.loadY` (YAML files) succeeds, the model that leaves the path stage — the one handed to
`ResolveEnvironment` and `Normalize` — (a) is the resolution of the validated model, (b) differs from it only below nodes
of the resolver table (every non-path attribute is as the earlier stages left it), (c) is a fixpoint of the resolution
(resolving the already resolved model changes nothing), and with resolution off (d) is the validated model itself. -/
namespace CV.Pipeline
open CV CV.Paths

theorem Out.bind_ok {α β : Type} (x : Out α) (f : α → Out β) (r : β) (h : x.bind f = .ok r) :
    ∃ a, x = .ok a ∧ f a = .ok r := by
  cases x with
  | ok a => exact ⟨a, rfl, h⟩
  | err e => simp [Out.bind] at h
  | panic s => simp [Out.bind] at h

/-- the path stage of the composed pipeline is `Paths.resolve` with the project's configuration, or nothing -/
theorem pathsStage_is_resolve (c : Cfg) (d r : Val) (h : pathsStage c d = .ok r) :
    (c.opts.resolvePaths = true ∧ Paths.resolve c.paths d = .ok r) ∨ (c.opts.resolvePaths = false ∧ r = d) := by
  unfold pathsStage at h
  cases hp : c.opts.resolvePaths with
  | true =>
    simp only [hp, if_true] at h
    cases hr : Paths.resolve c.paths d with
    | ok a => simp only [hr, ofPaths, Out.ok.injEq] at h; exact .inl ⟨rfl, by rw [h]⟩
    | err e => simp [hr, ofPaths] at h
    | panic s => simp [hr, ofPaths] at h
  | false =>
    simp only [hp, Bool.false_eq_true, if_false, Out.ok.injEq] at h
    exact .inr ⟨rfl, h.symm⟩

/-- the path stage never panics, whatever the earlier stages produced (composition of `resolve_never_panics`) -/
theorem pathsStage_never_panics (c : Cfg) (d : Val) (s : String) : pathsStage c d ≠ .panic s := by
  unfold pathsStage
  split
  · cases hr : Paths.resolve c.paths d with
    | ok a => simp [ofPaths]
    | err e => simp [ofPaths]
    | panic x => exact absurd hr (Paths.resolve_never_panics c.paths d x)
  · simp

/-- what `finishModel` (defaults → validation → paths → environment) returns, in terms of the path stage -/
theorem finishModel_through_paths (c : Cfg) (dict : Val) (r : Val.KVs) (h : finishModel c dict = .ok r) :
    ∃ d0 d m, defaultsStage c dict = .ok d0 ∧ validateStage c d0 = .ok d ∧ pathsStage c d = .ok (.map m) ∧
      r = resolveEnvironment c.env m := by
  unfold finishModel at h
  obtain ⟨d0, h0, h⟩ := Out.bind_ok _ _ _ h
  obtain ⟨d, h1, h⟩ := Out.bind_ok _ _ _ h
  obtain ⟨p, h2, h⟩ := Out.bind_ok _ _ _ h
  unfold envStage at h
  cases p with
  | map m => simp only [Out.ok.injEq] at h; exact ⟨d0, d, m, h0, h1, h2, h.symm⟩
  | null => simp at h
  | bool b => simp at h
  | int n => simp at h
  | float f => simp at h
  | str s => simp at h
  | seq xs => simp at h

/-- the conclusion of the C12 clause about a successful load that produced `r` -/
def PathsClause (c : Cfg) (r : Val.KVs) : Prop :=
  ∃ (d : Val) (m : Val.KVs),
    -- `d` is the model after merge, defaults and validation; `m` leaves the path stage and `r` is the rest of the pipeline on it
    finishLoad c (resolveEnvironment c.env m) = .ok r ∧
    (c.opts.resolvePaths = true →
      Paths.resolve c.paths d = .ok (.map m) ∧
      Frame CV.Gen.resolvers TPath.root d (.map m) ∧
      (IdemOK c.paths → Paths.resolve c.paths (.map m) = .ok (.map m))) ∧
    (c.opts.resolvePaths = false → d = .map m)

theorem clause_of_finishModel (c : Cfg) (dict : Val) (k r : Val.KVs) (h : finishModel c dict = .ok k)
    (hf : finishLoad c k = .ok r) : PathsClause c r := by
  obtain ⟨d0, d, m, _, _, hp, rfl⟩ := finishModel_through_paths c dict k h
  refine ⟨d, m, hf, ?_, ?_⟩
  · intro hon
    rcases pathsStage_is_resolve c d _ hp with ⟨_, hr⟩ | ⟨hoff, _⟩
    · exact ⟨hr, Paths.frame c.paths d _ hr, fun hok => Paths.resolve_idem c.paths hok d _ hr⟩
    · rw [hon] at hoff; cases hoff
  · intro hoff
    rcases pathsStage_is_resolve c d _ hp with ⟨hon, _⟩ | ⟨_, he⟩
    · rw [hoff] at hon; cases hon
    · exact he.symm

/-- **C12 about `Pipeline.load`**: every successful load of documents went through the path stage as the property says -/
theorem load_paths_clause (c : Cfg) (docs : List Val.KVs) (r : Val.KVs) (h : load c docs = .ok r) : PathsClause c r := by
  unfold load at h
  split at h
  · cases h
  · obtain ⟨k, hk, hf⟩ := Out.bind_ok _ _ _ h
    unfold loadYamlModel at hk
    obtain ⟨dict, _, hm⟩ := Out.bind_ok _ _ _ hk
    exact clause_of_finishModel c dict k r hm hf

/-- **C12 about `Pipeline.loadY`** (files given as YAML text, `!reset` / `!override` included) -/
theorem loadY_paths_clause (c : Cfg) (files : List (List Reset.YNode)) (r : Val.KVs) (h : loadY c files = .ok r) :
    PathsClause c r := by
  unfold loadY at h
  split at h
  · cases h
  · obtain ⟨k, hk, hf⟩ := Out.bind_ok _ _ _ h
    unfold loadYamlModelY at hk
    obtain ⟨dict, _, hm⟩ := Out.bind_ok _ _ _ hk
    exact clause_of_finishModel c dict k r hm hf

/-- **C12's first sentence about `Pipeline.load`**: a successful load with path resolution and an absolute project
directory hands on a model in which every string at a row of `absPath` / `absContextPath` / `maybeUnixPath` is absolute
or exempt (`PathOK`), and every row node is an output of its resolver -/
theorem load_rows_abs_or_exempt (c : Cfg) (docs : List Val.KVs) (r : Val.KVs) (h : load c docs = .ok r)
    (hon : c.opts.resolvePaths = true) (hwd : isAbs c.paths.wd = true) :
    ∃ m, finishLoad c (resolveEnvironment c.env m) = .ok r ∧
      RowsAre CV.Gen.resolvers (ImageOf c.paths) TPath.root (.map m) ∧
      RowsAre CV.Gen.resolvers PathOK TPath.root (.map m) := by
  obtain ⟨d, m, hf, hon', _⟩ := load_paths_clause c docs r h
  exact ⟨m, hf, Paths.resolve_rows_are_resolved c.paths d _ (hon' hon).1,
    Paths.resolve_rows_abs_or_exempt c.paths hwd d _ (hon' hon).1⟩

/-- with `SkipNormalization` the loaded model itself is (environment resolution of) the fixpoint: read off `PathsClause` -/
theorem load_result_is_resolved (c : Cfg) (docs : List Val.KVs) (r : Val.KVs) (h : load c docs = .ok r)
    (hn : c.opts.skipNormalization = true) (hon : c.opts.resolvePaths = true) (hok : IdemOK c.paths) :
    ∃ m, r = resolveEnvironment c.env m ∧ Paths.resolve c.paths (.map m) = .ok (.map m) := by
  obtain ⟨d, m, hf, hon', _⟩ := load_paths_clause c docs r h
  refine ⟨m, ?_, (hon' hon).2.2 hok⟩
  unfold finishLoad at hf
  split at hf
  · cases hf
  · split at hf
    · cases hf
    · simp only [hn, if_true, Out.ok.injEq] at hf
      exact hf.symm

end CV.Pipeline
