import ComposeVerif.Model.Template
import ComposeVerif.Spec.Template
import ComposeVerif.Gen.Consts
/-!
# C07 — variable substitution follows the Compose interpolation grammar

Property theorems only (helper lemmas live in `Lemmas/`).
-/
namespace CV.Template

/-- the regular expression and operator table the model was written against are the ones in the source now -/
theorem regex_is_modelled :
    CV.Gen.template_delimiter = "\\$" ∧
    CV.Gen.template_substitutionNamed = "[_a-z][_a-z0-9]*" ∧
    CV.Gen.template_substitutionBraced = "[_a-z][_a-z0-9]*(?::?[-+?](.*))?" ∧
    CV.Gen.template_patternFormat = "%s(?i:(?P<%s>%s)|(?P<%s>%s)|{(?:(?P<%s>%s)}|(?P<%s>)))" ∧
    CV.Gen.template_patternArgs = ["delimiter", "groupEscaped", "delimiter", "groupNamed", "substitutionNamed", "groupBraced", "substitutionBraced", "groupInvalid"] := by
  decide

theorem opTable_is_modelled :
    CV.Gen.template_opTable.map Prod.fst = opTable.map (fun o => String.ofList o.str) ∧
    CV.Gen.template_opTable.map Prod.snd =
      ["requiredErrorWhenEmptyOrUnset", "requiredErrorWhenUnset", "defaultWhenEmptyOrUnset",
       "defaultWhenUnset", "defaultWhenNotEmpty", "defaultWhenSet"] := by
  decide

end CV.Template
