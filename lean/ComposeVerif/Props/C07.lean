import ComposeVerif.Model.Template
import ComposeVerif.Spec.Template
import ComposeVerif.Gen.Consts
import ComposeVerif.Lemmas.TemplateMore
import ComposeVerif.Neg.C07
/-!
# C07 — variable substitution follows the Compose interpolation grammar

Property theorems only (helper lemmas live in `Lemmas/Template*.lean`).

`subst` is the executable model of `template.Substitute` (Model/Template.lean, tied to the Go
function by the differential correspondence of `harness/c07.go`); `renderL`/`evalOut`/`WF` are the
grammar, its meaning and the unambiguous concrete syntax (Spec/Template.lean).  `seq a b` is the
sequential composition of two outcomes: concatenation, the first error wins.
-/
namespace CV.Template

/-- the regular expression and operator table the model was written against are the ones in the source now -/
theorem regex_is_modelled :
    CV.Gen.template_delimiter = "\\$" ∧
    CV.Gen.template_substitutionNamed = "[_a-z][_a-z0-9]*" ∧
    CV.Gen.template_substitutionBraced = "[_a-z][_a-z0-9]*(?::?[-+?](.*))?" ∧
    CV.Gen.template_patternFormat = "%s(?i:(?P<%s>%s)|(?P<%s>%s)|{(?:(?P<%s>%s)}|(?P<%s>)))" ∧
    CV.Gen.template_patternArgs = ["delimiter", "groupEscaped", "delimiter", "groupNamed", "substitutionNamed", "groupBraced", "substitutionBraced", "groupInvalid"] := by
  decide

theorem opTable_is_modelled :
    CV.Gen.template_opTable.map Prod.fst = opTable.map (fun o => String.ofList o.str) ∧
    CV.Gen.template_opTable.map Prod.snd =
      ["requiredErrorWhenEmptyOrUnset", "requiredErrorWhenUnset", "defaultWhenEmptyOrUnset",
       "defaultWhenUnset", "defaultWhenNotEmpty", "defaultWhenSet"] := by
  decide

/-! ## Totality of the model: fuel and the panic branch -/

/-- `2·|s|+1` units of fuel are enough for the scan of `s`, whatever the accumulator and pending error -/
theorem fuel_sufficient (env : Env) (s acc : Str) (fe : Option Err) (f : Nat) (h : 2 * s.length + 1 ≤ f) :
    scan f env s acc fe ≠ .panic .fuel :=
  (fuel_suff_aux env f).1 s acc fe h

/-- the result does not depend on how much (sufficient) fuel is supplied -/
theorem fuel_irrelevant (env : Env) (s acc : Str) (fe : Option Err) (f g : Nat)
    (hf : 2 * s.length + 1 ≤ f) (hg : 2 * s.length + 1 ≤ g) : scan f env s acc fe = scan g env s acc fe :=
  scan_fuel_eq env s acc fe f g hf hg

/-- `Substitute` never panics: in particular the re-match of the text truncated at the first balanced `}`
    (`matchGroups(FindStringSubmatch(..))`, which would index a nil slice) always succeeds -/
theorem subst_never_panics (env : Env) (s : Str) (p : PanicSite) : subst env s ≠ .panic p :=
  subst_never_panics_aux env s p

/-! ## Text outside substitutions -/

/-- text without `$` is copied verbatim -/
theorem subst_lit (env : Env) (s : Str) (hs : ∀ c ∈ s, c ≠ '$') : subst env s = .ok s := by
  have := run_lit env s [] hs
  rw [List.append_nil, run_nil] at this
  rw [subst_eq_run, this, seq_nil_ok]

/-- `$$` yields one literal `$`, wherever it stands after a well-formed prefix -/
theorem subst_dollar_dollar (env : Env) (t : List Seg) (X : Str) (h : WF t = true) :
    subst env (renderL t ++ '$' :: '$' :: X) = seq (evalOut env t) (seq (.ok ['$']) (subst env X)) := by
  rw [subst_eq_run, subst_eq_run, list_run env t false h _ rfl, run_esc]

/-- escaping every `$` as `$$` protects arbitrary text (used by C08) -/
theorem subst_escape (env : Env) (s : Str) : subst env (escapeDollars s) = .ok s := by
  rw [subst_eq_run]; exact run_escapeDollars env s

/-- a `$` not followed by `$`, `{` or a name-start character is copied verbatim
    (after any well-formed prefix, before any text at all) -/
theorem subst_lone_dollar (env : Env) (t : List Seg) (X : Str) (h : WF t = true) (hX : loneAfter X) :
    subst env (renderL t ++ '$' :: X) = seq (evalOut env t) (seq (.ok ['$']) (subst env X)) := by
  rw [subst_eq_run, subst_eq_run, list_run env t false h _ rfl, run_lone env X hX]

/-! ## Malformed substitutions -/

/-- `${` not followed by `NAME}` or `NAME op … }` on the same line is an error: after a well-formed
    prefix the result is the prefix's own (earlier) error if it has one, and `invalid template` otherwise —
    whatever follows -/
theorem subst_malformed_err (env : Env) (t : List Seg) (r : Str) (h : WF t = true) (hbad : ¬ WellFormedBrace r) :
    subst env (renderL t ++ '$' :: '{' :: r) = seq (evalOut env t) (.err .invalid) := by
  rw [subst_eq_run, list_run env t false h _ rfl, run_malformed env r hbad]

/-- … in particular it is always an error -/
theorem subst_malformed_is_err (env : Env) (t : List Seg) (r : Str) (h : WF t = true) (hbad : ¬ WellFormedBrace r) :
    ∃ e, subst env (renderL t ++ '$' :: '{' :: r) = .err e := by
  rw [subst_malformed_err env t r h hbad]
  have hnp := evalOut_ne_panic env t
  cases hev : evalOut env t with
  | ok s => exact ⟨.invalid, rfl⟩
  | err e => exact ⟨e, rfl⟩
  | panic p => exact absurd hev (hnp p)

/-- `WellFormedBrace` is exact: the regular expression takes its `invalid` alternative after `${`
    precisely on the texts that are not `NAME}` / `NAME op … }`-on-the-same-line -/
theorem invalid_alternative_iff (r : Str) :
    (∃ m rest, matchDollar ('$' :: '{' :: r) = some (.invalid, m, rest)) ↔ ¬ WellFormedBrace r := by
  rw [← matchBraced_invalid_iff, matchDollar_brace]
  constructor
  · rintro ⟨m, rest, h⟩
    injection h with h
    exact (Prod.mk.inj h).1
  · intro h
    exact ⟨_, _, by rw [h]⟩

/-! ## The refinement -/

/-- **Refinement.** On the concrete syntax of every well-formed template — any nesting depth, any size —
    `Substitute` computes exactly what the grammar says (`evalOut`): values or the empty string for
    `$VAR`/`${VAR}`, the operator table `opSpec` for the six operators with the argument interpolated
    recursively, `$` for `$$`, literal text copied, first error in left-to-right order. -/
theorem subst_render (env : Env) (t : List Seg) (h : WF t = true) : subst env (renderL t) = evalOut env t := by
  rw [subst_eq_run]; exact run_render env t h

/-- The grammar at full strength (`WFml`: a newline may occur inside an operator argument) is *not*
    satisfied — `Neg.subst_render_multiline_false`, finding `grammar:newline-in-argument`.  This is the
    provable part: `WF` is `WFml` plus "no newline inside an operator argument". -/
theorem subst_render_multiline_partial (env : Env) (t : List Seg) (h : WF t = true) :
    WFml t = true ∧ subst env (renderL t) = evalOut env t :=
  ⟨list_wf_imp_wfML t false h, subst_render env t h⟩

/-- compositional form: a well-formed prefix is evaluated by the grammar and the scan of the remaining text
    (arbitrary, possibly malformed) starts afresh after it -/
theorem subst_render_append (env : Env) (t : List Seg) (X : Str) (h : WF t = true) (hX : noNameHead X = true) :
    subst env (renderL t ++ X) = seq (evalOut env t) (subst env X) := by
  rw [subst_eq_run, subst_eq_run]; exact list_run env t false h X hX

/-- the operator table, one substitution: `${n op arg}` is `opSpec op` applied to the interpolated argument;
    an error inside the argument is the result -/
theorem subst_op (env : Env) (n : Str) (o : Op) (arg : List Seg) (hn : validName n = true) (harg : wfL true arg = true) :
    subst env (Seg.op n o arg).render =
      match evalOut env arg with
      | .ok d => toOut (opSpec o n (env n) d)
      | r => r := by
  have hwf : WF [Seg.op n o arg] = true := by simp [WF, wfL, Seg.wf, hn, harg]
  have := subst_render env [Seg.op n o arg] hwf
  rw [renderL, renderL, List.append_nil] at this
  rw [this, evalOut_cons, evalOut_nil, seq_nil_ok, ← opOut_eval]
  unfold opOut
  cases evalOut env arg with
  | ok d => simp [applyOp_eq_opSpec]
  | err e => rfl
  | panic p => rfl

/-- the rows of the property statement, spelled out: `d` is the interpolated argument -/
theorem subst_op_table (env : Env) (n : Str) (arg : List Seg) (d : Str)
    (hn : validName n = true) (harg : wfL true arg = true) (hd : evalOut env arg = .ok d) :
    -- `${n:-arg}` / `${n-arg}`
    ((env n = none ∨ env n = some []) → subst env (Seg.op n .colonDash arg).render = .ok d) ∧
    (∀ v, env n = some v → v ≠ [] → subst env (Seg.op n .colonDash arg).render = .ok v) ∧
    (env n = none → subst env (Seg.op n .dash arg).render = .ok d) ∧
    (∀ v, env n = some v → subst env (Seg.op n .dash arg).render = .ok v) ∧
    -- `${n:+arg}` / `${n+arg}`
    (∀ v, env n = some v → v ≠ [] → subst env (Seg.op n .colonPlus arg).render = .ok d) ∧
    ((env n = none ∨ env n = some []) → subst env (Seg.op n .colonPlus arg).render = .ok []) ∧
    (∀ v, env n = some v → subst env (Seg.op n .plus arg).render = .ok d) ∧
    (env n = none → subst env (Seg.op n .plus arg).render = .ok []) ∧
    -- `${n:?arg}` / `${n?arg}`
    ((env n = none ∨ env n = some []) → subst env (Seg.op n .colonQ arg).render = .err (.required n d)) ∧
    (∀ v, env n = some v → v ≠ [] → subst env (Seg.op n .colonQ arg).render = .ok v) ∧
    (env n = none → subst env (Seg.op n .q arg).render = .err (.required n d)) ∧
    (∀ v, env n = some v → subst env (Seg.op n .q arg).render = .ok v) := by
  have h := fun o => subst_op env n o arg hn harg
  simp only [hd] at h
  refine ⟨?_, ?_, ?_, ?_, ?_, ?_, ?_, ?_, ?_, ?_, ?_, ?_⟩
  · rintro (h0 | h0) <;> rw [h, h0] <;> rfl
  · intro v hv hne; rw [h, hv]; cases v with
    | nil => exact absurd rfl hne
    | cons c cs => rfl
  · intro h0; rw [h, h0]; rfl
  · intro v hv; rw [h, hv]; rfl
  · intro v hv hne; rw [h, hv]; cases v with
    | nil => exact absurd rfl hne
    | cons c cs => rfl
  · rintro (h0 | h0) <;> rw [h, h0] <;> rfl
  · intro v hv; rw [h, hv]; rfl
  · intro h0; rw [h, h0]; rfl
  · rintro (h0 | h0) <;> rw [h, h0] <;> rfl
  · intro v hv hne; rw [h, hv]; cases v with
    | nil => exact absurd rfl hne
    | cons c cs => rfl
  · intro h0; rw [h, h0]; rfl
  · intro v hv; rw [h, hv]; rfl

/-- **Values are never expanded again**: a variable whose value is *any* text `v` — including text that
    contains `$`, `${…}` or `$$` — contributes exactly `v`, in any well-formed context -/
theorem subst_value_verbatim (env : Env) (n v : Str) (braced : Bool) (pre post : List Seg)
    (hv : env n = some v) (h : WF (pre ++ Seg.var n braced :: post) = true) :
    subst env (renderL (pre ++ Seg.var n braced :: post)) =
      seq (evalOut env pre) (seq (.ok v) (evalOut env post)) := by
  rw [subst_render env _ h, evalOut_append, evalOut_cons, Seg.eval, hv]; rfl

/-- the same for a default that is itself a variable: `${n:-$m}` with `n` unset yields the value of `m` verbatim -/
theorem subst_default_value_verbatim (env : Env) (n m v : Str) (hn : validName n = true) (hm : validName m = true)
    (hnv : env n = none) (hv : env m = some v) :
    subst env (Seg.op n .colonDash [Seg.var m true]).render = .ok v := by
  have harg : wfL true [Seg.var m true] = true := by simp [wfL, Seg.wf, hm]
  rw [subst_op env n .colonDash _ hn harg, evalOut_cons, evalOut_nil, seq_nil_ok, Seg.eval, hv]
  simp [toOut, opSpec, hnv]

/-! ## Non-vacuity -/

example : WF [.lit "a}b\n".toList, .op "A".toList .colonDash [.lit "x".toList, .op "B".toList .q [.esc, .var "C".toList false]],
              .lit "}".toList, .var "D".toList true, .var "E".toList false, .lit " z".toList] = true := by decide

/-- a JSON / Go-template default followed by another substitution on the same line (the shape the `fix:` commit repairs) -/
example : WF [.op "A".toList .colonDash [.lit "{{.N}} {}".toList], .lit " ".toList, .var "B".toList true] = true := by decide

example (env : Env) (b : Str) (hA : env ['A'] = none) (hB : env ['B'] = some b) :
    subst env "${A:-{}} ${B}".toList = .ok ("{} ".toList ++ b) := by
  have := subst_render env [.op ['A'] .colonDash [.lit ['{', '}']], .lit [' '], .var ['B'] true] (by decide)
  simpa [renderL, Seg.render, Op.str, evalOut, evalL, Seg.eval, opSpec, hA, hB] using this

example : ¬ WellFormedBrace "A:x}".toList := by
  rintro ⟨n, tail, hr, hn, hhead, h⟩
  obtain ⟨c, cs, rfl, hc, hall⟩ := validName_cases hn
  have hsp := spanName_name (c :: cs) tail hall ((noNameHead_iff tail).1 hhead)
  rw [← hr] at hsp
  have : spanName "A:x}".toList = ("A".toList, ":x}".toList) := by decide
  rw [this] at hsp
  injection hsp with h1 h2
  subst h2
  rcases h with h | ⟨o, r3, ho, _⟩
  · simp at h
  · cases o <;> simp [Op.str] at ho

example : loneAfter " x".toList := by
  intro c hc; simp at hc; subst hc; decide

end CV.Template
