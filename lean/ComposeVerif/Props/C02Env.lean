import ComposeVerif.Lemmas.C02EnvLoop
import ComposeVerif.Neg.C02Env
/-!
# C02 — `Project.WithServicesEnvironmentResolved` / `WithServicesLabelsResolved` do not depend on the order in which
Go ranges over `project.Services`

The loop bodies are C16's (`CV.EnvLayers.resolveServiceEnv / resolveServiceLabels`, tied to the real methods by C16's
correspondence, multi-service projects sharing files included); the loop is `CV.Det.EnvLoop.rangeServices`
(`Model/C02EnvLoop.lean`): list order = Go's iteration order, first error returned.
The closest wrong program — a cache of parsed files shared by the iterations — is refuted in `Neg/C02Env.lean`.
-/
namespace CV.Det.EnvLoop.Props
open CV CV.EnvLayers CV.Det.EnvLoop

/-- the loop succeeds exactly when every service's body does — no matter in which order they are visited -/
theorem rangeServices_ok_iff_all (body : Service → Except Err Service) (m : List (Str × Service)) :
    isOkE (rangeServices body m) = m.all (fun p => isOkE (body p.2)) := rangeServices_isOk body m

/-- on success every service holds what *its own* body returned: nothing flows from one iteration to another -/
theorem rangeServices_pointwise (body : Service → Except Err Service) (m r : List (Str × Service))
    (h : rangeServices body m = .ok r) : r = m.map (fun p => (p.1, bodyVal body p.2)) := rangeServices_ok_eq body m r h

/-- a failing loop reports the error of one of the failing services (which one depends on the order) -/
theorem rangeServices_error_from_a_service (body : Service → Except Err Service) (m : List (Str × Service)) (e : Err)
    (h : rangeServices body m = .error e) : ∃ p ∈ m, body p.2 = .error e := rangeServices_error_mem body m e h

/-- **the services loop is independent of Go's iteration order**: two orders fail or succeed alike and, on success,
produce the same services (a permutation of the same name ↦ service pairs) -/
theorem rangeServices_perm (body : Service → Except Err Service) {m m' : List (Str × Service)} (hp : m'.Perm m) :
    isOkE (rangeServices body m') = isOkE (rangeServices body m) ∧
    ∀ r r', rangeServices body m = .ok r → rangeServices body m' = .ok r' → r'.Perm r := rangeServices_perm_aux body hp

/-- **`Project.WithServicesEnvironmentResolved`** (any project environment, file system, registry of formats, `discard`) -/
theorem withServicesEnvironmentResolved_perm (penv : List (Key × Str)) (fs : FS) (discard : Bool)
    {m m' : List (Str × Service)} (hp : m'.Perm m) :
    isOkE (withServicesEnvironmentResolved penv fs discard m') = isOkE (withServicesEnvironmentResolved penv fs discard m) ∧
    ∀ r r', withServicesEnvironmentResolved penv fs discard m = .ok r →
      withServicesEnvironmentResolved penv fs discard m' = .ok r' → r'.Perm r :=
  rangeServices_perm_aux _ hp

/-- **`Project.WithServicesLabelsResolved`** -/
theorem withServicesLabelsResolved_perm (fs : FS) (discard : Bool) {m m' : List (Str × Service)} (hp : m'.Perm m) :
    isOkE (withServicesLabelsResolved fs discard m') = isOkE (withServicesLabelsResolved fs discard m) ∧
    ∀ r r', withServicesLabelsResolved fs discard m = .ok r → withServicesLabelsResolved fs discard m' = .ok r' → r'.Perm r :=
  rangeServices_perm_aux _ hp

/-- each service of the result is what C16's loop body makes of that service alone -/
theorem withServicesEnvironmentResolved_pointwise (penv : List (Key × Str)) (fs : FS) (discard : Bool)
    (m r : List (Str × Service)) (h : withServicesEnvironmentResolved penv fs discard m = .ok r) (n : Str) (sv : Service)
    (hm : (n, sv) ∈ r) : ∃ s0, (n, s0) ∈ m ∧ resolveServiceEnv penv fs discard s0 = .ok sv := by
  have hall : m.all (fun p => isOkE (resolveServiceEnv penv fs discard p.2)) = true := by
    rw [← rangeServices_isOk]; unfold withServicesEnvironmentResolved at h; rw [h]; rfl
  rw [rangeServices_ok_eq _ m r h, List.mem_map] at hm
  obtain ⟨p, hp, he⟩ := hm
  have hok := List.all_eq_true.mp hall p hp
  simp only [Prod.mk.injEq] at he
  refine ⟨p.2, by rw [← he.1]; exact hp, ?_⟩
  rw [← he.2]
  unfold bodyVal
  cases hb : resolveServiceEnv penv fs discard p.2 with
  | ok s' => rfl
  | error e => rw [hb] at hok; cases hok

/-! non-vacuity: two services sharing an env file, both orders -/
example :
    (withServicesEnvironmentResolved [] CV.Det.Neg.Env.fs true [CV.Det.Neg.Env.web, CV.Det.Neg.Env.worker]).toOption.map
      (fun l => l.map (fun p => (p.1, lookup ['G'] p.2.environment))) =
    some [(['w', 'e', 'b'], some (some ['h', 'i', '-', 'w', 'e', 'b'])), (['w', 'r', 'k'], some (some ['h', 'i', '-', 'w', 'r', 'k']))] := by
  decide

end CV.Det.EnvLoop.Props
