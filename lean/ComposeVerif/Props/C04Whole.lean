import ComposeVerif.Lemmas.Pipeline
/-!
# C04 — files and `---` documents through the composed pipeline

About `Model/Pipeline.lean` (the glue of `loadYamlFile` / `loadYamlModel`, tied to `loader.LoadModelWithContext` by the
correspondence streams `pipeline.load` and `pipeline.loadY`):

* a compose file made of several `---` documents is merged exactly like the same documents given as separate files
  (`files_are_documents`, `loadY_flatten`): the per-document step is the unit, nothing is carried from one
  document of a file to the next except the model built so far;
* a document without `!reset` / `!override` tags read from YAML text goes through the pipeline exactly like its
  decoded tree handed over as `ConfigFile.Config` (`untagged_document_is_its_tree`, `untagged_documents_are_trees`).
-/
namespace CV.C04.Whole
open CV CV.Pipeline

theorem processNodes_append (c : Cfg) : ∀ (a b : List Reset.YNode) (dict : Val),
    processNodes c dict (a ++ b) =
      match processNodes c dict a with
      | .ok d => processNodes c d b
      | .err e => .err e
      | .panic s => .panic s
  | [], b, dict => by simp [processNodes]
  | n :: r, b, dict => by
    simp only [List.cons_append, processNodes]
    cases processNode c dict n with
    | ok d => simpa using processNodes_append c r b d
    | err e => rfl
    | panic s => rfl

/-- **files are documents**: the loop over files, each a list of documents, is the loop over all the documents -/
theorem files_are_documents (c : Cfg) : ∀ (files : List (List Reset.YNode)) (dict : Val),
    processFiles c dict files = processNodes c dict files.flatten
  | [], dict => by simp [processFiles, processNodes]
  | f :: r, dict => by
    simp only [processFiles, List.flatten_cons, processNodes_append]
    cases processNodes c dict f with
    | ok d => simpa using files_are_documents c r d
    | err e => rfl
    | panic s => rfl

/-- … hence for the whole load: any split of the same documents into files gives the same model or the same failure -/
theorem loadY_flatten (c : Cfg) (files : List (List Reset.YNode)) (h : files ≠ []) :
    loadY c files = loadY c [files.flatten] := by
  have e : files.isEmpty = false := by cases files <;> simp_all
  simp only [loadY, e, loadYamlModelY, files_are_documents, List.isEmpty_cons, List.flatten_cons, List.flatten_nil,
    List.append_nil]

/-- a document without tags is its tree -/
theorem untagged_document_is_its_tree (c : Cfg) (dict : Val) (n : Reset.YNode) (cfg : Val.KVs)
    (h : untagged n = true) (hd : Reset.decode n = .map cfg) : processNode c dict n = processDoc c dict cfg :=
  processNode_untagged c dict n cfg h hd

/-- … and so is a list of them: trees written out as YAML documents (`nodeOf`) and read back by the loader go
through the pipeline exactly as the trees themselves -/
theorem untagged_documents_are_trees (c : Cfg) : ∀ (docs : List Val.KVs) (dict : Val),
    processNodes c dict (docs.map fun d => nodeOf (.map d)) = processDocs c dict docs
  | [], dict => rfl
  | d :: ds, dict => by
    have h := nodeOf_spec (.map d)
    simp only [List.map_cons, processNodes, processDocs, processNode_untagged c dict _ d h.1 h.2]
    cases processDoc c dict d with
    | ok d' => exact untagged_documents_are_trees c ds d'
    | err e => rfl
    | panic s => rfl

/-- the two entry points of the composed model agree: YAML text without tags, one document per file, loads exactly
like the parsed trees -/
theorem loadY_untagged_eq_load (c : Cfg) (docs : List Val.KVs) :
    loadY c (docs.map fun d => [nodeOf (.map d)]) = load c docs := by
  have e : (docs.map fun d => [nodeOf (.map d)]).isEmpty = docs.isEmpty := by cases docs <;> rfl
  have f : (docs.map fun d => [nodeOf (.map d)]).flatten = docs.map fun d => nodeOf (.map d) := by
    induction docs with
    | nil => rfl
    | cons d r ih => simp [ih]
  simp only [loadY, load, e, loadYamlModelY, loadYamlModel, files_are_documents, f, untagged_documents_are_trees]

/-- non-vacuity: a tagged document is *not* its tree — `!reset` removes what the earlier document gave -/
example : (Reset.readDoc (.map .none [("services", .map .none [("a", .map .none [("image", .scalar .reset (.str "x"))])])])).2
    = [["services", "a", "image"]] := by decide
example : untagged (.map .none [("services", .map .none [("a", .map .none [("image", .scalar .none (.str "x"))])])]) = true := by decide

end CV.C04.Whole
