import ComposeVerif.Lemmas.Pipeline
import ComposeVerif.Props.C04Stage
/-!
# C04 — files and `---` documents through the composed pipeline

About `Model/Pipeline.lean` (the glue of `loadYamlFile` / `loadYamlModel`, tied to `loader.LoadModelWithContext` by the
correspondence streams `pipeline.load` and `pipeline.loadY`):

* a compose file made of several `---` documents is merged exactly like the same documents given as separate files
  (`files_are_documents`, `loadY_flatten`): the per-document step is the unit, nothing is carried from one
  document of a file to the next except the model built so far;
* a document without `!reset` / `!override` tags read from YAML text goes through the pipeline exactly like its
  decoded tree handed over as `ConfigFile.Config` (`untagged_document_is_its_tree`, `untagged_documents_are_trees`).

Round 6:

* **the load is a left fold** (`processNodes_foldl`, `processFiles_foldl`, `processDocs_foldl`, `loadY_is_left_fold`,
  `processNodes_snoc`, `processDocs_snoc`): loading `f1..fn` *is* "apply each later one onto the result so far",
  starting from the empty model; a failure of one step is the failure of the load.  The bracketing matters — the
  override rules are not associative (`Neg/C04Whole.lean`, `merge_not_associative`).
* **single entry per key, through the composed pipeline** (`mergeStages_deduplicated`, `processDoc_deduplicated`,
  `processNode_deduplicated`, `processNodes_deduplicated`, `processFiles_deduplicated`, `accumulated_model_deduplicated`):
  whatever interpolation, extends, schema validation, canonicalisation and omit-empty did, the model accumulated
  after every document is a fixed point of `EnforceUnicity` — now for the *modelled* stages, not a parameter `post`.
* **`!reset` / `!override` over the composed pipeline**: a tagged document is its stripped tree applied to the model
  from which the recorded paths were deleted (`tagged_document_is_stripped_tree_after_apply`); `Apply` is idempotent
  (`applyNull_idem`) and depends only on the *set* of recorded paths (`applyNull_congr`, `applyNull_perm`,
  `applyNull_dup`): neither the order in which the tags appear in the document nor a path recorded twice matters;
  with interpolation and extends off the step refines C04's `Reset.docStep` (`processNode_refines_docStep`), so the
  top-level `!reset` / `!override` laws hold for the model that enters schema validation
  (`processNode_reset_removes_partial`, `processNode_override_replaces_partial`).
-/
namespace CV.C04.Whole
open CV CV.Pipeline

theorem processNodes_append (c : Cfg) : ∀ (a b : List Reset.YNode) (dict : Val),
    processNodes c dict (a ++ b) =
      match processNodes c dict a with
      | .ok d => processNodes c d b
      | .err e => .err e
      | .panic s => .panic s
  | [], b, dict => by simp [processNodes]
  | n :: r, b, dict => by
    simp only [List.cons_append, processNodes]
    cases processNode c dict n with
    | ok d => simpa using processNodes_append c r b d
    | err e => rfl
    | panic s => rfl

/-- **files are documents**: the loop over files, each a list of documents, is the loop over all the documents -/
theorem files_are_documents (c : Cfg) : ∀ (files : List (List Reset.YNode)) (dict : Val),
    processFiles c dict files = processNodes c dict files.flatten
  | [], dict => by simp [processFiles, processNodes]
  | f :: r, dict => by
    simp only [processFiles, List.flatten_cons, processNodes_append]
    cases processNodes c dict f with
    | ok d => simpa using files_are_documents c r d
    | err e => rfl
    | panic s => rfl

/-- … hence for the whole load: any split of the same documents into files gives the same model or the same failure -/
theorem loadY_flatten (c : Cfg) (files : List (List Reset.YNode)) (h : files ≠ []) :
    loadY c files = loadY c [files.flatten] := by
  have e : files.isEmpty = false := by cases files <;> simp_all
  simp only [loadY, e, loadYamlModelY, files_are_documents, List.isEmpty_cons, List.flatten_cons, List.flatten_nil,
    List.append_nil]

/-- a document without tags is its tree -/
theorem untagged_document_is_its_tree (c : Cfg) (dict : Val) (n : Reset.YNode) (cfg : Val.KVs)
    (h : untagged n = true) (hd : Reset.decode n = .map cfg) : processNode c dict n = processDoc c dict cfg :=
  processNode_untagged c dict n cfg h hd

/-- … and so is a list of them: trees written out as YAML documents (`nodeOf`) and read back by the loader go
through the pipeline exactly as the trees themselves -/
theorem untagged_documents_are_trees (c : Cfg) : ∀ (docs : List Val.KVs) (dict : Val),
    processNodes c dict (docs.map fun d => nodeOf (.map d)) = processDocs c dict docs
  | [], dict => rfl
  | d :: ds, dict => by
    have h := nodeOf_spec (.map d)
    simp only [List.map_cons, processNodes, processDocs, processNode_untagged c dict _ d h.1 h.2]
    cases processDoc c dict d with
    | ok d' => exact untagged_documents_are_trees c ds d'
    | err e => rfl
    | panic s => rfl

/-- the two entry points of the composed model agree: YAML text without tags, one document per file, loads exactly
like the parsed trees -/
theorem loadY_untagged_eq_load (c : Cfg) (docs : List Val.KVs) :
    loadY c (docs.map fun d => [nodeOf (.map d)]) = load c docs := by
  have e : (docs.map fun d => [nodeOf (.map d)]).isEmpty = docs.isEmpty := by cases docs <;> rfl
  have f : (docs.map fun d => [nodeOf (.map d)]).flatten = docs.map fun d => nodeOf (.map d) := by
    induction docs with
    | nil => rfl
    | cons d r ih => simp [ih]
  simp only [loadY, load, e, loadYamlModelY, loadYamlModel, files_are_documents, f, untagged_documents_are_trees]

/-- non-vacuity: a tagged document is *not* its tree — `!reset` removes what the earlier document gave -/
example : (Reset.readDoc (.map .none [("services", .map .none [("a", .map .none [("image", .scalar .reset (.str "x"))])])])).2
    = [["services", "a", "image"]] := by decide
example : untagged (.map .none [("services", .map .none [("a", .map .none [("image", .scalar .none (.str "x"))])])]) = true := by decide

/-! ## Round 6 — the load is a left fold -/

/-- a failed load stays failed: the remaining files are not looked at -/
theorem foldl_bind_err {α : Type} (g : Val → α → Out Val) (e : String) : ∀ l : List α,
    l.foldl (fun (acc : Out Val) x => acc.bind fun d => g d x) (.err e) = .err e
  | [] => rfl
  | _ :: r => by simpa [List.foldl, Out.bind] using foldl_bind_err g e r

theorem foldl_bind_panic {α : Type} (g : Val → α → Out Val) (s : String) : ∀ l : List α,
    l.foldl (fun (acc : Out Val) x => acc.bind fun d => g d x) (.panic s) = .panic s
  | [] => rfl
  | _ :: r => by simpa [List.foldl, Out.bind] using foldl_bind_panic g s r

/-- **documents: "apply each later one onto the result so far"** -/
theorem processNodes_foldl (c : Cfg) : ∀ (ns : List Reset.YNode) (dict : Val),
    processNodes c dict ns = ns.foldl (fun (acc : Out Val) n => acc.bind fun d => processNode c d n) (.ok dict)
  | [], _ => rfl
  | n :: r, dict => by
    simp only [processNodes, List.foldl, Out.bind]
    cases processNode c dict n with
    | ok d => exact processNodes_foldl c r d
    | err e => exact (foldl_bind_err (processNode c) e r).symm
    | panic s => exact (foldl_bind_panic (processNode c) s r).symm

/-- **files: the same, a file being the fold of its documents** -/
theorem processFiles_foldl (c : Cfg) : ∀ (files : List (List Reset.YNode)) (dict : Val),
    processFiles c dict files = files.foldl (fun (acc : Out Val) f => acc.bind fun d => processNodes c d f) (.ok dict)
  | [], _ => rfl
  | f :: r, dict => by
    simp only [processFiles, List.foldl, Out.bind]
    cases processNodes c dict f with
    | ok d => exact processFiles_foldl c r d
    | err e => exact (foldl_bind_err (processNodes c) e r).symm
    | panic s => exact (foldl_bind_panic (processNodes c) s r).symm

/-- … and for files handed over as parsed trees -/
theorem processDocs_foldl (c : Cfg) : ∀ (docs : List Val.KVs) (dict : Val),
    processDocs c dict docs = docs.foldl (fun (acc : Out Val) d => acc.bind fun m => processDoc c m d) (.ok dict)
  | [], _ => rfl
  | d :: r, dict => by
    simp only [processDocs, List.foldl, Out.bind]
    cases processDoc c dict d with
    | ok m => exact processDocs_foldl c r m
    | err e => exact (foldl_bind_err (processDoc c) e r).symm
    | panic s => exact (foldl_bind_panic (processDoc c) s r).symm

/-- **the whole load of `f1..fn`**: the left fold of the per-file step from the empty model, then the stages that run
once (`finishModel`, `finishLoad`) -/
theorem loadY_is_left_fold (c : Cfg) (files : List (List Reset.YNode)) (h : files ≠ []) :
    loadY c files =
      ((files.foldl (fun (acc : Out Val) f => acc.bind fun d => processNodes c d f) (.ok (.map []))).bind (finishModel c)).bind
        (finishLoad c) := by
  have e : files.isEmpty = false := by cases files <;> simp_all
  simp only [loadY, e, loadYamlModelY, processFiles_foldl]
  rfl

/-- one more document at the end = the load so far, then that document applied onto it -/
theorem processNodes_snoc (c : Cfg) (ns : List Reset.YNode) (n : Reset.YNode) (dict : Val) :
    processNodes c dict (ns ++ [n]) = (processNodes c dict ns).bind fun d => processNode c d n := by
  rw [processNodes_append]
  cases processNodes c dict ns with
  | ok d =>
    simp only [processNodes, Out.bind]
    cases processNode c d n <;> rfl
  | err e => rfl
  | panic s => rfl

theorem processDocs_snoc (c : Cfg) (docs : List Val.KVs) (d : Val.KVs) (dict : Val) :
    processDocs c dict (docs ++ [d]) = (processDocs c dict docs).bind fun m => processDoc c m d := by
  rw [processDocs_foldl, List.foldl_append, ← processDocs_foldl]
  rfl

/-! ## Round 6 — a single entry per key after every document, for the modelled stages -/

theorem pbind_ok {α β : Type} {x : Out α} {f : α → Out β} {b : β} (h : x.bind f = .ok b) :
    ∃ a, x = .ok a ∧ f a = .ok b := by
  cases x with
  | ok a => exact ⟨a, rfl, h⟩
  | err e => simp [Out.bind] at h
  | panic s => simp [Out.bind] at h

theorem ofMerge_ok {α : Type} {st : String} {r : Merge.Out α} {a : α} (h : ofMerge st r = .ok a) : r = .ok a := by
  cases r <;> simp_all [ofMerge]

/-- `processRawYaml` ends with `EnforceUnicity`: whatever it is given, what it returns is a fixed point -/
theorem mergeStages_deduplicated (c : Cfg) (dict : Val) (cfg : Val.KVs) (r : Val)
    (h : mergeStages c dict cfg = .ok r) : Unicity.enforceTop r = .ok r := by
  unfold mergeStages at h
  obtain ⟨_, _, h⟩ := pbind_ok h
  obtain ⟨_, _, h⟩ := pbind_ok h
  obtain ⟨_, _, h⟩ := pbind_ok h
  obtain ⟨_, _, h⟩ := pbind_ok h
  obtain ⟨d, _, h⟩ := pbind_ok h
  exact CV.C04.enforceTop_idem d r (ofMerge_ok h)

theorem processDoc_deduplicated (c : Cfg) (dict : Val) (cfg : Val.KVs) (r : Val)
    (h : processDoc c dict cfg = .ok r) : Unicity.enforceTop r = .ok r := by
  unfold processDoc at h
  obtain ⟨_, _, h⟩ := pbind_ok h
  obtain ⟨_, _, h⟩ := pbind_ok h
  exact mergeStages_deduplicated c _ _ r h

theorem processNode_deduplicated (c : Cfg) (dict : Val) (n : Reset.YNode) (r : Val)
    (h : processNode c dict n = .ok r) : Unicity.enforceTop r = .ok r := by
  unfold processNode at h
  generalize Reset.readDoc n = rd at h
  obtain ⟨v, paths⟩ := rd
  cases v with
  | map cfg =>
    simp only at h
    obtain ⟨_, _, h⟩ := pbind_ok h
    obtain ⟨_, _, h⟩ := pbind_ok h
    exact mergeStages_deduplicated c _ _ r h
  | _ => simp at h

theorem processNodes_deduplicated (c : Cfg) : ∀ (ns : List Reset.YNode) (dict r : Val),
    Unicity.enforceTop dict = .ok dict → processNodes c dict ns = .ok r → Unicity.enforceTop r = .ok r
  | [], dict, r, hd, h => by simp only [processNodes, Out.ok.injEq] at h; subst h; exact hd
  | n :: ns, dict, r, _, h => by
    simp only [processNodes] at h
    cases hn : processNode c dict n with
    | ok d => rw [hn] at h; exact processNodes_deduplicated c ns d r (processNode_deduplicated c dict n d hn) h
    | err e => simp [hn] at h
    | panic s => simp [hn] at h

theorem processFiles_deduplicated (c : Cfg) : ∀ (files : List (List Reset.YNode)) (dict r : Val),
    Unicity.enforceTop dict = .ok dict → processFiles c dict files = .ok r → Unicity.enforceTop r = .ok r
  | [], dict, r, hd, h => by simp only [processFiles, Out.ok.injEq] at h; subst h; exact hd
  | f :: fs, dict, r, hd, h => by
    simp only [processFiles] at h
    cases hn : processNodes c dict f with
    | ok d => rw [hn] at h; exact processFiles_deduplicated c fs d r (processNodes_deduplicated c f dict d hd hn) h
    | err e => simp [hn] at h
    | panic s => simp [hn] at h

/-- **the model `loadYamlModel` has accumulated when the loop over the files ends holds a single entry per key in
every keyed list** — any number of files and documents, any option flags, with the modelled interpolation, extends,
schema, canonicalisation and omit-empty stages in between -/
theorem accumulated_model_deduplicated (c : Cfg) (files : List (List Reset.YNode)) (r : Val)
    (h : processFiles c (.map []) files = .ok r) : Unicity.enforceTop r = .ok r :=
  processFiles_deduplicated c files _ r (by rfl) h

/-! ## Round 6 — `!reset` / `!override` over the composed pipeline -/

/-- **a tagged document** goes through the pipeline as its stripped tree (the `!reset` nodes dropped, the `!override`
nodes kept) applied to the model so far *from which the recorded paths were deleted first* -/
theorem tagged_document_is_stripped_tree_after_apply (c : Cfg) (dict : Val) (n : Reset.YNode) (cfg : Val.KVs)
    (paths : List TPath) (h : Reset.readDoc n = (.map cfg, paths)) :
    processNode c dict n = processDoc c (Reset.applyNull paths dict TPath.root) cfg := by
  simp only [processNode, h, processDoc]

open CV.Reset in
mutual
/-- `Apply` looks at the recorded paths only through "does some recorded path match this position" -/
theorem applyNull_congr (ps qs : List TPath) (h : ∀ q, matchesAny ps q = matchesAny qs q) :
    ∀ (v : Val) (p : TPath), applyNull ps v p = applyNull qs v p
  | .null, _ => by simp [applyNull]
  | .bool _, _ => by simp [applyNull]
  | .int _, _ => by simp [applyNull]
  | .float _, _ => by simp [applyNull]
  | .str _, _ => by simp [applyNull]
  | .seq xs, p => by simp [applyNull, applySeq_congr ps qs h xs p 0]
  | .map kvs, p => by simp [applyNull, applyKVs_congr ps qs h kvs p]
theorem applyKVs_congr (ps qs : List TPath) (h : ∀ q, matchesAny ps q = matchesAny qs q) :
    ∀ (kvs : Val.KVs) (p : TPath), applyKVs ps kvs p = applyKVs qs kvs p
  | [], _ => by simp [applyKVs]
  | (k, e) :: r, p => by simp [applyKVs, h, applyNull_congr ps qs h e _, applyKVs_congr ps qs h r p]
theorem applySeq_congr (ps qs : List TPath) (h : ∀ q, matchesAny ps q = matchesAny qs q) :
    ∀ (xs : List Val) (p : TPath) (i : Nat), applySeq ps xs p i = applySeq qs xs p i
  | [], _, _ => by simp [applySeq]
  | e :: r, p, i => by simp [applySeq, h, applyNull_congr ps qs h e _, applySeq_congr ps qs h r p (i + 1)]
end

/-- the order in which the tags were met in the document is irrelevant -/
theorem applyNull_perm (ps qs : List TPath) (h : ps.Perm qs) (v : Val) (p : TPath) :
    Reset.applyNull ps v p = Reset.applyNull qs v p :=
  applyNull_congr ps qs (fun q => by simp only [Reset.matchesAny]; exact h.any_eq) v p

/-- a path recorded twice (an anchor used at two places resolving to one path, a processor that saw the document
twice) deletes nothing more -/
theorem applyNull_dup (ps : List TPath) (v : Val) (p : TPath) :
    Reset.applyNull (ps ++ ps) v p = Reset.applyNull ps v p :=
  applyNull_congr _ _ (fun q => by simp [Reset.matchesAny, List.any_append]) v p

open CV.Reset in
mutual
/-- `Apply` is idempotent: what it leaves matches no recorded path any more -/
theorem applyNull_idem (ps : List TPath) : ∀ (v : Val) (p : TPath), applyNull ps (applyNull ps v p) p = applyNull ps v p
  | .null, _ => by simp [applyNull]
  | .bool _, _ => by simp [applyNull]
  | .int _, _ => by simp [applyNull]
  | .float _, _ => by simp [applyNull]
  | .str _, _ => by simp [applyNull]
  | .seq xs, p => by simp [applyNull, applySeq_idem ps xs p 0]
  | .map kvs, p => by simp [applyNull, applyKVs_idem ps kvs p]
theorem applyKVs_idem (ps : List TPath) : ∀ (kvs : Val.KVs) (p : TPath), applyKVs ps (applyKVs ps kvs p) p = applyKVs ps kvs p
  | [], _ => by simp [applyKVs]
  | (k, e) :: r, p => by
    by_cases hm : matchesAny ps (Merge.next p k) = true
    · simp [applyKVs, hm, applyKVs_idem ps r p]
    · simp [applyKVs, hm, applyNull_idem ps e _, applyKVs_idem ps r p]
theorem applySeq_idem (ps : List TPath) : ∀ (xs : List Val) (p : TPath) (i : Nat),
    applySeq ps (applySeq ps xs p i) p i = applySeq ps xs p i
  | [], _, _ => by simp [applySeq]
  | e :: r, p, i => by
    by_cases hm : matchesAny ps (Merge.next p ("[" ++ i.repr ++ "]")) = true
    · simp [applySeq, hm, applySeq_idem ps r p (i + 1)]
    · simp [applySeq, hm, applyNull_idem ps e _, applySeq_idem ps r p (i + 1)]
end

/-- `Apply` on the empty model deletes nothing -/
theorem applyNull_empty (ps : List TPath) : Reset.applyNull ps (.map []) TPath.root = .map [] := by
  simp [Reset.applyNull, Reset.applyKVs]

/-- **tags in the first document only strip**: with nothing loaded yet a `!reset` node is simply absent and an
`!override` node is its plain value — the first file of a load (and a file loaded alone) goes through the pipeline as
its stripped tree -/
theorem first_document_tags_only_strip (c : Cfg) (n : Reset.YNode) (cfg : Val.KVs) (paths : List TPath)
    (h : Reset.readDoc n = (.map cfg, paths)) : processNode c (.map []) n = processDoc c (.map []) cfg := by
  rw [tagged_document_is_stripped_tree_after_apply c _ n cfg paths h, applyNull_empty]

/-- the stages of `processRawYaml` after the first `EnforceUnicity` -/
def restStages (c : Cfg) (u : Val) : Out Val :=
  (schemaStage c.opts u).bind fun d =>
  (ofShort (Short.canonical c.opts.skipInterpolation d)).bind fun d =>
  (omitEmpty c.omitPats d).bind fun d =>
  ofMerge "unicity2" (Unicity.enforceTop d)

/-- **the composed step refines C04's `docStep`**: with interpolation and extends switched off, a document succeeds
through `processNode` exactly when C04's reset → merge → unicity step succeeds and the remaining stages accept its
result -/
theorem processNode_refines_docStep (c : Cfg) (hi : c.opts.skipInterpolation = true) (he : c.opts.skipExtends = true)
    (dict : Val) (es : List (String × Reset.YNode)) (r : Val) :
    processNode c dict (.map .none es) = .ok r ↔
      ∃ u, Reset.docStep .ok dict (.map .none es) = .ok u ∧ restStages c u = .ok r := by
  simp only [processNode, Reset.readDoc, Reset.resolve, Reset.decode, interpStage, hi, extendsStage, he, if_true,
    Out.bind, mergeStages, Reset.docStep, restStages]
  cases Merge.merge (Reset.applyNull (Reset.resolveMap es TPath.root).2 dict TPath.root)
      (.map (Reset.decodeKV (Reset.resolveMap es TPath.root).1)) with
  | ok m =>
    simp only [ofMerge, Out.bind, Merge.Out.bind]
    cases Unicity.enforceTop m with
    | ok u => simp [ofMerge, Out.bind, Merge.Out.bind]
    | err e => simp [ofMerge, Out.bind, Merge.Out.bind]
    | panic s => simp [ofMerge, Out.bind, Merge.Out.bind]
  | err e => simp [ofMerge, Out.bind, Merge.Out.bind]
  | panic s => simp [ofMerge, Out.bind, Merge.Out.bind]

/-- `!reset` on a top-level entry, through the composed step: the model that enters schema validation and
canonicalisation does not have the key, whatever the earlier files held there.  (`_partial`: the full statement —
the key is absent from the *returned* model `r` — additionally needs "canonicalisation and omit-empty add no top-level
key", which is not proved here; the split oracle observes it on the real loader.) -/
theorem processNode_reset_removes_partial (c : Cfg) (hi : c.opts.skipInterpolation = true) (he : c.opts.skipExtends = true)
    (a : Val.KVs) (es : List (String × Reset.YNode)) (k : String) (x : Reset.YNode) (r : Val)
    (ht : x.tag = .reset) (hnd : (es.map Prod.fst).Nodup) (hmem : (k, x) ∈ es)
    (h : processNode c (.map a) (.map .none es) = .ok r) :
    ∃ u, Reset.docStep .ok (.map a) (.map .none es) = .ok (.map u) ∧ Val.lookup k u = none ∧ restStages c (.map u) = .ok r := by
  obtain ⟨u, hu, hr⟩ := (processNode_refines_docStep c hi he _ es r).1 h
  obtain ⟨m, r', _, _, heq⟩ := CV.C04.docStep_root a es u hu
  subst heq
  exact ⟨r', hu, CV.C04.docStep_reset_removes a es k x r' ht hnd hmem hu, hr⟩

/-- `!override` on a top-level entry, through the composed step: the key is in the model that enters schema
validation, and it got there from the later document alone (`override_replaces`) -/
theorem processNode_override_replaces_partial (c : Cfg) (hi : c.opts.skipInterpolation = true) (he : c.opts.skipExtends = true)
    (a : Val.KVs) (es : List (String × Reset.YNode)) (k : String) (x : Reset.YNode) (r : Val)
    (ht : x.tag = .override) (hnd : (es.map Prod.fst).Nodup) (hmem : (k, x) ∈ es)
    (h : processNode c (.map a) (.map .none es) = .ok r) :
    ∃ u, Reset.docStep .ok (.map a) (.map .none es) = .ok (.map u) ∧ k ∈ Val.keys u ∧ restStages c (.map u) = .ok r := by
  obtain ⟨u, hu, hr⟩ := (processNode_refines_docStep c hi he _ es r).1 h
  obtain ⟨m, r', _, _, heq⟩ := CV.C04.docStep_root a es u hu
  subst heq
  exact ⟨r', hu, CV.C04.docStep_override_replaces a es k x r' ht hnd hmem hu, hr⟩

/-! ## Round 6 — the remaining stages add no top-level key, so a `!reset` key stays out of the returned model -/

theorem erase_keys_sub (k0 : String) : ∀ (kvs : Val.KVs) (k : String), k ∈ Val.keys (Val.erase k0 kvs) → k ∈ Val.keys kvs
  | [], _, h => by simp [Val.erase, Val.keys] at h
  | (k', v') :: r, k, h => by
    simp only [Val.erase] at h
    split at h
    · have := erase_keys_sub k0 r k h
      simp only [Val.keys, List.map_cons, List.mem_cons] at this ⊢
      exact Or.inr this
    · simp only [Val.keys, List.map_cons, List.mem_cons] at h ⊢
      rcases h with h | h
      · exact Or.inl h
      · exact Or.inr (erase_keys_sub k0 r k h)

theorem schemaStage_top_keys (o : Opts) (u : Val.KVs) (d : Val) (h : schemaStage o (.map u) = .ok d) :
    ∃ kvs, d = .map kvs ∧ ∀ k, k ∈ Val.keys kvs → k ∈ Val.keys u := by
  unfold schemaStage at h
  split at h
  · cases h; exact ⟨u, rfl, fun _ hk => hk⟩
  · split at h
    · simp only [Out.ok.injEq] at h
      subst h
      exact ⟨_, rfl, erase_keys_sub "version" u⟩
    · cases h

theorem transformKVs_keys (ign : Bool) (p : TPath) : ∀ (m r : Val.KVs),
    Short.transformKVs ign p m = .ok r → Val.keys r = Val.keys m
  | [], r, h => by simp only [Short.transformKVs, Short.Out.ok.injEq] at h; subst h; rfl
  | (k, e) :: m, r, h => by
    simp only [Short.transformKVs] at h
    split at h
    · split at h
      · rename_i r' hr
        simp only [Short.Out.ok.injEq] at h
        subst h
        simp only [Val.keys, List.map_cons, List.cons.injEq, true_and]
        exact transformKVs_keys ign p m r' hr
      · cases h
      · cases h
    · cases h
    · cases h

theorem transformers_root : TPath.firstMatch CV.Gen.transformers TPath.root = none := by decide

theorem canonical_top_keys (ign : Bool) (kvs : Val.KVs) (d : Val) (h : Short.canonical ign (.map kvs) = .ok d) :
    ∃ r, d = .map r ∧ Val.keys r = Val.keys kvs := by
  simp only [Short.canonical, Short.transform, transformers_root, Short.recursesOnMap, Short.postMap, Short.bindOut] at h
  simp only [Bool.or_eq_true, decide_eq_true_eq, true_or, if_true] at h
  cases ht : Short.transformKVs ign TPath.root kvs with
  | ok r =>
    rw [ht] at h
    simp at h
    exact ⟨r, h.symm, transformKVs_keys ign _ kvs r ht⟩
  | err e => rw [ht] at h; simp at h
  | panic s => rw [ht] at h; simp at h

theorem toKVs_keys : ∀ m : List (String × C01.GoVal), (toKVs m).map Prod.fst = m.map Prod.fst
  | [] => by simp [toKVs]
  | (k, v) :: r => by simp [toKVs, toKVs_keys r]

theorem ofKVs_keys : ∀ m : Val.KVs, (ofKVs m).map Prod.fst = m.map Prod.fst
  | [] => by simp [ofKVs]
  | (k, v) :: r => by simp [ofKVs, ofKVs_keys r]

theorem omitKVs_keys_sub (pats : List (List String)) (p : TPath) : ∀ (m : List (String × C01.GoVal)) (k : String),
    k ∈ (C01.omitKVs pats m p).map Prod.fst → k ∈ m.map Prod.fst
  | [], _, h => by simp [C01.omitKVs] at h
  | (k', v) :: r, k, h => by
    simp only [C01.omitKVs] at h
    split at h
    · simp only [List.map_cons, List.mem_cons]
      exact Or.inr (omitKVs_keys_sub pats p r k h)
    · simp only [List.map_cons, List.mem_cons] at h ⊢
      rcases h with h | h
      · exact Or.inl h
      · exact Or.inr (omitKVs_keys_sub pats p r k h)

theorem omitEmpty_top_keys (pats : List (List String)) (kvs : Val.KVs) (d : Val) (h : omitEmpty pats (.map kvs) = .ok d) :
    ∃ r, d = .map r ∧ ∀ k, k ∈ Val.keys r → k ∈ Val.keys kvs := by
  simp only [omitEmpty, C01.omitEmptyTop, C01.omitEmpty, Out.ok.injEq] at h
  subst h
  refine ⟨_, rfl, fun k hk => ?_⟩
  simp only [Val.keys, toKVs_keys] at hk
  have := omitKVs_keys_sub pats TPath.root _ k hk
  simpa [Val.keys, ofKVs_keys] using this

/-- **schema validation, canonicalisation, omit-empty and the second unicity pass add no top-level key** -/
theorem restStages_no_new_top_key (c : Cfg) (u : Val.KVs) (r : Val) (h : restStages c (.map u) = .ok r) :
    ∃ kvs, r = .map kvs ∧ ∀ k, k ∈ Val.keys kvs → k ∈ Val.keys u := by
  unfold restStages at h
  obtain ⟨d1, h1, h⟩ := pbind_ok h
  obtain ⟨d2, h2, h⟩ := pbind_ok h
  obtain ⟨d3, h3, h⟩ := pbind_ok h
  obtain ⟨k1, rfl, s1⟩ := schemaStage_top_keys c.opts u d1 h1
  have h2' : Short.canonical c.opts.skipInterpolation (.map k1) = .ok d2 := by
    cases hc : Short.canonical c.opts.skipInterpolation (.map k1) <;> simp_all [ofShort]
  obtain ⟨k2, rfl, s2⟩ := canonical_top_keys _ k1 d2 h2'
  obtain ⟨k3, rfl, s3⟩ := omitEmpty_top_keys _ k2 d3 h3
  have h4 := ofMerge_ok h
  simp only [Unicity.enforceTop, Unicity.enforce] at h4
  obtain ⟨m, hm, h4⟩ := CV.Unicity.out_bind_ok h4
  simp only [Merge.Out.ok.injEq] at h4
  subst h4
  refine ⟨m, rfl, fun k hk => ?_⟩
  rw [CV.C04.enforceKVs_keys _ _ _ hm] at hk
  exact s1 k (s2 ▸ s3 k hk)

/-- **`!reset` on a top-level entry removes it from the model the composed step returns** — tag resolution, `Apply`,
merge, unicity, schema validation, canonicalisation, omit-empty, unicity: whatever the earlier files held at `k`,
the returned model has no `k` (interpolation and extends off) -/
theorem processNode_reset_removes (c : Cfg) (hi : c.opts.skipInterpolation = true) (he : c.opts.skipExtends = true)
    (a : Val.KVs) (es : List (String × Reset.YNode)) (k : String) (x : Reset.YNode) (r : Val)
    (ht : x.tag = .reset) (hnd : (es.map Prod.fst).Nodup) (hmem : (k, x) ∈ es)
    (h : processNode c (.map a) (.map .none es) = .ok r) : ∃ kvs, r = .map kvs ∧ Val.lookup k kvs = none := by
  obtain ⟨u, _, hk, hr⟩ := processNode_reset_removes_partial c hi he a es k x r ht hnd hmem h
  obtain ⟨kvs, rfl, hs⟩ := restStages_no_new_top_key c u _ hr
  refine ⟨kvs, rfl, ?_⟩
  rw [CV.Merge.lookup_eq_none_iff] at hk ⊢
  exact fun hin => hk (hs k hin)

/-! ## Round 6 — `!override` at full strength: which top-level keys the remaining stages can drop -/

theorem erase_keys_mem (k0 : String) : ∀ (kvs : Val.KVs) (k : String), k ≠ k0 → k ∈ Val.keys kvs → k ∈ Val.keys (Val.erase k0 kvs)
  | [], _, _, h => by simp [Val.keys] at h
  | (k', v') :: r, k, hne, h => by
    simp only [Val.keys, List.map_cons, List.mem_cons] at h
    simp only [Val.erase]
    split
    · rename_i hk
      rcases h with h | h
      · exact absurd (h.trans hk.symm) hne
      · exact erase_keys_mem k0 r k hne h
    · simp only [Val.keys, List.map_cons, List.mem_cons]
      rcases h with h | h
      · exact Or.inl h
      · exact Or.inr (erase_keys_mem k0 r k hne h)

theorem schemaStage_keeps_key (o : Opts) (u : Val.KVs) (d : Val) (k : String) (hk : k ≠ "version")
    (h : schemaStage o (.map u) = .ok d) (hin : k ∈ Val.keys u) : ∃ kvs, d = .map kvs ∧ k ∈ Val.keys kvs := by
  unfold schemaStage at h
  split at h
  · cases h; exact ⟨u, rfl, hin⟩
  · split at h
    · simp only [Out.ok.injEq] at h
      subst h
      exact ⟨_, rfl, erase_keys_mem "version" u k hk hin⟩
    · cases h

/-- every pattern of the omit-empty table has at least two parts (`services.*.…`): nothing is omitted at the top level
(the root path is the one-part path `""`, which a one-part pattern `*` would match) -/
theorem mustOmit_root (pats : List (List String)) (h : ∀ pat ∈ pats, 2 ≤ pat.length) : C01.mustOmit pats TPath.root = false := by
  simp only [C01.mustOmit, List.any_eq_false]
  intro pat hp
  have := h pat hp
  match pat, this with
  | a :: b :: r, _ => simp [TPath.root, TPath.pmatch]

theorem omitKVs_keys_eq (pats : List (List String)) (p : TPath) (h : C01.mustOmit pats p = false) :
    ∀ m : List (String × C01.GoVal), (C01.omitKVs pats m p).map Prod.fst = m.map Prod.fst
  | [] => by simp [C01.omitKVs]
  | (k, v) :: r => by simp [C01.omitKVs, h, omitKVs_keys_eq pats p h r]

theorem omitEmpty_top_keys_eq (pats : List (List String)) (hp : ∀ pat ∈ pats, 2 ≤ pat.length) (kvs : Val.KVs) (d : Val)
    (h : omitEmpty pats (.map kvs) = .ok d) : ∃ r, d = .map r ∧ Val.keys r = Val.keys kvs := by
  simp only [omitEmpty, C01.omitEmptyTop, C01.omitEmpty, Out.ok.injEq] at h
  subst h
  refine ⟨_, rfl, ?_⟩
  simp only [Val.keys, toKVs_keys, omitKVs_keys_eq pats TPath.root (mustOmit_root pats hp), ofKVs_keys]

/-- every top-level key other than `version` survives schema validation, canonicalisation, omit-empty (no pattern of
its table is shorter than two parts) and the second unicity pass -/
theorem restStages_keeps_top_key (c : Cfg) (hp : ∀ pat ∈ c.omitPats, 2 ≤ pat.length) (u : Val.KVs) (r : Val) (k : String)
    (hk : k ≠ "version") (hin : k ∈ Val.keys u) (h : restStages c (.map u) = .ok r) :
    ∃ kvs, r = .map kvs ∧ k ∈ Val.keys kvs := by
  unfold restStages at h
  obtain ⟨d1, h1, h⟩ := pbind_ok h
  obtain ⟨d2, h2, h⟩ := pbind_ok h
  obtain ⟨d3, h3, h⟩ := pbind_ok h
  obtain ⟨k1, rfl, s1⟩ := schemaStage_keeps_key c.opts u d1 k hk h1 hin
  have h2' : Short.canonical c.opts.skipInterpolation (.map k1) = .ok d2 := by
    cases hc : Short.canonical c.opts.skipInterpolation (.map k1) <;> simp_all [ofShort]
  obtain ⟨k2, rfl, s2⟩ := canonical_top_keys _ k1 d2 h2'
  obtain ⟨k3, rfl, s3⟩ := omitEmpty_top_keys_eq _ hp k2 d3 h3
  have h4 := ofMerge_ok h
  simp only [Unicity.enforceTop, Unicity.enforce] at h4
  obtain ⟨m, hm, h4⟩ := CV.Unicity.out_bind_ok h4
  simp only [Merge.Out.ok.injEq] at h4
  subst h4
  refine ⟨m, rfl, ?_⟩
  rw [CV.C04.enforceKVs_keys _ _ _ hm, s3, s2]
  exact s1

/-- **`!override` on a top-level entry, through all stages of the composed step**: the key is in the returned model
(it came from the later document alone: `override_replaces`).  Hypotheses, both necessary: the key is not `version`
(schema validation deletes it) and every pattern of the omit-empty table has at least two parts (true of `loader.omitempty`: all start with `services.*.`). -/
theorem processNode_override_replaces (c : Cfg) (hi : c.opts.skipInterpolation = true) (he : c.opts.skipExtends = true)
    (hp : ∀ pat ∈ c.omitPats, 2 ≤ pat.length)
    (a : Val.KVs) (es : List (String × Reset.YNode)) (k : String) (x : Reset.YNode) (r : Val) (hk : k ≠ "version")
    (ht : x.tag = .override) (hnd : (es.map Prod.fst).Nodup) (hmem : (k, x) ∈ es)
    (h : processNode c (.map a) (.map .none es) = .ok r) : ∃ kvs, r = .map kvs ∧ k ∈ Val.keys kvs := by
  obtain ⟨u, _, hin, hr⟩ := processNode_override_replaces_partial c hi he a es k x r ht hnd hmem h
  exact restStages_keeps_top_key c hp u r k hk hin hr

/-- non-vacuity of the hypotheses of `processNode_reset_removes` / `processNode_refines_docStep`: a configuration with
interpolation, extends and validation off, a base model with `services` and `volumes`, a document that resets
`volumes` — the composed step succeeds and the returned model has no `volumes` -/
def exCfg : Cfg :=
  { opts := { skipInterpolation := true, skipValidation := true, skipExtends := true }
    interp := { table := [], fp := { f64 := fun _ => none, f32 := fun _ => none }, env := fun _ => none }
    paths := { wd := [], home := none }
    env := [], projectName := "p", clean := id, omitPats := [["services", "*", "dns"]] }

example : ∀ pat ∈ exCfg.omitPats, 2 ≤ pat.length := by decide

example : processNode exCfg
    (.map [("services", .map [("web", .map [("image", .str "nginx")])]), ("volumes", .map [("data", .map [])])])
    (.map .none [("volumes", .scalar .reset .null), ("services", .map .none [("web", .map .none [("command", .seq .override [.scalar .none (.str "run")])])])])
    = .ok (.map [("services", .map [("web", .map [("image", .str "nginx"), ("command", .seq [.str "run"])])])]) := by rfl

end CV.C04.Whole
