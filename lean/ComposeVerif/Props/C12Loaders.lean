import ComposeVerif.Lemmas.PathsLoaders
import ComposeVerif.Gen.PathsConsts
import ComposeVerif.Lemmas.AuditCmd
/-!
# C12 — nested loads do not disturb one another's resource loaders (round 6)

The per-origin clause of the property ("the base is the project directory for the main files, the included project
directory for included files and the extended file's directory for inherited attributes") is proved in
`Props/C12Origin.lean` for a *functional* reading of the loader state: the working directory of the referring model's
local loader (`Level.lw`) is whatever the chain above it says.  On the Go heap that state is the last element of the
slice `Options.ResourceLoaders`, and every include entry / `extends.file` reference derives a new list from it with
`append(opts.RemoteResourceLoaders(), localResourceLoader{dir})`.  The theorems below justify the functional reading for
every heap, every list and any number of nested loads: deriving a child's list changes no existing array, so the parent
(and every earlier child) still reads exactly what it read before.  `Neg.subslice_child_clobbers_parent` shows the
statement is sharp: with a `RemoteResourceLoaders` that returns a sub-slice the parent's local loader is overwritten.
-/
namespace CV.Paths.Loaders

/-- the source the heap model was written against: the body of `Options.RemoteResourceLoaders` and *every* assignment
to a `ResourceLoaders` field in package loader (the two child derivations, `clone`'s header copy, the two appends of the
project's local loader) -/
theorem loader_lists_are_source :
    CV.Gen.paths_body_RemoteResourceLoaders =
      "{ var loaders []ResourceLoader for i, loader := range o.ResourceLoaders { if _, ok := loader.(localResourceLoader); ok { if i != len(o.ResourceLoaders)-1 { logrus.Warning(\"misconfiguration of ResourceLoaders: localResourceLoader should be last\") } continue } loaders = append(loaders, loader) } return loaders }" ∧
    CV.Gen.paths_loaderAssignments =
      [("loader/extends.go", "getExtendsBaseFromFile", "extendsOpts.ResourceLoaders = append(opts.RemoteResourceLoaders(), localResourceLoader{ WorkingDir: localdir, })"),
       ("loader/include.go", "ApplyInclude", "loadOptions.ResourceLoaders = append(loadOptions.RemoteResourceLoaders(), localResourceLoader{ WorkingDir: r.ProjectDirectory, })"),
       ("loader/loader.go", "clone", "ResourceLoaders: o.ResourceLoaders"),
       ("loader/loader.go", "LoadConfigFiles", "opts.ResourceLoaders = append(opts.ResourceLoaders, localResourceLoader{})"),
       ("loader/loader.go", "toOptions", "opts.ResourceLoaders = append(opts.ResourceLoaders, localResourceLoader{configDetails.WorkingDir})")] :=
  ⟨rfl, rfl⟩

/-- round 7 — **what a load hands to its nested loads**: the fields of `loader.Options`, the body of `Options.clone`
and the body of `getExtendsBaseFromFile`.  The per-origin theorems read a nested load as a function of (file, directory
of the referring file, the loader list derived above): that is sound only while `Options` carries nothing else that one
nested load writes and another reads.  A new state-carrying field (a per-load cache of extended files keyed by path, a
memo of included files) copied by `clone` makes the result of the second `extends.file` of one file depend on the
directory of the first one; this obligation goes red on any such change, and `c12.multi` (one file reached several
times in one load along different routes) shows the wrong directory on the real code. -/
theorem nested_load_state_is_source :
    CV.Gen.paths_optionsFields =
      ["SkipValidation bool", "SkipInterpolation bool", "SkipNormalization bool", "ResolvePaths bool", "ConvertWindowsPaths bool", "SkipConsistencyCheck bool", "SkipExtends bool", "SkipInclude bool", "SkipResolveEnvironment bool", "SkipDefaultValues bool", "Interpolate *interp.Options", "discardEnvFiles bool", "projectName string", "projectNameImperativelySet bool", "Profiles []string", "ResourceLoaders []ResourceLoader", "KnownExtensions map[string]any", "Listeners []Listener"] ∧
    CV.Gen.paths_body_clone =
      "{ return &Options{ SkipValidation: o.SkipValidation, SkipInterpolation: o.SkipInterpolation, SkipNormalization: o.SkipNormalization, ResolvePaths: o.ResolvePaths, ConvertWindowsPaths: o.ConvertWindowsPaths, SkipConsistencyCheck: o.SkipConsistencyCheck, SkipExtends: o.SkipExtends, SkipInclude: o.SkipInclude, SkipResolveEnvironment: o.SkipResolveEnvironment, SkipDefaultValues: o.SkipDefaultValues, Interpolate: o.Interpolate, discardEnvFiles: o.discardEnvFiles, projectName: o.projectName, projectNameImperativelySet: o.projectNameImperativelySet, Profiles: o.Profiles, ResourceLoaders: o.ResourceLoaders, KnownExtensions: o.KnownExtensions, Listeners: o.Listeners, } }" ∧
    CV.Gen.paths_body_getExtendsBaseFromFile =
      "{ for _, loader := range opts.ResourceLoaders { if !loader.Accept(refPath) { continue } local, err := loader.Load(ctx, refPath) if err != nil { return nil, nil, err } localdir := filepath.Dir(local) relworkingdir := loader.Dir(refPath) extendsOpts := opts.clone() extendsOpts.ResourceLoaders = append(opts.RemoteResourceLoaders(), localResourceLoader{ WorkingDir: localdir, }) extendsOpts.ResolvePaths = false extendsOpts.SkipNormalization = true extendsOpts.SkipConsistencyCheck = true extendsOpts.SkipInclude = true extendsOpts.SkipExtends = true extendsOpts.SkipValidation = true extendsOpts.SkipDefaultValues = true source, processor, err := loadYamlFile(ctx, types.ConfigFile{Filename: local}, extendsOpts, relworkingdir, nil, ct, map[string]any{}, nil) if err != nil { return nil, nil, err } m, ok := source[\"services\"] if !ok { return nil, nil, fmt.Errorf(\"cannot extend service %q in %s: no services section\", name, local) } services, ok := m.(map[string]any) if !ok { return nil, nil, fmt.Errorf(\"cannot extend service %q in %s: services must be a mapping\", name, local) } _, ok = services[ref] if !ok { return nil, nil, fmt.Errorf( \"cannot extend service %q in %s: service %q not found in %s\", name, path, ref, refPath, ) } var remotes []paths.RemoteResource for _, loader := range opts.RemoteResourceLoaders() { remotes = append(remotes, loader.Accept) } err = paths.ResolveRelativePaths(source, relworkingdir, remotes) if err != nil { return nil, nil, err } return services, processor, nil } return nil, nil, fmt.Errorf(\"cannot read %s\", refPath) }" :=
  ⟨rfl, rfl, rfl⟩

/-- **`RemoteResourceLoaders` returns a fresh list**: no existing array is written, the result lives in arrays allocated
by the call (or is nil) and reads the non-local loaders in order -/
theorem remote_loaders_fresh (h : Heap) (s : GoSlice) :
    Keeps h.next h (remoteLoaders h s).1 ∧ Fresh h.next (remoteLoaders h s).2 ∧
      read (remoteLoaders h s).1 (remoteLoaders h s).2 = (read h s).filter (fun x => !isLocal x) :=
  let i := remoteLoaders_inv h s
  ⟨i.keeps, i.fresh, i.value⟩

/-- **the child's list**: the parent's remote loaders followed by the child's own local loader -/
theorem child_value (h : Heap) (s : GoSlice) (dir : Str) :
    read (childLoaders h s dir).1 (childLoaders h s dir).2 =
      (read h s).filter (fun x => !isLocal x) ++ [some (.loc dir)] :=
  (childLoaders_spec h s dir).2.2.2

/-- **deriving a child's list changes nothing that existed**: every valid slice `t` — the parent's list, the caller's
own slice, any earlier child's — reads the same afterwards, over its whole capacity -/
theorem child_keeps_every_slice (h : Heap) (s : GoSlice) (dir : Str) (t : GoSlice) (hv : Valid h t) :
    read (childLoaders h s dir).1 t = read h t ∧ full (childLoaders h s dir).1 t = full h t :=
  let r := read_keeps h _ t hv (childLoaders_spec h s dir).1
  ⟨r.1, r.2.1⟩

/-- the child's local loader is anchored at the child's directory, the parent's where it was -/
theorem child_local_dirs (h : Heap) (s : GoSlice) (dir : Str) (hv : Valid h s) :
    localDir (read (childLoaders h s dir).1 (childLoaders h s dir).2) = some dir ∧
      localDir (read (childLoaders h s dir).1 s) = localDir (read h s) := by
  rw [child_value, (child_keeps_every_slice h s dir s hv).1]
  exact ⟨localDir_snoc _ _, rfl⟩

/-- **any number of nested loads out of one parent** (the include entries of a file, the `extends.file` references of
its services, in any order): afterwards no array that existed has changed, and every child reads the parent's remote
loaders followed by *its own* directory — later siblings did not touch it -/
theorem siblings_independent (h : Heap) (s : GoSlice) (dirs : List Str) (hv : Valid h s) :
    Keeps h.next h (siblings h s dirs).1 ∧
      EachReads (siblings h s dirs).1 ((read h s).filter (fun x => !isLocal x)) (siblings h s dirs).2 dirs := by
  induction dirs generalizing h with
  | nil => exact ⟨Keeps.refl _ _, trivial⟩
  | cons d rest ih =>
    obtain ⟨k, cv, _, cr⟩ := childLoaders_spec h s d
    obtain ⟨rs, _, sv⟩ := read_keeps h _ s hv k
    obtain ⟨k2, f2⟩ := ih (childLoaders h s d).1 sv
    have kw : Keeps h.next (childLoaders h s d).1 (siblings (childLoaders h s d).1 s rest).1 := k2.weaken k.next
    refine ⟨k.trans kw, ?_⟩
    simp only [siblings, EachReads]
    refine ⟨?_, ?_⟩
    · rw [(read_keeps _ _ _ cv k2).1, cr]
    · rw [rs] at f2
      exact f2

/-- the parent's view after any number of nested loads -/
theorem siblings_keep_parent (h : Heap) (s : GoSlice) (dirs : List Str) (hv : Valid h s) (t : GoSlice) (ht : Valid h t) :
    read (siblings h s dirs).1 t = read h t ∧ full (siblings h s dirs).1 t = full h t :=
  let r := read_keeps h _ t ht (siblings_independent h s dirs hv).1
  ⟨r.1, r.2.1⟩

/-- **what the functional origin model assumes**: after any number of nested loads the working directory of the
referring model's local loader — `Level.lw` of `Model/PathsOrigin.lean`, read by `loader.Load` / `loader.Dir` and by the
`baseDir` loop of `ApplyInclude` for the NEXT include entry / `extends.file` reference — is what it was, and every
child is anchored at its own directory -/
theorem siblings_see_parent_dir (h : Heap) (s : GoSlice) (dirs : List Str) (hv : Valid h s) :
    localDir (read (siblings h s dirs).1 s) = localDir (read h s) ∧
      ∀ c ∈ (siblings h s dirs).2, ∃ d ∈ dirs, localDir (read (siblings h s dirs).1 c) = some d := by
  refine ⟨by rw [(siblings_keep_parent h s dirs hv s hv).1], ?_⟩
  have key : ∀ (H : Heap) (base : List (Option Loader)) (cs : List GoSlice) (ds : List Str), EachReads H base cs ds →
      ∀ c ∈ cs, ∃ d ∈ ds, localDir (read H c) = some d := by
    intro H base cs
    induction cs with
    | nil => intro ds _ c hc; cases hc
    | cons c0 cs ih =>
      intro ds he c hc
      cases ds with
      | nil => exact absurd he (by simp [EachReads])
      | cons d0 ds =>
        obtain ⟨h0, hr⟩ := he
        rcases List.mem_cons.mp hc with rfl | hc
        · exact ⟨d0, by simp, by rw [h0]; exact localDir_snoc _ _⟩
        · obtain ⟨d, hd, hl⟩ := ih ds hr c hc
          exact ⟨d, by simp [hd], hl⟩
  exact key _ _ _ _ (siblings_independent h s dirs hv).2

/-- **the heap refines the functional origin model**: run any sequence of nested loads — includes (± `project_directory`)
out of any model loaded so far, `extends.file` references in between, in any order — on the heap, reading the
referring model's directory off its loader list each time; the `Level`s (local-loader directory, working directory) of
the models created are exactly those of the functional model `runInclF`, where a model's level is fixed when it is
created; at the end every model's list is still anchored where its level says and no earlier array was written -/
theorem heap_levels_are_functional_levels (isDir : Str → Bool) (h : Heap) (models : List (GoSlice × Level))
    (script : List NStep) (hok : LevelsOK h models) :
    (runIncl isDir h models script).2.map Prod.snd = runInclF isDir (models.map Prod.snd) script ∧
      LevelsOK (runIncl isDir h models script).1 (runIncl isDir h models script).2 ∧
      Keeps h.next h (runIncl isDir h models script).1 :=
  runIncl_refines isDir script h models hok

/-- the hypothesis is satisfiable by what `toOptions` builds: the project's options, anchored at the project directory -/
example :
    let m := alloc Heap.empty [some (.remote 1)] 1
    let o := toOptions m.1 m.2 ['/', 'w']
    LevelsOK o.1 [(o.2, ⟨['/', 'w'], ['/', 'w']⟩)] := by
  intro m o x hx
  simp only [List.mem_singleton] at hx
  subst hx
  exact ⟨by decide, by decide⟩

/-- **any interleaving of nested loads** (siblings, children of children — `runScript`): no array that existed before
is changed, every list created on the way is still valid at the end, and the lists the script started with are still
the first ones -/
theorem script_keeps_everything (h : Heap) (opts : List GoSlice) (script : List (Nat × Str)) (hv : ∀ s ∈ opts, Valid h s)
    (t : GoSlice) (ht : Valid h t) :
    read (runScript h opts script).1 t = read h t ∧ full (runScript h opts script).1 t = full h t ∧
      ∃ more, (runScript h opts script).2 = opts ++ more :=
  let r := runScript_keeps script h opts hv
  let k := read_keeps h _ t ht r.1
  ⟨k.1, k.2.1, r.2.2⟩

theorem take_set_ge {α : Type} (l : List α) (k : Nat) (x : α) : (l.set k x).take k = l.take k := by
  induction l generalizing k with
  | nil => simp
  | cons a t ih =>
    cases k with
    | zero => simp
    | succ k => simp [ih]

/-- `toOptions` appends the project's local loader to the caller's slice — possibly *into the caller's array* when it
has spare capacity — but what the caller's slice reads (its `len` elements) is unchanged -/
theorem toOptions_keeps_callers_view (h : Heap) (mine : GoSlice) (wd : Str) (hv : Valid h mine) :
    read (toOptions h mine wd).1 mine = read h mine := by
  cases mine with
  | none => simp [read]
  | some t =>
    by_cases hc : t.len < t.cap
    · simp only [toOptions, append, hc, if_true, read]
      exact take_set_ge _ _ _
    · simp only [toOptions, append, hc, if_false, read]
      have he : t.arr ≠ h.next := Nat.ne_of_lt hv.1
      simp [he]

/-- non-vacuity: a caller's slice with one remote loader and a spare slot, the project's local loader appended in
place, two nested loads — the options still read `[remote 1, local /w]`, the children `[remote 1, local /w/a]`, `[remote 1, local /b]` -/
example :
    let m := alloc Heap.empty [some (.remote 1)] 1
    let o := toOptions m.1 m.2 ['/', 'w']
    let r := siblings o.1 o.2 [['/', 'w', '/', 'a'], ['/', 'b']]
    read r.1 o.2 = [some (.remote 1), some (.loc ['/', 'w'])] ∧
    r.2.map (read r.1) = [[some (.remote 1), some (.loc ['/', 'w', '/', 'a'])], [some (.remote 1), some (.loc ['/', 'b'])]] ∧
    full r.1 m.2 = [some (.remote 1), some (.loc ['/', 'w'])] := by decide

end CV.Paths.Loaders
