import ComposeVerif.Lemmas.Locked
import ComposeVerif.Lemmas.LockedLive
import ComposeVerif.Props.C19Locks
import ComposeVerif.Gen.ConcWrites
import ComposeVerif.Gen.LockSource
import ComposeVerif.Neg.C19Conc
/-!
# C19 — what the goroutines of the library's own parallel operations may write (round 6)

`Gen/ConcWrites.lean` (translator/c19writes.go) is regenerated on every run: for `graph.walk` and
`types.(*Project).WithServicesTransform` the *parallel region* (the function from its first `eg.Go` on, its closures, and
every function of the package reachable by name from there, plus the closures with which the public entry points wrap the
supplied function) and EVERY store in it that is not a store to a variable local to the executing function (literal).

The obligations below pin these facts: a new unsynchronised store — a lazily filled memo field of a vertex, a counter
moved out of its goroutine, a result stored next to the collector — is a new row and breaks them.  The theorems after
them are about the model (`Model/Locked.lean`): a memo filled under the mutex is filled with one value whatever the
interleaving; the negations (`Neg/C19Conc.lean`) show the race and the double fill without it.
-/
namespace CV.Gen

/-- the traversal's parallel region is the set of functions the model was written against: `walk` (collector closure,
    start loop), `visit` (worker closure), the three lock-guarded sections, and the pure helpers
    `skip / descendents / adjacentNodes / extremityNodes / roots / leaves` -/
theorem traversal_parallel_region_is_the_sources :
    travParallelFuncs =
    ["graph.walk (from its first spawn statement)", "graph.graph.roots", "graph.graph.leaves", "graph.vertex.descendents",
     "graph.traversal.visit", "graph.traversal.extremityNodes", "graph.traversal.adjacentNodes", "graph.traversal.ready",
     "graph.traversal.enter", "graph.traversal.done", "graph.traversal.skip",
     "graph.InDependencyOrder (caller: its closures are what the workers call)",
     "graph.CollectInDependencyOrder (caller: its closures are what the workers call)"] := by
  decide

set_option maxRecDepth 8192 in
/-- **every store of the traversal's parallel region** (pinned): the collector's counter and the three stores of the
    sections `enter` / `done` -/
theorem traversal_parallel_writes_are_the_sources :
    travParallelWrites =
    [("graph.walk", "expect", "captured", [], true),
     ("graph.traversal.enter", "t.status[v.key]", "elem", ["t.mu"], false),
     ("graph.traversal.done", "t.status[v.key]", "elem", ["t.mu"], false),
     ("graph.traversal.done", "t.results[v.key]", "elem", ["t.mu"], false)] := by
  decide

set_option maxRecDepth 8192 in
/-- **no unsynchronised shared store in the traversal**: every store to a struct field, a map / slice element, through a
    pointer, by a mutating helper or to a package-level variable anywhere in the parallel region holds `t.mu`; the only
    other store is to the captured local `expect`; the graph (`vertex`, `graph`) is never written there, so the helpers
    `skip / descendents / adjacentNodes / …` run by concurrent workers only read it -/
theorem traversal_parallel_stores_hold_the_mutex :
    (travParallelWrites.filter (fun (_, _, k, _, _) => k != "captured")).all (fun (_, _, _, held, _) => held == ["t.mu"]) = true ∧
    (travParallelWrites.filter (fun (_, _, k, _, _) => k == "captured")).map (fun (f, x, _, _, _) => (f, x)) = [("graph.walk", "expect")] ∧
    (travParallelWrites.filter (fun (_, x, _, _, _) => !(["t.status[v.key]", "t.results[v.key]", "expect"].contains x))) = [] := by
  decide

set_option maxRecDepth 8192 in
/-- **the counter belongs to the collector**: `expect` is the only variable of `walk` that a closure stores to; every
    occurrence of it is before the first `eg.Go` (no other goroutine exists yet) or inside closure #0 — the collector,
    the first function literal of `walk` — so no two goroutines ever touch it -/
theorem traversal_counter_is_confined_to_the_collector :
    travCapturedVarAccesses ≠ [] ∧
    travCapturedVarAccesses.all (fun (v, f, _, place) => v == "expect" && f == "graph.walk" &&
      (place == "before-first-go" || place == "closure#0")) = true ∧
    (travCapturedVarAccesses.filter (fun (_, _, k, place) => k == "write" && place != "before-first-go")).length = 1 := by
  decide

set_option maxRecDepth 8192 in
/-- **every store of the fan-out's parallel region** (pinned): the collector's local map, its counter, its final
    assignment of `newProject.Services`; the image resolver's closure stores into its own by-value parameter -/
theorem fanout_parallel_writes_are_the_sources :
    fanoutParallelFuncs =
      ["types.Project.WithServicesTransform (from its first spawn statement)",
       "types.Project.WithImagesResolved (caller: its closures are what the workers call)"] ∧
    fanoutParallelWrites =
      [("types.Project.WithServicesTransform", "s[r.name]", "elem-of-local", [], true),
       ("types.Project.WithServicesTransform", "expect", "captured", [], true),
       ("types.Project.WithServicesTransform", "newProject.Services", "field", [], true),
       ("types.Project.WithImagesResolved", "service.Image", "field-of-value-param", [], true)] := by
  decide

set_option maxRecDepth 8192 in
/-- the fan-out's counter is touched before the first `eg.Go` or inside closure #0 (the collector) only; the single store
    to a shared field in the region is `newProject.Services` (the access `fanout_no_field_race` is about) -/
theorem fanout_counter_is_confined_to_the_collector :
    fanoutCapturedVarAccesses.all (fun (v, _, _, place) => v == "expect" && (place == "before-first-go" || place == "closure#0")) = true ∧
    (fanoutParallelWrites.filter (fun (_, _, k, _, _) => k == "field" || k == "elem" || k == "deref" || k == "global")).map
      (fun (_, x, _, _, _) => x) = ["newProject.Services"] := by
  decide


set_option maxRecDepth 8192 in
/-- **no method is called on a shared struct field in the parallel regions except the mutex's own**: a method with a pointer
    receiver may mutate the field it is called on (a `strings.Builder`, a counter type, a cache); the only such calls of the
    traversal are `t.mu.Lock` / `t.mu.Unlock` in the three sections, and the fan-out has none -/
theorem parallel_field_method_calls_are_the_mutex :
    travParallelFieldMethodCalls.map (fun (f, c, _) => (f, c)) =
      [("graph.traversal.ready", "t.mu.Lock"), ("graph.traversal.ready", "t.mu.Unlock"),
       ("graph.traversal.enter", "t.mu.Lock"), ("graph.traversal.enter", "t.mu.Unlock"),
       ("graph.traversal.done", "t.mu.Lock"), ("graph.traversal.done", "t.mu.Unlock")] ∧
    fanoutParallelFieldMethodCalls = [] := by
  decide

/-! ### what the workers only READ is frozen before the first goroutine exists -/

set_option maxRecDepth 8192 in
/-- **the options are frozen before `walk`**: the fields of `Options` (`inverse`, `maxConcurrency`, `after` — read without a
    lock by `skip`, `adjacentNodes`, `extremityNodes`, `walk`, and under `t.mu` by `ready`) are stored to only by the three
    option constructors, whose closures `CollectInDependencyOrder` applies in a loop that precedes the call of `walk`;
    no function of the parallel region stores to them -/
theorem traversal_options_frozen_before_walk :
    travOptionFields = ["inverse", "maxConcurrency", "after"] ∧
    (travOptionFieldAccesses.filter (fun (_, _, k, _) => k == "write")).map (fun (e, f, _, _) => (e, f)) =
      [("o.maxConcurrency", "graph.WithMaxConcurrency"), ("o.inverse", "graph.InReverseOrder"),
       ("o.after", "graph.WithRootNodesAndDown")] ∧
    travOptionsAppliedBeforeWalk = true ∧
    (travOptionFieldAccesses.filter (fun (_, f, k, _) => k == "write" && travParallelFuncs.any (fun g => g == f))) = [] ∧
    (travOptionFieldAccesses.filter (fun (_, _, k, _) => k == "read")).map (fun (e, f, _, _) => (e, f)) =
      [("t.maxConcurrency", "graph.walk"), ("t.maxConcurrency", "graph.walk"),
       ("t.inverse", "graph.traversal.extremityNodes"), ("t.inverse", "graph.traversal.adjacentNodes"),
       ("t.inverse", "graph.traversal.ready"), ("t.after", "graph.traversal.skip"), ("t.after", "graph.traversal.skip"),
       ("t.after", "graph.traversal.skip")] := by
  decide

set_option maxRecDepth 8192 in
/-- **the dependency graph is frozen before `walk`**: the fields of `vertex` / `graph` (`key, service, children, parents,
    vertices` — what `skip / descendents / ready / adjacentNodes / roots / leaves` read from concurrent workers) are stored
    to only by `addVertex`, `addEdge`, `newGraph`; `CollectInDependencyOrder` calls `newGraph` in a statement before the
    one that calls `walk`; none of the three is in the parallel region.  A memo field added to `vertex` and filled on
    first use is a new field AND a new store here -/
theorem traversal_graph_frozen_before_walk :
    graphStructFields = ["key", "service", "children", "parents", "vertices"] ∧
    graphStructFieldWrites =
      [("g.vertices", "graph.graph.addVertex"), ("g.vertices[src].children", "graph.graph.addEdge"),
       ("g.vertices[dest].parents", "graph.graph.addEdge"), ("src.children", "graph.newGraph"),
       ("dest.parents", "graph.newGraph")] ∧
    graphBuiltBeforeWalk = true ∧
    (graphStructFieldWrites.filter (fun (_, f) => travParallelFuncs.any (fun g => g == f))) = [] := by
  decide

/-! ### the lockset discipline of the traversal, from the regenerated tables alone -/

/-- one access of the parallel region: location, is-write, mutexes held, where it runs (`worker` = any goroutine of the
    region, `collector` = closure #0 of `walk`, `before-spawn` = before the first `eg.Go`, `after-join` = after `walk` returned) -/
abbrev Acc := String × Bool × List String × String

/-- every access of the locations that are written in the region: the guarded fields (`travGuardedFieldAccesses`, reads
    included) and the captured counter (`travCapturedVarAccesses`) -/
def travAccessTable : List Acc :=
  travGuardedFieldAccesses.map (fun (e, f, k, held) =>
    (e, k == "write", held, if f == "graph.CollectInDependencyOrder" then "after-join" else "worker")) ++
  travCapturedVarAccesses.map (fun (v, _, k, place) =>
    (v, k == "write", [], if place == "before-first-go" then "before-spawn" else if place == "closure#0" then "collector" else "worker"))

/-- two accesses cannot race: different locations, two reads, a common mutex, one of them ordered against everything by
    spawn / join, or both inside the one collector goroutine -/
def compatible (a b : Acc) : Bool :=
  a.1 != b.1 || (!a.2.1 && !b.2.1) || a.2.2.1.any (fun m => b.2.2.1.contains m) ||
  a.2.2.2 == "before-spawn" || b.2.2.2 == "before-spawn" || a.2.2.2 == "after-join" || b.2.2.2 == "after-join" ||
  (a.2.2.2 == "collector" && b.2.2.2 == "collector")

set_option maxRecDepth 16384 in
/-- **lockset discipline of the dependency-ordered traversal** (Eraser-style, decided on the regenerated tables): every
    location stored to in the parallel region is `t.status`, `t.results` or `expect`; every two accesses of one of them
    (reads included), at least one a store, hold the common mutex `t.mu`, or are both in the collector goroutine, or one
    of them is ordered against all goroutines by the spawn (`before-first-go`) or by the join (`CollectInDependencyOrder`
    reads `t.results` after `walk` — `eg.Wait` — returned) -/
theorem traversal_lockset_discipline :
    travAccessTable.all (fun a => travAccessTable.all (fun b => compatible a b)) = true ∧
    travResultsReadAfterWalk = true ∧
    travParallelWrites.all (fun (_, x, _, _, _) =>
      travAccessTable.any (fun a => a.2.1 && (a.1 == x || a.1 ++ "[v.key]" == x))) = true := by
  decide

/-- the discipline is not vacuous: the table has the 6 + 5 accesses, 4 of them stores outside `before-spawn` -/
example : travAccessTable.length = 11 ∧
    (travAccessTable.filter (fun a => a.2.1 && a.2.2.2 != "before-spawn")).length = 4 := by decide

/-- … and it does reject an unprotected store next to the workers' reads -/
example : compatible ("t.status", true, [], "worker") ("t.status", false, ["t.mu"], "worker") = false := by decide

end CV.Gen

namespace CV.Locked

variable {Tid : Type} [DecidableEq Tid]

/-- **a memo filled under the mutex has one value**: any number of workers, each running any number of fill sections
    `memoF c` with the same `c` (the graph is immutable, so every worker computes the same list), under every
    interleaving: the memo is empty or holds `c` — never a partial or a different value -/
theorem guarded_memo_single_value (c : List String) (n : Tid → Nat) {s : St (Option (List String)) Tid}
    (hR : Reach true (fun t => List.replicate (n t) (memoF c)) none s) : s.mem = none ∨ s.mem = some c := by
  refine locked_preserves (fun m => m = none ∨ m = some c) ?_ (Or.inl rfl) hR
  intro t f hf m hm
  have : f = memoF c := List.eq_of_mem_replicate hf
  subst this
  rcases hm with h | h <;> simp [memoF, h]

/-- … and such a fill never races (instance of `locked_no_race`) -/
theorem guarded_memo_no_race (c : List String) (n : Tid → Nat) {s : St (Option (List String)) Tid}
    (hR : Reach true (fun t => List.replicate (n t) (memoF c)) none s) : ¬ RaceAt true s :=
  locked_no_race hR


/-! ### termination and completion of the lock-guarded sections (any finite set of goroutines, every schedule) -/

section live
variable {σ : Type} {prog : Tid → List (σ → σ)} {m0 : σ}

/-- **every primitive step is progress**: with the goroutines that have sections listed in `threads`, each step of a
    reachable state lowers the number of steps still to be taken by exactly one (with or without the mutex) -/
theorem locked_measure_decreases {locked : Bool} (threads : List Tid) (hN : threads.Nodup)
    (hT : ∀ t, t ∉ threads → prog t = []) {s s' : St σ Tid} {l : Label Tid}
    (hR : Reach locked prog m0 s) (h : step? locked s l = some s') : mu threads s' + 1 = mu threads s := by
  have hmem : tidOf l ∈ threads := Classical.byContradiction fun hn => step_tid_has_work hR h (hT _ hn)
  obtain ⟨h1, h2⟩ := cost_step h
  exact sum_map_point threads hN (cost s) (cost s') (tidOf l) hmem h1 h2

/-- **termination**: no schedule of the sections is longer than four steps per section: `lock, read, write, unlock` -/
theorem locked_terminates {locked : Bool} (threads : List Tid) (hN : threads.Nodup)
    (hT : ∀ t, t ∉ threads → prog t = []) (ls : List (Label Tid)) (s' : St σ Tid)
    (hr : run locked (init prog m0) ls = some s') : ls.length ≤ 4 * (threads.map fun t => (prog t).length).sum := by
  have key : ∀ (ls : List (Label Tid)) (s : St σ Tid), Reach locked prog m0 s → run locked s ls = some s' →
      ls.length + mu threads s' = mu threads s := by
    intro ls
    induction ls with
    | nil => intro s _ hr; simp [run] at hr; subst hr; simp
    | cons l r ih =>
      intro s hR hr
      simp only [run] at hr
      cases hs : step? locked s l with
      | none => simp [hs] at hr
      | some s1 =>
        simp [hs] at hr
        have hd := locked_measure_decreases threads hN hT hR hs
        have := ih s1 (.step hR hs) hr
        simp only [List.length_cons]; omega
  have h0 : mu threads (init prog m0) = 4 * (threads.map fun t => (prog t).length).sum := by
    unfold mu
    induction threads with
    | nil => rfl
    | cons a r ih =>
      have hN' := List.nodup_cons.mp hN
      simp only [List.map_cons, List.sum_cons]
      have hr' : (List.map (cost (init prog m0)) r).sum = 4 * (r.map fun t => (prog t).length).sum := by
        clear ih key hr hT hN hN'
        induction r with
        | nil => rfl
        | cons b q ihq => simp only [List.map_cons, List.sum_cons, ihq]; simp [cost, init]; omega
      rw [hr']; simp [cost, init]; omega
  have := key ls (init prog m0) .init hr
  omega

/-- **every schedule can be completed**: from every reachable state of the locked system some continuation brings every
    goroutine through all its sections (with `locked_terminates`: every maximal schedule is finite and ends quiescent —
    nobody waits for the mutex forever, whatever the scheduler does) -/
theorem locked_can_finish (threads : List Tid) (hN : threads.Nodup) (hT : ∀ t, t ∉ threads → prog t = [])
    {s : St σ Tid} (hR : Reach true prog m0 s) : ∃ ls s', run true s ls = some s' ∧ quiescent s' := by
  have key : ∀ k, ∀ s : St σ Tid, Reach true prog m0 s → mu threads s ≤ k → ∃ ls s', run true s ls = some s' ∧ quiescent s' := by
    intro k
    induction k with
    | zero =>
      intro s hs hk
      rcases locked_deadlock_free hs with hq | ⟨l, s1, hst⟩
      · exact ⟨[], s, rfl, hq⟩
      · have := locked_measure_decreases threads hN hT hs hst; omega
    | succ k ih =>
      intro s hs hk
      rcases locked_deadlock_free hs with hq | ⟨l, s1, hst⟩
      · exact ⟨[], s, rfl, hq⟩
      · have hd := locked_measure_decreases threads hN hT hs hst
        obtain ⟨ls, s', hrun, hq⟩ := ih s1 (.step hs hst) (by omega)
        exact ⟨l :: ls, s', by simp [run, hst, hrun], hq⟩
  exact key (mu threads s) s hR (Nat.le_refl _)

end live


/-! ### `t.results`: the traversal returns exactly the per-service results of the supplied function -/

section results
variable {ρ : Type}

/-- guarded state of the traversal: `t.status` and `t.results` -/
abbrev RS (ρ : Type) := (Nat → Status) × (Nat → Option ρ)

/-- `done(v, r)`: `t.status[v.key] = vertexVisited; t.results[v.key] = r` -/
def doneR (v : Nat) (r : ρ) : RS ρ → RS ρ := fun (st, res) => (doneF v st, fun u => if u = v then some r else res u)
def enterR (v : Nat) : RS ρ → RS ρ := fun (st, res) => (enterF v st, res)
def readyR (v : Nat) : RS ρ → RS ρ := fun (st, res) => (readyF v st, res)

/-- the sections the goroutines of a walk run: `ready` / `enter` of any vertex by anybody, and `done(v, val v)` — the
    worker of `v` stores what the supplied function returned for `v` (`val v`; the zero value for a skipped vertex) -/
def WalkSections (val : Nat → ρ) (prog : Tid → List (RS ρ → RS ρ)) : Prop :=
  ∀ t, ∀ f ∈ prog t, ∃ v, f = enterR v ∨ f = readyR v ∨ f = doneR v (val v)

/-- **nothing but the function's results, under every interleaving**: in every reachable state an entry of `t.results` is
    the value the supplied function returned for that very service, the service is marked visited, and some worker has
    `done` for it in its program (no entry for a service nobody visits) -/
theorem traversal_results_sound (val : Nat → ρ) {prog : Tid → List (RS ρ → RS ρ)} (hP : WalkSections val prog)
    {s : St (RS ρ) Tid} (hR : Reach true prog (fun _ => .absent, fun _ => none) s) {v : Nat} {r : ρ}
    (h : s.mem.2 v = some r) : r = val v ∧ s.mem.1 v = .visited ∧ ∃ t, doneR v (val v) ∈ prog t := by
  have := locked_preserves (prog := prog)
    (fun m : RS ρ => ∀ v r, m.2 v = some r → r = val v ∧ m.1 v = .visited ∧ ∃ t, doneR v (val v) ∈ prog t) ?_ ?_ hR
  · exact this v r h
  · intro t f hf m hm
    obtain ⟨st, res⟩ := m
    obtain ⟨u, rfl | rfl | rfl⟩ := hP t f hf
    · intro v r hv
      obtain ⟨h1, h2, h3⟩ := hm v r hv
      refine ⟨h1, ?_, h3⟩
      simp only [enterR, enterF] at h2 ⊢
      split
      · next habs => simp only [setSt]; split
                     · next e => subst e; rw [h2] at habs; cases habs
                     · exact h2
      · exact h2
    · exact hm
    · intro v r hv
      simp only [doneR, doneF, setSt] at hv ⊢
      by_cases e : v = u
      · subst e
        simp only [if_true] at hv ⊢
        injection hv with hv
        exact ⟨hv.symm, trivial, t, hf⟩
      · simp only [e, if_false] at hv ⊢
        exact hm v r hv
  · intro v r hv; cases hv

/-- **every result is there**: when every goroutine is through, each service whose `done` is in somebody's program has
    its entry, and it is the value the supplied function returned for it — whatever the interleaving (no lost store) -/
theorem traversal_results_complete (val : Nat → ρ) {prog : Tid → List (RS ρ → RS ρ)} (hP : WalkSections val prog)
    {s : St (RS ρ) Tid} (hR : Reach true prog (fun _ => .absent, fun _ => none) s) (hq : quiescent s)
    {t : Tid} {v : Nat} (hd : doneR v (val v) ∈ prog t) : s.mem.2 v = some (val v) ∧ s.mem.1 v = .visited := by
  have hser := locked_serializable hR
  have hrest : (serial prog s.hist (fun _ => Status.absent, fun _ => (none : Option ρ))).2 t = [] := by
    rw [hser]; simp only [restAbs]
    have := hq t
    split <;> simp [this]
  have := serial_establishes (fun m : RS ρ => m.2 v = some (val v) ∧ m.1 v = .visited) prog ?_ t _ hd ?_ s.hist _ hrest
  · rw [hser] at this; exact this
  · intro t' f hf m ⟨h1, h2⟩
    obtain ⟨st, res⟩ := m
    obtain ⟨u, rfl | rfl | rfl⟩ := hP t' f hf
    · refine ⟨h1, ?_⟩
      simp only [enterR, enterF] at h2 ⊢
      split
      · next habs => simp only [setSt]; split
                     · next e => subst e; rw [h2] at habs; cases habs
                     · exact h2
      · exact h2
    · exact ⟨h1, h2⟩
    · simp only [doneR, doneF, setSt] at h1 h2 ⊢
      by_cases e : v = u
      · subst e; simp
      · simp only [e, if_false]; exact ⟨h1, h2⟩
  · intro m; obtain ⟨st, res⟩ := m; simp [doneR, doneF, setSt]

/-- **the results do not depend on the schedule**: two quiescent states of the same walk, reached by ANY two
    interleavings, have the same `t.results` (entry by entry, absent entries included) — what a sequential walk returns -/
theorem traversal_results_schedule_independent (val : Nat → ρ) {prog : Tid → List (RS ρ → RS ρ)} (hP : WalkSections val prog)
    {s₁ s₂ : St (RS ρ) Tid} (h₁ : Reach true prog (fun _ => .absent, fun _ => none) s₁) (q₁ : quiescent s₁)
    (h₂ : Reach true prog (fun _ => .absent, fun _ => none) s₂) (q₂ : quiescent s₂) (v : Nat) :
    s₁.mem.2 v = s₂.mem.2 v := by
  cases e₁ : s₁.mem.2 v with
  | some r =>
    obtain ⟨hr, _, t, hd⟩ := traversal_results_sound val hP h₁ e₁
    rw [(traversal_results_complete val hP h₂ q₂ hd).1, hr]
  | none =>
    cases e₂ : s₂.mem.2 v with
    | none => rfl
    | some r =>
      obtain ⟨_, _, t, hd⟩ := traversal_results_sound val hP h₂ e₂
      rw [(traversal_results_complete val hP h₁ q₁ hd).1] at e₁
      cases e₁

/-- the program of the non-vacuity examples: the coordinator enters two vertices, two workers store their results -/
def exWalk : Fin 3 → List (RS String → RS String) :=
  fun t => if t = 0 then [enterR 0, enterR 1] else if t = 1 then [doneR 0 "a"] else [doneR 1 "b"]

/-- non-vacuity: the run ends quiescent with both results stored (the second worker finishes first) -/
example : ((run true (init exWalk (fun _ => Status.absent, fun _ => none))
    [.lock 0, .read 0, .write 0, .unlock 0, .lock 0, .read 0, .write 0, .unlock 0, .lock 2, .read 2, .write 2,
     .unlock 2, .lock 1, .read 1, .write 1, .unlock 1]).map fun s =>
      (s.mem.2 0, s.mem.2 1, s.mem.1 0, s.hist, (s.rest 0).length + (s.rest 1).length + (s.rest 2).length)) =
    some (some "a", some "b", .visited, [0, 0, 2, 1], 0) := by decide

/-- … and a worker that asks for the mutex while the coordinator holds it is refused -/
example : (run true (init exWalk (fun _ => Status.absent, fun _ => none)) [.lock 0, .read 0, .lock 2]).isNone = true := by
  decide

end results

/-- non-vacuity of the bound: the two-load example of `Props/C19Locks.lean` (1 + 2 sections) runs 12 = 4·3 steps -/
example : exRun.length = 4 * ([false, true].map fun t => (warnProg (exFiles t)).length).sum := by decide

/-- non-vacuity: a reachable state of two workers in which the memo is filled -/
example : ((run true (init (fun _ : Bool => List.replicate 1 (memoF ["base"])) none)
    [.lock true, .read true, .write true, .unlock true, .lock false, .read false, .write false]).map fun s => (s.mem, s.hist)) =
    some (some ["base"], [true, false]) := by decide

end CV.Locked
