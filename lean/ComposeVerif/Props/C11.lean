import ComposeVerif.Lemmas.C11Top
import ComposeVerif.Lemmas.C11Shape
import ComposeVerif.Lemmas.C11Walk
import ComposeVerif.Lemmas.C11Perm
import ComposeVerif.Lemmas.PathsClean
import ComposeVerif.Neg.C11
import ComposeVerif.Lemmas.AuditCmd
import ComposeVerif.Lemmas.Path
import ComposeVerif.Gen.Tables
/-!
# C11 — implicit defaults are made explicit exactly as the specification defines them

Property theorems only.  Model: `Model/C11Defaults.lean` (`transform.SetDefaultValues`, defaulting halves of
`transformDependsOn` / `transformEnvFile`), `Model/C11Normalize.lean` (`loader.Normalize`).
Spec: `Spec/C11.lean` (`filled`, `filledNil`, `resourceName`).  Mappings are observed through `lookup`, so
every statement holds for every iteration order of the Go maps.
-/
namespace CV.C11
open CV CV.Val CV.C11.Spec

/-- a mapping observed through its lookup function -/
abbrev look (m : KVs) : Look := fun k => lookup k m

/-! ## 1. the two halves of the property, on the specification alone -/

/-- writing the default out changes nothing -/
theorem filled_explicit_default (k : String) (dv : Val) (lk : Look) (h : lk k = none) :
    filled k dv (written k dv lk) = filled k dv lk := by
  funext k'
  unfold filled written
  by_cases hk : k' = k <;> simp [hk, h]

/-- an explicit value is never overwritten (any key, any value — `null` included) -/
theorem filled_preserves (k : String) (dv : Val) (lk : Look) (k' : String) (x : Val) (h : lk k' = some x) :
    filled k dv lk k' = some x := by
  unfold filled
  by_cases hk : k' = k
  · subst hk; simp [h]
  · simp [hk, h]

/-- a value written out that differs from the default survives -/
theorem filled_written_other (k : String) (dv v : Val) (lk : Look) : filled k dv (written k v lk) k = some v := by
  simp [filled, written]

theorem filled_idem (k : String) (dv : Val) (lk : Look) : filled k dv (filled k dv lk) = filled k dv lk := by
  funext k'
  unfold filled
  by_cases hk : k' = k
  · subst hk; cases h : lk k' <;> simp
  · simp [hk]

theorem filledNil_explicit_default (k : String) (dv : Val) (lk : Look) (h : lk k = none ∨ lk k = some .null) :
    filledNil k dv (written k dv lk) = filledNil k dv lk := by
  funext k'
  unfold filledNil written
  by_cases hk : k' = k
  · rcases h with h | h <;> cases dv <;> simp [hk, h]
  · simp [hk]

/-- an explicit non-null value is never overwritten -/
theorem filledNil_preserves (k : String) (dv : Val) (lk : Look) (k' : String) (x : Val) (h : lk k' = some x)
    (hx : x ≠ .null) : filledNil k dv lk k' = some x := by
  unfold filledNil
  by_cases hk : k' = k
  · subst hk; cases x <;> simp_all
  · simp [hk, h]

example : filled "mode" (.str "ingress") (look [("target", .int 80)]) "mode" = some (.str "ingress") := by rfl
example : filled "mode" (.str "ingress") (look [("mode", .str "host")]) "mode" = some (.str "host") := by rfl

/-! ## 2. the rule table of `SetDefaultValues` (regenerated from transform/defaults.go on every run) -/

theorem defaultValues_is_modelled :
    CV.Gen.defaultValues =
      [(["services", "*", "build"], "defaultBuildContext"),
       (["services", "*", "secrets", "*"], "defaultSecretMount"),
       (["services", "*", "ports", "*"], "portDefaults"),
       (["services", "*", "deploy", "resources", "reservations", "devices", "*"], "deviceRequestDefaults"),
       (["services", "*", "gpus", "*"], "deviceRequestDefaults")] := by decide

theorem defaultValues_exclusive : TPath.PairwiseExclusive CV.Gen.defaultValues := by decide

/-- Go ranges over the table in random order: the rule applied at a path does not depend on it -/
theorem defaultValues_order_irrelevant (t' : List (List String × String)) (hp : t'.Perm CV.Gen.defaultValues)
    (p : TPath) : TPath.firstMatch t' p = TPath.firstMatch CV.Gen.defaultValues p :=
  TPath.firstMatch_perm defaultValues_exclusive hp p

/-- every handler named by the table is one the model knows -/
theorem defaultValues_handlers_known :
    CV.Gen.defaultValues.all (fun row =>
      ["defaultBuildContext", "defaultSecretMount", "portDefaults", "deviceRequestDefaults"].contains row.2) = true := by
  decide

/-- the two canonical transformers with a defaulting half are wired where the model assumes -/
theorem canonical_rows_present :
    (["services", "*", "depends_on"], "transformDependsOn") ∈ CV.Gen.transformers ∧
    (["services", "*", "env_file"], "transformEnvFile") ∈ CV.Gen.transformers := by decide

/-! ## 3. `SetDefaultValues`: each handler *is* the specified default (model = spec) -/

theorem build_context_default (m : KVs) :
    ∃ m', defaultBuildContext (.map m) = .ok (.map m') ∧ look m' = filled "context" (.str ".") (look m) :=
  ⟨_, rfl, funext fun k => lookup_setIfAbsent "context" _ m k⟩

theorem port_defaults (m : KVs) :
    ∃ m', portDefaults (.map m) = .ok (.map m') ∧
      look m' = filled "mode" (.str "ingress") (filled "protocol" (.str "tcp") (look m)) := by
  refine ⟨_, rfl, funext fun k => ?_⟩
  show lookup k (setIfAbsent "mode" _ (setIfAbsent "protocol" _ m)) = _
  rw [lookup_setIfAbsent]
  have : (fun x => lookup x (setIfAbsent "protocol" (.str "tcp") m)) = filled "protocol" (.str "tcp") (look m) :=
    funext fun x => lookup_setIfAbsent "protocol" _ m x
  rw [this]

theorem secret_target_default (m : KVs) (src : String) (h : lookup "source" m = some (.str src)) :
    ∃ m', defaultSecretMount (.map m) = .ok (.map m') ∧
      look m' = filled "target" (.str ("/run/secrets/" ++ src)) (look m) := by
  refine ⟨_, rfl, funext fun k => ?_⟩
  show lookup k (setIfAbsent "target" _ m) = _
  rw [lookup_setIfAbsent, h]
  rfl

/-- `count: all` is filled in iff neither `count` nor `device_ids` is written -/
theorem device_count_default (m : KVs) :
    ∃ m', deviceRequestDefaults (.map m) = .ok (.map m') ∧
      look m' = if (lookup "count" m).isNone && (lookup "device_ids" m).isNone
                then written "count" (.str "all") (look m) else look m := by
  refine ⟨_, rfl, funext fun k => ?_⟩
  show lookup k (deviceCount m) = _
  unfold deviceCount
  cases h1 : lookup "count" m <;> cases h2 : lookup "device_ids" m <;> simp [written, lookup_insert]

/-- long form of `depends_on`: `condition` and `required` take their defaults -/
theorem depends_on_entry_defaults (d : KVs) :
    look (depDefaults d) = filled "required" (.bool true) (filled "condition" (.str "service_started") (look d)) := by
  funext k
  show lookup k (setIfAbsent "required" _ (setIfAbsent "condition" _ d)) = _
  rw [lookup_setIfAbsent]
  have : (fun x => lookup x (setIfAbsent "condition" (.str "service_started") d)) =
      filled "condition" (.str "service_started") (look d) := funext fun x => lookup_setIfAbsent "condition" _ d x
  rw [this]

/-- short form of `depends_on` = the long form with every default written out -/
theorem depends_on_short_eq_long (name : String) :
    transformDependsOn (.seq [.str name]) = transformDependsOn (.map [(name, .map [])]) ∧
    transformDependsOn (.seq [.str name]) = .ok (.map [(name, shortDep)]) := by
  constructor <;> rfl

theorem env_file_required_default (m : KVs) :
    ∃ m', envFileValue (.map m) = .map m' ∧ look m' = filled "required" (.bool true) (look m) :=
  ⟨_, rfl, funext fun k => lookup_setIfAbsent "required" _ m k⟩

theorem env_file_short_eq_long (p : String) :
    transformEnvFile (.str p) = transformEnvFile (.seq [.map [("path", .str p)]]) := rfl

/-- **explicit values are never overwritten by `SetDefaultValues` handlers**: every attribute present before
is present with the same value after (any attribute, any value) -/
theorem setDefaults_handlers_preserve (h : String) (m : KVs) (v' : Val) (hok : applyHandler h (.map m) = .ok v') :
    ∃ m', v' = .map m' ∧ ∀ k x, lookup k m = some x → lookup k m' = some x := by
  unfold applyHandler at hok
  split at hok
  · cases hok
    exact ⟨_, rfl, fun k x hx => by rw [lookup_setIfAbsent]; exact filled_preserves _ _ _ k x hx⟩
  · split at hok
    · cases hok
      exact ⟨_, rfl, fun k x hx => by rw [lookup_setIfAbsent]; exact filled_preserves _ _ _ k x hx⟩
    · split at hok
      · cases hok
        refine ⟨_, rfl, fun k x hx => ?_⟩
        rw [lookup_setIfAbsent]
        apply filled_preserves
        rw [lookup_setIfAbsent]
        exact filled_preserves _ _ _ k x hx
      · split at hok
        · cases hok
          refine ⟨_, rfl, fun k x hx => ?_⟩
          unfold deviceCount
          cases h1 : lookup "count" m <;> cases h2 : lookup "device_ids" m <;> simp only [hx]
          by_cases hk : k = "count"
          · subst hk; rw [h1] at hx; cases hx
          · rw [lookup_insert_ne hk]; exact hx
        · cases hok

example : applyHandler "portDefaults" (.map [("target", .int 80), ("protocol", .str "udp")]) =
    .ok (.map [("target", .int 80), ("protocol", .str "udp"), ("mode", .str "ingress")]) := by rfl

/-- every handler is idempotent: a document with its defaults written out is a fixed point -/
theorem setDefaults_handlers_idem (h : String) (v v' : Val) (hok : applyHandler h v = .ok v') :
    applyHandler h v' = .ok v' := applyHandler_idem h v v' hok

/-- **`SetDefaultValues` is idempotent** on every document, at every path, for every rule table built from the
known handlers: the document with its defaults written out is a fixed point (so it loads like the implicit one) -/
theorem setDefaults_idempotent (tbl : List (List String × String)) (p : TPath) (v v' : Val)
    (h : setDefaults tbl p v = .ok v') : setDefaults tbl p v' = .ok v' :=
  CV.C11.setDefaults_idem tbl p v v' h

theorem setDefaultValues_idempotent (d d' : KVs) (h : setDefaultValues CV.Gen.defaultValues d = .ok (.map d')) :
    setDefaultValues CV.Gen.defaultValues d' = .ok (.map d') :=
  CV.C11.setDefaults_idem _ _ _ _ h

/-- **`SetDefaultValues` never overwrites or removes anything, anywhere in the document**: the result
`Extends` the input (same scalars, sequences of the same length element by element, every mapping entry still
there under its key with an extending value) -/
theorem setDefaults_only_adds (tbl : List (List String × String)) (p : TPath) (v v' : Val)
    (h : setDefaults tbl p v = .ok v') : Extends v v' :=
  setDefaults_extends tbl p v v' h

example : setDefaults CV.Gen.defaultValues ["services", "web", "build"] (.map [("dockerfile", .str "D")]) =
    .ok (.map [("dockerfile", .str "D"), ("context", .str ".")]) := by rfl
example : setDefaults CV.Gen.defaultValues ["services", "web", "ports"] (.seq [.map [("target", .int 80), ("mode", .str "host")]]) =
    .ok (.seq [.map [("target", .int 80), ("mode", .str "host"), ("protocol", .str "tcp")]]) := by rfl

/-! ## 4. `Normalize`: outcome, and each default as specified -/

/-- `Normalize` returns an error exactly when one of its (now checked) type assertions fails (the three shape
predicates, in the order the three functions run), and otherwise returns the pure normal form -/
theorem normalize_outcome (clean : String → String) (env : Env) (d : KVs) :
    (shapeNN d = true ∧ shapeServices d = true ∧ shapeNames d = true →
      normalize clean env d = .ok (normalizePure clean env d)) ∧
    (shapeNN d = false → normalize clean env d = .err "normalizeNetworks") ∧
    (shapeNN d = true → shapeServices d = false → normalize clean env d = .err "Normalize") ∧
    (shapeNN d = true → shapeServices d = true → shapeNames d = false →
      normalize clean env d = .err "setNameFromKey") := by
  unfold normalize
  refine ⟨fun ⟨h1, h2, h3⟩ => by simp [h1, h2, h3], fun h1 => by simp [h1], fun h1 h2 => by simp [h1, h2],
    fun h1 h2 h3 => by simp [h1, h2, h3]⟩

/-- after the /repo repairs no input makes `Normalize` panic -/
theorem normalize_never_panics (clean : String → String) (env : Env) (d : KVs) (site : String) :
    normalize clean env d ≠ .panic site := by
  unfold normalize
  split
  · simp
  · split
    · simp
    · split <;> simp

/-- a service without `network_mode` and without (or with empty) `networks` joins `default` -/
theorem service_joins_default (s : KVs) (hm : lookup "network_mode" s = none)
    (hn : lookup "networks" s = none ∨ lookup "networks" s = some (.map [])) :
    lookup "networks" (nnService s) = some (.map [("default", .null)]) := by
  unfold nnService
  rcases hn with hn | hn <;> simp [hm, hn, lookup_insert_self, defaultNet]

/-- explicit `networks` (non-empty) or a `network_mode` are left as written, and nothing else in the service moves -/
theorem service_networks_explicit_preserved (s : KVs) (h : NetSettled s) : nnService s = s :=
  nnService_of_settled h

theorem service_networks_frame (s : KVs) (k : String) (hk : k ≠ "networks") :
    lookup k (nnService s) = lookup k s := lookup_nnService_ne hk s

/-- **an undeclared `default` network is added iff some service uses it** -/
theorem default_network_iff (d : KVs) :
    (lookup "default" (nnNetworks d)).isSome = true ↔
      ((lookup "default" (declaredNetworks d)).isSome = true ∨ usesDefaultNetwork d = true) := by
  unfold nnNetworks
  simp only
  cases hd : lookup "default" (declaredNetworks d) with
  | some x => simp [hd]
  | none =>
    cases hu : usesDefaultNetwork d with
    | true => simp [lookup_insert_self]
    | false => simp [hd]

/-- declared networks are kept as declared by `normalizeNetworks` -/
theorem declared_networks_preserved (d : KVs) (k : String) (x : Val) (h : lookup k (declaredNetworks d) = some x) :
    lookup k (nnNetworks d) = some x := by
  unfold nnNetworks
  simp only
  split
  · rename_i hc
    by_cases hk : k = "default"
    · subst hk; simp [h] at hc
    · rw [lookup_insert_ne hk]; exact h
  · exact h

/-- the `networks` section of the normalised project: it has `default` iff declared or used -/
theorem default_network_iff_normalized (clean : String → String) (env : Env) (d : KVs) :
    (∃ nets, lookup "networks" (normalizePure clean env d) = some (.map nets) ∧ (lookup "default" nets).isSome = true) ↔
      ((lookup "default" (declaredNetworks d)).isSome = true ∨ usesDefaultNetwork d = true) := by
  rw [← default_network_iff, normalizePure_eq]
  cases h : nnNetworks d with
  | nil =>
    simp only [lookup, Option.isSome_none, Bool.false_eq_true, iff_false, not_exists, not_and]
    intro nets hn
    obtain ⟨hdn, _⟩ := nnNetworks_eq_nil h
    have hf : topH clean env (lookup "name" d) "networks" = nameSectionV (lookup "name" d) :=
      funext (topH_networks clean env _)
    rw [lookup_mapAt, hf] at hn
    unfold declaredNetworks at hdn
    cases hl : lookup "networks" d with
    | none => simp [hl] at hn
    | some v =>
      rw [hl] at hn hdn
      cases v <;> simp [nameSectionV] at hn hdn
      subst hdn
      simp [← hn, mapAt, lookup]
  | cons e t =>
    simp only [lookup_insert_self, Option.some.injEq, Val.map.injEq, exists_eq_left']
    rw [lookup_mapAt]
    cases lookup "default" (e :: t) <;> simp

/-- **resource names**: `name` is filled with `<project>_<key>`, or `<key>` for an external resource; an
explicit non-null name is kept -/
theorem resource_name_default (pj : Option Val) (key : String) (res : KVs) :
    look (nameResourceKVs pj key res) = filledNil "name" (.str (defaultName pj key res)) (look res) :=
  funext fun k => lookup_setIfNil "name" _ res k

theorem resource_default_name_spec (p key : String) (res : KVs) :
    defaultName (some (.str p)) key res =
      resourceName p key (match lookup "external" res with | some x => isTrue x | none => false) none := by
  unfold defaultName resourceName
  cases h : lookup "external" res with
  | none => simp [fmtS]
  | some x => cases hx : isTrue x <;> simp [fmtS]

theorem resource_name_explicit_preserved (pj : Option Val) (key : String) (res : KVs) (k : String) (x : Val)
    (h : lookup k res = some x) (hx : x ≠ .null) : lookup k (nameResourceKVs pj key res) = some x := by
  have := congrFun (resource_name_default pj key res) k
  simp only [look] at this
  rw [this]
  exact filledNil_preserves _ _ _ k x h hx

example : nameResource (some (.str "proj")) "db" .null = .map [("name", .str "proj_db")] := by rfl
example : nameResource (some (.str "proj")) "db" (.map [("external", .bool true)]) =
    .map [("external", .bool true), ("name", .str "db")] := by rfl
example : nameResource (some (.str "proj")) "db" (.map [("name", .str "custom")]) = .map [("name", .str "custom")] := by rfl

/-- **implied dependencies**: after the loop, entry `k` of `depends_on` is the declared one if there is one,
otherwise the entry of the first of `links`, `service:` namespaces, `volumes_from` that refers to `k` -/
theorem implied_depends_on (s : KVs) (k : String) :
    lookup k (impliedDeps s) = (lookup k (mapOf (lookup "depends_on" s))).orElse fun _ => lookup k (impliedList s) :=
  lookup_addDeps _ _ k

/-- a declared dependency is never overwritten by an implied one -/
theorem depends_on_explicit_preserved (s : KVs) (k : String) (x : Val)
    (h : lookup k (mapOf (lookup "depends_on" s)) = some x) : lookup k (impliedDeps s) = some x := by
  rw [implied_depends_on, h]; rfl

/-- every link, `service:` namespace reference and `volumes_from` entry ends up with a dependency -/
theorem implied_dependency_present (s : KVs) (ke : String × Val) (h : ke ∈ impliedList s) :
    (lookup ke.1 (impliedDeps s)).isSome = true :=
  addDeps_covers _ _ ke h

theorem link_implies_dependency (s : KVs) (links : List Val) (hl : lookup "links" s = some (.seq links))
    (l : String) (hm : Val.str l ∈ links) :
    (linkTarget l, depEntry true) ∈ impliedList s := by
  unfold impliedList
  rw [hl]
  apply List.mem_append_left
  simp only [seqOf, linkDeps, List.mem_map]
  exact ⟨.str l, hm, rfl⟩

theorem namespace_implies_dependency (s : KVs) (ns : String) (hns : ns ∈ namespaces) (ref : String)
    (h : lookup ns s = some (.str ref)) (hp : hasPrefix servicePrefix ref = true) :
    (dropPrefix servicePrefix ref, depEntry true) ∈ impliedList s := by
  unfold impliedList
  apply List.mem_append_right
  apply List.mem_append_left
  simp only [nsDeps, List.mem_filterMap]
  exact ⟨ns, hns, by simp [nsDep, h, hp]⟩

theorem volumes_from_implies_dependency (s : KVs) (vf : List Val) (hv : lookup "volumes_from" s = some (.seq vf))
    (v : String) (hm : Val.str v ∈ vf) (hp : hasPrefix containerPrefix v = false) :
    (volFromTarget v, depEntry false) ∈ impliedList s := by
  unfold impliedList
  rw [hv]
  apply List.mem_append_right
  apply List.mem_append_right
  simp only [seqOf, vfDeps, List.mem_filterMap]
  exact ⟨.str v, hm, by simp [vfDep, strOf, hp]⟩

example : lookup "depends_on" (normService id [] [("links", .seq [.str "db:database"]), ("pid", .str "service:init")]) =
    some (.map [("db", depEntry true), ("init", depEntry true)]) := by rfl
example : lookup "depends_on" (normService id []
      [("links", .seq [.str "db"]), ("depends_on", .map [("db", .map [("condition", .str "service_healthy")])])]) =
    some (.map [("db", .map [("condition", .str "service_healthy")])]) := by rfl

/-- `depends_on` of the normalised service is the implied mapping (when it is not empty) -/
theorem depends_on_normalized (clean : String → String) (env : Env) (s : KVs) :
    lookup "depends_on" (normService clean env s) =
      match impliedDeps s with
      | [] => lookup "depends_on" s
      | d :: r => some (.map (d :: r)) := lookup_normService_depends_on clean env s

/-- attributes the loop has no business with are left alone -/
theorem normService_frame (clean : String → String) (env : Env) (s : KVs) (k : String)
    (h1 : k ≠ "pull_policy") (h2 : k ≠ "build") (h3 : k ≠ "environment") (h4 : k ≠ "volumes") (h5 : k ≠ "depends_on") :
    lookup k (normService clean env s) = lookup k s := lookup_normService_other clean env h1 h2 h3 h4 h5 s

/-- build `context` defaults to `.` (a missing key and an explicit null are the same); explicit values stay -/
theorem build_context_normalized (env : Env) (b : KVs) :
    lookup "context" (normBuild env b) = filledNil "context" (.str ".") (look b) "context" := by
  unfold normBuild
  rw [lookup_normBuildArgs_ne env (by decide), lookup_dockerfileDefault_ne (by decide), lookup_setIfNil]

/-- build `dockerfile` defaults to `Dockerfile` unless it or `dockerfile_inline` carries a value -/
theorem build_dockerfile_normalized (env : Env) (b : KVs) :
    lookup "dockerfile" (normBuild env b) =
      match lookup "dockerfile" b, lookup "dockerfile_inline" b with
      | none, none => some (.str "Dockerfile")
      | none, some .null => some (.str "Dockerfile")
      | some .null, none => some (.str "Dockerfile")
      | some .null, some .null => some (.str "Dockerfile")
      | d, _ => d := by
  unfold normBuild
  rw [lookup_normBuildArgs_ne env (by decide), lookup_dockerfileDefault_self]
  have h1 : lookup "dockerfile" (setIfNil "context" (.str ".") b) = lookup "dockerfile" b := by
    rw [lookup_setIfNil]; simp [filledNil]
  have h2 : lookup "dockerfile_inline" (setIfNil "context" (.str ".") b) = lookup "dockerfile_inline" b := by
    rw [lookup_setIfNil]; simp [filledNil]
  rw [h1, h2]
  split <;> split <;> simp_all

theorem build_explicit_preserved (env : Env) (b : KVs) (k : String) (x : Val) (hk : k ≠ "args")
    (h : lookup k b = some x) (hx : x ≠ .null) : lookup k (normBuild env b) = some x := by
  unfold normBuild
  rw [lookup_normBuildArgs_ne env hk]
  have h1 : lookup k (setIfNil "context" (.str ".") b) = some x := by
    rw [lookup_setIfNil]; exact filledNil_preserves _ _ _ k x h hx
  by_cases hd : k = "dockerfile"
  · subst hd
    rw [lookup_dockerfileDefault_self, h1]
    cases x <;> simp_all
  · rw [lookup_dockerfileDefault_ne hd, h1]

/-- `pull_policy: if_not_present` is the alias of `missing`; every other value is kept -/
theorem pull_policy_alias (p : String) :
    pullPolicyV (.str p) = if p = "if_not_present" then .str "missing" else .str p := rfl

/-! ## 4b. from the pieces to the whole of `Normalize` -/

/-- the services of the normalised model: every service goes through `normalizeNetworks` then the loop -/
theorem normalized_services (clean : String → String) (env : Env) (d : KVs) :
    lookup "services" (normalizePure clean env d) =
      (lookup "services" d).map fun v => nsTop clean env "services" (nnTop "services" v) := by
  rw [lookup_normalizePure clean env d (by decide)]
  have hf : topH clean env (lookup "name" d) "services" = fun v => nsTop clean env "services" (nnTop "services" v) :=
    funext (topH_services clean env _)
  rw [hf]

theorem normalized_service (clean : String → String) (env : Env) (d svcs : KVs) (name : String) (s : KVs)
    (hs : lookup "services" d = some (.map svcs)) (hn : lookup name svcs = some (.map s)) :
    ∃ svcs', lookup "services" (normalizePure clean env d) = some (.map svcs') ∧
      lookup name svcs' = some (.map (normService clean env (nnService s))) := by
  refine ⟨mapVals (normServiceV clean env) (mapVals nnServiceV svcs), ?_, ?_⟩
  · rw [normalized_services, hs]; simp [nnTop, nsTop]
  · rw [lookup_mapVals, lookup_mapVals, hn]; rfl

/-- volumes, configs and secrets of the normalised model: the declared ones, each named -/
theorem normalized_resources (clean : String → String) (env : Env) (d : KVs) (r : String)
    (hr : r = "volumes" ∨ r = "configs" ∨ r = "secrets") :
    lookup r (normalizePure clean env d) = (lookup r d).map (nameSectionV (lookup "name" d)) := by
  have hne : r ≠ "networks" := by rcases hr with h | h | h <;> subst h <;> decide
  rw [lookup_normalizePure clean env d hne]
  have hf : topH clean env (lookup "name" d) r = nameSectionV (lookup "name" d) := by
    funext v
    rcases hr with h | h | h <;> subst h <;> simp [topH, nnTop, nsTop, namesTop, resourceNames]
  rw [hf]

/-- nothing else at top level moves -/
theorem normalize_top_frame (clean : String → String) (env : Env) (d : KVs) (k : String)
    (h1 : k ≠ "services") (h2 : k ≠ "networks") (h3 : resourceNames.contains k = false) :
    lookup k (normalizePure clean env d) = lookup k d := by
  rw [lookup_normalizePure clean env d h2]
  cases lookup k d <;> simp [topH_of_plain clean env _ h1 h3]

/-! ## 5. idempotence: the fully explicit model is a fixed point, hence implicit ≡ explicit -/

theorem depends_on_defaults_idem (d : KVs) : depDefaults (depDefaults d) = depDefaults d := by
  unfold depDefaults
  have e1 : setIfAbsent "condition" (.str "service_started")
      (setIfAbsent "required" (.bool true) (setIfAbsent "condition" (.str "service_started") d)) =
      setIfAbsent "required" (.bool true) (setIfAbsent "condition" (.str "service_started") d) := by
    have : ∃ x, lookup "condition" (setIfAbsent "required" (.bool true) (setIfAbsent "condition" (.str "service_started") d)) = some x := by
      rw [lookup_setIfAbsent]
      simp only [filled, show ("condition" = "required") = False by simp, if_false]
      rw [lookup_setIfAbsent]
      simp only [filled, if_true]
      cases lookup "condition" d <;> simp
    obtain ⟨x, hx⟩ := this
    exact setIfAbsent_of_some hx
  rw [e1, setIfAbsent_idem]

theorem env_file_value_idem (v : Val) : envFileValue (envFileValue v) = envFileValue v := by
  cases v with
  | str s => rfl
  | map m => simp [envFileValue, setIfAbsent_idem]
  | _ => rfl


theorem normService_idempotent (clean : String → String) (hclean : ∀ s, clean (clean s) = clean s)
    (env : Env) (henv : envLookup env "" = none) (s : KVs) :
    normService clean env (normService clean env s) = normService clean env s :=
  normService_idem clean hclean env henv s

theorem normNetworks_service_idempotent (s : KVs) : nnService (nnService s) = nnService s := nnService_idem s

theorem setNames_idempotent (d : KVs) : setNames (setNames d) = setNames d := setNames_idem d

/-- **`Normalize` is idempotent**: `normalizePure d` is `d` with every default written out
(`explicitOf d`), and normalising it again changes nothing — so the implicit model and its fully
explicit spelling normalise to the same project.  `clean` is Go's `path.Clean` (only its idempotence is used);
the environment has no variable with an empty name. -/
theorem normalize_idem (clean : String → String) (hclean : ∀ s, clean (clean s) = clean s)
    (env : Env) (henv : envLookup env "" = none) (d : KVs) :
    normalizePure clean env (normalizePure clean env d) = normalizePure clean env d :=
  normalizePure_idem clean hclean env henv d

/-- **the normalised model is a fixed point of `Normalize`, outcome included**: if `Normalize` accepts `d` and
returns `e` (= `d` with every default written out), it accepts `e` and returns `e` -/
theorem normalize_fixed_point (clean : String → String) (hclean : ∀ s, clean (clean s) = clean s)
    (env : Env) (henv : envLookup env "" = none) (d e : KVs) (h : normalize clean env d = .ok e) :
    normalize clean env e = .ok e :=
  normalize_ok_fixed clean hclean env henv d e h

/-- **implicit ≡ explicit**: the model with all defaults spelled out (`e`) normalises to the same project as
the model that leaves them implicit (`d`) -/
theorem implicit_eq_explicit (clean : String → String) (hclean : ∀ s, clean (clean s) = clean s)
    (env : Env) (henv : envLookup env "" = none) (d e : KVs) (h : normalize clean env d = .ok e) :
    normalize clean env e = normalize clean env d := by
  rw [h]; exact normalize_ok_fixed clean hclean env henv d e h

example : normalize id [] [("name", .str "p"), ("services", .map [("a", .map [("links", .seq [.str "b"])]), ("b", .map [])])] =
    .ok [("name", .str "p"),
         ("services", .map [("a", .map [("links", .seq [.str "b"]), ("networks", defaultNet), ("depends_on", .map [("b", depEntry true)])]),
                            ("b", .map [("networks", defaultNet)])]),
         ("networks", .map [("default", .map [("name", .str "p_default")])])] := by rfl

/-! ## 6. Go's map iteration order: permuted input, permuted output (values identical) -/

/-- the order of a service's attributes does not matter to the loop body -/
theorem normService_order_irrelevant (clean : String → String) (env : Env) (s s' : KVs) (hn : KeysNodup s)
    (hp : s'.Perm s) : (normService clean env s').Perm (normService clean env s) :=
  normService_perm clean env hn hp

theorem nnService_order_irrelevant (s s' : KVs) (hn : KeysNodup s) (hp : s'.Perm s) :
    (nnService s').Perm (nnService s) := nnService_perm hn hp

/-- the order in which Go ranges over `services` does not matter: same decision about the `default` network,
and the normalised services are the same entries in the permuted order -/
theorem services_order_irrelevant (clean : String → String) (env : Env) (svcs svcs' : KVs) (hp : svcs'.Perm svcs) :
    (svcs'.any fun kv => svcJoinsDefault kv.2) = (svcs.any fun kv => svcJoinsDefault kv.2) ∧
    (mapVals (normServiceV clean env) (mapVals nnServiceV svcs')).Perm
      (mapVals (normServiceV clean env) (mapVals nnServiceV svcs)) ∧
    (svcs'.all fun kv => shapeService kv.2) = (svcs.all fun kv => shapeService kv.2) :=
  ⟨any_perm _ hp, mapVals_perm _ (mapVals_perm _ hp), all_perm _ hp⟩

/-- the order in which `setNameFromKey` ranges over a resource section does not matter -/
theorem resources_order_irrelevant (pj : Option Val) (top top' : KVs) (hp : top'.Perm top) :
    (mapAt (nameResource pj) top').Perm (mapAt (nameResource pj) top) := mapAt_perm _ hp

/-- **`Normalize` does not depend on the order of the top-level entries**: same error, or results that are
permutations of one another with identical values -/
theorem normalize_order_irrelevant (clean : String → String) (env : Env) (d d' : KVs) (hn : KeysNodup d)
    (hp : d'.Perm d) :
    (∀ e, normalize clean env d = .ok e → ∃ e', normalize clean env d' = .ok e' ∧ e'.Perm e) ∧
    (∀ cls, normalize clean env d = .err cls → normalize clean env d' = .err cls) := by
  obtain ⟨h1, h2, h3⟩ := shapes_perm hn hp
  unfold normalize
  rw [h1, h2, h3]
  constructor
  · intro e he
    cases a : shapeNN d <;> cases b : shapeServices d <;> cases c : shapeNames d <;> simp [a, b, c] at he ⊢
    subst he
    exact normalizePure_perm clean env hn hp
  · intro site hs
    cases a : shapeNN d <;> cases b : shapeServices d <;> cases c : shapeNames d <;> simp [a, b, c] at hs ⊢ <;> exact hs

example : KeysNodup [("name", .str "p"), ("services", .map [])] := by unfold KeysNodup; decide

/-! ## 7. more of `Canonical`: the two transformers with a defaulting half are idempotent -/

theorem transformEnvFile_idem (v v' : Val) (h : transformEnvFile v = .ok v') : transformEnvFile v' = .ok v' := by
  cases v with
  | str s => simp only [transformEnvFile, Out.ok.injEq] at h; subst h; rfl
  | seq xs =>
    simp only [transformEnvFile, Out.ok.injEq] at h
    subst h
    simp [transformEnvFile, List.map_map, Function.comp_def, env_file_value_idem]
  | _ => simp [transformEnvFile] at h

theorem transformDependsOn_idem (v v' : Val) (h : transformDependsOn v = .ok v') : transformDependsOn v' = .ok v' := by
  cases v with
  | map kvs =>
    simp only [transformDependsOn] at h
    split at h
    · rename_i hall
      simp only [Out.ok.injEq] at h
      subst h
      have hall' : ((kvs.map fun kv => (kv.1, depDefaultsV kv.2)).all fun kv => isMap kv.2) = true := by
        simp only [List.all_map, List.all_eq_true, Function.comp] at hall ⊢
        intro kv hkv
        have := hall kv hkv
        cases hv : kv.2 <;> simp [hv, isMap, depDefaultsV] at this ⊢
      simp only [transformDependsOn, hall', if_true, List.map_map, Out.ok.injEq, Val.map.injEq]
      apply List.map_congr_left
      intro kv _
      cases hv : kv.2 <;> simp [Function.comp, hv, depDefaultsV, depends_on_defaults_idem]
    · cases h
  | seq xs =>
    simp only [transformDependsOn] at h
    split at h
    · simp only [Out.ok.injEq] at h
      subst h
      -- every entry of the result is the (complete) short-form entry
      have inv : ∀ (l : List Val) (acc : KVs), (∀ e ∈ acc, e.2 = shortDep) →
          ∀ e ∈ l.foldl (fun acc x => Val.insert (strOf x) shortDep acc) acc, e.2 = shortDep := by
        intro l
        induction l with
        | nil => intro acc h; exact h
        | cons x r ih =>
          intro acc hacc
          apply ih
          intro e he
          rcases mem_insert he with h1 | h1
          · rw [h1]
          · exact hacc e h1
      have hres := inv xs [] (by simp)
      generalize xs.foldl (fun acc x => Val.insert (strOf x) shortDep acc) [] = res at hres
      have hall : (res.all fun kv => isMap kv.2) = true := by
        simp only [List.all_eq_true]
        intro kv hkv
        rw [hres kv hkv]; rfl
      simp only [transformDependsOn, hall, if_true, Out.ok.injEq, Val.map.injEq]
      conv => rhs; rw [← List.map_id res]
      apply List.map_congr_left
      intro kv hkv
      have : depDefaultsV kv.2 = kv.2 := by rw [hres kv hkv]; rfl
      simp [this]
    · cases h
  | _ => simp [transformDependsOn] at h

theorem canonSvcAttrs_idem : ∀ (s s' : List (String × Val)), canonSvcAttrs s = .ok s' → canonSvcAttrs s' = .ok s'
  | [], s', h => by simp only [canonSvcAttrs, Out.ok.injEq] at h; subst h; rfl
  | (k, v) :: r, s', h => by
    simp only [canonSvcAttrs] at h
    by_cases h1 : k = "depends_on"
    · simp only [h1, if_true] at h
      cases hv : transformDependsOn v with
      | ok w =>
        simp only [hv] at h
        cases hr : canonSvcAttrs r with
        | ok r' =>
          simp only [hr, Out.ok.injEq] at h
          subst h
          simp [canonSvcAttrs, h1, transformDependsOn_idem v w hv, canonSvcAttrs_idem r r' hr]
        | err e => simp [hr] at h
        | panic p => simp [hr] at h
      | err e => simp [hv] at h
      | panic p => simp [hv] at h
    · by_cases h2 : k = "env_file"
      · simp only [h2, show ("env_file" = "depends_on") = False by simp, if_false, if_true] at h
        cases hv : transformEnvFile v with
        | ok w =>
          simp only [hv] at h
          cases hr : canonSvcAttrs r with
          | ok r' =>
            simp only [hr, Out.ok.injEq] at h
            subst h
            simp [canonSvcAttrs, h2, transformEnvFile_idem v w hv, canonSvcAttrs_idem r r' hr]
          | err e => simp [hr] at h
          | panic p => simp [hr] at h
        | err e => simp [hv] at h
        | panic p => simp [hv] at h
      · simp only [h1, h2, if_false] at h
        cases hr : canonSvcAttrs r with
        | ok r' =>
          simp only [hr, Out.ok.injEq] at h
          subst h
          simp [canonSvcAttrs, h1, h2, canonSvcAttrs_idem r r' hr]
        | err e => simp [hr] at h
        | panic p => simp [hr] at h

theorem canonServices_idem : ∀ (m m' : List (String × Val)), canonServices m = .ok m' → canonServices m' = .ok m'
  | [], m', h => by simp only [canonServices, Out.ok.injEq] at h; subst h; rfl
  | (k, v) :: r, m', h => by
    cases v with
    | map s =>
      simp only [canonServices] at h
      cases hs : canonSvcAttrs s with
      | ok s2 =>
        simp only [hs] at h
        cases hr : canonServices r with
        | ok r' =>
          simp only [hr, Out.ok.injEq] at h
          subst h
          simp [canonServices, canonSvcAttrs_idem s s2 hs, canonServices_idem r r' hr]
        | err e => simp [hr] at h
        | panic p => simp [hr] at h
      | err e => simp [hs] at h
      | panic p => simp [hs] at h
    | _ =>
      simp only [canonServices] at h
      cases hr : canonServices r with
      | ok r' =>
        simp only [hr, Out.ok.injEq] at h
        subst h
        simp [canonServices, canonServices_idem r r' hr]
      | err e => simp [hr] at h
      | panic p => simp [hr] at h

/-- **the modelled part of `Canonical` is idempotent**: a model whose `depends_on` / `env_file` are already in long
form with every default written out is left as it is -/
theorem canonicalLite_idem (d : KVs) (v' : Val) (h : canonicalLite d = .ok v') :
    ∃ d', v' = .map d' ∧ canonicalLite d' = .ok (.map d') := by
  unfold canonicalLite at h
  cases hl : lookup "services" d with
  | none => simp only [hl, Out.ok.injEq] at h; subst h; exact ⟨d, rfl, by simp [canonicalLite, hl]⟩
  | some sv =>
    cases sv with
    | map svcs =>
      simp only [hl] at h
      cases hc : canonServices svcs with
      | ok s' =>
        simp only [hc, Out.ok.injEq] at h
        subst h
        refine ⟨_, rfl, ?_⟩
        simp [canonicalLite, lookup_insert_self, canonServices_idem svcs s' hc, insert_insert]
      | err e => simp [hc] at h
      | panic p => simp [hc] at h
    | _ => simp only [hl, Out.ok.injEq] at h; subst h; exact ⟨d, rfl, by simp [canonicalLite, hl]⟩

/-- the model of Go's `path.Clean` used by the driver is idempotent (C12's `clean_idem`) -/
theorem pathClean_idempotent (s : String) : pathClean (pathClean s) = pathClean s := by
  simp [pathClean, CV.Paths.clean_idem]

/-- `Normalize` as the driver runs it (with `pathClean`): idempotent, no hypothesis about `path.Clean` left -/
theorem normalize_idem_pathClean (env : Env) (henv : envLookup env "" = none) (d : KVs) :
    normalizePure pathClean env (normalizePure pathClean env d) = normalizePure pathClean env d :=
  normalizePure_idem pathClean pathClean_idempotent env henv d

theorem implicit_eq_explicit_pathClean (env : Env) (henv : envLookup env "" = none) (d e : KVs)
    (h : normalize pathClean env d = .ok e) : normalize pathClean env e = normalize pathClean env d := by
  rw [h]; exact normalize_ok_fixed pathClean pathClean_idempotent env henv d e h

example : envLookup [("FOO", "bar")] "" = none := by decide
example : ∀ s, (id : String → String) (id s) = id s := fun _ => rfl

end CV.C11
