import ComposeVerif.Model.Reset
import ComposeVerif.Spec.Override
import ComposeVerif.Lemmas.Path
import ComposeVerif.Lemmas.Merge
import ComposeVerif.Lemmas.Unicity
import ComposeVerif.Lemmas.Reset
import ComposeVerif.Neg.C04
/-!
# C04 — multiple files and documents merge by the Compose override rules

Property theorems about the models `CV.Merge` (override/merge.go), `CV.Unicity` (override/uncity.go) and
`CV.Reset` (loader/reset.go + the per-document fold of loader/loader.go).  They hold for **every** tree, path,
fuel and iteration order; the rule tables they mention are the ones regenerated from the Go source.
-/
namespace CV.C04
open CV CV.Val CV.Merge CV.Unicity CV.Reset CV.Override

/-! ## 1. The rule tables (regenerated from override/merge.go and override/uncity.go) -/

/-- every row of both tables names a Go function the model knows (an added / renamed merger or indexer breaks this) -/
theorem rows_known :
    (∀ r ∈ CV.Gen.mergeSpecials, ruleOfName r.2 ≠ none) ∧ (∀ r ∈ CV.Gen.unique, indexerOfName r.2 ≠ none) := by
  decide

/-- no path is matched by two rows of `mergeSpecials` … -/
theorem mergeSpecials_exclusive : TPath.PairwiseExclusive CV.Gen.mergeSpecials := by decide

/-- … nor by two rows of `unique` -/
theorem unique_exclusive : TPath.PairwiseExclusive CV.Gen.unique := by decide

/-- Go ranges over the `mergeSpecials` map in random order: the rule found at a path is the same for every order -/
theorem ruleAt_order_independent (t : List (List String × String)) (h : t.Perm CV.Gen.mergeSpecials) (p : TPath) :
    ruleAtIn t p = ruleAt p := by
  unfold ruleAt ruleAtIn
  rw [TPath.firstMatch_perm mergeSpecials_exclusive h]

/-- … and so is the indexer found in `unique` -/
theorem indexerAt_order_independent (t : List (List String × String)) (h : t.Perm CV.Gen.unique) (p : TPath) :
    indexerAtIn t p = indexerAt p := by
  unfold indexerAt indexerAtIn
  rw [TPath.firstMatch_perm unique_exclusive h]

/-- **the Go tables give every attribute the rule the property states** (54 attribute paths; dropping a row of
`mergeSpecials` or an indexer of `unique` breaks this).  Before the round-2 repair of `override.unique` this was
false for `volumes.*.labels` (`Neg/C04.lean`). -/
theorem rule_table_matches_spec : ∀ r ∈ expected, actual r.1 = r.2 := by decide

example : expected.length = 54 := by decide

/-- command / entrypoint / healthcheck.test take the `override` rule for *every* service name -/
theorem wholesale_paths (s : String) :
    ruleAt ["services", s, "command"] = some .override ∧ ruleAt ["services", s, "entrypoint"] = some .override ∧
    ruleAt ["services", s, "healthcheck", "test"] = some .override := by
  refine ⟨?_, ?_, ?_⟩ <;> unfold ruleAt ruleAtIn
  · rw [TPath.firstMatch_eq_of_mem mergeSpecials_exclusive (pat := ["services", "*", "command"]) (h := "override")
      (by decide) (by simp [TPath.pmatch])]; rfl
  · rw [TPath.firstMatch_eq_of_mem mergeSpecials_exclusive (pat := ["services", "*", "entrypoint"]) (h := "override")
      (by decide) (by simp [TPath.pmatch])]; rfl
  · rw [TPath.firstMatch_eq_of_mem mergeSpecials_exclusive (pat := ["services", "*", "healthcheck", "test"]) (h := "override")
      (by decide) (by simp [TPath.pmatch])]; rfl

/-- environment / labels are merged to a sequence and indexed by key, for every service name -/
theorem kv_paths (s : String) :
    ruleAt ["services", s, "environment"] = some .toSeq ∧ indexerAt ["services", s, "environment"] = some .keyValue ∧
    ruleAt ["services", s, "labels"] = some .toSeq ∧ indexerAt ["services", s, "labels"] = some .keyValue := by
  refine ⟨?_, ?_, ?_, ?_⟩
  · unfold ruleAt ruleAtIn
    rw [TPath.firstMatch_eq_of_mem mergeSpecials_exclusive (pat := ["services", "*", "environment"]) (h := "mergeToSequence")
      (by decide) (by simp [TPath.pmatch])]; rfl
  · unfold indexerAt indexerAtIn
    rw [TPath.firstMatch_eq_of_mem unique_exclusive (pat := ["services", "*", "environment"]) (h := "keyValueIndexer")
      (by decide) (by simp [TPath.pmatch])]; rfl
  · unfold ruleAt ruleAtIn
    rw [TPath.firstMatch_eq_of_mem mergeSpecials_exclusive (pat := ["services", "*", "labels"]) (h := "mergeToSequence")
      (by decide) (by simp [TPath.pmatch])]; rfl
  · unfold indexerAt indexerAtIn
    rw [TPath.firstMatch_eq_of_mem unique_exclusive (pat := ["services", "*", "labels"]) (h := "keyValueIndexer")
      (by decide) (by simp [TPath.pmatch])]; rfl

/-- ports / volumes / secrets are keyed lists, for every service name -/
theorem keyed_paths (s : String) :
    indexerAt ["services", s, "ports"] = some .port ∧ indexerAt ["services", s, "volumes"] = some .volume ∧
    indexerAt ["services", s, "secrets"] = some (.mount "/run/secrets") ∧ indexerAt ["services", s, "configs"] = some (.mount "") ∧
    indexerAt ["services", s, "devices"] = some .deviceMapping := by
  refine ⟨?_, ?_, ?_, ?_, ?_⟩ <;> unfold indexerAt indexerAtIn
  · rw [TPath.firstMatch_eq_of_mem unique_exclusive (pat := ["services", "*", "ports"]) (h := "portIndexer")
      (by decide) (by simp [TPath.pmatch])]; rfl
  · rw [TPath.firstMatch_eq_of_mem unique_exclusive (pat := ["services", "*", "volumes"]) (h := "volumeIndexer")
      (by decide) (by simp [TPath.pmatch])]; rfl
  · rw [TPath.firstMatch_eq_of_mem unique_exclusive (pat := ["services", "*", "secrets"]) (h := "mountIndexer(\"/run/secrets\")")
      (by decide) (by simp [TPath.pmatch])]; rfl
  · rw [TPath.firstMatch_eq_of_mem unique_exclusive (pat := ["services", "*", "configs"]) (h := "mountIndexer(\"\")")
      (by decide) (by simp [TPath.pmatch])]; rfl
  · rw [TPath.firstMatch_eq_of_mem unique_exclusive (pat := ["services", "*", "devices"]) (h := "deviceMappingIndexer")
      (by decide) (by simp [TPath.pmatch])]; rfl

/-! ## 2. `mergeYaml`: the default rules and the pointwise law of mappings -/

/-- scalars are replaced: at a path without special rule, a non-null override over a scalar base is the result -/
theorem merge_scalar (n : Nat) (e o : Val) (p : TPath) (hp : ruleAt p = none) (ho : o ≠ .null)
    (he : (∀ a, e ≠ .map a) ∧ (∀ a, e ≠ .seq a)) : mergeYaml (n + 1) e o p = .ok o := by
  simp only [mergeYaml, mergeStep, hp, defaultStep]
  cases o <;> first | exact absurd rfl ho | skip
  all_goals (cases e <;> first | rfl | exact absurd rfl (he.1 _) | exact absurd rfl (he.2 _))

example : mergeYaml 1 (.str "nginx") (.str "busybox") ["services", "s", "image"] = .ok (.str "busybox") := by rfl

/-- an attribute the later file sets to null (or leaves empty) keeps the base value -/
theorem merge_null_keeps_base (n : Nat) (e : Val) (p : TPath) (hp : ruleAt p = none) :
    mergeYaml (n + 1) e .null p = .ok e := by
  simp only [mergeYaml, mergeStep, hp, defaultStep]

/-- sequences are appended -/
theorem merge_seq_append (n : Nat) (a b : List Val) (p : TPath) (hp : ruleAt p = none) :
    mergeYaml (n + 1) (.seq a) (.seq b) p = .ok (.seq (a ++ b)) := by
  simp only [mergeYaml, mergeStep, hp, defaultStep]

/-- a mapping merged with a mapping is `mergeMappings` (one fuel level down) -/
theorem merge_map_unfold (n : Nat) (a b : KVs) (p : TPath) (hp : ruleAt p = none) :
    mergeYaml (n + 1) (.map a) (.map b) p = (mergeKVs n a b p).bind fun m => .ok (.map m) := by
  simp only [mergeYaml, mergeStep, hp, defaultStep, mergeKVs]

/-- **mappings merge key by key, recursively**: at every key the merged mapping holds the base value (key only in
the base), the override value (key only in the override, or an `x-` extension), or the recursive merge of the two -/
theorem merge_map_pointwise (n : Nat) (a b m : KVs) (p : TPath) (hb : (keys b).Nodup)
    (h : mergeKVs n a b p = .ok m) (k : String) :
    PointwiseAt (mergeYaml n) p k (lookup k a) (lookup k b) (lookup k m) :=
  mergeKVsWith_pointwise (mergeYaml n) p b a m hb h k

/-- **anything a later file does not mention is preserved unchanged** (frame) -/
theorem merge_absent_preserved (n : Nat) (a b m : KVs) (p : TPath) (hb : (keys b).Nodup)
    (h : mergeKVs n a b p = .ok m) (k : String) (hk : lookup k b = none) : lookup k m = lookup k a := by
  have := merge_map_pointwise n a b m p hb h k
  rw [hk] at this
  exact pointwiseAt_none_right.mp this

/-- a key only the later file has is added with the later file's value -/
theorem merge_new_key_added (n : Nat) (a b m : KVs) (p : TPath) (hb : (keys b).Nodup)
    (h : mergeKVs n a b p = .ok m) (k : String) (y : Val) (hka : lookup k a = none) (hkb : lookup k b = some y) :
    lookup k m = some y := by
  have := merge_map_pointwise n a b m p hb h k
  rw [hka, hkb] at this
  exact this

/-- a key both files have holds the recursive merge of the two values -/
theorem merge_common_key_recursive (n : Nat) (a b m : KVs) (p : TPath) (hb : (keys b).Nodup)
    (h : mergeKVs n a b p = .ok m) (k : String) (x y : Val) (hka : lookup k a = some x) (hkb : lookup k b = some y)
    (hx : hasXPrefix k = false) : ∃ z, mergeYaml n x y (next p k) = .ok z ∧ lookup k m = some z := by
  have := merge_map_pointwise n a b m p hb h k
  rw [hka, hkb] at this
  simpa [PointwiseAt, hx] using this

/-- no keys are invented: a key of the merged mapping comes from one of the two sides -/
theorem merge_no_new_keys (n : Nat) (a b m : KVs) (p : TPath) (hb : (keys b).Nodup)
    (h : mergeKVs n a b p = .ok m) (k : String) (hka : lookup k a = none) (hkb : lookup k b = none) :
    lookup k m = none := by
  have := merge_map_pointwise n a b m p hb h k
  rw [hka, hkb] at this
  exact this

/-- Go ranges over the override mapping in random order: every order that succeeds yields the same mapping -/
theorem merge_map_order_independent (n : Nat) (a b b' m m' : KVs) (p : TPath) (hb : (keys b).Nodup) (hp : b'.Perm b)
    (h : mergeKVs n a b p = .ok m) (h' : mergeKVs n a b' p = .ok m') (k : String) : lookup k m' = lookup k m := by
  have hb' : (keys b').Nodup := (hp.map Prod.fst).nodup_iff.mpr hb
  have h1 := merge_map_pointwise n a b m p hb h k
  have h2 := merge_map_pointwise n a b' m' p hb' h' k
  rw [lookup_perm hb hp k] at h2
  exact pointwiseAt_unique h2 h1

example : mergeKVs 3 [("image", .str "a"), ("deploy", .map [("replicas", .int 1)])]
    [("deploy", .map [("mode", .str "global")]), ("hostname", .str "h")] ["services", "s"]
    = .ok [("image", .str "a"), ("deploy", .map [("replicas", .int 1), ("mode", .str "global")]), ("hostname", .str "h")] := by rfl

/-- the merged mapping keeps distinct keys -/
theorem merge_map_keys_nodup (f : Val → Val → TPath → Out Val) (p : TPath) :
    ∀ (b a m : KVs), (keys a).Nodup → mergeKVsWith f a b p = .ok m → (keys m).Nodup := by
  intro b
  induction b with
  | nil => intro a m ha h; simp only [mergeKVsWith, Out.ok.injEq] at h; subst h; exact ha
  | cons hd tl ih =>
    obtain ⟨k, v⟩ := hd
    intro a m ha h
    simp only [mergeKVsWith] at h
    cases hl : lookup k a with
    | none => rw [hl] at h; exact ih _ _ (nodup_keys_insert ha) h
    | some e =>
      rw [hl] at h
      by_cases hx : hasXPrefix k = true
      · simp only [hx, if_true] at h; exact ih _ _ (nodup_keys_insert ha) h
      · simp only [hx, Bool.false_eq_true, if_false] at h
        cases hf : f e v (next p k) with
        | ok z => simp only [hf, Out.bind] at h; exact ih _ _ (nodup_keys_insert ha) h
        | err e' => simp [hf, Out.bind] at h
        | panic s => simp [hf, Out.bind] at h

/-! ## 3. Special rules named by the property -/

/-- command / entrypoint / healthcheck.test: **replaced wholesale**, whatever the two values are -/
theorem wholesale_replace (n : Nat) (e o : Val) (p : TPath) (hp : ruleAt p = some .override) :
    mergeYaml (n + 1) e o p = .ok o := by
  simp only [mergeYaml, mergeStep, hp, specialStep]

theorem command_replaced (n : Nat) (e o : Val) (s : String) :
    mergeYaml (n + 1) e o ["services", s, "command"] = .ok o :=
  wholesale_replace n e o _ (wholesale_paths s).1

/-- KEY=VALUE style attributes: both sides are first converted to sequences (a mapping becomes its sorted
`KEY=VALUE` strings, a string a one-element list) and appended, **whichever spelling either side uses** -/
theorem toSeq_append (n : Nat) (e o : Val) (p : TPath) (hp : ruleAt p = some .toSeq) :
    mergeYaml (n + 1) e o p = .ok (.seq (seqOf e ++ seqOf o)) := by
  simp only [mergeYaml, mergeStep, hp, specialStep]

example : mergeYaml 1 (.map [("B", .int 2), ("A", .null)]) (.seq [.str "B=3"]) ["services", "s", "environment"]
    = .ok (.seq [.str "A", .str "B=2", .str "B=3"]) := by rfl

/-! ## 4. `enforceUnicity`: one entry per key, the later one wins, the first position is kept -/

/-- after unicity no two entries share a key -/
theorem unicity_nodup_keys (l : List (String × Val)) : (keys (dedupKVs l)).Nodup :=
  nodup_foldl_step l [] (by simp [keys])

/-- **the later entry wins**: the entry kept for a key is the last one carrying that key -/
theorem unicity_last_wins (l : List (String × Val)) (k : String) : lookup k (dedupKVs l) = lastVal k l := by
  rw [dedupKVs_eq, lookup_foldl_step]
  cases lastVal k l <;> simp [lookup]

/-- **first position kept**: scanning the entries, a key takes its place the first time it is seen -/
theorem unicity_keeps_first_position (l : List (String × Val)) :
    keys (dedupKVs l) = (l.map Prod.fst).foldl addKey [] := by
  rw [dedupKVs_eq, keys_foldl_step]; rfl

/-- exactly the keys that occur survive -/
theorem unicity_keeps_every_key (l : List (String × Val)) (k : String) :
    k ∈ keys (dedupKVs l) ↔ k ∈ l.map Prod.fst := by
  rw [← lookup_isSome_iff, unicity_last_wins]
  have := @lastVal_eq_none_iff k l
  cases h : lastVal k l with
  | none => simp [this.mp h]
  | some w =>
    simp only [Option.isSome_some, true_iff]
    apply Classical.byContradiction
    intro hn; rw [this.mpr hn] at h; cases h

/-- unicity is idempotent (the loader applies it after the merge and again after canonicalisation) -/
theorem unicity_idem (l : List (String × Val)) : dedupKVs (dedupKVs l) = dedupKVs l := by
  have h := unicity_nodup_keys l
  rw [dedupKVs_eq (dedupKVs l), foldl_step_of_nodup _ [] (by simpa using h)]
  rfl

/-- a list without repeated keys is left alone -/
theorem unicity_noop_of_nodup (l : List (String × Val)) (h : (keys l).Nodup) : dedupKVs l = l := by
  rw [dedupKVs_eq, foldl_step_of_nodup _ [] (by simpa using h)]; rfl

theorem indexAll_length (ix : Indexer) : ∀ (xs : List Val) (ks : List String), indexAll ix xs = .ok ks → ks.length = xs.length := by
  intro xs
  induction xs with
  | nil => intro ks h; simp only [indexAll, Out.ok.injEq] at h; subst h; rfl
  | cons x r ih =>
    intro ks h
    simp only [indexAll] at h
    cases hx : index ix x with
    | ok k =>
      simp only [hx, Out.bind] at h
      cases hr : indexAll ix r with
      | ok ks' =>
        simp only [hr, Out.ok.injEq] at h
        subst h; simp [ih _ hr]
      | err e => simp [hr] at h
      | panic s => simp [hr] at h
    | err e => simp [hx, Out.bind] at h
    | panic s => simp [hx, Out.bind] at h

theorem indexAll_append (ix : Indexer) : ∀ (xs ys : List Val) (ka kb : List String),
    indexAll ix xs = .ok ka → indexAll ix ys = .ok kb → indexAll ix (xs ++ ys) = .ok (ka ++ kb) := by
  intro xs
  induction xs with
  | nil => intro ys ka kb ha hb; simp only [indexAll, Out.ok.injEq] at ha; subst ha; simpa using hb
  | cons x r ih =>
    intro ys ka kb ha hb
    simp only [indexAll] at ha
    cases hx : index ix x with
    | ok k =>
      simp only [hx, Out.bind] at ha
      cases hr : indexAll ix r with
      | ok ks' =>
        simp only [hr, Out.ok.injEq] at ha
        subst ha
        simp only [List.cons_append, indexAll, hx, Out.bind, ih _ _ _ hr hb]
      | err e => simp [hr] at ha
      | panic s => simp [hr] at ha
    | err e => simp [hx, Out.bind] at ha
    | panic s => simp [hx, Out.bind] at ha

/-- at a path with an indexer, `enforceUnicity` of a sequence is exactly the de-duplication by index key -/
theorem enforce_indexed_seq (p : TPath) (ix : Indexer) (xs : List Val) (ks : List String)
    (hp : indexerAt p = some ix) (hk : indexAll ix xs = .ok ks) : enforce (.seq xs) p = .ok (.seq (dedup ks xs)) := by
  simp only [enforce, hp, hk, Out.bind]

/-- … and everywhere else sequences are left alone -/
theorem enforce_plain_seq (p : TPath) (xs : List Val) (hp : indexerAt p = none) : enforce (.seq xs) p = .ok (.seq xs) := by
  simp only [enforce, hp]

/-- **keyed lists keep a single entry per key with the later file winning** — base entries `xa` (keys `ka`) followed
by override entries `xb` (keys `kb`): the entry kept for `k` is the override's last one if it has any, else the base's -/
theorem keyed_later_wins (ka kb : List String) (xa xb : List Val) (hla : ka.length = xa.length) (k : String) :
    lookup k (dedupKVs ((ka ++ kb).zip (xa ++ xb))) =
      match lastVal k (kb.zip xb) with
      | some w => some w
      | none => lastVal k (ka.zip xa) := by
  rw [unicity_last_wins, List.zip_append hla, lastVal_append]
  cases lastVal k (kb.zip xb) <;> rfl

/-- **KEY=VALUE attributes merge by key whichever spelling either side uses**: merge-to-sequence followed by
unicity keeps, for every key, the later file's entry if it mentions the key and the earlier file's otherwise -/
theorem kv_later_wins (n : Nat) (e o : Val) (p : TPath) (ix : Indexer) (ka kb : List String)
    (hr : ruleAt p = some .toSeq) (hi : indexerAt p = some ix)
    (ha : indexAll ix (seqOf e) = .ok ka) (hb : indexAll ix (seqOf o) = .ok kb) :
    ∃ r : KVs, (mergeYaml (n + 1) e o p).bind (fun m => enforce m p) = .ok (.seq (r.map Prod.snd)) ∧ (keys r).Nodup ∧
      ∀ k, lookup k r = match lastVal k (kb.zip (seqOf o)) with
                        | some w => some w
                        | none => lastVal k (ka.zip (seqOf e)) := by
  refine ⟨dedupKVs ((ka ++ kb).zip (seqOf e ++ seqOf o)), ?_, unicity_nodup_keys _, ?_⟩
  · rw [toSeq_append n e o p hr]
    simp only [Out.bind]
    rw [enforce_indexed_seq p ix _ _ hi (indexAll_append ix _ _ _ _ ha hb)]
    rfl
  · intro k
    exact keyed_later_wins ka kb _ _ (indexAll_length ix _ _ ha) k

example : (mergeYaml 1 (.map [("B", .int 2), ("A", .null)]) (.seq [.str "B=3", .str "C"]) ["services", "s", "environment"]).bind
    (fun m => enforce m ["services", "s", "environment"]) = .ok (.seq [.str "A", .str "B=3", .str "C"]) := by rfl

/-- the same for the lists that are appended by the default rule (ports, volumes, secrets, configs, devices, cap_add, …) -/
theorem keyed_list_later_wins (n : Nat) (xa xb : List Val) (p : TPath) (ix : Indexer) (ka kb : List String)
    (hr : ruleAt p = none) (hi : indexerAt p = some ix)
    (ha : indexAll ix xa = .ok ka) (hb : indexAll ix xb = .ok kb) :
    ∃ r : KVs, (mergeYaml (n + 1) (.seq xa) (.seq xb) p).bind (fun m => enforce m p) = .ok (.seq (r.map Prod.snd)) ∧
      (keys r).Nodup ∧
      ∀ k, lookup k r = match lastVal k (kb.zip xb) with
                        | some w => some w
                        | none => lastVal k (ka.zip xa) := by
  refine ⟨dedupKVs ((ka ++ kb).zip (xa ++ xb)), ?_, unicity_nodup_keys _, ?_⟩
  · rw [merge_seq_append n xa xb p hr]
    simp only [Out.bind]
    rw [enforce_indexed_seq p ix _ _ hi (indexAll_append ix _ _ _ _ ha hb)]
    rfl
  · intro k
    exact keyed_later_wins ka kb _ _ (indexAll_length ix _ _ ha) k

example : (mergeYaml 1 (.seq [.str "vol:/data", .str "/cache"]) (.seq [.str "./src:/data:ro"]) ["services", "s", "volumes"]).bind
    (fun m => enforce m ["services", "s", "volumes"]) = .ok (.seq [.str "./src:/data:ro", .str "/cache"]) := by rfl

/-! ## 5. Files and `---` documents are folded the same way -/

theorem bind_assoc' {α β γ : Type} (x : Out α) (f : α → Out β) (g : β → Out γ) :
    (x.bind f).bind g = x.bind fun a => (f a).bind g := by
  cases x <;> rfl

theorem loadDocs_append (post : Val → Out Val) : ∀ (ds ds' : List YNode) (dict : Val),
    loadDocs post dict (ds ++ ds') = (loadDocs post dict ds).bind fun d => loadDocs post d ds' := by
  intro ds
  induction ds with
  | nil => intro ds' dict; rfl
  | cons d r ih =>
    intro ds' dict
    simp only [List.cons_append, loadDocs, bind_assoc', ih]

/-- loading the files `fs` and then `f` = applying `f` onto the result of loading `fs` -/
theorem fold_files (post : Val → Out Val) : ∀ (fs : List (List YNode)) (f : List YNode) (dict : Val),
    loadFiles post dict (fs ++ [f]) = (loadFiles post dict fs).bind fun d => loadDocs post d f := by
  intro fs
  induction fs with
  | nil =>
    intro f dict
    simp only [List.nil_append, loadFiles, Out.bind]
    cases loadDocs post dict f <;> rfl
  | cons g r ih =>
    intro f dict
    simp only [List.cons_append, loadFiles, bind_assoc', ih]

/-- a list of files is loaded exactly like the concatenation of their documents … -/
theorem files_eq_documents (post : Val → Out Val) : ∀ (fs : List (List YNode)) (dict : Val),
    loadFiles post dict fs = loadDocs post dict fs.flatten := by
  intro fs
  induction fs with
  | nil => intro dict; rfl
  | cons g r ih =>
    intro dict
    simp only [loadFiles, List.flatten_cons, loadDocs_append, ih]

/-- … so **several `---` documents in one file = the same documents as separate files** -/
theorem multiDoc_eq_multiFile (post : Val → Out Val) (docs : List YNode) (dict : Val) :
    loadFiles post dict [docs] = loadFiles post dict (docs.map fun d => [d]) := by
  rw [files_eq_documents, files_eq_documents]
  congr 1
  induction docs with
  | nil => rfl
  | cons d r ih =>
    simp only [List.flatten_cons, List.flatten_nil, List.append_nil, List.map_cons, List.singleton_append] at ih ⊢
    rw [← ih]

/-! ## 6. `!reset` and `!override` -/

/-- **`!reset` removes the attribute**: a mapping entry tagged `!reset` is dropped from the document, its path is
recorded, `Apply` deletes that key from the model merged so far, and the merge cannot bring it back — whatever the
base held there, at any depth `p` -/
theorem reset_removes (n : Nat) (p : TPath) (k : String) (x : YNode) (ht : x.tag = .reset)
    (es : List (String × YNode)) (hnd : (es.map Prod.fst).Nodup) (hmem : (k, x) ∈ es)
    (paths : List TPath) (hsub : ∀ q ∈ (resolveMap es p).2, q ∈ paths) (a m : KVs)
    (h : mergeKVs n (applyKVs paths a p) (decodeKV (resolveMap es p).1) p = .ok m) : lookup k m = none := by
  obtain ⟨hgone, hrec⟩ := resolveMap_reset p k x ht es hnd hmem
  have hdel := applyKVs_removed paths p k (matchesAny_of_mem (hsub _ hrec)) a
  exact merge_no_new_keys n _ _ m p (resolveMap_keys_nodup p es hnd) h k hdel hgone

/-- **`!override` replaces without merging**: the entry stays in the document as written, the base's value at that
key is deleted first, so the result is the override's value itself — no append, no key-wise merge -/
theorem override_replaces (n : Nat) (p : TPath) (k : String) (x : YNode) (ht : x.tag = .override)
    (es : List (String × YNode)) (hnd : (es.map Prod.fst).Nodup) (hmem : (k, x) ∈ es)
    (paths : List TPath) (hsub : ∀ q ∈ (resolveMap es p).2, q ∈ paths) (a m : KVs)
    (h : mergeKVs n (applyKVs paths a p) (decodeKV (resolveMap es p).1) p = .ok m) : lookup k m = some (decode x) := by
  obtain ⟨hkept, hrec⟩ := resolveMap_override p k x ht es hnd hmem
  have hdel := applyKVs_removed paths p k (matchesAny_of_mem (hsub _ hrec)) a
  exact merge_new_key_added n _ _ m p (resolveMap_keys_nodup p es hnd) h k _ hdel hkept

/-- keys whose path matches no recorded path survive `Apply` (frame of `!reset` / `!override`) -/
theorem reset_frame (paths : List TPath) (p : TPath) (k : String) (h : matchesAny paths (next p k) = false) (a : KVs) :
    lookup k (applyKVs paths a p) = (lookup k a).map fun e => applyNull paths e (next p k) :=
  applyKVs_kept paths p k h a

/-- without tags nothing is deleted -/
theorem apply_no_paths (p : TPath) : ∀ a : KVs, (∀ k v, (k, v) ∈ a → applyNull [] v (next p k) = v) → applyKVs [] a p = a := by
  intro a
  induction a with
  | nil => intro _; rfl
  | cons hd tl ih =>
    obtain ⟨k, v⟩ := hd
    intro h
    simp only [applyKVs, matchesAny, List.any_nil, Bool.false_eq_true, if_false]
    rw [h k v (by simp), ih (fun k' v' hm => h k' v' (by simp [hm]))]

-- non-vacuity: a two-document stream where the second document resets `ports` and overrides `dns`
example :
    loadDocs .ok (.map [("services", .map [("web", .map [("image", .str "nginx"), ("ports", .seq [.str "80"]), ("dns", .seq [.str "1.1.1.1"])])])])
      [.map .none [("services", .map .none [("web", .map .none [("ports", .scalar .reset .null), ("dns", .seq .override [.scalar .none (.str "9.9.9.9")])])])]]
    = .ok (.map [("services", .map [("web", .map [("image", .str "nginx"), ("dns", .seq [.str "9.9.9.9"])])])]) := by rfl

/-! ## 7. Index keys -/

/-- the key of a long-syntax port: `host_ip:published:target/protocol` with the defaults `0.0.0.0` and `tcp` -/
theorem port_key (kvs : KVs) (t : Val) (ht : lookup "target" kvs = some t) :
    index .port (.map kvs) = .ok (sprintArg 's' true ((lookup "host_ip" kvs).getD (.str "0.0.0.0")) ++ ":" ++
      Merge.fmtV ((lookup "published" kvs).getD .null) ++ ":" ++ Merge.fmtV t ++ "/" ++
      sprintArg 's' true ((lookup "protocol" kvs).getD (.str "tcp"))) := by
  simp [index, ht]

/-- **the port key does not depend on how `published` / `target` are spelled**: an integer and the string of its
decimal digits give the same key (false before the round-2 repair of `portIndexer`, see `Neg/C04.lean`) -/
theorem port_key_spelling_independent (kvs kvs' : KVs) (n t : Int)
    (hp : lookup "published" kvs = some (.int n)) (hp' : lookup "published" kvs' = some (.str (toString n)))
    (ht : lookup "target" kvs = some (.int t)) (ht' : lookup "target" kvs' = some (.str (toString t)))
    (hh : lookup "host_ip" kvs = lookup "host_ip" kvs') (hpr : lookup "protocol" kvs = lookup "protocol" kvs') :
    index .port (.map kvs) = index .port (.map kvs') := by
  rw [port_key kvs _ ht, port_key kvs' _ ht', hp, hp', hh, hpr]
  simp [Merge.fmtV]

example : index .port (.map [("target", .int 80), ("published", .int 8080)]) = index .port (.map [("target", .str "80"), ("published", .str "8080")]) := by rfl

/-- a short-syntax volume and a long-syntax volume with the same target share their key -/
theorem volume_key_long (kvs : KVs) (t : String) (ht : lookup "target" kvs = some (.str t)) :
    index .volume (.map kvs) = .ok t := by
  simp [index, ht]

example : index .volume (.str "./src:/data:ro") = .ok "/data" ∧ index .volume (.map [("type", .str "volume"), ("target", .str "/data")]) = .ok "/data" := by
  constructor <;> rfl

end CV.C04
