import ComposeVerif.Model.Reset
import ComposeVerif.Spec.Override
import ComposeVerif.Lemmas.Path
import ComposeVerif.Lemmas.Merge
import ComposeVerif.Lemmas.Unicity
import ComposeVerif.Lemmas.Reset
import ComposeVerif.Lemmas.Fuel
import ComposeVerif.Lemmas.Spelling
import ComposeVerif.Neg.C04
/-!
# C04 — multiple files and documents merge by the Compose override rules

Property theorems about the models `CV.Merge` (override/merge.go), `CV.Unicity` (override/uncity.go) and
`CV.Reset` (loader/reset.go + the per-document fold of loader/loader.go).  They hold for **every** tree, path,
fuel and iteration order; the rule tables they mention are the ones regenerated from the Go source.
-/
namespace CV.C04
open CV CV.Val CV.Merge CV.Unicity CV.Reset CV.Override

/-! ## 1. The rule tables (regenerated from override/merge.go and override/uncity.go) -/

/-- every row of both tables names a Go function the model knows (an added / renamed merger or indexer breaks this) -/
theorem rows_known :
    (∀ r ∈ CV.Gen.mergeSpecials, ruleOfName r.2 ≠ none) ∧ (∀ r ∈ CV.Gen.unique, indexerOfName r.2 ≠ none) := by
  decide

/-- no path is matched by two rows of `mergeSpecials` … -/
theorem mergeSpecials_exclusive : TPath.PairwiseExclusive CV.Gen.mergeSpecials := by decide

/-- … nor by two rows of `unique` -/
theorem unique_exclusive : TPath.PairwiseExclusive CV.Gen.unique := by decide

/-- Go ranges over the `mergeSpecials` map in random order: the rule found at a path is the same for every order -/
theorem ruleAt_order_independent (t : List (List String × String)) (h : t.Perm CV.Gen.mergeSpecials) (p : TPath) :
    ruleAtIn t p = ruleAt p := by
  unfold ruleAt ruleAtIn
  rw [TPath.firstMatch_perm mergeSpecials_exclusive h]

/-- … and so is the indexer found in `unique` -/
theorem indexerAt_order_independent (t : List (List String × String)) (h : t.Perm CV.Gen.unique) (p : TPath) :
    indexerAtIn t p = indexerAt p := by
  unfold indexerAt indexerAtIn
  rw [TPath.firstMatch_perm unique_exclusive h]

/-- **the Go tables give every attribute the rule the property states** (54 attribute paths; dropping a row of
`mergeSpecials` or an indexer of `unique` breaks this).  Before the round-2 repair of `override.unique` this was
false for `volumes.*.labels` (`Neg/C04.lean`). -/
theorem rule_table_matches_spec : ∀ r ∈ expected, actual r.1 = r.2 := by decide

example : expected.length = 54 := by decide

/-- command / entrypoint / healthcheck.test take the `override` rule for *every* service name -/
theorem wholesale_paths (s : String) :
    ruleAt ["services", s, "command"] = some .override ∧ ruleAt ["services", s, "entrypoint"] = some .override ∧
    ruleAt ["services", s, "healthcheck", "test"] = some .override := by
  refine ⟨?_, ?_, ?_⟩ <;> unfold ruleAt ruleAtIn
  · rw [TPath.firstMatch_eq_of_mem mergeSpecials_exclusive (pat := ["services", "*", "command"]) (h := "override")
      (by decide) (by simp [TPath.pmatch])]; rfl
  · rw [TPath.firstMatch_eq_of_mem mergeSpecials_exclusive (pat := ["services", "*", "entrypoint"]) (h := "override")
      (by decide) (by simp [TPath.pmatch])]; rfl
  · rw [TPath.firstMatch_eq_of_mem mergeSpecials_exclusive (pat := ["services", "*", "healthcheck", "test"]) (h := "override")
      (by decide) (by simp [TPath.pmatch])]; rfl

/-- environment / labels are merged to a sequence and indexed by key, for every service name -/
theorem kv_paths (s : String) :
    ruleAt ["services", s, "environment"] = some .toSeq ∧ indexerAt ["services", s, "environment"] = some .keyValue ∧
    ruleAt ["services", s, "labels"] = some .toSeq ∧ indexerAt ["services", s, "labels"] = some .keyValue := by
  refine ⟨?_, ?_, ?_, ?_⟩
  · unfold ruleAt ruleAtIn
    rw [TPath.firstMatch_eq_of_mem mergeSpecials_exclusive (pat := ["services", "*", "environment"]) (h := "mergeToSequence")
      (by decide) (by simp [TPath.pmatch])]; rfl
  · unfold indexerAt indexerAtIn
    rw [TPath.firstMatch_eq_of_mem unique_exclusive (pat := ["services", "*", "environment"]) (h := "keyValueIndexer")
      (by decide) (by simp [TPath.pmatch])]; rfl
  · unfold ruleAt ruleAtIn
    rw [TPath.firstMatch_eq_of_mem mergeSpecials_exclusive (pat := ["services", "*", "labels"]) (h := "mergeToSequence")
      (by decide) (by simp [TPath.pmatch])]; rfl
  · unfold indexerAt indexerAtIn
    rw [TPath.firstMatch_eq_of_mem unique_exclusive (pat := ["services", "*", "labels"]) (h := "keyValueIndexer")
      (by decide) (by simp [TPath.pmatch])]; rfl

/-- ports / volumes / secrets are keyed lists, for every service name -/
theorem keyed_paths (s : String) :
    indexerAt ["services", s, "ports"] = some .port ∧ indexerAt ["services", s, "volumes"] = some .volume ∧
    indexerAt ["services", s, "secrets"] = some (.mount "/run/secrets") ∧ indexerAt ["services", s, "configs"] = some (.mount "") ∧
    indexerAt ["services", s, "devices"] = some .deviceMapping := by
  refine ⟨?_, ?_, ?_, ?_, ?_⟩ <;> unfold indexerAt indexerAtIn
  · rw [TPath.firstMatch_eq_of_mem unique_exclusive (pat := ["services", "*", "ports"]) (h := "portIndexer")
      (by decide) (by simp [TPath.pmatch])]; rfl
  · rw [TPath.firstMatch_eq_of_mem unique_exclusive (pat := ["services", "*", "volumes"]) (h := "volumeIndexer")
      (by decide) (by simp [TPath.pmatch])]; rfl
  · rw [TPath.firstMatch_eq_of_mem unique_exclusive (pat := ["services", "*", "secrets"]) (h := "mountIndexer(\"/run/secrets\")")
      (by decide) (by simp [TPath.pmatch])]; rfl
  · rw [TPath.firstMatch_eq_of_mem unique_exclusive (pat := ["services", "*", "configs"]) (h := "mountIndexer(\"\")")
      (by decide) (by simp [TPath.pmatch])]; rfl
  · rw [TPath.firstMatch_eq_of_mem unique_exclusive (pat := ["services", "*", "devices"]) (h := "deviceMappingIndexer")
      (by decide) (by simp [TPath.pmatch])]; rfl

/-! ## 2. `mergeYaml`: the default rules and the pointwise law of mappings -/

/-- scalars are replaced: at a path without special rule, a non-null override over a scalar base is the result -/
theorem merge_scalar (n : Nat) (e o : Val) (p : TPath) (hp : ruleAt p = none) (ho : o ≠ .null)
    (he : (∀ a, e ≠ .map a) ∧ (∀ a, e ≠ .seq a)) : mergeYaml (n + 1) e o p = .ok o := by
  simp only [mergeYaml, mergeStep, hp, defaultStep]
  cases o <;> first | exact absurd rfl ho | skip
  all_goals (cases e <;> first | rfl | exact absurd rfl (he.1 _) | exact absurd rfl (he.2 _))

example : mergeYaml 1 (.str "nginx") (.str "busybox") ["services", "s", "image"] = .ok (.str "busybox") := by rfl

/-- an attribute the later file sets to null (or leaves empty) keeps the base value -/
theorem merge_null_keeps_base (n : Nat) (e : Val) (p : TPath) (hp : ruleAt p = none) :
    mergeYaml (n + 1) e .null p = .ok e := by
  simp only [mergeYaml, mergeStep, hp, defaultStep]

/-- sequences are appended -/
theorem merge_seq_append (n : Nat) (a b : List Val) (p : TPath) (hp : ruleAt p = none) :
    mergeYaml (n + 1) (.seq a) (.seq b) p = .ok (.seq (a ++ b)) := by
  simp only [mergeYaml, mergeStep, hp, defaultStep]

/-- a mapping merged with a mapping is `mergeMappings` (one fuel level down) -/
theorem merge_map_unfold (n : Nat) (a b : KVs) (p : TPath) (hp : ruleAt p = none) :
    mergeYaml (n + 1) (.map a) (.map b) p = (mergeKVs n a b p).bind fun m => .ok (.map m) := by
  simp only [mergeYaml, mergeStep, hp, defaultStep, mergeKVs]

/-- **mappings merge key by key, recursively**: at every key the merged mapping holds the base value (key only in
the base), the override value (key only in the override, or an `x-` extension), or the recursive merge of the two -/
theorem merge_map_pointwise (n : Nat) (a b m : KVs) (p : TPath) (hb : (keys b).Nodup)
    (h : mergeKVs n a b p = .ok m) (k : String) :
    PointwiseAt (mergeYaml n) p k (lookup k a) (lookup k b) (lookup k m) :=
  mergeKVsWith_pointwise (mergeYaml n) p b a m hb h k

/-- **anything a later file does not mention is preserved unchanged** (frame) -/
theorem merge_absent_preserved (n : Nat) (a b m : KVs) (p : TPath) (hb : (keys b).Nodup)
    (h : mergeKVs n a b p = .ok m) (k : String) (hk : lookup k b = none) : lookup k m = lookup k a := by
  have := merge_map_pointwise n a b m p hb h k
  rw [hk] at this
  exact pointwiseAt_none_right.mp this

/-- a key only the later file has is added with the later file's value -/
theorem merge_new_key_added (n : Nat) (a b m : KVs) (p : TPath) (hb : (keys b).Nodup)
    (h : mergeKVs n a b p = .ok m) (k : String) (y : Val) (hka : lookup k a = none) (hkb : lookup k b = some y) :
    lookup k m = some y := by
  have := merge_map_pointwise n a b m p hb h k
  rw [hka, hkb] at this
  exact this

/-- a key both files have holds the recursive merge of the two values -/
theorem merge_common_key_recursive (n : Nat) (a b m : KVs) (p : TPath) (hb : (keys b).Nodup)
    (h : mergeKVs n a b p = .ok m) (k : String) (x y : Val) (hka : lookup k a = some x) (hkb : lookup k b = some y)
    (hx : hasXPrefix k = false) : ∃ z, mergeYaml n x y (next p k) = .ok z ∧ lookup k m = some z := by
  have := merge_map_pointwise n a b m p hb h k
  rw [hka, hkb] at this
  simpa [PointwiseAt, hx] using this

/-- no keys are invented: a key of the merged mapping comes from one of the two sides -/
theorem merge_no_new_keys (n : Nat) (a b m : KVs) (p : TPath) (hb : (keys b).Nodup)
    (h : mergeKVs n a b p = .ok m) (k : String) (hka : lookup k a = none) (hkb : lookup k b = none) :
    lookup k m = none := by
  have := merge_map_pointwise n a b m p hb h k
  rw [hka, hkb] at this
  exact this

/-- Go ranges over the override mapping in random order: every order that succeeds yields the same mapping -/
theorem merge_map_order_independent (n : Nat) (a b b' m m' : KVs) (p : TPath) (hb : (keys b).Nodup) (hp : b'.Perm b)
    (h : mergeKVs n a b p = .ok m) (h' : mergeKVs n a b' p = .ok m') (k : String) : lookup k m' = lookup k m := by
  have hb' : (keys b').Nodup := (hp.map Prod.fst).nodup_iff.mpr hb
  have h1 := merge_map_pointwise n a b m p hb h k
  have h2 := merge_map_pointwise n a b' m' p hb' h' k
  rw [lookup_perm hb hp k] at h2
  exact pointwiseAt_unique h2 h1

example : mergeKVs 3 [("image", .str "a"), ("deploy", .map [("replicas", .int 1)])]
    [("deploy", .map [("mode", .str "global")]), ("hostname", .str "h")] ["services", "s"]
    = .ok [("image", .str "a"), ("deploy", .map [("replicas", .int 1), ("mode", .str "global")]), ("hostname", .str "h")] := by rfl

/-- the merged mapping keeps distinct keys -/
theorem merge_map_keys_nodup (f : Val → Val → TPath → Out Val) (p : TPath) :
    ∀ (b a m : KVs), (keys a).Nodup → mergeKVsWith f a b p = .ok m → (keys m).Nodup := by
  intro b
  induction b with
  | nil => intro a m ha h; simp only [mergeKVsWith, Out.ok.injEq] at h; subst h; exact ha
  | cons hd tl ih =>
    obtain ⟨k, v⟩ := hd
    intro a m ha h
    simp only [mergeKVsWith] at h
    cases hl : lookup k a with
    | none => rw [hl] at h; exact ih _ _ (nodup_keys_insert ha) h
    | some e =>
      rw [hl] at h
      by_cases hx : hasXPrefix k = true
      · simp only [hx, if_true] at h; exact ih _ _ (nodup_keys_insert ha) h
      · simp only [hx, Bool.false_eq_true, if_false] at h
        cases hf : f e v (next p k) with
        | ok z => simp only [hf, Out.bind] at h; exact ih _ _ (nodup_keys_insert ha) h
        | err e' => simp [hf, Out.bind] at h
        | panic s => simp [hf, Out.bind] at h

/-! ## 3. Special rules named by the property -/

/-- command / entrypoint / healthcheck.test: **replaced wholesale**, whatever the two values are -/
theorem wholesale_replace (n : Nat) (e o : Val) (p : TPath) (hp : ruleAt p = some .override) :
    mergeYaml (n + 1) e o p = .ok o := by
  simp only [mergeYaml, mergeStep, hp, specialStep]

theorem command_replaced (n : Nat) (e o : Val) (s : String) :
    mergeYaml (n + 1) e o ["services", s, "command"] = .ok o :=
  wholesale_replace n e o _ (wholesale_paths s).1

/-- KEY=VALUE style attributes: both sides are first converted to sequences (a mapping becomes its sorted
`KEY=VALUE` strings, a string a one-element list) and appended, **whichever spelling either side uses** -/
theorem toSeq_append (n : Nat) (e o : Val) (p : TPath) (hp : ruleAt p = some .toSeq) :
    mergeYaml (n + 1) e o p = .ok (.seq (seqOf e ++ seqOf o)) := by
  simp only [mergeYaml, mergeStep, hp, specialStep]

example : mergeYaml 1 (.map [("B", .int 2), ("A", .null)]) (.seq [.str "B=3"]) ["services", "s", "environment"]
    = .ok (.seq [.str "A", .str "B=2", .str "B=3"]) := by rfl

/-! ## 3b. The structured mergers: depends_on, networks, build, logging, extra_hosts, ipam pools -/

theorem listIntoMap_names (dflt : Val) : ∀ (names : List String) (acc : KVs),
    listIntoMap dflt (names.map Val.str) acc = .ok (names.foldl (fun m s => Val.insert s dflt m) acc) := by
  intro names
  induction names with
  | nil => intro acc; rfl
  | cons s r ih => intro acc; simp only [List.map_cons, listIntoMap, List.foldl_cons, ih]

theorem lookup_foldl_insert (dflt : Val) (k : String) : ∀ (names : List String) (acc : KVs),
    lookup k (names.foldl (fun m s => Val.insert s dflt m) acc) = if k ∈ names then some dflt else lookup k acc := by
  intro names
  induction names with
  | nil => intro acc; simp
  | cons s r ih =>
    intro acc
    simp only [List.foldl_cons, ih, List.mem_cons]
    by_cases hr : k ∈ r
    · simp [hr]
    · by_cases hs : k = s
      · subst hs; simp [hr, lookup_insert_self]
      · simp [hr, hs, lookup_insert_ne hs]

/-- **the list spelling of depends_on / networks is the mapping spelling with the default value**: `[a, b]` converts to
the mapping that holds the default (`{condition: service_started, required: true}`, resp. null) at exactly `a` and `b` -/
theorem list_spelling_is_default_mapping (dflt : Val) (names : List String) :
    ∃ m, intoMap dflt (.seq (names.map Val.str)) = .ok m ∧ ∀ k, lookup k m = if k ∈ names then some dflt else none := by
  refine ⟨names.foldl (fun m s => Val.insert s dflt m) [], ?_, ?_⟩
  · simp only [intoMap, listIntoMap_names]
  · intro k; rw [lookup_foldl_insert]; simp [lookup]

/-- depends_on / networks / build: both sides are converted to mappings, then merged like mappings -/
theorem converted_merge (n : Nat) (e o : Val) (p : TPath) (r : Rule) (conv : Val → Out KVs) (a b : KVs)
    (hp : ruleAt p = some r)
    (hr : (r = .dependsOn ∧ conv = intoMap dependsOnDefault) ∨ (r = .networks ∧ conv = intoMap .null) ∨ (r = .build ∧ conv = toBuild))
    (ha : conv e = .ok a) (hb : conv o = .ok b) :
    mergeYaml (n + 1) e o p = (mergeKVs n a b p).bind fun m => .ok (.map m) := by
  rcases hr with ⟨rfl, rfl⟩ | ⟨rfl, rfl⟩ | ⟨rfl, rfl⟩ <;>
    simp only [mergeYaml, mergeStep, hp, specialStep, convMerge, ha, hb, Out.bind, mergeKVs]

/-- … hence **depends_on merges per dependency, per field, whichever spelling either side uses** (pointwise law on the
converted mappings; a dependency only the base has is preserved, one only the override has is added) -/
theorem dependsOn_pointwise (n : Nat) (e o : Val) (p : TPath) (a b m : KVs) (hp : ruleAt p = some .dependsOn)
    (ha : intoMap dependsOnDefault e = .ok a) (hb : intoMap dependsOnDefault o = .ok b) (hnd : (keys b).Nodup)
    (h : mergeYaml (n + 1) e o p = .ok (.map m)) (k : String) :
    PointwiseAt (mergeYaml n) p k (lookup k a) (lookup k b) (lookup k m) := by
  rw [converted_merge n e o p .dependsOn _ a b hp (.inl ⟨rfl, rfl⟩) ha hb] at h
  cases hm : mergeKVs n a b p with
  | ok m' =>
    simp only [hm, Out.bind, Out.ok.injEq, Val.map.injEq] at h
    subst h; exact merge_map_pointwise n a b m' p hnd hm k
  | err e' => simp [hm, Out.bind] at h
  | panic s => simp [hm, Out.bind] at h

theorem serviceNetworks_pointwise (n : Nat) (e o : Val) (p : TPath) (a b m : KVs) (hp : ruleAt p = some .networks)
    (ha : intoMap .null e = .ok a) (hb : intoMap .null o = .ok b) (hnd : (keys b).Nodup)
    (h : mergeYaml (n + 1) e o p = .ok (.map m)) (k : String) :
    PointwiseAt (mergeYaml n) p k (lookup k a) (lookup k b) (lookup k m) := by
  rw [converted_merge n e o p .networks _ a b hp (.inr (.inl ⟨rfl, rfl⟩)) ha hb] at h
  cases hm : mergeKVs n a b p with
  | ok m' =>
    simp only [hm, Out.bind, Out.ok.injEq, Val.map.injEq] at h
    subst h; exact merge_map_pointwise n a b m' p hnd hm k
  | err e' => simp [hm, Out.bind] at h
  | panic s => simp [hm, Out.bind] at h

/-- **build: a string is the context of a mapping**, then the two mappings merge key by key -/
theorem build_pointwise (n : Nat) (e o : Val) (p : TPath) (a b m : KVs) (hp : ruleAt p = some .build)
    (ha : toBuild e = .ok a) (hb : toBuild o = .ok b) (hnd : (keys b).Nodup)
    (h : mergeYaml (n + 1) e o p = .ok (.map m)) (k : String) :
    PointwiseAt (mergeYaml n) p k (lookup k a) (lookup k b) (lookup k m) := by
  rw [converted_merge n e o p .build _ a b hp (.inr (.inr ⟨rfl, rfl⟩)) ha hb] at h
  cases hm : mergeKVs n a b p with
  | ok m' =>
    simp only [hm, Out.bind, Out.ok.injEq, Val.map.injEq] at h
    subst h; exact merge_map_pointwise n a b m' p hnd hm k
  | err e' => simp [hm, Out.bind] at h
  | panic s => simp [hm, Out.bind] at h

theorem build_string_is_context (s : String) : toBuild (.str s) = .ok [("context", .str s)] := rfl

example : mergeYaml 2 (.str "./dir") (.map [("dockerfile", .str "D")]) ["services", "s", "build"]
    = .ok (.map [("context", .str "./dir"), ("dockerfile", .str "D")]) := by rfl

example : mergeYaml 3 (.seq [.str "db"]) (.map [("db", .map [("condition", .str "service_healthy")]), ("mq", .map [("condition", .str "service_started")])])
      ["services", "s", "depends_on"]
    = .ok (.map [("db", .map [("condition", .str "service_healthy"), ("required", .bool true)]), ("mq", .map [("condition", .str "service_started")])]) := by rfl

/-- logging: with the same driver on both sides (or a side that names none) the two sections merge key by key … -/
theorem logging_same_driver_merges (n : Nat) (config other : KVs) (p : TPath) (hp : ruleAt p = some .logging)
    (h : sameScalar ((lookup "driver" other).getD .null) ((lookup "driver" config).getD .null) = true ∨
         lookup "driver" other = none ∨ lookup "driver" config = none) :
    mergeYaml (n + 1) (.map config) (.map other) p = (mergeKVs n config other p).bind fun m => .ok (.map m) := by
  simp only [mergeYaml, mergeStep, hp, specialStep, loggingStep, mergeKVs]
  rcases h with h | h | h <;> simp [h]

/-- … and an override that names another driver replaces the section -/
theorem logging_other_driver_replaces (n : Nat) (config other : KVs) (p : TPath) (d c : Val) (hp : ruleAt p = some .logging)
    (hd : lookup "driver" other = some d) (hc : lookup "driver" config = some c) (hne : sameScalar d c = false) :
    mergeYaml (n + 1) (.map config) (.map other) p = .ok (.map other) := by
  simp [mergeYaml, mergeStep, hp, specialStep, loggingStep, hd, hc, hne]

/-- a malformed logging section is an error, never a panic (before the round-2 repair: `panic@override.mergeLogging`) -/
theorem logging_wrong_kind_is_error (n : Nat) (e o : Val) (p : TPath) (hp : ruleAt p = some .logging)
    (he : e ≠ .null) (ho : o ≠ .null) (h : (∀ a, e ≠ .map a) ∨ (∀ b, o ≠ .map b)) :
    mergeYaml (n + 1) e o p = .err "cannotOverride" := by
  simp only [mergeYaml, mergeStep, hp, specialStep, loggingStep]
  rcases h with h | h
  · cases e <;> first | exact absurd rfl he | exact absurd rfl (h _) | skip
    all_goals (cases o <;> first | exact absurd rfl ho | rfl)
  · cases o <;> first | exact absurd rfl ho | exact absurd rfl (h _) | skip
    all_goals (cases e <;> first | exact absurd rfl he | rfl)

theorem keepNew_mem (right : List Val) (v : Val) : ∀ l : List Val,
    v ∈ keepNew right l ↔ v ∈ l ∧ right.any (fun x => sameScalar x v) = false := by
  intro l
  induction l with
  | nil => simp [keepNew]
  | cons w r ih =>
    simp only [keepNew]
    by_cases hw : right.any (fun x => sameScalar x w) = true
    · simp only [hw, if_true, ih, List.mem_cons]
      constructor
      · rintro ⟨h1, h2⟩; exact ⟨.inr h1, h2⟩
      · rintro ⟨h1 | h1, h2⟩
        · subst h1; rw [hw] at h2; cases h2
        · exact ⟨h1, h2⟩
    · simp only [hw, Bool.false_eq_true, if_false, List.mem_cons, ih]
      constructor
      · rintro (h1 | ⟨h1, h2⟩)
        · subst h1; exact ⟨.inl rfl, by simpa using hw⟩
        · exact ⟨.inr h1, h2⟩
      · rintro ⟨h1 | h1, h2⟩
        · exact .inl h1
        · exact .inr ⟨h1, h2⟩

/-- **extra_hosts: the override's entries that the base does not already have are appended** — the base entries
stay in front unchanged, nothing is invented, nothing the base has is repeated -/
theorem extraHosts_appends_new (n : Nat) (e o : Val) (p : TPath) (hp : ruleAt p = some .extraHosts) :
    mergeYaml (n + 1) e o p = .ok (.seq (seqOf e ++ keepNew (seqOf e) (seqOf o))) ∧
    ∀ v, v ∈ keepNew (seqOf e) (seqOf o) ↔ v ∈ seqOf o ∧ (seqOf e).any (fun x => sameScalar x v) = false := by
  refine ⟨by simp only [mergeYaml, mergeStep, hp, specialStep], fun v => keepNew_mem _ v _⟩

example : mergeYaml 1 (.map [("h1", .str "10.0.0.1")]) (.seq [.str "h1=10.0.0.1", .str "h2=10.0.0.2"]) ["services", "s", "extra_hosts"]
    = .ok (.seq [.str "h1=10.0.0.1", .str "h2=10.0.0.2"]) := by rfl

theorem length_listSet {α : Type} : ∀ (l : List α) (i : Nat) (x : α), (listSet l i x).length = l.length
  | [], _, _ => rfl
  | _ :: _, 0, _ => rfl
  | _ :: r, i + 1, x => by simp [listSet, length_listSet r i x]

theorem getElem?_listSet_ne {α : Type} : ∀ (l : List α) (i j : Nat) (x : α), i ≠ j → (listSet l i x)[j]? = l[j]?
  | [], _, _, _, _ => rfl
  | _ :: _, 0, 0, _, h => absurd rfl h
  | _ :: _, 0, j + 1, _, _ => by simp [listSet]
  | _ :: _, i + 1, 0, _, _ => by simp [listSet]
  | _ :: r, i + 1, j + 1, x, h => by
    simp only [listSet, List.getElem?_cons_succ]
    exact getElem?_listSet_ne r i j x (fun h' => h (by rw [h']))

theorem ipamIndex_spec (s : Val) : ∀ (l : List KVs) (k i : Nat), ipamIndex s l k = some i →
    ∃ m, l[i - k]? = some m ∧ k ≤ i ∧ sameScalar (subnetOf m) s = true := by
  intro l
  induction l with
  | nil => intro k i h; simp [ipamIndex] at h
  | cons m r ih =>
    intro k i h
    simp only [ipamIndex] at h
    by_cases hs : sameScalar (subnetOf m) s = true
    · simp only [hs, if_true, Option.some.injEq] at h
      subst h; exact ⟨m, by simp, Nat.le_refl _, hs⟩
    · simp only [hs, Bool.false_eq_true, if_false] at h
      obtain ⟨m', h1, h2, h3⟩ := ih (k + 1) i h
      refine ⟨m', ?_, by omega, h3⟩
      have : i - k = (i - (k + 1)) + 1 := by omega
      rw [this, List.getElem?_cons_succ]; exact h1

/-- **ipam pools are never dropped**: the merged config has at least the base's pools … -/
theorem ipam_no_pool_dropped (mk : KVs → KVs → TPath → Out KVs) (p : TPath) : ∀ (lefts cfgs r : List KVs),
    ipamFold mk cfgs lefts p = .ok r → cfgs.length ≤ r.length := by
  intro lefts
  induction lefts with
  | nil => intro cfgs r h; simp only [ipamFold, Out.ok.injEq] at h; subst h; exact Nat.le_refl _
  | cons left rest ih =>
    intro cfgs r h
    simp only [ipamFold] at h
    cases hi : ipamIndex (subnetOf left) cfgs 0 with
    | none =>
      simp only [hi] at h
      have := ih _ _ h
      simp only [List.length_append, List.length_singleton] at this; omega
    | some i =>
      simp only [hi] at h
      cases hm : mk (cfgs[i]?.getD []) left p with
      | ok m =>
        simp only [hm, Out.bind] at h
        have := ih _ _ h
        rw [length_listSet] at this; exact this
      | err e => simp [hm, Out.bind] at h
      | panic s => simp [hm, Out.bind] at h

/-- … and **a pool whose subnet the override does not mention is preserved unchanged, at its position**
(before the round-2 rewrite of `mergeIPAMConfig`: base `[A]` + override `[B]` = `[B]`, see `Neg/C04.lean`) -/
theorem ipam_unmentioned_pool_preserved (mk : KVs → KVs → TPath → Out KVs) (p : TPath) (i : Nat) (c : KVs) :
    ∀ (lefts cfgs r : List KVs), cfgs[i]? = some c →
      (∀ l ∈ lefts, sameScalar (subnetOf c) (subnetOf l) = false) →
      ipamFold mk cfgs lefts p = .ok r → r[i]? = some c := by
  intro lefts
  induction lefts with
  | nil => intro cfgs r hc _ h; simp only [ipamFold, Out.ok.injEq] at h; subst h; exact hc
  | cons left rest ih =>
    intro cfgs r hc hno h
    have hrest : ∀ l ∈ rest, sameScalar (subnetOf c) (subnetOf l) = false := fun l hl => hno l (by simp [hl])
    simp only [ipamFold] at h
    cases hi : ipamIndex (subnetOf left) cfgs 0 with
    | none =>
      simp only [hi] at h
      refine ih _ _ ?_ hrest h
      rw [List.getElem?_append_left]
      · exact hc
      · exact (List.getElem?_eq_some_iff.mp hc).1
    | some j =>
      simp only [hi] at h
      cases hm : mk (cfgs[j]?.getD []) left p with
      | ok m =>
        simp only [hm, Out.bind] at h
        refine ih _ _ ?_ hrest h
        have hji : j ≠ i := by
          intro hji; subst hji
          obtain ⟨m', h1, _, h3⟩ := ipamIndex_spec _ _ _ _ hi
          simp only [Nat.sub_zero] at h1
          rw [hc] at h1; cases h1
          rw [hno left (by simp)] at h3; cases h3
        rw [getElem?_listSet_ne _ _ _ _ hji]; exact hc
      | err e => simp [hm, Out.bind] at h
      | panic s => simp [hm, Out.bind] at h

/-- a pool with a new subnet is appended -/
theorem ipam_new_pool_appended (mk : KVs → KVs → TPath → Out KVs) (p : TPath) (cfgs : List KVs) (left : KVs)
    (h : ipamIndex (subnetOf left) cfgs 0 = none) : ipamFold mk cfgs [left] p = .ok (cfgs ++ [left]) := by
  simp [ipamFold, h]

/-- a pool with the subnet of an existing pool is merged into that pool, in place -/
theorem ipam_same_subnet_merged (mk : KVs → KVs → TPath → Out KVs) (p : TPath) (cfgs : List KVs) (left m : KVs) (i : Nat)
    (h : ipamIndex (subnetOf left) cfgs 0 = some i) (hm : mk (cfgs[i]?.getD []) left p = .ok m) :
    ipamFold mk cfgs [left] p = .ok (listSet cfgs i m) := by
  simp [ipamFold, h, hm, Out.bind]

/-! ## 3c. Totality: enough fuel, and no panic site left in `override/merge.go` -/

/-- **fuel sufficiency**: `mergeYaml n e o p` never runs out of fuel once `n ≥ depth o + 2`, for every base, override and
path (uses the table fact `conv_rules_at_length_three`: the converting mergers sit at patterns of length three) -/
theorem mergeYaml_fuel_sufficient (n : Nat) (e o : Val) (p : TPath) (h : depth o + 2 ≤ n) (s : String) :
    mergeYaml n e o p ≠ .panic s :=
  mergeYaml_never_panics n e o p (by have := cst_le_two p; omega) s

/-- **`override.Merge` never panics** (the model has no panic outcome but the fuel, and the fuel `fuelFor` is enough).
Before the round-2 repairs this was false: `panic@override.mergeLogging`, `…mergeIPAMConfig`, `…convertIntoMapping`,
`…mergeMappings`, `…mergeExtraHosts` (C01's findings; pre-fix witness `Neg.PreFix.ipam_panicked`). -/
theorem merge_never_panics (base over : Val) (s : String) : merge base over ≠ .panic s := by
  unfold merge
  cases base <;> cases over <;> first | (simp; done) | skip
  exact mergeYaml_fuel_sufficient _ _ _ _ (by unfold fuelFor; omega) s

theorem extendService_never_panics (base over : Val) (s : String) : extendService base over ≠ .panic s := by
  unfold extendService
  cases base <;> cases over <;> first | (simp; done) | skip
  exact mergeYaml_fuel_sufficient _ _ _ _ (by unfold fuelFor; omega) s

/-- more fuel never changes a successful result's existence: any fuel above the bound avoids the fuel panic, so the
choice of `fuelFor` is immaterial -/
theorem fuelFor_enough (over : Val) : depth over + 2 ≤ fuelFor over := by unfold fuelFor; omega

/-- **fuel monotonicity**: more fuel never changes a successful (or erroneous) result -/
theorem mergeYaml_fuel_monotone (n k : Nat) (e o : Val) (p : TPath) (r : Out Val) (h : mergeYaml n e o p = r)
    (hr : ∀ s, r ≠ .panic s) : mergeYaml (n + k) e o p = r :=
  mergeYaml_le_agree n k e o p r h hr

/-- **the fuel is irrelevant above the bound**: every fuel `≥ depth o + 2` computes the same result, so the value chosen
by `fuelFor` (and the fuel parameter of every theorem above) does not matter -/
theorem mergeYaml_fuel_irrelevant (n n' : Nat) (e o : Val) (p : TPath) (h : depth o + 2 ≤ n) (h' : n ≤ n') :
    mergeYaml n' e o p = mergeYaml n e o p := by
  obtain ⟨k, rfl⟩ : ∃ k, n' = n + k := ⟨n' - n, by omega⟩
  exact mergeYaml_fuel_monotone n k e o p _ rfl (mergeYaml_fuel_sufficient n e o p h)

/-- the unicity indexers never panic either (since the repairs of `mountIndexer` / `envFileIndexer`) -/
theorem index_never_panics (ix : Indexer) (v : Val) (s : String) : index ix v ≠ .panic s := by
  cases ix <;> cases v <;> simp only [index] <;> (try split) <;> (try split) <;> simp

theorem indexAll_never_panics (ix : Indexer) : ∀ (xs : List Val) (s : String), indexAll ix xs ≠ .panic s := by
  intro xs
  induction xs with
  | nil => intro s h; simp [indexAll] at h
  | cons x r ih =>
    intro s
    simp only [indexAll]
    exact bind_ne_panic (index_never_panics ix x) (fun k => bind_ne_panic ih (fun ks s h => by simp at h)) s

mutual
/-- **`override.EnforceUnicity` never panics**, on any tree -/
theorem enforce_never_panics : ∀ (v : Val) (p : TPath) (s : String), enforce v p ≠ .panic s
  | .map kvs, p, s => by
    simp only [enforce]
    exact bind_ne_panic (enforceKVs_never_panics kvs p) (fun m s h => by simp at h) s
  | .seq xs, p, s => by
    simp only [enforce]
    cases indexerAt p with
    | none => simp
    | some ix => exact bind_ne_panic (indexAll_never_panics ix xs) (fun ks s h => by simp at h) s
  | .null, _, _ => by simp [enforce]
  | .bool _, _, _ => by simp [enforce]
  | .int _, _, _ => by simp [enforce]
  | .float _, _, _ => by simp [enforce]
  | .str _, _, _ => by simp [enforce]
theorem enforceKVs_never_panics : ∀ (kvs : KVs) (p : TPath) (s : String), enforceKVs kvs p ≠ .panic s
  | [], _, _ => by simp [enforceKVs]
  | (k, e) :: r, p, s => by
    simp only [enforceKVs]
    exact bind_ne_panic (enforce_never_panics e (next p k))
      (fun u => bind_ne_panic (enforceKVs_never_panics r p) (fun r' s h => by simp at h)) s
end

theorem enforceTop_never_panics (v : Val) (s : String) : enforceTop v ≠ .panic s := by
  unfold enforceTop
  cases v <;> first | (simp; done) | exact enforce_never_panics _ _ s

/-! ## 4. `enforceUnicity`: one entry per key, the later one wins, the first position is kept -/

/-- after unicity no two entries share a key -/
theorem unicity_nodup_keys (l : List (String × Val)) : (keys (dedupKVs l)).Nodup :=
  nodup_foldl_step l [] (by simp [keys])

/-- **the later entry wins**: the entry kept for a key is the last one carrying that key -/
theorem unicity_last_wins (l : List (String × Val)) (k : String) : lookup k (dedupKVs l) = lastVal k l := by
  rw [dedupKVs_eq, lookup_foldl_step]
  cases lastVal k l <;> simp [lookup]

/-- **first position kept**: scanning the entries, a key takes its place the first time it is seen -/
theorem unicity_keeps_first_position (l : List (String × Val)) :
    keys (dedupKVs l) = (l.map Prod.fst).foldl addKey [] := by
  rw [dedupKVs_eq, keys_foldl_step]; rfl

/-- exactly the keys that occur survive -/
theorem unicity_keeps_every_key (l : List (String × Val)) (k : String) :
    k ∈ keys (dedupKVs l) ↔ k ∈ l.map Prod.fst := by
  rw [← lookup_isSome_iff, unicity_last_wins]
  have := @lastVal_eq_none_iff k l
  cases h : lastVal k l with
  | none => simp [this.mp h]
  | some w =>
    simp only [Option.isSome_some, true_iff]
    apply Classical.byContradiction
    intro hn; rw [this.mpr hn] at h; cases h

/-- unicity is idempotent (the loader applies it after the merge and again after canonicalisation) -/
theorem unicity_idem (l : List (String × Val)) : dedupKVs (dedupKVs l) = dedupKVs l := by
  have h := unicity_nodup_keys l
  rw [dedupKVs_eq (dedupKVs l), foldl_step_of_nodup _ [] (by simpa using h)]
  rfl

/-- a list without repeated keys is left alone -/
theorem unicity_noop_of_nodup (l : List (String × Val)) (h : (keys l).Nodup) : dedupKVs l = l := by
  rw [dedupKVs_eq, foldl_step_of_nodup _ [] (by simpa using h)]; rfl

theorem indexAll_length (ix : Indexer) : ∀ (xs : List Val) (ks : List String), indexAll ix xs = .ok ks → ks.length = xs.length := by
  intro xs
  induction xs with
  | nil => intro ks h; simp only [indexAll, Out.ok.injEq] at h; subst h; rfl
  | cons x r ih =>
    intro ks h
    simp only [indexAll] at h
    cases hx : index ix x with
    | ok k =>
      simp only [hx, Out.bind] at h
      cases hr : indexAll ix r with
      | ok ks' =>
        simp only [hr, Out.ok.injEq] at h
        subst h; simp [ih _ hr]
      | err e => simp [hr] at h
      | panic s => simp [hr] at h
    | err e => simp [hx, Out.bind] at h
    | panic s => simp [hx, Out.bind] at h

theorem indexAll_append (ix : Indexer) : ∀ (xs ys : List Val) (ka kb : List String),
    indexAll ix xs = .ok ka → indexAll ix ys = .ok kb → indexAll ix (xs ++ ys) = .ok (ka ++ kb) := by
  intro xs
  induction xs with
  | nil => intro ys ka kb ha hb; simp only [indexAll, Out.ok.injEq] at ha; subst ha; simpa using hb
  | cons x r ih =>
    intro ys ka kb ha hb
    simp only [indexAll] at ha
    cases hx : index ix x with
    | ok k =>
      simp only [hx, Out.bind] at ha
      cases hr : indexAll ix r with
      | ok ks' =>
        simp only [hr, Out.ok.injEq] at ha
        subst ha
        simp only [List.cons_append, indexAll, hx, Out.bind, ih _ _ _ hr hb]
      | err e => simp [hr] at ha
      | panic s => simp [hr] at ha
    | err e => simp [hx, Out.bind] at ha
    | panic s => simp [hx, Out.bind] at ha

/-- at a path with an indexer, `enforceUnicity` of a sequence is exactly the de-duplication by index key -/
theorem enforce_indexed_seq (p : TPath) (ix : Indexer) (xs : List Val) (ks : List String)
    (hp : indexerAt p = some ix) (hk : indexAll ix xs = .ok ks) : enforce (.seq xs) p = .ok (.seq (dedup ks xs)) := by
  simp only [enforce, hp, hk, Out.bind]

/-- … and everywhere else sequences are left alone -/
theorem enforce_plain_seq (p : TPath) (xs : List Val) (hp : indexerAt p = none) : enforce (.seq xs) p = .ok (.seq xs) := by
  simp only [enforce, hp]

/-- **keyed lists keep a single entry per key with the later file winning** — base entries `xa` (keys `ka`) followed
by override entries `xb` (keys `kb`): the entry kept for `k` is the override's last one if it has any, else the base's -/
theorem keyed_later_wins (ka kb : List String) (xa xb : List Val) (hla : ka.length = xa.length) (k : String) :
    lookup k (dedupKVs ((ka ++ kb).zip (xa ++ xb))) =
      match lastVal k (kb.zip xb) with
      | some w => some w
      | none => lastVal k (ka.zip xa) := by
  rw [unicity_last_wins, List.zip_append hla, lastVal_append]
  cases lastVal k (kb.zip xb) <;> rfl

/-- **KEY=VALUE attributes merge by key whichever spelling either side uses**: merge-to-sequence followed by
unicity keeps, for every key, the later file's entry if it mentions the key and the earlier file's otherwise -/
theorem kv_later_wins (n : Nat) (e o : Val) (p : TPath) (ix : Indexer) (ka kb : List String)
    (hr : ruleAt p = some .toSeq) (hi : indexerAt p = some ix)
    (ha : indexAll ix (seqOf e) = .ok ka) (hb : indexAll ix (seqOf o) = .ok kb) :
    ∃ r : KVs, (mergeYaml (n + 1) e o p).bind (fun m => enforce m p) = .ok (.seq (r.map Prod.snd)) ∧ (keys r).Nodup ∧
      ∀ k, lookup k r = match lastVal k (kb.zip (seqOf o)) with
                        | some w => some w
                        | none => lastVal k (ka.zip (seqOf e)) := by
  refine ⟨dedupKVs ((ka ++ kb).zip (seqOf e ++ seqOf o)), ?_, unicity_nodup_keys _, ?_⟩
  · rw [toSeq_append n e o p hr]
    simp only [Out.bind]
    rw [enforce_indexed_seq p ix _ _ hi (indexAll_append ix _ _ _ _ ha hb)]
    rfl
  · intro k
    exact keyed_later_wins ka kb _ _ (indexAll_length ix _ _ ha) k

example : (mergeYaml 1 (.map [("B", .int 2), ("A", .null)]) (.seq [.str "B=3", .str "C"]) ["services", "s", "environment"]).bind
    (fun m => enforce m ["services", "s", "environment"]) = .ok (.seq [.str "A", .str "B=3", .str "C"]) := by rfl

/-- the same for the lists that are appended by the default rule (ports, volumes, secrets, configs, devices, cap_add, …) -/
theorem keyed_list_later_wins (n : Nat) (xa xb : List Val) (p : TPath) (ix : Indexer) (ka kb : List String)
    (hr : ruleAt p = none) (hi : indexerAt p = some ix)
    (ha : indexAll ix xa = .ok ka) (hb : indexAll ix xb = .ok kb) :
    ∃ r : KVs, (mergeYaml (n + 1) (.seq xa) (.seq xb) p).bind (fun m => enforce m p) = .ok (.seq (r.map Prod.snd)) ∧
      (keys r).Nodup ∧
      ∀ k, lookup k r = match lastVal k (kb.zip xb) with
                        | some w => some w
                        | none => lastVal k (ka.zip xa) := by
  refine ⟨dedupKVs ((ka ++ kb).zip (xa ++ xb)), ?_, unicity_nodup_keys _, ?_⟩
  · rw [merge_seq_append n xa xb p hr]
    simp only [Out.bind]
    rw [enforce_indexed_seq p ix _ _ hi (indexAll_append ix _ _ _ _ ha hb)]
    rfl
  · intro k
    exact keyed_later_wins ka kb _ _ (indexAll_length ix _ _ ha) k

example : (mergeYaml 1 (.seq [.str "vol:/data", .str "/cache"]) (.seq [.str "./src:/data:ro"]) ["services", "s", "volumes"]).bind
    (fun m => enforce m ["services", "s", "volumes"]) = .ok (.seq [.str "./src:/data:ro", .str "/cache"]) := by rfl

/-- the `KEY=VALUE` strings a mapping entry `k: v` is converted to all carry the key `k` (for a key without `=`) -/
theorem entryStrs_key (k : String) (v : Val) (hk : ∀ c ∈ k.toList, c ≠ '=') : ∀ s ∈ entryStrs k v, kvKey s = k := by
  intro s hs
  cases v with
  | null => simp only [entryStrs, List.mem_singleton] at hs; rw [hs]; exact kvKey_bare k hk
  | seq xs =>
    simp only [entryStrs, List.mem_map] at hs
    obtain ⟨x, _, rfl⟩ := hs
    exact kvKey_entry k _ hk
  | bool b => simp only [entryStrs, List.mem_singleton] at hs; rw [hs]; exact kvKey_entry k _ hk
  | int i => simp only [entryStrs, List.mem_singleton] at hs; rw [hs]; exact kvKey_entry k _ hk
  | float f => simp only [entryStrs, List.mem_singleton] at hs; rw [hs]; exact kvKey_entry k _ hk
  | str t => simp only [entryStrs, List.mem_singleton] at hs; rw [hs]; exact kvKey_entry k _ hk
  | map m => simp only [entryStrs, List.mem_singleton] at hs; rw [hs]; exact kvKey_entry k _ hk

/-- every string of the converted mapping carries one of the mapping's keys: **the mapping spelling `K: V` is indexed
under `K`, exactly like the list spelling `K=V`** -/
theorem mapStrs_keys : ∀ (m : KVs), (∀ k ∈ keys m, ∀ c ∈ k.toList, c ≠ '=') → ∀ s ∈ mapStrs m, kvKey s ∈ keys m := by
  intro m
  induction m with
  | nil => intro _ s hs; simp [mapStrs] at hs
  | cons hd tl ih =>
    obtain ⟨k, v⟩ := hd
    intro hk s hs
    simp only [mapStrs, List.mem_append] at hs
    simp only [keys, List.map_cons, List.mem_cons]
    rcases hs with hs | hs
    · exact .inl (entryStrs_key k v (hk k (by simp [keys])) s hs)
    · exact .inr (ih (fun k' hk' => hk k' (by simp only [keys, List.map_cons, List.mem_cons]; exact .inr hk')) s hs)

/-- a sequence of strings is always indexable by key (so `kv_later_wins` applies to every list / mapping of scalars) -/
theorem indexAll_keyValue_strs : ∀ l : List String, indexAll .keyValue (l.map Val.str) = .ok (l.map kvKey) := by
  intro l
  induction l with
  | nil => rfl
  | cons s r ih => simp only [List.map_cons, indexAll, index, Out.bind, ih]

theorem indexAll_keyValue_mapping (m : KVs) :
    indexAll .keyValue (seqOf (.map m)) = .ok ((sortStrs (mapStrs m)).map kvKey) := by
  simp only [seqOf, intoSeq, Option.getD_some]
  exact indexAll_keyValue_strs _

/-- **the mapping spelling is indexed like the list spelling** (through the sort of `convertIntoSequence`): in the
sequence made of a mapping with distinct `=`-free keys and non-sequence values, the entry found under index key `k` is
`k=V` (or `k` for a null value) for the mapping's own value at `k`; together with `kv_later_wins` this is "KEY=VALUE
attributes merge by key whichever spelling either side uses" down to the individual entry -/
theorem kv_mapping_spelling (m : KVs) (hnd : (keys m).Nodup) (hk : ∀ k ∈ keys m, ∀ c ∈ k.toList, c ≠ '=')
    (hv : ∀ kv ∈ m, ∀ xs, kv.2 ≠ .seq xs) (k : String) :
    lastVal k (((sortStrs (mapStrs m)).map kvKey).zip (seqOf (.map m))) = (lookup k m).map fun v => Val.str (entryStr k v) :=
  mapping_spelling_lookup m hnd hk hv k

example : lastVal "B" (((sortStrs (mapStrs [("B", .int 2), ("A", .null)])).map kvKey).zip (seqOf (.map [("B", .int 2), ("A", .null)])))
    = some (.str "B=2") := by rfl

/-! ## 5. Files and `---` documents are folded the same way -/

theorem bind_assoc' {α β γ : Type} (x : Out α) (f : α → Out β) (g : β → Out γ) :
    (x.bind f).bind g = x.bind fun a => (f a).bind g := by
  cases x <;> rfl

theorem loadDocs_append (post : Val → Out Val) : ∀ (ds ds' : List YNode) (dict : Val),
    loadDocs post dict (ds ++ ds') = (loadDocs post dict ds).bind fun d => loadDocs post d ds' := by
  intro ds
  induction ds with
  | nil => intro ds' dict; rfl
  | cons d r ih =>
    intro ds' dict
    simp only [List.cons_append, loadDocs, bind_assoc', ih]

/-- loading the files `fs` and then `f` = applying `f` onto the result of loading `fs` -/
theorem fold_files (post : Val → Out Val) : ∀ (fs : List (List YNode)) (f : List YNode) (dict : Val),
    loadFiles post dict (fs ++ [f]) = (loadFiles post dict fs).bind fun d => loadDocs post d f := by
  intro fs
  induction fs with
  | nil =>
    intro f dict
    simp only [List.nil_append, loadFiles, Out.bind]
    cases loadDocs post dict f <;> rfl
  | cons g r ih =>
    intro f dict
    simp only [List.cons_append, loadFiles, bind_assoc', ih]

/-- a list of files is loaded exactly like the concatenation of their documents … -/
theorem files_eq_documents (post : Val → Out Val) : ∀ (fs : List (List YNode)) (dict : Val),
    loadFiles post dict fs = loadDocs post dict fs.flatten := by
  intro fs
  induction fs with
  | nil => intro dict; rfl
  | cons g r ih =>
    intro dict
    simp only [loadFiles, List.flatten_cons, loadDocs_append, ih]

/-- … so **several `---` documents in one file = the same documents as separate files** -/
theorem multiDoc_eq_multiFile (post : Val → Out Val) (docs : List YNode) (dict : Val) :
    loadFiles post dict [docs] = loadFiles post dict (docs.map fun d => [d]) := by
  rw [files_eq_documents, files_eq_documents]
  congr 1
  induction docs with
  | nil => rfl
  | cons d r ih =>
    simp only [List.flatten_cons, List.flatten_nil, List.append_nil, List.map_cons, List.singleton_append] at ih ⊢
    rw [← ih]

/-! ## 6. `!reset` and `!override` -/

/-- **`!reset` removes the attribute**: a mapping entry tagged `!reset` is dropped from the document, its path is
recorded, `Apply` deletes that key from the model merged so far, and the merge cannot bring it back — whatever the
base held there, at any depth `p` -/
theorem reset_removes (n : Nat) (p : TPath) (k : String) (x : YNode) (ht : x.tag = .reset)
    (es : List (String × YNode)) (hnd : (es.map Prod.fst).Nodup) (hmem : (k, x) ∈ es)
    (paths : List TPath) (hsub : ∀ q ∈ (resolveMap es p).2, q ∈ paths) (a m : KVs)
    (h : mergeKVs n (applyKVs paths a p) (decodeKV (resolveMap es p).1) p = .ok m) : lookup k m = none := by
  obtain ⟨hgone, hrec⟩ := resolveMap_reset p k x ht es hnd hmem
  have hdel := applyKVs_removed paths p k (matchesAny_of_mem (hsub _ hrec)) a
  exact merge_no_new_keys n _ _ m p (resolveMap_keys_nodup p es hnd) h k hdel hgone

/-- **`!override` replaces without merging**: the entry stays in the document as written, the base's value at that
key is deleted first, so the result is the override's value itself — no append, no key-wise merge -/
theorem override_replaces (n : Nat) (p : TPath) (k : String) (x : YNode) (ht : x.tag = .override)
    (es : List (String × YNode)) (hnd : (es.map Prod.fst).Nodup) (hmem : (k, x) ∈ es)
    (paths : List TPath) (hsub : ∀ q ∈ (resolveMap es p).2, q ∈ paths) (a m : KVs)
    (h : mergeKVs n (applyKVs paths a p) (decodeKV (resolveMap es p).1) p = .ok m) : lookup k m = some (decode x) := by
  obtain ⟨hkept, hrec⟩ := resolveMap_override p k x ht es hnd hmem
  have hdel := applyKVs_removed paths p k (matchesAny_of_mem (hsub _ hrec)) a
  exact merge_new_key_added n _ _ m p (resolveMap_keys_nodup p es hnd) h k _ hdel hkept

/-- keys whose path matches no recorded path survive `Apply` (frame of `!reset` / `!override`) -/
theorem reset_frame (paths : List TPath) (p : TPath) (k : String) (h : matchesAny paths (next p k) = false) (a : KVs) :
    lookup k (applyKVs paths a p) = (lookup k a).map fun e => applyNull paths e (next p k) :=
  applyKVs_kept paths p k h a

/-- without tags nothing is deleted -/
theorem apply_no_paths (p : TPath) : ∀ a : KVs, (∀ k v, (k, v) ∈ a → applyNull [] v (next p k) = v) → applyKVs [] a p = a := by
  intro a
  induction a with
  | nil => intro _; rfl
  | cons hd tl ih =>
    obtain ⟨k, v⟩ := hd
    intro h
    simp only [applyKVs, matchesAny, List.any_nil, Bool.false_eq_true, if_false]
    rw [h k v (by simp), ih (fun k' v' hm => h k' v' (by simp [hm]))]

-- non-vacuity: a two-document stream where the second document resets `ports` and overrides `dns`
example :
    loadDocs .ok (.map [("services", .map [("web", .map [("image", .str "nginx"), ("ports", .seq [.str "80"]), ("dns", .seq [.str "1.1.1.1"])])])])
      [.map .none [("services", .map .none [("web", .map .none [("ports", .scalar .reset .null), ("dns", .seq .override [.scalar .none (.str "9.9.9.9")])])])]]
    = .ok (.map [("services", .map [("web", .map [("image", .str "nginx"), ("dns", .seq [.str "9.9.9.9"])])])]) := by rfl

theorem enforceKVs_keys : ∀ (kvs r : KVs) (p : TPath), enforceKVs kvs p = .ok r → keys r = keys kvs := by
  intro kvs
  induction kvs with
  | nil => intro r p h; simp only [enforceKVs, Out.ok.injEq] at h; subst h; rfl
  | cons hd tl ih =>
    obtain ⟨k, e⟩ := hd
    intro r p h
    simp only [enforceKVs] at h
    cases hu : enforce e (next p k) with
    | ok u =>
      simp only [hu, Out.bind] at h
      cases hr : enforceKVs tl p with
      | ok r' =>
        simp only [hr, Out.ok.injEq] at h
        subst h
        simp only [keys, List.map_cons, List.cons.injEq, true_and]
        exact ih r' p hr
      | err e' => simp [hr] at h
      | panic s => simp [hr] at h
    | err e' => simp [hu, Out.bind] at h
    | panic s => simp [hu, Out.bind] at h

theorem root_has_no_rule : ruleAt TPath.root = none := by decide

/-- what one document does to the model at the document root: `Apply`, `mergeMappings`, unicity -/
theorem docStep_root (a : KVs) (es : List (String × YNode)) (r : Val)
    (h : docStep .ok (.map a) (.map .none es) = .ok r) :
    ∃ m r', mergeKVs (depth (.map (decodeKV (resolveMap es TPath.root).1)) + 7)
                (applyKVs (resolveMap es TPath.root).2 a TPath.root) (decodeKV (resolveMap es TPath.root).1) TPath.root = .ok m ∧
            enforceKVs m TPath.root = .ok r' ∧ r = .map r' := by
  simp only [docStep, readDoc, resolve, decode, applyNull, merge, fuelFor] at h
  rw [show depth (.map (decodeKV (resolveMap es TPath.root).1)) + 8 = (depth (.map (decodeKV (resolveMap es TPath.root).1)) + 7) + 1 from rfl,
    merge_map_unfold _ _ _ _ root_has_no_rule] at h
  cases hm : mergeKVs (depth (.map (decodeKV (resolveMap es TPath.root).1)) + 7)
      (applyKVs (resolveMap es TPath.root).2 a TPath.root) (decodeKV (resolveMap es TPath.root).1) TPath.root with
  | ok m =>
    simp only [hm, Out.bind, Unicity.enforceTop, enforce] at h
    cases hr : enforceKVs m TPath.root with
    | ok r' =>
      simp only [hr, Out.ok.injEq] at h
      exact ⟨m, r', rfl, hr, h.symm⟩
    | err e => simp [hr] at h
    | panic s => simp [hr] at h
  | err e => simp [hm, Out.bind] at h
  | panic s => simp [hm, Out.bind] at h

/-- **`!reset` at the top level of a document removes the attribute from the loaded model** (whole document step:
tag resolution, `Apply`, merge, unicity) -/
theorem docStep_reset_removes (a : KVs) (es : List (String × YNode)) (k : String) (x : YNode) (r : KVs)
    (ht : x.tag = .reset) (hnd : (es.map Prod.fst).Nodup) (hmem : (k, x) ∈ es)
    (h : docStep .ok (.map a) (.map .none es) = .ok (.map r)) : lookup k r = none := by
  obtain ⟨m, r', hm, hr, heq⟩ := docStep_root a es _ h
  cases heq
  have := reset_removes _ TPath.root k x ht es hnd hmem _ (fun q hq => hq) a m hm
  rw [lookup_eq_none_iff] at this ⊢
  rw [enforceKVs_keys _ _ _ hr]; exact this

/-- **`!override` at the top level of a document: the attribute is the document's value** (up to unicity inside it) -/
theorem docStep_override_replaces (a : KVs) (es : List (String × YNode)) (k : String) (x : YNode) (r : KVs)
    (ht : x.tag = .override) (hnd : (es.map Prod.fst).Nodup) (hmem : (k, x) ∈ es)
    (h : docStep .ok (.map a) (.map .none es) = .ok (.map r)) : k ∈ keys r := by
  obtain ⟨m, r', hm, hr, heq⟩ := docStep_root a es _ h
  cases heq
  have := override_replaces _ TPath.root k x ht es hnd hmem _ (fun q hq => hq) a m hm
  rw [enforceKVs_keys _ _ _ hr, ← lookup_isSome_iff, this]; rfl

/-! ## 7. Index keys -/

/-- the key of a long-syntax port: `host_ip:published:target/protocol` with the defaults `0.0.0.0` and `tcp` -/
theorem port_key (kvs : KVs) (t : Val) (ht : lookup "target" kvs = some t) :
    index .port (.map kvs) = .ok (sprintArg 's' true ((lookup "host_ip" kvs).getD (.str "0.0.0.0")) ++ ":" ++
      Merge.fmtV ((lookup "published" kvs).getD .null) ++ ":" ++ Merge.fmtV t ++ "/" ++
      sprintArg 's' true ((lookup "protocol" kvs).getD (.str "tcp"))) := by
  simp [index, ht]

/-- **the port key does not depend on how `published` / `target` are spelled**: an integer and the string of its
decimal digits give the same key (false before the round-2 repair of `portIndexer`, see `Neg/C04.lean`) -/
theorem port_key_spelling_independent (kvs kvs' : KVs) (n t : Int)
    (hp : lookup "published" kvs = some (.int n)) (hp' : lookup "published" kvs' = some (.str (toString n)))
    (ht : lookup "target" kvs = some (.int t)) (ht' : lookup "target" kvs' = some (.str (toString t)))
    (hh : lookup "host_ip" kvs = lookup "host_ip" kvs') (hpr : lookup "protocol" kvs = lookup "protocol" kvs') :
    index .port (.map kvs) = index .port (.map kvs') := by
  rw [port_key kvs _ ht, port_key kvs' _ ht', hp, hp', hh, hpr]
  simp [Merge.fmtV]

example : index .port (.map [("target", .int 80), ("published", .int 8080)]) = index .port (.map [("target", .str "80"), ("published", .str "8080")]) := by rfl

/-- a short-syntax volume and a long-syntax volume with the same target share their key -/
theorem volume_key_long (kvs : KVs) (t : String) (ht : lookup "target" kvs = some (.str t)) :
    index .volume (.map kvs) = .ok t := by
  simp [index, ht]

example : index .volume (.str "./src:/data:ro") = .ok "/data" ∧ index .volume (.map [("type", .str "volume"), ("target", .str "/data")]) = .ok "/data" := by
  constructor <;> rfl

end CV.C04
