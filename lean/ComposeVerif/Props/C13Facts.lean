import ComposeVerif.Gen.C13Facts
/-!
# C13 — the source still has the shape the transition system was written against

`Gen/C13Facts.lean` is regenerated from `graph/traversal.go` / `graph/graph.go` on every run (translator/c13.go): the
synchronisation-relevant operations of each function in source order.  The literals below are what `Model/Trav.lean`
models, with the correspondence to the labels of the LTS:

* `walk`: counter `expect := len(vertices)`; `nodeCh` buffered with one place per vertex (`wSend` never blocks);
  `eg.SetLimit(maxConcurrency + 1)` (`slotFree`: `sem < limit + 1`); coordinator = first `eg.Go`: `select` on
  `ctx.Done()` (`cCtxDone`, after `<-spawned`: enabled iff `m = none`) / `nodeCh` (`cRecv`: `expect--`, exit at 0, then the
  adjacents loop `schedNext C` …); caller: extremities loop (`schedNext M` …), `close(spawned)` + `eg.Wait` (`schedEnd M`).
* `visit`: `ready` → `enter` → `eg.Go` (`spawn`) in this order; worker: skip test / visitor (`wBegin`, `wReturn`),
  `t.done` **before** `nodeCh <- node` (`wDone` before `wSend`: invariant `handed`), then `return err` (`wExit`).
* `ready` / `enter` / `done`: whole body under `t.mu` (atomic steps); `ready` compares with `vertexVisited`;
  `enter` is a test-and-set on presence in the map; `done` writes `vertexVisited`.
* `skip`, `descendents`: modelled by `skipOf`, `descendents`.

An edit that reorders, drops or adds one of these operations breaks `traversal_source_is_modelled` (and the check then
searches for a failing input with the oracle).
-/
namespace CV.Trav

theorem traversal_source_is_modelled :
    CV.Gen.c13_walk =
      [ "expect := len(g.vertices)", "if expect == 0", "return nil", "make(chan *vertex[S], expect)", "close", "errgroup.WithContext", "if t.maxConcurrency > 0", "eg.SetLimit(t.maxConcurrency + 1)", "make(chan struct{})", "eg.Go", "yield C.select", "recv ctx.Done()", "yield C.ctxDone", "recv spawned", "return nil", "recv nodeCh", "yield C.recv", "expect--", "if expect == 0", "yield C.exit", "return nil", "range t.adjacentNodes(node)", "t.adjacentNodes", "t.visit", "range t.extremityNodes(g)", "t.extremityNodes", "t.visit", "close", "yield M.wait", "return eg.Wait()", "eg.Wait"] ∧
    CV.Gen.c13_visit =
      [ "yield ready", "if !t.ready(node)", "t.ready", "return", "yield enter", "if !t.enter(node)", "t.enter", "return", "yield spawn", "eg.Go", "yield W.begin", "if !t.skip(node)", "t.skip", "t.visitor", "yield W.done", "t.done", "yield W.send", "send nodeCh", "yield W.exit", "return err"] ∧
    CV.Gen.c13_ready =
      [ "t.mu.Lock", "t.mu.Unlock", "depends := v.children", "if t.inverse", "depends = v.parents", "range depends", "if t.status[name] != vertexVisited", "return false", "return true"] ∧
    CV.Gen.c13_enter =
      [ "t.mu.Lock", "t.mu.Unlock", "if _, ok := t.status[v.key]; ok", "return false", "t.status[v.key] = vertexEntered", "return true"] ∧
    CV.Gen.c13_done =
      [ "t.mu.Lock", "t.mu.Unlock", "t.status[v.key] = vertexVisited", "t.results[v.key] = result"] ∧
    CV.Gen.c13_skip =
      [ "if len(t.after) == 0", "return false", "if slices.Contains(t.after, node.key)", "slices.Contains", "return false", "node.descendents", "range t.after", "if slices.Contains(ancestors, name)", "slices.Contains", "return false", "return true"] ∧
    CV.Gen.c13_extremityNodes =
      [ "if t.inverse", "return g.roots()", "return g.leaves()"] ∧
    CV.Gen.c13_adjacentNodes =
      [ "if t.inverse", "return v.children", "return v.parents"] ∧
    CV.Gen.c13_descendents =
      ["range v.children", "return vx"] := by
  decide

/-- **round 5 — the glue around `walk`** (`graph/services.go`, `graph/graph.go`, `graph/cycle.go`), regenerated on every
run, is the code `Model/TravProj.lean` / `Model/DepGraph.lean` were written against:

* `CollectInDependencyOrder`: `newGraph`, error ⇒ return before anything else (`Plan.refused`), `newTraversal`, the
  options applied in order, `walk` (`Plan.empty` / `Plan.walk`), `return t.results, err`;
* `newGraph`: a vertex per entry of `project.Services`; per `depends_on` entry: not an enabled service ⇒ required ⇒
  "disabled" if in `DisabledServices` else "unknown" (`scanDeps`), optional ⇒ no edge; otherwise both
  `src.children[dep] = dest` **and** `dest.parents[name] = src` (`children` / `parents`, `mem_parents_iff`); then `checkCycle`;
* `roots` / `leaves`: vertices without parents / without children (`extremities`: `pre = []`);
* `checkCycle` / `searchCycle`: a search from every vertex in name order; a child found on the current path is a cycle,
  otherwise descend with the path extended (`DepGraph.searchCycle`: no visited set, no pruning). -/
theorem glue_source_is_modelled :
    CV.Gen.c13_CollectInDependencyOrder =
      ["newGraph", "if err != nil", "return nil, err", "newTraversal", "range options", "option", "err = walk(ctx, graph, t)", "walk", "return t.results, err"] ∧
    CV.Gen.c13_newGraph =
      ["range project.Services", "g.addVertex", "range project.Services", "src := g.vertices[name]", "range s.DependsOn", "if !ok", "if condition.Required", "if ds, exists := project.DisabledServices[dep]; exists", "return nil, fmt.Errorf(\"service %q is required by %q but is disabled. Can be enabled by profiles %s\", dep, name, ds.Profiles)", "fmt.Errorf", "return nil, fmt.Errorf(\"service %q depends on unknown service %q\", name, dep)", "fmt.Errorf", "src.children[dep] = dest", "dest.parents[name] = src", "err := g.checkCycle()", "g.checkCycle", "return g, err"] ∧
    CV.Gen.c13_roots =
      ["range g.vertices", "if len(v.parents) == 0", "res = append(res, v)", "append", "return res"] ∧
    CV.Gen.c13_leaves =
      ["range g.vertices", "if len(v.children) == 0", "res = append(res, v)", "append", "return res"] ∧
    CV.Gen.c13_checkCycle =
      ["names := utils.MapKeys(g.vertices)", "utils.MapKeys", "range names", "err := searchCycle([]string{name}, g.vertices[name])", "searchCycle", "if err != nil", "return err", "return nil"] ∧
    CV.Gen.c13_searchCycle =
      ["names := utils.MapKeys(v.children)", "utils.MapKeys", "range names", "if i := slices.Index(path, name); i >= 0", "slices.Index", "return fmt.Errorf(\"dependency cycle detected: %s -> %s\", strings.Join(path[i:], \" -> \"), name)", "fmt.Errorf", "ch := v.children[name]", "err := searchCycle(append(path, name), ch)", "searchCycle", "append", "if err != nil", "return err", "return nil"] := by
  decide

end CV.Trav
