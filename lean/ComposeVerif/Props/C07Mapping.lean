import ComposeVerif.Props.C07
import ComposeVerif.Model.Dotenv
import ComposeVerif.Gen.C07Callers
/-!
# C07 — the mapping handed to `Substitute` by the dotenv parser keeps the variable states apart

`dotenv.expandVariables` (model: `CV.Dotenv.expandVars`, owned by C18) calls `template.Substitute` with the
mapping "lookup function first, earlier lines of the file second" (`envOf`).  The grammar's variable states only
mean something if that mapping keeps *set-but-empty* and *unset* apart; these theorems say it does, and what the
colon-less operators then yield inside an env file.  The real `expandVariables` is tied to this by the
`substDotenv` oracle of `harness/p/c07/c07_mapping.go` (lookup returning `("", true)`).
-/
namespace CV.Template
open CV.Dotenv

/-- the code around `Substitute` the models were written against is the code in the source now: the mapping closure
    of `dotenv.expandVariables` (lookup first — the condition is the bare `ok` —, then the earlier lines), the
    way `interpolation` picks and calls `Substitute` (the lookup function handed over as is), and the statements
    of `getFirstBraceClosingIndex` (every brace counted: `firstCloseGo`) -/
theorem callers_are_modelled :
    CV.Gen.c07_dotenv_substitute_arg = "value" ∧
    CV.Gen.c07_dotenv_mapping =
      ["if v, ok := lookupFn(k); ok { return v, true }", "v, ok := envMap[k]", "return v, ok"] ∧
    CV.Gen.c07_interpolate_substitute =
      ["opts.Substitute = template.Substitute",
       "newValue, err := opts.Substitute(value, template.Mapping(opts.LookupValue))"] ∧
    CV.Gen.c07_firstBraceClosingIndex =
      ["openVariableBraces := 0",
       "for i := 0; i < len(s); i++ { if s[i] == '}' { openVariableBraces-- if openVariableBraces == 0 { return i } } if s[i] == '{' { openVariableBraces++ } }",
       "return -1"] :=
  ⟨rfl, rfl, rfl, rfl⟩

/-- a hit of the lookup function is what `Substitute` sees — also when the value is empty, and whatever the file says -/
theorem dotenv_mapping_lookup_first (lookup : Env) (m : Map) (k v : Str) (h : lookup k = some v) :
    envOf lookup m k = some v := by
  simp [envOf, h]

/-- without a hit, the earlier lines of the file decide -/
theorem dotenv_mapping_file_second (lookup : Env) (m : Map) (k : Str) (h : lookup k = none) :
    envOf lookup m k = get m k := by
  simp [envOf, h]

/-- `expandVariables` is `Substitute` under that mapping: same value, same error -/
theorem dotenv_expandVars_is_subst (value : Str) (m : Map) (lookup : Env) :
    (∀ r, expandVars value m lookup = .ok (.ok r) ↔ subst (envOf lookup m) value = .ok r) ∧
    (∀ e, expandVars value m lookup = .ok (.error (.tmpl e)) ↔ subst (envOf lookup m) value = .err e) := by
  unfold expandVars
  cases h : subst (envOf lookup m) value <;> simp

/-- hence every C07 theorem transfers; in particular the refinement: a well-formed template in an env-file value
    evaluates by the grammar in the lookup-then-file environment -/
theorem dotenv_expandVars_render (t : List Seg) (m : Map) (lookup : Env) (h : WF t = true) :
    expandVars (renderL t) m lookup =
      match evalOut (envOf lookup m) t with
      | .ok v => .ok (.ok v)
      | .err e => .ok (.error (.tmpl e))
      | .panic p => .error (.tmpl p) := by
  unfold expandVars
  rw [subst_render _ t h]
  cases evalOut (envOf lookup m) t <;> rfl

/-- **set-but-empty is set**: a variable the lookup function reports as set to the empty string is *set* for the
    colon-less operators inside an env file — `${n-d}` is empty, `${n+r}` is `r`, `${n?e}` is empty (no error) —
    whatever the earlier lines of the file say about `n` -/
theorem dotenv_lookup_set_empty_is_set (lookup : Env) (m : Map) (n : Str) (arg : List Seg) (d : Str)
    (hn : validName n = true) (harg : wfL true arg = true) (hl : lookup n = some [])
    (hd : evalOut (envOf lookup m) arg = .ok d) :
    expandVars (Seg.op n .dash arg).render m lookup = .ok (.ok []) ∧
    expandVars (Seg.op n .plus arg).render m lookup = .ok (.ok d) ∧
    expandVars (Seg.op n .q arg).render m lookup = .ok (.ok []) := by
  have hv := dotenv_mapping_lookup_first lookup m n [] hl
  have ht := subst_op_table (envOf lookup m) n arg d hn harg hd
  obtain ⟨_, _, _, h4, _, _, h7, _, _, _, _, h12⟩ := ht
  unfold expandVars
  rw [h4 [] hv, h7 [] hv, h12 [] hv]
  exact ⟨rfl, rfl, rfl⟩

/-- … whereas an unset variable (no lookup hit, not defined earlier in the file) takes the other branch -/
theorem dotenv_unset_is_unset (lookup : Env) (m : Map) (n : Str) (arg : List Seg) (d : Str)
    (hn : validName n = true) (harg : wfL true arg = true) (hl : lookup n = none) (hm : get m n = none)
    (hd : evalOut (envOf lookup m) arg = .ok d) :
    expandVars (Seg.op n .dash arg).render m lookup = .ok (.ok d) ∧
    expandVars (Seg.op n .plus arg).render m lookup = .ok (.ok []) ∧
    expandVars (Seg.op n .q arg).render m lookup = .ok (.error (.tmpl (.required n d))) := by
  have hv : envOf lookup m n = none := by rw [dotenv_mapping_file_second lookup m n hl, hm]
  have ht := subst_op_table (envOf lookup m) n arg d hn harg hd
  obtain ⟨_, _, h3, _, _, _, _, h8, _, _, h11, _⟩ := ht
  unfold expandVars
  rw [h3 hv, h8 hv, h11 hv]
  exact ⟨rfl, rfl, rfl⟩

/-- non-vacuity: the hypotheses are satisfiable and the two theorems separate the two states on `${V-d}` -/
example : expandVars (Seg.op ['V'] .dash [.lit ['d']]).render [] (fun k => if k = ['V'] then some [] else none) = .ok (.ok []) :=
  (dotenv_lookup_set_empty_is_set _ [] ['V'] [.lit ['d']] ['d'] (by decide) (by decide) (by simp)
    (by simp [evalOut, evalL, Seg.eval])).1

example : expandVars (Seg.op ['V'] .dash [.lit ['d']]).render [] (fun _ => none) = .ok (.ok ['d']) :=
  (dotenv_unset_is_unset _ [] ['V'] [.lit ['d']] ['d'] (by decide) (by decide) rfl rfl
    (by simp [evalOut, evalL, Seg.eval])).1

end CV.Template
