import ComposeVerif.Lemmas.ShortDoc
import ComposeVerif.Props.C03
import ComposeVerif.Lemmas.ShortIdem
import ComposeVerif.Lemmas.ShortIdemAny
/-!
# C03 — from the attribute to the whole document (round 5)

The `transformX_short_eq_long` theorems of `Props/C03.lean` speak about one transformer on one value.  The property
speaks about the loaded *document*.  `canonical_service_attr_congr` lifts any of them: `transform.Canonical` of a
document depends on the value of attribute `k` of service `n` only through the transform of that value at its path —
for every other top-level section, every other service, every other attribute of the service, in any position of the
(ordered) mappings.  The instances below state short ≡ long for whole documents.
-/
namespace CV.Short
open CV CV.Short.Spec

/-- **lifting**: two values with the same transform at `services.n.k` give the same canonical document -/
theorem canonical_service_attr_congr (ign : Bool) (top1 top2 svcs1 svcs2 a b : Val.KVs) (n k : String) (v v' : Val)
    (h : transform ign (attrPath n k) v = transform ign (attrPath n k) v') :
    canonical ign (.map (top1 ++ ("services", .map (svcs1 ++ (n, .map (a ++ (k, v) :: b)) :: svcs2)) :: top2))
      = canonical ign (.map (top1 ++ ("services", .map (svcs1 ++ (n, .map (a ++ (k, v') :: b)) :: svcs2)) :: top2)) := by
  unfold canonical
  apply transform_map_congr _ _ _ _ root_recurses
  apply transformKVs_congr
  rw [services_path]
  apply transform_map_congr _ _ _ _ services_recurses
  apply transformKVs_congr
  have hne : (["services"] : TPath) ≠ TPath.root := by decide
  rw [TPath.nextK_of_ne_root _ _ hne]
  apply transform_map_congr _ _ _ _ (service_recurses _)
  apply transformKVs_congr
  simpa [attrPath, services_path, TPath.nextK_of_ne_root _ _ hne] using h

/-- the document around the attribute -/
def docWith (top1 top2 svcs1 svcs2 a b : Val.KVs) (n k : String) (v : Val) : Val :=
  .map (top1 ++ ("services", .map (svcs1 ++ (n, .map (a ++ (k, v) :: b)) :: svcs2)) :: top2)


/-- `depends_on: [names]` ≡ `depends_on: {name: {condition: service_started, required: true}}`, whole documents -/
theorem canonical_dependsOn_short_eq_long (ign : Bool) (top1 top2 svcs1 svcs2 a b : Val.KVs) (n : String)
    (names : List String) (hnd : names.Nodup) :
    canonical ign (docWith top1 top2 svcs1 svcs2 a b n "depends_on" (.seq (names.map Val.str)))
      = canonical ign (docWith top1 top2 svcs1 svcs2 a b n "depends_on" (.map (names.map (fun x => (x, startedRequired))))) := by
  apply canonical_service_attr_congr
  have hp := (dispatch (seg n) "").2.2.2.2.2.2.2.2.2.2.1
  obtain ⟨h1, h2⟩ := transformDependsOn_short_eq_long names hnd
  rw [attrPath_eq, seg_depends_on, transform_leaf_at ign _ _ _ hp (by decide), transform_leaf_at ign _ _ _ hp (by decide)]
  simp [leaf, h1, h2]

/-- service `networks: [names]` ≡ `networks: {name: null}`, whole documents -/
theorem canonical_networks_short_eq_long (ign : Bool) (top1 top2 svcs1 svcs2 a b : Val.KVs) (n : String)
    (names : List String) (hnd : names.Nodup) :
    canonical ign (docWith top1 top2 svcs1 svcs2 a b n "networks" (.seq (names.map Val.str)))
      = canonical ign (docWith top1 top2 svcs1 svcs2 a b n "networks" (.map (names.map (fun x => (x, Val.null))))) := by
  apply canonical_service_attr_congr
  have hp := (dispatch (seg n) "").2.2.2.2.2.2.2.2.2.2.2.1
  rw [attrPath_eq, seg_networks, transform_leaf_at ign _ _ _ hp (by decide), transform_leaf_at ign _ _ _ hp (by decide)]
  simp [leaf, transformServiceNetworks_short_eq_long names hnd, transformServiceNetworks_long_id]

/-- `env_file: x` ≡ `env_file: [x]` ≡ `env_file: [{path: x, required: true}]`, whole documents -/
theorem canonical_envFile_short_eq_long (ign : Bool) (top1 top2 svcs1 svcs2 a b : Val.KVs) (n s : String) :
    canonical ign (docWith top1 top2 svcs1 svcs2 a b n "env_file" (.str s))
      = canonical ign (docWith top1 top2 svcs1 svcs2 a b n "env_file" (.seq [.map [("path", .str s), ("required", .bool true)]]))
    ∧ canonical ign (docWith top1 top2 svcs1 svcs2 a b n "env_file" (.seq [.str s]))
      = canonical ign (docWith top1 top2 svcs1 svcs2 a b n "env_file" (.seq [.map [("path", .str s), ("required", .bool true)]])) := by
  have hp := (dispatch (seg n) "").2.2.2.2.2.2.2.2.2.1
  obtain ⟨_, h2, h3⟩ := transformEnvFile_short_eq_long s
  constructor <;> apply canonical_service_attr_congr <;>
    rw [attrPath_eq, seg_env_file, transform_leaf_at ign _ _ _ hp (by decide), transform_leaf_at ign _ _ _ hp (by decide)] <;>
    simp [leaf, h2, h3]

/-- `dns: x` ≡ `dns: [x]` (string vs list), whole documents -/
theorem canonical_dns_short_eq_long (ign : Bool) (top1 top2 svcs1 svcs2 a b : Val.KVs) (n s : String) :
    canonical ign (docWith top1 top2 svcs1 svcs2 a b n "dns" (.str s))
      = canonical ign (docWith top1 top2 svcs1 svcs2 a b n "dns" (.seq [.str s])) := by
  apply canonical_service_attr_congr
  have hp := (dispatch (seg n) "").2.2.2.2.2.2.2.2.2.2.2.2.2.1
  rw [attrPath_eq, seg_dns, transform_leaf_at ign _ _ _ hp (by decide), transform_leaf_at ign _ _ _ hp (by decide)]
  simp [leaf, transformStringOrList]

/-- one short port spec: the document with the string has the canonical form of the document with the long entries
(in the order of the code's string sort — a permutation of the grammar's `long`) -/
theorem canonical_ports_short_eq_long (ign : Bool) (top1 top2 svcs1 svcs2 a b : Val.KVs) (n : String)
    (sp : PortSpec) (h : sp.wf = true) :
    ∃ l : List PortCfg, l.Perm sp.long ∧
      canonical ign (docWith top1 top2 svcs1 svcs2 a b n "ports" (.seq [.str (String.ofList sp.render)]))
        = canonical ign (docWith top1 top2 svcs1 svcs2 a b n "ports" (.seq (l.map encodePort))) := by
  obtain ⟨l, hl, ht⟩ := transformPorts_short_eq_long ign sp h
  refine ⟨l, hl, ?_⟩
  apply canonical_service_attr_congr
  have hp := (dispatch (seg n) "").1
  have hid : transformPorts ign (.seq (l.map encodePort)) = .ok (.seq (l.map encodePort)) := by
    have hmap : l.map encodePort = (l.map (fun p => ([("mode", Val.str "ingress")] ++ optStr "host_ip" p.hostIP
        ++ (if p.target = 0 then [] else [("target", Val.int p.target)])
        ++ optStr "published" p.published ++ optStr "protocol" p.protocol : Val.KVs))).map Val.map := by
      simp [List.map_map, Function.comp_def, encodePort]
    rw [hmap]
    exact transformPorts_long_id ign _
  rw [attrPath_eq, seg_ports, transform_leaf_at ign _ _ _ hp (by decide), transform_leaf_at ign _ _ _ hp (by decide)]
  simp [leaf, ht, hid]

/-- one short volume spec anywhere in the `volumes` list ≡ its long mapping (target cleaned), whole documents -/
theorem canonical_volume_short_eq_long (ign : Bool) (top1 top2 svcs1 svcs2 a b : Val.KVs) (n : String)
    (pre post : List Val) (sp : VolSpec) (h : sp.wf = true) :
    canonical ign (docWith top1 top2 svcs1 svcs2 a b n "volumes" (.seq (pre ++ .str (String.ofList sp.render) :: post)))
      = canonical ign (docWith top1 top2 svcs1 svcs2 a b n "volumes"
          (.seq (pre ++ encodeVol { sp.long with target := cleanTarget sp.long.target } :: post))) := by
  apply canonical_service_attr_congr
  rw [attrPath_eq, seg_volumes]
  apply transform_seq_congr _ _ _ _ (volumes_no_handler _)
  apply transformSeq_congr
  have hne : (["services", seg n, "volumes"] : TPath) ≠ TPath.root := by simp [TPath.root]
  rw [TPath.nextK_of_ne_root _ _ hne]
  show transform ign ["services", seg n, "volumes", seg "[]"] _ = transform ign ["services", seg n, "volumes", seg "[]"] _
  have hp := (dispatch (seg n) (seg "[]")).2.1
  rw [transform_leaf_at ign _ _ _ hp (by decide), transform_leaf_at ign _ _ _ hp (by decide)]
  rw [leaf_volume, leaf_volume, transformVolumeMount_short_eq_long ign sp h]
  rfl
/-- **lifting, list element**: item `v` of the list attribute `k` (no handler on the list itself) -/
theorem canonical_service_item_congr (ign : Bool) (top1 top2 svcs1 svcs2 a b : Val.KVs) (n k : String)
    (pre post : List Val) (v v' : Val)
    (hk : TPath.firstMatch CV.Gen.transformers ["services", seg n, seg k] = none)
    (h : transform ign ["services", seg n, seg k, "[]"] v = transform ign ["services", seg n, seg k, "[]"] v') :
    canonical ign (docWith top1 top2 svcs1 svcs2 a b n k (.seq (pre ++ v :: post)))
      = canonical ign (docWith top1 top2 svcs1 svcs2 a b n k (.seq (pre ++ v' :: post))) := by
  apply canonical_service_attr_congr
  rw [attrPath_eq]
  apply transform_seq_congr _ _ _ _ hk
  apply transformSeq_congr
  have hne : (["services", seg n, seg k] : TPath) ≠ TPath.root := by simp [TPath.root]
  rw [TPath.nextK_of_ne_root _ _ hne]
  exact h

/-- a well-formed device spec `SRC[:DST[:PERM]]` anywhere in `devices` ≡ its long mapping, whole documents -/
theorem canonical_device_short_eq_long (ign : Bool) (top1 top2 svcs1 svcs2 a b : Val.KVs) (n : String)
    (pre post : List Val) (d : DevSpec) (h : d.wf = true) :
    canonical ign (docWith top1 top2 svcs1 svcs2 a b n "devices" (.seq (pre ++ .str (String.ofList d.render) :: post)))
      = canonical ign (docWith top1 top2 svcs1 svcs2 a b n "devices"
          (.seq (pre ++ .map [("source", sv d.long.1), ("target", sv d.long.2.1), ("permissions", sv d.long.2.2)] :: post))) := by
  apply canonical_service_item_congr
  · rw [seg_devices]; exact (list_attrs_no_handler _).1
  · have hp := (dispatch (seg n) "[]").2.2.1
    rw [seg_devices, transform_leaf_at ign _ _ _ hp (by decide), transform_leaf_at ign _ _ _ hp (by decide),
      leaf_device, leaf_device, transformDeviceMapping_short_eq_long ign d h]
    rfl

/-- a secret / config name anywhere in `secrets` / `configs` ≡ `{source: name}`, whole documents -/
theorem canonical_fileMount_short_eq_long (ign : Bool) (top1 top2 svcs1 svcs2 a b : Val.KVs) (n : String)
    (pre post : List Val) (s : String) :
    canonical ign (docWith top1 top2 svcs1 svcs2 a b n "secrets" (.seq (pre ++ .str s :: post)))
      = canonical ign (docWith top1 top2 svcs1 svcs2 a b n "secrets" (.seq (pre ++ .map [("source", .str s)] :: post)))
    ∧ canonical ign (docWith top1 top2 svcs1 svcs2 a b n "configs" (.seq (pre ++ .str s :: post)))
      = canonical ign (docWith top1 top2 svcs1 svcs2 a b n "configs" (.seq (pre ++ .map [("source", .str s)] :: post))) := by
  constructor
  · apply canonical_service_item_congr
    · rw [seg_secrets]; exact (list_attrs_no_handler _).2.1
    · have hp := (dispatch (seg n) "[]").2.2.2.1
      rw [seg_secrets, transform_leaf_at ign _ _ _ hp (by decide), transform_leaf_at ign _ _ _ hp (by decide),
        leaf_fileMount, leaf_fileMount]
      rfl
  · apply canonical_service_item_congr
    · rw [seg_configs]; exact (list_attrs_no_handler _).2.2
    · have hp := (dispatch (seg n) "[]").2.2.2.2.1
      rw [seg_configs, transform_leaf_at ign _ _ _ hp (by decide), transform_leaf_at ign _ _ _ hp (by decide),
        leaf_fileMount, leaf_fileMount]
      rfl
/-- the long form of `build` is left as it is by the recursive transformer (either `ignoreParseError`) -/
theorem transformBuild_long_id (ign : Bool) (n s : String) :
    transform ign ["services", n, "build"] (.map [("context", .str s)]) = .ok (.map [("context", .str s)]) := by
  have h := (dispatch n "").2.2.2.2.2.2.1
  have hne : ["services", n, "build"] ≠ TPath.root := by simp [TPath.root]
  have hk : transformKVs ign ["services", n, "build"] [("context", .str s)] = .ok [("context", .str s)] := by
    simp [transformKVs, TPath.nextK_of_ne_root _ _ hne, ofList_context, transform, TPath.firstMatch, CV.Gen.transformers,
      TPath.pmatch, leaf]
  simp [transform, h, hk, recursesOnMap, bindOut, postMap]

/-- the long form of `extends` is left as it is -/
theorem transformExtends_long_id (ign : Bool) (n s : String) :
    transform ign ["services", n, "extends"] (.map [("service", .str s)]) = .ok (.map [("service", .str s)]) := by
  have h := (dispatch n "").2.2.2.2.2.2.2.2.2.2.2.2.1
  have hne : ["services", n, "extends"] ≠ TPath.root := by simp [TPath.root]
  have hk : transformKVs ign ["services", n, "extends"] [("service", .str s)] = .ok [("service", .str s)] := by
    simp [transformKVs, TPath.nextK_of_ne_root _ _ hne, ofList_service, transform, TPath.firstMatch, CV.Gen.transformers,
      TPath.pmatch, leaf]
  simp [transform, h, hk, recursesOnMap, bindOut, postMap]

/-- `build: ctx` ≡ `build: {context: ctx}` and `extends: svc` ≡ `extends: {service: svc}`, whole documents -/
theorem canonical_build_extends_short_eq_long (ign : Bool) (top1 top2 svcs1 svcs2 a b : Val.KVs) (n s : String) :
    canonical ign (docWith top1 top2 svcs1 svcs2 a b n "build" (.str s))
      = canonical ign (docWith top1 top2 svcs1 svcs2 a b n "build" (.map [("context", .str s)]))
    ∧ canonical ign (docWith top1 top2 svcs1 svcs2 a b n "extends" (.str s))
      = canonical ign (docWith top1 top2 svcs1 svcs2 a b n "extends" (.map [("service", .str s)])) := by
  constructor <;> apply canonical_service_attr_congr <;> rw [attrPath_eq]
  · rw [seg_build, transformBuild_short_eq_long, transformBuild_long_id]
  · rw [seg_extends, transformExtends_short_eq_long, transformExtends_long_id]

/-- the walk from the root to a top-level resource entry -/
theorem resource_path (a : String) (ha : IsResource a) :
    TPath.nextK TPath.root a = [a] ∧ recursesOnMap (TPath.firstMatch CV.Gen.transformers [a]) = true
    ∧ ∀ r, TPath.firstMatch CV.Gen.transformers [a, r] = some "transformMaybeExternal" := by
  rcases ha with h | h | h | h <;> subst h <;> refine ⟨by decide, by decide, fun r => ?_⟩ <;>
    simp [TPath.firstMatch, CV.Gen.transformers, TPath.pmatch]

/-- at a resource entry the children are left as they are and `externalFix` runs on the mapping -/
theorem transform_resource (ign : Bool) (a r : String) (ha : IsResource a) (m : Val.KVs) :
    transform ign [a, r] (.map m) = bindOut (externalFix m) (fun r' => .ok (.map r')) := by
  have hp := (resource_path a ha).2.2 r
  simp [transform, hp, recursesOnMap, resource_kvs_idA ign a r ha m, bindOut, postMap]

/-- `external: {name: N}` ≡ `external: true, name: N` for volumes, networks, secrets and configs, whole documents -/
theorem canonical_external_short_eq_long (ign : Bool) (top1 top2 rs1 rs2 : Val.KVs) (a r : String) (ha : IsResource a) (N : Val) :
    canonical ign (.map (top1 ++ (a, .map (rs1 ++ (r, .map [("external", .map [("name", N)])]) :: rs2)) :: top2))
      = canonical ign (.map (top1 ++ (a, .map (rs1 ++ (r, .map [("external", .bool true), ("name", N)]) :: rs2)) :: top2)) := by
  obtain ⟨h1, h2, _⟩ := resource_path a ha
  unfold canonical
  apply transform_map_congr _ _ _ _ root_recurses
  apply transformKVs_congr
  rw [h1]
  apply transform_map_congr _ _ _ _ h2
  apply transformKVs_congr
  have hne : ([a] : TPath) ≠ TPath.root := by
    rcases ha with h | h | h | h <;> subst h <;> decide
  rw [TPath.nextK_of_ne_root _ _ hne]
  show transform ign [a, seg r] _ = transform ign [a, seg r] _
  obtain ⟨e1, e2⟩ := transformMaybeExternal_short_eq_long N
  rw [transform_resource ign a _ ha, transform_resource ign a _ ha, e1, e2]
/-- non-vacuity: a document with two services, a top-level section before and after, attributes around `depends_on` -/
example :
    canonical false (docWith [("name", .str "p")] [("volumes", .map [("v", .null)])] [("db", .map [("image", .str "i")])] []
        [("image", .str "i")] [("ports", .seq [.str "80"])] "web.1" "depends_on" (.seq [.str "db", .str "cache"]))
    = canonical false (docWith [("name", .str "p")] [("volumes", .map [("v", .null)])] [("db", .map [("image", .str "i")])] []
        [("image", .str "i")] [("ports", .seq [.str "80"])] "web.1" "depends_on"
        (.map [("db", startedRequired), ("cache", startedRequired)])) :=
  canonical_dependsOn_short_eq_long false _ _ _ _ _ _ "web.1" ["db", "cache"] (by decide)

end CV.Short
