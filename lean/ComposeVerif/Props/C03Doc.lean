import ComposeVerif.Lemmas.ShortDoc
import ComposeVerif.Props.C03
/-!
# C03 — from the attribute to the whole document (round 5)

The `transformX_short_eq_long` theorems of `Props/C03.lean` speak about one transformer on one value.  The property
speaks about the loaded *document*.  `canonical_service_attr_congr` lifts any of them: `transform.Canonical` of a
document depends on the value of attribute `k` of service `n` only through the transform of that value at its path —
for every other top-level section, every other service, every other attribute of the service, in any position of the
(ordered) mappings.  The instances below state short ≡ long for whole documents.
-/
namespace CV.Short
open CV CV.Short.Spec

/-- **lifting**: two values with the same transform at `services.n.k` give the same canonical document -/
theorem canonical_service_attr_congr (ign : Bool) (top1 top2 svcs1 svcs2 a b : Val.KVs) (n k : String) (v v' : Val)
    (h : transform ign (attrPath n k) v = transform ign (attrPath n k) v') :
    canonical ign (.map (top1 ++ ("services", .map (svcs1 ++ (n, .map (a ++ (k, v) :: b)) :: svcs2)) :: top2))
      = canonical ign (.map (top1 ++ ("services", .map (svcs1 ++ (n, .map (a ++ (k, v') :: b)) :: svcs2)) :: top2)) := by
  unfold canonical
  apply transform_map_congr _ _ _ _ root_recurses
  apply transformKVs_congr
  rw [services_path]
  apply transform_map_congr _ _ _ _ services_recurses
  apply transformKVs_congr
  have hne : (["services"] : TPath) ≠ TPath.root := by decide
  rw [TPath.nextK_of_ne_root _ _ hne]
  apply transform_map_congr _ _ _ _ (service_recurses _)
  apply transformKVs_congr
  simpa [attrPath, services_path, TPath.nextK_of_ne_root _ _ hne] using h

/-- the document around the attribute -/
def docWith (top1 top2 svcs1 svcs2 a b : Val.KVs) (n k : String) (v : Val) : Val :=
  .map (top1 ++ ("services", .map (svcs1 ++ (n, .map (a ++ (k, v) :: b)) :: svcs2)) :: top2)


/-- `depends_on: [names]` ≡ `depends_on: {name: {condition: service_started, required: true}}`, whole documents -/
theorem canonical_dependsOn_short_eq_long (ign : Bool) (top1 top2 svcs1 svcs2 a b : Val.KVs) (n : String)
    (names : List String) (hnd : names.Nodup) :
    canonical ign (docWith top1 top2 svcs1 svcs2 a b n "depends_on" (.seq (names.map Val.str)))
      = canonical ign (docWith top1 top2 svcs1 svcs2 a b n "depends_on" (.map (names.map (fun x => (x, startedRequired))))) := by
  apply canonical_service_attr_congr
  have hp := (dispatch (seg n) "").2.2.2.2.2.2.2.2.2.2.1
  obtain ⟨h1, h2⟩ := transformDependsOn_short_eq_long names hnd
  rw [attrPath_eq, seg_depends_on, transform_leaf_at ign _ _ _ hp (by decide), transform_leaf_at ign _ _ _ hp (by decide)]
  simp [leaf, h1, h2]

/-- service `networks: [names]` ≡ `networks: {name: null}`, whole documents -/
theorem canonical_networks_short_eq_long (ign : Bool) (top1 top2 svcs1 svcs2 a b : Val.KVs) (n : String)
    (names : List String) (hnd : names.Nodup) :
    canonical ign (docWith top1 top2 svcs1 svcs2 a b n "networks" (.seq (names.map Val.str)))
      = canonical ign (docWith top1 top2 svcs1 svcs2 a b n "networks" (.map (names.map (fun x => (x, Val.null))))) := by
  apply canonical_service_attr_congr
  have hp := (dispatch (seg n) "").2.2.2.2.2.2.2.2.2.2.2.1
  rw [attrPath_eq, seg_networks, transform_leaf_at ign _ _ _ hp (by decide), transform_leaf_at ign _ _ _ hp (by decide)]
  simp [leaf, transformServiceNetworks_short_eq_long names hnd, transformServiceNetworks_long_id]

/-- `env_file: x` ≡ `env_file: [x]` ≡ `env_file: [{path: x, required: true}]`, whole documents -/
theorem canonical_envFile_short_eq_long (ign : Bool) (top1 top2 svcs1 svcs2 a b : Val.KVs) (n s : String) :
    canonical ign (docWith top1 top2 svcs1 svcs2 a b n "env_file" (.str s))
      = canonical ign (docWith top1 top2 svcs1 svcs2 a b n "env_file" (.seq [.map [("path", .str s), ("required", .bool true)]]))
    ∧ canonical ign (docWith top1 top2 svcs1 svcs2 a b n "env_file" (.seq [.str s]))
      = canonical ign (docWith top1 top2 svcs1 svcs2 a b n "env_file" (.seq [.map [("path", .str s), ("required", .bool true)]])) := by
  have hp := (dispatch (seg n) "").2.2.2.2.2.2.2.2.2.1
  obtain ⟨_, h2, h3⟩ := transformEnvFile_short_eq_long s
  constructor <;> apply canonical_service_attr_congr <;>
    rw [attrPath_eq, seg_env_file, transform_leaf_at ign _ _ _ hp (by decide), transform_leaf_at ign _ _ _ hp (by decide)] <;>
    simp [leaf, h2, h3]

/-- `dns: x` ≡ `dns: [x]` (string vs list), whole documents -/
theorem canonical_dns_short_eq_long (ign : Bool) (top1 top2 svcs1 svcs2 a b : Val.KVs) (n s : String) :
    canonical ign (docWith top1 top2 svcs1 svcs2 a b n "dns" (.str s))
      = canonical ign (docWith top1 top2 svcs1 svcs2 a b n "dns" (.seq [.str s])) := by
  apply canonical_service_attr_congr
  have hp := (dispatch (seg n) "").2.2.2.2.2.2.2.2.2.2.2.2.2.1
  rw [attrPath_eq, seg_dns, transform_leaf_at ign _ _ _ hp (by decide), transform_leaf_at ign _ _ _ hp (by decide)]
  simp [leaf, transformStringOrList]

/-- one short port spec: the document with the string has the canonical form of the document with the long entries
(in the order of the code's string sort — a permutation of the grammar's `long`) -/
theorem canonical_ports_short_eq_long (ign : Bool) (top1 top2 svcs1 svcs2 a b : Val.KVs) (n : String)
    (sp : PortSpec) (h : sp.wf = true) :
    ∃ l : List PortCfg, l.Perm sp.long ∧
      canonical ign (docWith top1 top2 svcs1 svcs2 a b n "ports" (.seq [.str (String.ofList sp.render)]))
        = canonical ign (docWith top1 top2 svcs1 svcs2 a b n "ports" (.seq (l.map encodePort))) := by
  obtain ⟨l, hl, ht⟩ := transformPorts_short_eq_long ign sp h
  refine ⟨l, hl, ?_⟩
  apply canonical_service_attr_congr
  have hp := (dispatch (seg n) "").1
  have hid : transformPorts ign (.seq (l.map encodePort)) = .ok (.seq (l.map encodePort)) := by
    have hmap : l.map encodePort = (l.map (fun p => ([("mode", Val.str "ingress")] ++ optStr "host_ip" p.hostIP
        ++ (if p.target = 0 then [] else [("target", Val.int p.target)])
        ++ optStr "published" p.published ++ optStr "protocol" p.protocol : Val.KVs))).map Val.map := by
      simp [List.map_map, Function.comp_def, encodePort]
    rw [hmap]
    exact transformPorts_long_id ign _
  rw [attrPath_eq, seg_ports, transform_leaf_at ign _ _ _ hp (by decide), transform_leaf_at ign _ _ _ hp (by decide)]
  simp [leaf, ht, hid]

/-- one short volume spec anywhere in the `volumes` list ≡ its long mapping (target cleaned), whole documents -/
theorem canonical_volume_short_eq_long (ign : Bool) (top1 top2 svcs1 svcs2 a b : Val.KVs) (n : String)
    (pre post : List Val) (sp : VolSpec) (h : sp.wf = true) :
    canonical ign (docWith top1 top2 svcs1 svcs2 a b n "volumes" (.seq (pre ++ .str (String.ofList sp.render) :: post)))
      = canonical ign (docWith top1 top2 svcs1 svcs2 a b n "volumes"
          (.seq (pre ++ encodeVol { sp.long with target := cleanTarget sp.long.target } :: post))) := by
  apply canonical_service_attr_congr
  rw [attrPath_eq, seg_volumes]
  apply transform_seq_congr _ _ _ _ (volumes_no_handler _)
  apply transformSeq_congr
  have hne : (["services", seg n, "volumes"] : TPath) ≠ TPath.root := by simp [TPath.root]
  rw [TPath.nextK_of_ne_root _ _ hne]
  show transform ign ["services", seg n, "volumes", seg "[]"] _ = transform ign ["services", seg n, "volumes", seg "[]"] _
  have hp := (dispatch (seg n) (seg "[]")).2.1
  rw [transform_leaf_at ign _ _ _ hp (by decide), transform_leaf_at ign _ _ _ hp (by decide)]
  rw [leaf_volume, leaf_volume, transformVolumeMount_short_eq_long ign sp h]
  rfl
/-- non-vacuity: a document with two services, a top-level section before and after, attributes around `depends_on` -/
example :
    canonical false (docWith [("name", .str "p")] [("volumes", .map [("v", .null)])] [("db", .map [("image", .str "i")])] []
        [("image", .str "i")] [("ports", .seq [.str "80"])] "web.1" "depends_on" (.seq [.str "db", .str "cache"]))
    = canonical false (docWith [("name", .str "p")] [("volumes", .map [("v", .null)])] [("db", .map [("image", .str "i")])] []
        [("image", .str "i")] [("ports", .seq [.str "80"])] "web.1" "depends_on"
        (.map [("db", startedRequired), ("cache", startedRequired)])) :=
  canonical_dependsOn_short_eq_long false _ _ _ _ _ _ "web.1" ["db", "cache"] (by decide)

end CV.Short
