import ComposeVerif.Props.C10
import ComposeVerif.Model.ConsistencyGlue
/-!
# C10 — the glue around the two checks: option guards, option copies of `include` / `extends`, composition

`Props/C10.lean` proves what `validation.Validate` and `checkConsistency` decide.  The property speaks about a *load*
("whenever loading succeeds with consistency checks on …, conversely a model that breaks a rule fails to load"): this
module composes the two stage theorems through the code that decides **whether** each check runs
(Model/ConsistencyGlue.lean), and pins that code to the source.
-/
namespace CV.Consistency.Glue
open CV CV.Consistency CV.Validate

/-! ## tie: the guards, the call sites and the option copies in the source now are the modelled ones -/

/-- each check is called exactly once in the load pipeline, each under exactly the modelled option, and in the
modelled function (`validation.Validate` at the end of `loadYamlModel`, i.e. on the merge result of all files;
`checkConsistency` in `modelToProject`) — an added unguarded call, a dropped call or a changed condition changes a
regenerated fact and breaks this theorem -/
theorem check_guards_are_source :
    CV.Gen.c10_checkGuards =
      [("loadYamlModel", "!opts.SkipValidation", ["validation.Validate"]),
       ("loadYamlFile", "!opts.SkipValidation", ["schema.Validate"]),
       ("modelToProject", "!opts.SkipConsistencyCheck", ["checkConsistency"])] ∧
    CV.Gen.c10_checkCalls =
      ["loadYamlModel:validation.Validate", "loadYamlFile:schema.Validate", "modelToProject:checkConsistency"] := by
  decide

/-- the options an included project / the file of an `extends` base are loaded with: a `clone()` followed by exactly
the modelled boolean writes, and `clone` copies the fields the model says it copies -/
theorem option_copies_are_source :
    CV.Gen.c10_includeOptWrites = ("options.clone()", includeWrites) ∧
    CV.Gen.c10_extendsOptWrites = ("opts.clone()", extendsWrites) ∧
    CV.Gen.c10_body_clone =
      "{ return &Options{ SkipValidation: o.SkipValidation, SkipInterpolation: o.SkipInterpolation, SkipNormalization: o.SkipNormalization, ResolvePaths: o.ResolvePaths, ConvertWindowsPaths: o.ConvertWindowsPaths, SkipConsistencyCheck: o.SkipConsistencyCheck, SkipExtends: o.SkipExtends, SkipInclude: o.SkipInclude, SkipResolveEnvironment: o.SkipResolveEnvironment, SkipDefaultValues: o.SkipDefaultValues, Interpolate: o.Interpolate, discardEnvFiles: o.discardEnvFiles, projectName: o.projectName, projectNameImperativelySet: o.projectNameImperativelySet, Profiles: o.Profiles, ResourceLoaders: o.ResourceLoaders, KnownExtensions: o.KnownExtensions, Listeners: o.Listeners, } }" := by
  refine ⟨by decide, by decide, rfl⟩

/-! ## the option copies -/

theorem includeOpts_eq (o : Opts) :
    includeOpts o = { o with resolvePaths := true, skipNormalization := true, skipConsistencyCheck := true } := by
  simp [includeOpts, includeWrites, applyWrite, clone, List.foldl]

theorem extendsOpts_eq (o : Opts) :
    extendsOpts o = { skipValidation := true, skipNormalization := true, resolvePaths := false,
                      skipConsistencyCheck := true, skipExtends := true, skipInclude := true, skipDefaultValues := true } := by
  simp [extendsOpts, extendsWrites, applyWrite, clone, List.foldl]

/-- **an included project keeps the caller's structural validation and never runs the consistency check on its own;
the file of an `extends` base runs neither** ("we validate the merge result") -/
theorem copies_keep_structural_drop_consistency (o : Opts) :
    (includeOpts o).skipValidation = o.skipValidation ∧ (includeOpts o).skipConsistencyCheck = true ∧
    (extendsOpts o).skipValidation = true ∧ (extendsOpts o).skipConsistencyCheck = true := by
  rw [includeOpts_eq, extendsOpts_eq]; exact ⟨rfl, rfl, rfl, rfl⟩

/-- nesting changes nothing: a project included by an included project, and an `extends` base reached from an included
project, are loaded with the same options as at the first level (the copies are taken from copies) -/
theorem includeOpts_idem (o : Opts) : includeOpts (includeOpts o) = includeOpts o := by
  rw [includeOpts_eq (includeOpts o), includeOpts_eq o]

theorem extendsOpts_const (o o' : Opts) : extendsOpts o = extendsOpts o' := by
  rw [extendsOpts_eq, extendsOpts_eq]

/-- which checks a model goes through by itself, per role -/
theorem checksRun_spec (o : Opts) :
    checksRun o .main = (if o.skipValidation then [] else [Check.structural]) ++
                        (if o.skipConsistencyCheck then [] else [Check.consistency]) ∧
    checksRun o .included = (if o.skipValidation then [] else [Check.structural]) ∧
    checksRun o .extended = [] := by
  refine ⟨?_, ?_, ?_⟩
  · cases h1 : o.skipValidation <;> cases h2 : o.skipConsistencyCheck <;>
      simp [checksRun, optsFor, reachesValidate, reachesConsistency, h1, h2]
  · cases h1 : o.skipValidation <;>
      simp [checksRun, optsFor, reachesValidate, reachesConsistency, includeOpts_eq, h1]
  · simp [checksRun, optsFor, reachesValidate, reachesConsistency]

/-- with the default options the main model goes through both checks, structural first -/
theorem checksRun_default : checksRun {} .main = [.structural, .consistency] := by decide

/-! ## composition: a load with both checks on -/

/-- both checks on -/
def ChecksOn (o : Opts) : Prop := o.skipValidation = false ∧ o.skipConsistencyCheck = false

/-- **accepted ⇔ valid and consistent**: with both checks on the two guarded stages let a model through iff the merged
tree passes every structural rule *and* the typed project satisfies the whole specification — every tree, every
project, every iteration order -/
theorem mainChecks_ok_iff (o : Opts) (ho : ChecksOn o) (t : Val) (p : Proj) (hnd : p.enabled.Nodup) :
    (∃ p', mainChecks o t p = .ok p') ↔ ValidTree t ∧ ConsistentFull p := by
  obtain ⟨h1, h2⟩ := ho
  unfold mainChecks structuralStage consistencyStage
  rw [h1, h2]
  simp only [Bool.false_eq_true, if_false]
  constructor
  · rintro ⟨p', h⟩
    cases hv : validate t with
    | err c => rw [hv] at h; cases h
    | panic s => rw [hv] at h; cases h
    | ok =>
      rw [hv] at h
      cases hc : checkConsistency p with
      | some e => rw [hc] at h; cases h
      | none => exact ⟨(validate_iff t).mp hv, (checkConsistency_iff p hnd).mp hc⟩
  · rintro ⟨hv, hc⟩
    rw [(validate_iff t).mpr hv, (checkConsistency_iff p hnd).mpr hc]
    exact ⟨_, rfl⟩

/-- **accepted ⇒ the project handed on is consistent** (it is the input with `deploy.replicas` aligned with `scale`) -/
theorem mainChecks_returns_consistent (o : Opts) (ho : ChecksOn o) (t : Val) (p p' : Proj) (hnd : p.enabled.Nodup)
    (h : mainChecks o t p = .ok p') : p' = postState p ∧ ValidTree t ∧ ConsistentFull p' ∧ Consistent p' := by
  have hok := (mainChecks_ok_iff o ho t p hnd).mp ⟨p', h⟩
  obtain ⟨h1, h2⟩ := ho
  have hc := (checkConsistency_iff p hnd).mpr hok.2
  have hv := (validate_iff t).mpr hok.1
  unfold mainChecks structuralStage consistencyStage at h
  rw [h1, h2] at h
  simp only [Bool.false_eq_true, if_false, hv, hc] at h
  cases h
  have := accepted_returned_consistent p hnd hc
  exact ⟨rfl, hok.1, this, this.consistent⟩

/-- **conversely: a structural violation anywhere in the merged tree, or any broken rule / unsourced secret / cycle in
the project, makes the load fail** -/
theorem mainChecks_rejects (o : Opts) (ho : ChecksOn o) (t : Val) (p : Proj) (hnd : p.enabled.Nodup)
    (hbad : ¬ ValidTree t ∨ ¬ ConsistentFull p) : ∀ p', mainChecks o t p ≠ .ok p' := by
  intro p' h
  have := (mainChecks_ok_iff o ho t p hnd).mp ⟨p', h⟩
  rcases hbad with hb | hb
  · exact hb this.1
  · exact hb this.2

/-- the structural check comes first: its error is the one reported, whatever the project looks like -/
theorem mainChecks_structural_first (o : Opts) (h1 : o.skipValidation = false) (t : Val) (p : Proj) (c : VErr)
    (hv : validate t = .err c) : mainChecks o t p = .structural c := by
  simp [mainChecks, structuralStage, h1, hv]

/-- a consistency error is reported only for a tree that passed the structural rules -/
theorem mainChecks_consistency_after_structural (o : Opts) (h1 : o.skipValidation = false) (t : Val) (p : Proj) (e : Err)
    (h : mainChecks o t p = .consistency e) : ValidTree t ∧ checkConsistency p = some e := by
  unfold mainChecks structuralStage at h
  rw [h1] at h
  simp only [Bool.false_eq_true, if_false] at h
  cases hv : validate t with
  | err c => rw [hv] at h; cases h
  | panic s => rw [hv] at h; cases h
  | ok =>
    rw [hv] at h
    refine ⟨(validate_iff t).mp hv, ?_⟩
    have h' : consistencyStage o p = .consistency e := h
    unfold consistencyStage at h'
    cases h2 : o.skipConsistencyCheck
    · rw [h2] at h'
      simp only [Bool.false_eq_true, if_false] at h'
      cases hc : checkConsistency p with
      | none => rw [hc] at h'; cases h'
      | some e' => rw [hc] at h'; cases h'; rfl
    · rw [h2] at h'
      simp at h'

/-! ## the options are honoured: a skipped check neither rejects nor writes -/

/-- with the consistency check skipped the project is handed on untouched (no `deploy.replicas` write), and the
outcome does not depend on it -/
theorem skipConsistency_frame (o : Opts) (h2 : o.skipConsistencyCheck = true) (t : Val) (p : Proj) :
    mainChecks o t p = .ok p ∨ (∃ c, mainChecks o t p = .structural c) ∨ (∃ s, mainChecks o t p = .panic s) := by
  unfold mainChecks consistencyStage
  rw [h2]
  cases structuralStage o t with
  | ok => exact .inl rfl
  | err c => exact .inr (.inl ⟨c, rfl⟩)
  | panic s => exact .inr (.inr ⟨s, rfl⟩)

/-- with both checks skipped everything is let through unchanged -/
theorem skipped_checks_accept (o : Opts) (h1 : o.skipValidation = true) (h2 : o.skipConsistencyCheck = true)
    (t : Val) (p : Proj) : mainChecks o t p = .ok p := by
  simp [mainChecks, structuralStage, consistencyStage, h1, h2]

/-- with structural validation skipped only the consistency check decides -/
theorem skipValidation_only_consistency (o : Opts) (h1 : o.skipValidation = true) (t : Val) (p : Proj) :
    mainChecks o t p = consistencyStage o p := by
  simp [mainChecks, structuralStage, h1]

/-! ## included projects -/

/-- **a structural violation that lies wholly inside an included project is rejected when that project is loaded**
(the copy of the options keeps `SkipValidation`), before it is merged into the including model -/
theorem includedChecks_iff (o : Opts) (h1 : o.skipValidation = false) (t : Val) :
    includedChecks o t = .ok ↔ ValidTree t := by
  unfold includedChecks structuralStage
  rw [(copies_keep_structural_drop_consistency o).1, h1]
  simp only [Bool.false_eq_true, if_false]
  exact validate_iff t

theorem included_violation_rejected (o : Opts) (h1 : o.skipValidation = false) (t : Val) (hbad : ¬ ValidTree t) :
    includedChecks o t ≠ .ok := fun h => hbad ((includedChecks_iff o h1 t).mp h)

/-! ## a load with included projects -/

def twoSources' : Val := .map [("secrets", .map [("s", .map [("file", .str "f"), ("environment", .str "E")])])]

theorem incFail_none (o : Opts) (i : Val) : incFail o i = none ↔ includedChecks o i = .ok := by
  unfold incFail
  cases includedChecks o i <;> simp

theorem incFail_some_not_ok (o : Opts) (i : Val) (out : Out) (h : incFail o i = some out) : ∀ p', out ≠ .ok p' := by
  unfold incFail at h
  cases hc : includedChecks o i <;> rw [hc] at h <;> simp at h <;> subst h <;> intro p' h' <;> cases h'

theorem findSome_included_none (o : Opts) (incs : List Val) :
    incs.findSome? (incFail o) = none ↔ ∀ i ∈ incs, includedChecks o i = .ok := by
  rw [List.findSome?_eq_none_iff]
  exact forall_congr' fun i => imp_congr_right fun _ => incFail_none o i

/-- **accepted ⇔ every included project is structurally valid on its own, the merge result is valid, and the project is
consistent** (both checks on) -/
theorem loadWithIncludes_ok_iff (o : Opts) (ho : ChecksOn o) (incs : List Val) (t : Val) (p : Proj) (hnd : p.enabled.Nodup) :
    (∃ p', loadWithIncludes o incs t p = .ok p') ↔ (∀ i ∈ incs, ValidTree i) ∧ ValidTree t ∧ ConsistentFull p := by
  unfold loadWithIncludes
  constructor
  · rintro ⟨p', h⟩
    cases hf : incs.findSome? (incFail o) with
    | some out =>
      rw [hf] at h
      obtain ⟨i, -, hi⟩ := List.exists_of_findSome?_eq_some hf
      exact absurd h (incFail_some_not_ok o i out hi p')
    | none =>
      rw [hf] at h
      have hall := (findSome_included_none o incs).mp hf
      exact ⟨fun i hi => (includedChecks_iff o ho.1 i).mp (hall i hi), (mainChecks_ok_iff o ho t p hnd).mp ⟨p', h⟩⟩
  · rintro ⟨hi, hv, hc⟩
    rw [(findSome_included_none o incs).mpr fun i h => (includedChecks_iff o ho.1 i).mpr (hi i h)]
    exact (mainChecks_ok_iff o ho t p hnd).mpr ⟨hv, hc⟩

/-- **a structural violation inside an included project cannot be repaired by the including project**: whatever the
merge result `t` looks like (an override of the including project may have removed the offending attribute with
`!reset`) and whatever the project, the load fails -/
theorem included_violation_not_repairable (o : Opts) (h1 : o.skipValidation = false) (incs : List Val) (i : Val)
    (hi : i ∈ incs) (hbad : ¬ ValidTree i) (t : Val) (p p' : Proj) : loadWithIncludes o incs t p ≠ .ok p' := by
  intro h
  unfold loadWithIncludes at h
  cases hf : incs.findSome? (incFail o) with
  | some out =>
    rw [hf] at h
    obtain ⟨j, -, hj⟩ := List.exists_of_findSome?_eq_some hf
    exact absurd h (incFail_some_not_ok o j out hj p')
  | none =>
    exact included_violation_rejected o h1 i hbad ((findSome_included_none o incs).mp hf i hi)

/-- without included projects it is the main checks -/
theorem loadWithIncludes_nil (o : Opts) (t : Val) (p : Proj) : loadWithIncludes o [] t p = mainChecks o t p := rfl

/-! ## outcome classes (what the stream `c10.glue` compares with whole loads) -/

def vcls : VOut → String
  | .ok => "ok" | .err _ => "structural" | .panic _ => "panic"
def ccls : Option Err → String
  | none => "ok" | some _ => "consistency"
def Out.cls : Out → String
  | .ok _ => "ok" | .structural _ => "structural" | .consistency _ => "consistency" | .panic _ => "panic"

/-- the class of the composed outcome is the first failure of the classes of the two stages taken alone, each under
its option — for every option record, tree and project -/
theorem mainChecks_cls (o : Opts) (t : Val) (p : Proj) :
    (mainChecks o t p).cls = combine o (vcls (validate t)) (ccls (checkConsistency p)) := by
  unfold mainChecks structuralStage consistencyStage combine
  cases h1 : o.skipValidation <;> cases h2 : o.skipConsistencyCheck <;> cases hv : validate t <;>
    cases hc : checkConsistency p <;> simp [vcls, ccls, Out.cls]

theorem combine_ok_iff (o : Opts) (v c : String) :
    combine o v c = "ok" ↔ (o.skipValidation = true ∨ v = "ok") ∧ (o.skipConsistencyCheck = true ∨ c = "ok") := by
  unfold combine
  cases h1 : o.skipValidation <;> cases h2 : o.skipConsistencyCheck <;> by_cases hv : v = "ok" <;> by_cases hc : c = "ok" <;>
    simp [hv, hc]

/-- the class of a load with included projects, from the classes of the stages taken alone -/
theorem incFail_eq (o : Opts) (i : Val) :
    incFail o i = if o.skipValidation then none else
      match validate i with
      | .ok => none
      | .err c => some (Out.structural c)
      | .panic s => some (Out.panic s) := by
  unfold incFail includedChecks structuralStage
  rw [(copies_keep_structural_drop_consistency o).1]
  cases o.skipValidation <;> rfl

theorem combineIncl_cons (o : Opts) (x : String) (xs : List String) (v c : String) :
    combineIncl o (x :: xs) v c =
      if (!(includeOpts o).skipValidation && x != "ok") = true then x else combineIncl o xs v c := by
  unfold combineIncl
  rw [List.find?_cons]
  cases h : (!(includeOpts o).skipValidation && x != "ok") <;> simp

theorem loadWithIncludes_cons (o : Opts) (i : Val) (r : List Val) (t : Val) (p : Proj) :
    loadWithIncludes o (i :: r) t p = match incFail o i with
      | some out => out
      | none => loadWithIncludes o r t p := by
  unfold loadWithIncludes
  rw [List.findSome?_cons]
  cases incFail o i <;> rfl

theorem loadWithIncludes_cls (o : Opts) (incs : List Val) (t : Val) (p : Proj) :
    (loadWithIncludes o incs t p).cls =
      combineIncl o (incs.map fun i => vcls (validate i)) (vcls (validate t)) (ccls (checkConsistency p)) := by
  induction incs with
  | nil => exact mainChecks_cls o t p
  | cons i r ih =>
    rw [loadWithIncludes_cons, List.map_cons, combineIncl_cons, incFail_eq, (copies_keep_structural_drop_consistency o).1]
    cases h1 : o.skipValidation
    · cases hv : validate i with
      | ok =>
        have : (!false && vcls VOut.ok != "ok") = false := by decide
        rw [this]; exact ih
      | err c =>
        have : (!false && vcls (VOut.err c) != "ok") = true := by simp [vcls]
        rw [this]; rfl
      | panic s =>
        have : (!false && vcls (VOut.panic s) != "ok") = true := by simp [vcls]
        rw [this]; rfl
    · have : (!true && vcls (validate i) != "ok") = false := by simp
      rw [this]; exact ih

/-! ## non-vacuity -/

/-- the included project declares a secret with two sources; an override of the including project removed one with
`!reset`, so the merge result (`exampleTree`) is valid — the load fails all the same; declared in the main file it loads -/
example : loadWithIncludes {} [twoSources'] Validate.exampleTree exampleProj = .structural .exclusive := by decide
example : loadWithIncludes {} [] Validate.exampleTree exampleProj = .ok (postState exampleProj) := by decide
example : loadWithIncludes { skipValidation := true } [twoSources'] Validate.exampleTree exampleProj = .ok (postState exampleProj) := by decide

example : ChecksOn {} := ⟨rfl, rfl⟩
example : mainChecks {} Validate.exampleTree exampleProj = .ok (postState exampleProj) := by decide
example : ∃ p', mainChecks {} Validate.exampleTree exampleProj = .ok p' :=
  (mainChecks_ok_iff {} ⟨rfl, rfl⟩ _ _ (by decide)).mpr
    ⟨(validate_iff _).mp (by decide), (consistentB_iff exampleProj (by decide)).mp (by decide)⟩
/-- a dangling network is rejected with the checks on, let through (unchanged) with the consistency check skipped -/
example : mainChecks {} Validate.exampleTree danglingProj = .consistency .undefinedNetwork := by decide
example : mainChecks { skipConsistencyCheck := true } Validate.exampleTree danglingProj = .ok danglingProj := by decide
/-- a secret with two sources: structural error first; with validation skipped the consistency check alone decides -/
def twoSources : Val := .map [("secrets", .map [("s", .map [("file", .str "f"), ("environment", .str "E")])])]
example : mainChecks {} twoSources danglingProj = .structural .exclusive := by decide
example : mainChecks { skipValidation := true } twoSources danglingProj = .consistency .undefinedNetwork := by decide
example : includedChecks {} twoSources = .err .exclusive := by decide
example : includedChecks { skipValidation := true } twoSources = .ok := by decide
example : (includeOpts {}).skipConsistencyCheck = true ∧ (includeOpts {}).skipValidation = false := by decide
example : checksRun {} .included = [.structural] ∧ checksRun {} .extended = [] := by decide

end CV.Consistency.Glue
