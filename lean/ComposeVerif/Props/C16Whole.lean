import ComposeVerif.Props.C16Load
import ComposeVerif.Model.EnvLayersSites
import ComposeVerif.Model.Pipeline
import ComposeVerif.Lemmas.C11KV
import ComposeVerif.Lemmas.C11Norm
/-!
# C16 — the composed clause (round 6)

* the **second call site** of the resolution (`project.WithServicesEnvironmentResolved` on a project loaded with
  `SkipResolveEnvironment`) agrees with the loader's own resolution: `second_call_site_agrees`, `…_fails_iff`,
  `second_call_site_final`;
* **relocation**: a service whose file references are written relative to another directory (included file,
  `extends.file`) resolves exactly like the same service with the files beside the main file:
  `relocation_env`, `relocation_labels`, `relocation_load`.
-/
namespace CV.EnvLayers
open CV.EnvLayers.Spec

/-! ## composition of per-service loops -/

theorem collect_map_ok {α : Type} (r : List (Str × α)) :
    collect (r.map fun p => (p.1, (Except.ok p.2 : Except Err α))) = .ok r := by
  induction r with
  | nil => rfl
  | cons x t ih =>
    obtain ⟨n, a⟩ := x
    simp only [List.map_cons]
    rw [collect_cons_ok, ih]

theorem bind_ok' {α γ : Type} (a : α) (g : α → Except Err γ) : (Except.ok a : Except Err α).bind g = g a := rfl
theorem bind_err' {α γ : Type} (e : Err) (g : α → Except Err γ) : (Except.error e : Except Err α).bind g = .error e := rfl

/-- two per-service loops one after the other succeed exactly when the loop of the composed bodies does, with the same
    result (no state is shared between services in either loop) -/
theorem collect_bind {α β γ : Type} (f : β → Except Err α) (g : α → Except Err γ) (l : List (Str × β))
    (r : List (Str × γ)) :
    (∃ a, collect (l.map fun p => (p.1, f p.2)) = .ok a ∧ collect (a.map fun p => (p.1, g p.2)) = .ok r) ↔
      collect (l.map fun p => (p.1, (f p.2).bind g)) = .ok r := by
  induction l generalizing r with
  | nil =>
    constructor
    · rintro ⟨a, ha, hr⟩
      simp only [List.map_nil, collect, List.filterMap_nil, List.isEmpty_nil, if_true, Except.ok.injEq] at ha
      subst ha
      simpa using hr
    · intro h
      exact ⟨[], rfl, by simpa using h⟩
  | cons x t ih =>
    obtain ⟨n, b⟩ := x
    simp only [List.map_cons]
    cases hf : f b with
    | error e =>
      obtain ⟨es, he⟩ := collect_cons_err (α := α) n e (t.map fun p => (p.1, f p.2))
      obtain ⟨es', he'⟩ := collect_cons_err (α := γ) n e (t.map fun p => (p.1, (f p.2).bind g))
      constructor
      · rintro ⟨a, ha, _⟩; rw [he] at ha; cases ha
      · intro h; rw [bind_err', he'] at h; cases h
    | ok a0 =>
      rw [bind_ok', collect_cons_ok]
      cases hg : g a0 with
      | error e =>
        obtain ⟨es', he'⟩ := collect_cons_err (α := γ) n e (t.map fun p => (p.1, (f p.2).bind g))
        constructor
        · rintro ⟨a, ha, hr⟩
          cases hc : collect (t.map fun p => (p.1, f p.2)) with
          | error es => rw [hc] at ha; cases ha
          | ok a' =>
            rw [hc] at ha
            simp only [Except.ok.injEq] at ha
            subst ha
            simp only [List.map_cons, hg] at hr
            obtain ⟨es, he⟩ := collect_cons_err (α := γ) n e (a'.map fun p => (p.1, g p.2))
            rw [he] at hr; cases hr
        · intro h; rw [he'] at h; cases h
      | ok c0 =>
        rw [collect_cons_ok]
        constructor
        · rintro ⟨a, ha, hr⟩
          cases hc : collect (t.map fun p => (p.1, f p.2)) with
          | error es => rw [hc] at ha; cases ha
          | ok a' =>
            rw [hc] at ha
            simp only [Except.ok.injEq] at ha
            subst ha
            simp only [List.map_cons, hg] at hr
            rw [collect_cons_ok] at hr
            cases hc2 : collect (a'.map fun p => (p.1, g p.2)) with
            | error es => rw [hc2] at hr; cases hr
            | ok r' =>
              rw [hc2] at hr
              rw [(ih r').1 ⟨a', hc, hc2⟩]
              exact hr
        · intro h
          cases hc : collect (t.map fun p => (p.1, (f p.2).bind g)) with
          | error es => rw [hc] at h; cases h
          | ok r' =>
            rw [hc] at h
            obtain ⟨a', ha', hr'⟩ := (ih r').2 hc
            refine ⟨(n, a0) :: a', by rw [ha'], ?_⟩
            simp only [List.map_cons, hg]
            rw [collect_cons_ok, hr']
            exact h

/-- bodies that succeed on the same inputs with the same results give loops that do -/
theorem collect_congr_ok {α β : Type} (F G : β → Except Err α) (hFG : ∀ b a, F b = .ok a ↔ G b = .ok a)
    (l : List (Str × β)) (r : List (Str × α)) :
    collect (l.map fun p => (p.1, F p.2)) = .ok r ↔ collect (l.map fun p => (p.1, G p.2)) = .ok r := by
  induction l generalizing r with
  | nil => exact Iff.rfl
  | cons x t ih =>
    obtain ⟨n, b⟩ := x
    simp only [List.map_cons]
    cases hF : F b with
    | ok a =>
      rw [(hFG b a).1 hF, collect_cons_ok, collect_cons_ok]
      cases hc : collect (t.map fun p => (p.1, F p.2)) with
      | ok r' => rw [(ih r').1 hc]
      | error es =>
        cases hc2 : collect (t.map fun p => (p.1, G p.2)) with
        | ok r' => rw [(ih r').2 hc2] at hc; cases hc
        | error es' => simp
    | error e =>
      cases hG : G b with
      | ok a => rw [(hFG b a).2 hG] at hF; cases hF
      | error e' =>
        obtain ⟨es, he⟩ := collect_cons_err (α := α) n e (t.map fun p => (p.1, F p.2))
        obtain ⟨es', he'⟩ := collect_cons_err (α := α) n e' (t.map fun p => (p.1, G p.2))
        rw [he, he']
        simp

/-! ## the second call site -/

/-- for one service the two Project methods commute wherever both succeed: each reads and writes its own fields -/
theorem env_labels_commute (penv : List (Key × Str)) (fs : FS) (d : Bool) (s s' : Service) :
    (resolveServiceLabels fs d s).bind (resolveServiceEnv penv fs d) = .ok s' ↔
      (resolveServiceEnv penv fs d s).bind (resolveServiceLabels fs d) = .ok s' := by
  unfold resolveServiceLabels resolveServiceEnv
  cases hl : loadLabelFiles fs s.labelFiles [] <;> cases he : loadEnvFiles penv fs s.envFiles [] <;>
    simp [Except.bind, hl, he]

/-- **second_call_site_agrees.**  Loading with `SkipResolveEnvironment` and calling
    `project.WithServicesEnvironmentResolved(discard)` on the loaded project afterwards (labels resolved *before* the
    environments) returns a project exactly when the loader's own resolution (environments *before* labels) does, and
    then the same one: every service has the same `Environment`, `Labels` and file references. -/
theorem second_call_site_agrees (cfg : LoadCfg) (penv : List (Key × Str)) (fs : FS)
    (svcs : List (Str × YEnv × Service)) (r : List (Str × Service)) :
    loadThenResolve cfg penv fs svcs = .ok r ↔
      loadProject { cfg with skipResolveEnvironment := false } penv fs svcs = .ok r := by
  let dec : YEnv × Service → Except Err Service := fun p => .ok { p.2 with environment := loadedEnv cfg penv p.1 }
  have hL : loadThenResolve cfg penv fs svcs = .ok r ↔
      collect (svcs.map fun p => (p.1, ((dec p.2).bind (resolveServiceLabels fs cfg.discard)).bind
        (resolveServiceEnv penv fs cfg.discard))) = .ok r := by
    refine Iff.trans ?_ (collect_bind (fun q => (dec q).bind (resolveServiceLabels fs cfg.discard))
      (resolveServiceEnv penv fs cfg.discard) svcs r)
    unfold loadThenResolve loadProject resolveProjectEnv resolveProjectLabels mapServices
    constructor
    · intro h
      cases h1 : collect (svcs.map fun p => (p.1, loadServiceEnv { cfg with skipResolveEnvironment := true } penv fs p.2.1 p.2.2)) with
      | error es => simp only [h1] at h; cases h
      | ok a1 =>
        simp only [h1] at h
        cases h2 : collect (a1.map fun p => (p.1, resolveServiceLabels fs cfg.discard p.2)) with
        | error es => simp only [h2] at h; cases h
        | ok a2 =>
          simp only [h2] at h
          exact ⟨a2, (collect_bind dec _ svcs a2).1 ⟨a1, h1, h2⟩, h⟩
    · rintro ⟨a2, h12, h3⟩
      obtain ⟨a1, h1, h2⟩ := (collect_bind dec _ svcs a2).2 h12
      have h1' : collect (svcs.map fun p => (p.1, loadServiceEnv { cfg with skipResolveEnvironment := true } penv fs p.2.1 p.2.2)) = .ok a1 := h1
      simp only [h1', h2]
      exact h3
  have hR : loadProject { cfg with skipResolveEnvironment := false } penv fs svcs = .ok r ↔
      collect (svcs.map fun p => (p.1, ((dec p.2).bind (resolveServiceEnv penv fs cfg.discard)).bind
        (resolveServiceLabels fs cfg.discard))) = .ok r := by
    refine Iff.trans ?_ (collect_bind (fun q => (dec q).bind (resolveServiceEnv penv fs cfg.discard))
      (resolveServiceLabels fs cfg.discard) svcs r)
    unfold loadProject resolveProjectLabels mapServices
    constructor
    · intro h
      cases h1 : collect (svcs.map fun p => (p.1, loadServiceEnv { cfg with skipResolveEnvironment := false } penv fs p.2.1 p.2.2)) with
      | error es => simp only [h1] at h; cases h
      | ok a1 => simp only [h1] at h; exact ⟨a1, h1, h⟩
    · rintro ⟨a1, h1, h2⟩
      have h1' : collect (svcs.map fun p => (p.1, loadServiceEnv { cfg with skipResolveEnvironment := false } penv fs p.2.1 p.2.2)) = .ok a1 := h1
      simp only [h1']
      exact h2
  rw [hL, hR]
  exact collect_congr_ok
    (fun p : YEnv × Service => ((dec p).bind (resolveServiceLabels fs cfg.discard)).bind (resolveServiceEnv penv fs cfg.discard))
    (fun p : YEnv × Service => ((dec p).bind (resolveServiceEnv penv fs cfg.discard)).bind (resolveServiceLabels fs cfg.discard))
    (fun p a => env_labels_commute penv fs cfg.discard { p.2 with environment := loadedEnv cfg penv p.1 } a) svcs r

/-- **second_call_site_fails_iff.**  … and fails exactly when the loader's own resolution fails (the error may be that
    of another phase: at the second site label files are read first). -/
theorem second_call_site_fails_iff (cfg : LoadCfg) (penv : List (Key × Str)) (fs : FS)
    (svcs : List (Str × YEnv × Service)) :
    (∃ es, loadThenResolve cfg penv fs svcs = .error es) ↔
      ∃ es, loadProject { cfg with skipResolveEnvironment := false } penv fs svcs = .error es := by
  have key := second_call_site_agrees cfg penv fs svcs
  cases h1 : loadThenResolve cfg penv fs svcs with
  | ok r => rw [(key r).1 h1]
  | error es =>
    cases h2 : loadProject { cfg with skipResolveEnvironment := false } penv fs svcs with
    | ok r => rw [(key r).2 h2] at h1; cases h1
    | error es' => simp

/-- **second_call_site_final.**  The documented layering holds at the second call site: for a service of a project
    loaded with `SkipResolveEnvironment` and resolved afterwards, `Environment` and `Labels` are `finalEnv` / `finalLabelY`
    of what the YAML says — whatever `load_service_final_y` gives for the loader's own resolution. -/
theorem second_call_site_final_y (cfg : LoadCfg) (penv : List (Key × Str)) (fs : FS) (svcs : List (Str × YService))
    (r : List (Str × Service)) (h : loadThenResolveY cfg penv fs svcs = .ok r) :
    loadProjectY { cfg with skipResolveEnvironment := false } penv fs svcs = .ok r :=
  (second_call_site_agrees cfg penv fs _ r).1 h

/-! ## relocation: services whose files live in another directory -/

theorem loadMappingFile_reloc (ρ : Str → Str) (fs fs' : FS) (h : FS.Relocates ρ fs fs') (p format : Str) (look : Look) :
    loadMappingFile fs' (ρ p) format look = loadMappingFile fs p format look := by
  unfold loadMappingFile parseWithFormat
  rw [h.1 p, h.2]

theorem loadEnvFile_reloc (ρ : Str → Str) (fs fs' : FS) (h : FS.Relocates ρ fs fs') (f : EnvFile) (look : Look) :
    loadEnvFile fs' (f.reloc ρ) look = loadEnvFile fs f look := by
  unfold loadEnvFile EnvFile.reloc
  simp only [h.1 f.path, loadMappingFile_reloc ρ fs fs' h]

theorem loadLabelFile_reloc (ρ : Str → Str) (fs fs' : FS) (h : FS.Relocates ρ fs fs') (p : Str) (look : Look) :
    loadLabelFile fs' (ρ p) look = loadLabelFile fs p look := by
  unfold loadLabelFile
  simp only [h.1 p, loadMappingFile_reloc ρ fs fs' h]

theorem loadEnvFiles_reloc (ρ : Str → Str) (fs fs' : FS) (h : FS.Relocates ρ fs fs') (penv : List (Key × Str))
    (fl : List EnvFile) (acc : List (Key × Str)) :
    loadEnvFiles penv fs' (fl.map (EnvFile.reloc ρ)) acc = loadEnvFiles penv fs fl acc := by
  induction fl generalizing acc with
  | nil => rfl
  | cons f t ih =>
    simp only [List.map_cons, loadEnvFiles, loadEnvFile_reloc ρ fs fs' h]
    cases loadEnvFile fs f (envChain penv acc) with
    | error e => rfl
    | ok vars => exact ih _

theorem loadLabelFiles_reloc (ρ : Str → Str) (fs fs' : FS) (h : FS.Relocates ρ fs fs')
    (fl : List Str) (acc : List (Key × Str)) :
    loadLabelFiles fs' (fl.map ρ) acc = loadLabelFiles fs fl acc := by
  induction fl generalizing acc with
  | nil => rfl
  | cons f t ih =>
    simp only [List.map_cons, loadLabelFiles, loadLabelFile_reloc ρ fs fs' h]
    cases loadLabelFile fs f (labelChain acc) with
    | error e => rfl
    | ok vars => exact ih _

/-- **relocation_env.**  A service whose `env_file` references are renamed by `ρ` (written relative to the directory of
    an included / extended file and rewritten by the loader), in a world where `ρ p` holds what `p` held, resolves to the
    same outcome: same failure, or the same `Environment` / `Labels` with the renamed references. No hypothesis on `ρ`
    (two references may even be renamed to one path). -/
theorem relocation_env (ρ : Str → Str) (fs fs' : FS) (h : FS.Relocates ρ fs fs') (penv : List (Key × Str)) (d : Bool)
    (s : Service) :
    resolveServiceEnv penv fs' d (s.reloc ρ) = (resolveServiceEnv penv fs d s).map (Service.reloc ρ) := by
  unfold resolveServiceEnv Service.reloc
  simp only [loadEnvFiles_reloc ρ fs fs' h]
  cases loadEnvFiles penv fs s.envFiles [] with
  | error e => rfl
  | ok acc => cases d <;> simp [Except.map]

/-- **relocation_labels.**  The same for `label_file`. -/
theorem relocation_labels (ρ : Str → Str) (fs fs' : FS) (h : FS.Relocates ρ fs fs') (d : Bool) (s : Service) :
    resolveServiceLabels fs' d (s.reloc ρ) = (resolveServiceLabels fs d s).map (Service.reloc ρ) := by
  unfold resolveServiceLabels Service.reloc
  simp only [loadLabelFiles_reloc ρ fs fs' h]
  cases loadLabelFiles fs s.labelFiles [] with
  | error e => rfl
  | ok acc => cases d <;> simp [Except.map]

/-- **relocation_final.**  Hence the final value of every key is the layering of the files *as found through `ρ`*:
    `finalEnv` of the contents `fs` has at the written paths. -/
theorem relocation_final (ρ : Str → Str) (fs fs' : FS) (h : FS.Relocates ρ fs fs') (penv : List (Key × Str)) (d : Bool)
    (s s' : Service) (hwf : WFFS fs) (hd : Distinct s.environment)
    (hok : resolveServiceEnv penv fs' d (s.reloc ρ) = .ok s') (k : Key) :
    lookup k s'.environment = finalEnv penv (envContents fs s.envFiles) s.environment k := by
  rw [relocation_env ρ fs fs' h] at hok
  cases h1 : resolveServiceEnv penv fs d s with
  | error e => rw [h1] at hok; cases hok
  | ok s1 =>
    rw [h1] at hok
    simp only [Except.map, Except.ok.injEq] at hok
    subst hok
    exact env_precedence penv fs d s s1 hwf hd h1 k


/-! ## the composed pipeline (`Model/Pipeline.lean`): its two stages that resolve value-less entries are C16's -/
section PipelineBridge
open CV CV.Val



theorem lookup_penvOf (env : List (String × String)) (s : String) :
    lookup s.toList (penvOf env) = (env.lookup s).map String.toList := by
  induction env with
  | nil => rfl
  | cons e r ih =>
    obtain ⟨k, b⟩ := e
    by_cases h : s = k
    · subst h; simp [penvOf, lookup, List.lookup_cons]
    · have h' : ¬ k.toList = s.toList := fun e => h (String.toList_inj.1 e).symm
      have hb : (s == k) = false := by simpa using h
      simp only [penvOf, List.map_cons, lookup, h', if_false, List.lookup_cons, hb]
      exact ih

/-- **pipeline_item.**  One element of `resolveServicesEnvironment` as the composed pipeline has it (on the tree) is
    C16's `resolveSeqItem` on the tokenised element: the *whole text* is looked up. -/
theorem pipeline_item (env : List (String × String)) (it : Item) :
    Pipeline.resolveEnvItem env it.val = some (resolveSeqItem (penvOf env) it).val := by
  unfold Pipeline.resolveEnvItem Item.val resolveSeqItem
  have hl := lookup_penvOf env (String.ofList it.text)
  simp only [String.toList_ofList] at hl
  rw [hl]
  cases hf : List.lookup (String.ofList it.text) env with
  | none => simp only [hf, Option.map_none]
  | some found =>
    simp only [hf, Option.map_some, Option.some.injEq, Val.str.injEq]
    apply String.toList_inj.1
    cases it with
    | kv k v => simp [Item.text]
    | bare k => simp [Item.text]


theorem filterMap_items (env : List (String × String)) (items : List Item) :
    (items.map Item.val).filterMap (Pipeline.resolveEnvItem env) = (items.map (resolveSeqItem (penvOf env))).map Item.val := by
  induction items with
  | nil => rfl
  | cons it t ih => simp only [List.map_cons, List.filterMap_cons, pipeline_item, ih]

/-- **pipeline_service_env.**  `resolveServicesEnvironment` on one service of the tree: a sequence-form `environment`
    becomes the sequence of C16's `resolveSeqItem`s, in place; nothing else of the service changes. -/
theorem pipeline_service_env (env : List (String × String)) (cfg : KVs) (items : List Item)
    (h : Val.lookup "environment" cfg = some (seqVal items)) :
    Pipeline.resolveServiceEnv env (.map cfg) =
      .map (Val.insert "environment" (seqVal (items.map (resolveSeqItem (penvOf env)))) cfg) := by
  unfold Pipeline.resolveServiceEnv
  simp only [h, seqVal, filterMap_items]

theorem lookup_map_services (f : Val → Val) (n : String) (svcs : KVs) :
    Val.lookup n (svcs.map fun kv => (kv.1, f kv.2)) = (Val.lookup n svcs).map f := by
  induction svcs with
  | nil => rfl
  | cons e r ih =>
    obtain ⟨k, v⟩ := e
    by_cases hk : n = k
    · simp [Val.lookup, hk]
    · simp [Val.lookup, hk, ih]

theorem lookup_services_resolveSection (sect carrier : String) (env : Secrets.Env) (dict : KVs) (h : "services" ≠ sect) :
    Val.lookup "services" (Secrets.resolveSection sect carrier env dict) = Val.lookup "services" dict := by
  unfold Secrets.resolveSection
  split
  · exact Val.lookup_insert_ne h _ _
  · rfl

/-- what the last stage of `loadYamlModel` (`ResolveEnvironment`) does to service `n` of the model -/
theorem pipeline_resolveEnvironment_service (env : List (String × String)) (dict svcs cfg : KVs) (items : List Item)
    (n : String) (hs : Val.lookup "services" dict = some (.map svcs)) (hn : Val.lookup n svcs = some (.map cfg))
    (he : Val.lookup "environment" cfg = some (seqVal items)) :
    ∃ svcs', Val.lookup "services" (Pipeline.resolveEnvironment env dict) = some (.map svcs') ∧
      Val.lookup n svcs' = some (.map (Val.insert "environment" (seqVal (items.map (resolveSeqItem (penvOf env)))) cfg)) := by
  refine ⟨svcs.map fun kv => (kv.1, Pipeline.resolveServiceEnv env kv.2), ?_, ?_⟩
  · unfold Pipeline.resolveEnvironment Secrets.resolveConfigsEnv Secrets.resolveSecretsEnv
    rw [lookup_services_resolveSection _ _ _ _ (by decide), lookup_services_resolveSection _ _ _ _ (by decide)]
    unfold Pipeline.resolveServicesEnv
    simp only [hs]
    exact Val.lookup_insert_self _ _ _
  · rw [lookup_map_services, hn, Option.map_some, pipeline_service_env env cfg items he]

theorem out_bind_ok {α β : Type} {x : Pipeline.Out α} {f : α → Pipeline.Out β} {b : β} (h : x.bind f = .ok b) :
    ∃ a, x = .ok a ∧ f a = .ok b := by
  cases x with
  | ok a => exact ⟨a, rfl, h⟩
  | err e => cases h
  | panic s => cases h

/-- **pipeline_load_env_clause.**  The clause of C16 about the *whole composed function* `Pipeline.load` (every option
    combination, any list of documents; normalization off — with it `C11.normalize` follows and resolves the same
    entries once more): the returned model is `ResolveEnvironment` of the model that left the path stage, so for every
    service whose `environment` reached that point in sequence form, each element whose whole text names a variable of
    the project environment has become `text=value` (C16's `resolveSeqItem`), the others are unchanged, in order. -/
theorem pipeline_load_env_clause (c : Pipeline.Cfg) (docs : List KVs) (out : KVs)
    (hskip : c.opts.skipNormalization = true) (h : Pipeline.load c docs = .ok out) :
    ∃ dict, out = Pipeline.resolveEnvironment c.env dict ∧
      ∀ (svcs cfg : KVs) (items : List Item) (n : String), Val.lookup "services" dict = some (.map svcs) →
        Val.lookup n svcs = some (.map cfg) → Val.lookup "environment" cfg = some (seqVal items) →
        ∃ svcs', Val.lookup "services" out = some (.map svcs') ∧
          Val.lookup n svcs' = some (.map (Val.insert "environment" (seqVal (items.map (resolveSeqItem (penvOf c.env)))) cfg)) := by
  unfold Pipeline.load at h
  split at h
  · cases h
  · obtain ⟨m, hm, hfin⟩ := out_bind_ok h
    unfold Pipeline.loadYamlModel at hm
    obtain ⟨d0, hd0, hfm⟩ := out_bind_ok hm
    unfold Pipeline.finishModel at hfm
    obtain ⟨d1, hd1, h1⟩ := out_bind_ok hfm
    obtain ⟨d2, hd2, h2⟩ := out_bind_ok h1
    obtain ⟨d3, hd3, h3⟩ := out_bind_ok h2
    unfold Pipeline.envStage at h3
    split at h3
    · rename_i kvs
      simp only [Pipeline.Out.ok.injEq] at h3
      unfold Pipeline.finishLoad at hfin
      simp only [hskip, if_true] at hfin
      split at hfin
      · cases hfin
      · split at hfin
        · cases hfin
        · simp only [Pipeline.Out.ok.injEq] at hfin
          subst hfin
          subst h3
          exact ⟨kvs, rfl, fun svcs cfg items n hs hn he =>
            pipeline_resolveEnvironment_service c.env kvs svcs cfg items n hs hn he⟩
    · cases h3


theorem envLookup_penvOf (env : List (String × String)) (s : String) :
    lookup s.toList (penvOf env) = (C11.envLookup env s).map String.toList := by
  induction env with
  | nil => rfl
  | cons e r ih =>
    obtain ⟨k, b⟩ := e
    by_cases h : s = k
    · subst h; simp [penvOf, lookup, C11.envLookup]
    · have h' : ¬ k.toList = s.toList := fun e => h (String.toList_inj.1 e).symm
      simp only [penvOf, List.map_cons, lookup, h', if_false, C11.envLookup, h]
      exact ih


/-- **normalize_item.**  `Normalize`'s `resolve(e, fn, keepEmpty = true)` on one element of the sequence form, as C11's
    model (the stage inside `Pipeline.load`) has it on the tree, is C16's `normalizeItem` — for elements tokenised at
    their first `=` (the key contains none). -/
theorem normalize_item (env : List (String × String)) (it : Item) (hk : '=' ∉ it.key) :
    C11.resolveStr env true (String.ofList it.text) = ((normalizeItem (penvOf env) it).val, true) := by
  unfold C11.resolveStr C11.containsChar
  cases it with
  | kv k v => simp [Item.text, normalizeItem, Item.val]
  | bare k =>
    have hc : (String.ofList k).toList.contains '=' = false := by
      simpa [Item.key] using hk
    have hl := envLookup_penvOf env (String.ofList k)
    simp only [String.toList_ofList] at hl
    simp only [hc, Bool.false_eq_true, if_false, Item.text, normalizeItem, hl]
    cases hf : C11.envLookup env (String.ofList k) with
    | none => simp [Item.val, Item.text]
    | some found =>
      simp only [Option.map_some, Item.val, Item.text, Prod.mk.injEq, Val.str.injEq, and_true]
      apply String.toList_inj.1
      simp

theorem normalize_items (env : List (String × String)) (items : List Item) (hk : ∀ it ∈ items, '=' ∉ it.key) :
    C11.resolveList env true (items.map Item.val) = (items.map (normalizeItem (penvOf env))).map Item.val := by
  induction items with
  | nil => simp [C11.resolveList]
  | cons it t ih =>
    have h1 := normalize_item env it (hk it (by simp))
    simp only [List.map_cons, C11.resolveList, Item.val, C11.resolve] at h1 ⊢
    rw [h1]
    simp only [List.cons.injEq, true_and]
    exact ih fun i hi => hk i (by simp [hi])


theorem normalize_pairs_tree (env : List (String × String)) (kvs : List (Key × Option Str)) :
    C11.resolveKVs env true (mapVal kvs) = mapVal (kvs.map (normalizePair (penvOf env))) := by
  induction kvs with
  | nil => rfl
  | cons kv t ih =>
    obtain ⟨k, v⟩ := kv
    cases v with
    | some x => simp only [mapVal, List.map_cons, C11.resolveKVs, normalizePair] at ih ⊢; rw [ih]
    | none =>
      have hl := envLookup_penvOf env (String.ofList k)
      simp only [String.toList_ofList] at hl
      simp only [mapVal, List.map_cons, C11.resolveKVs, normalizePair, hl] at ih ⊢
      cases hf : C11.envLookup env (String.ofList k) with
      | none => simp only [Option.map_none, if_true]; rw [ih]
      | some found => simp only [Option.map_some, String.ofList_toList]; rw [ih]


theorem resolveSeqItem_key (penv : List (Key × Str)) (it : Item) : (resolveSeqItem penv it).key = it.key := by
  unfold resolveSeqItem
  cases lookup it.text penv <;> cases it <;> rfl

/-- **pipeline_two_stages_seq.**  The two stages of `Pipeline.load` that touch a sequence-form `environment` —
    `ResolveEnvironment` at the end of `loadYamlModel`, then `Normalize`'s `resolve(…, keepEmpty = true)` — composed on the
    tree are C16's `normalizeEnv ∘ resolveSeqEnv` (what `loadedEnv` decodes), element by element and in order. -/
theorem pipeline_two_stages_seq (env : List (String × String)) (items : List Item) (hk : ∀ it ∈ items, '=' ∉ it.key) :
    (C11.resolve env true (seqVal (items.map (resolveSeqItem (penvOf env))))).1 =
      seqVal ((items.map (resolveSeqItem (penvOf env))).map (normalizeItem (penvOf env))) := by
  simp only [seqVal, C11.resolve]
  rw [normalize_items]
  intro it hit
  obtain ⟨i0, hi0, rfl⟩ := List.mem_map.1 hit
  rw [resolveSeqItem_key]
  exact hk i0 hi0

/-- **pipeline_normalize_map.**  … and on the mapping form (which `ResolveEnvironment` leaves alone) `Normalize` is
    C16's `normalizePair` on every entry: `k:` (null) takes the project environment's value, else stays null. -/
theorem pipeline_normalize_map (env : List (String × String)) (kvs : List (Key × Option Str)) :
    (C11.resolve env true (.map (mapVal kvs))).1 = .map (mapVal (kvs.map (normalizePair (penvOf env)))) := by
  simp only [C11.resolve]
  rw [normalize_pairs_tree]

end PipelineBridge

/-! ## through `Normalize`: the clause about `Pipeline.load` with the loader's default options -/
section PipelineNormalize
open CV CV.Val

theorem lookup_env_nnService (cfg : KVs) : Val.lookup "environment" (C11.nnService cfg) = Val.lookup "environment" cfg := by
  unfold C11.nnService
  split
  · rfl
  · split
    · exact Val.lookup_insert_ne (by decide) _ _
    · exact Val.lookup_insert_ne (by decide) _ _
    · rfl

theorem lookup_env_normService (clean : String → String) (env : C11.Env) (s : KVs) :
    Val.lookup "environment" (C11.normService clean env s) =
      (Val.lookup "environment" s).map fun e => (C11.resolve env true e).1 := by
  unfold C11.normService C11.setDeps
  split
  · rw [C11.lookup_mapAt]; cases Val.lookup "environment" s <;> simp [C11.svcAttr]
  · rw [Val.lookup_insert_ne (by decide), C11.lookup_mapAt]; cases Val.lookup "environment" s <;> simp [C11.svcAttr]

/-- **normalize_env_clause.**  What `Normalize` (C11's model, the last stage of `Pipeline.load`) does to the `environment`
    of service `n`: exactly `resolve(e, fn, keepEmpty = true)`; the network / depends_on / name parts leave it alone. -/
theorem normalize_env_clause (clean : String → String) (env : C11.Env) (d d' svcs cfg : KVs) (n : String) (e : Val)
    (h : C11.normalize clean env d = .ok d') (hs : Val.lookup "services" d = some (.map svcs))
    (hn : Val.lookup n svcs = some (.map cfg)) (he : Val.lookup "environment" cfg = some e) :
    ∃ svcs' cfg', Val.lookup "services" d' = some (.map svcs') ∧ Val.lookup n svcs' = some (.map cfg') ∧
      Val.lookup "environment" cfg' = some (C11.resolve env true e).1 := by
  unfold C11.normalize at h
  split at h
  · cases h
  · split at h
    · cases h
    · split at h
      · cases h
      · simp only [C11.Out.ok.injEq] at h
        subst h
        have h1 : Val.lookup "services" (C11.normNetworks d) = some (.map (C11.mapVals C11.nnServiceV svcs)) := by
          unfold C11.normNetworks
          have hb : Val.lookup "services" (C11.nnServices d) = some (.map (C11.mapVals C11.nnServiceV svcs)) := by
            unfold C11.nnServices
            rw [C11.lookup_mapAt, hs]
            simp [C11.nnTop]
          cases C11.nnNetworks d with
          | nil => exact hb
          | cons x t => simp only []; rw [Val.lookup_insert_ne (by decide)]; exact hb
        have h2 : Val.lookup "services" (C11.normServices clean env (C11.normNetworks d)) =
            some (.map (C11.mapVals (C11.normServiceV clean env) (C11.mapVals C11.nnServiceV svcs))) := by
          unfold C11.normServices
          rw [C11.lookup_mapAt, h1]
          simp [C11.nsTop]
        refine ⟨C11.mapVals (C11.normServiceV clean env) (C11.mapVals C11.nnServiceV svcs), C11.normService clean env (C11.nnService cfg), ?_, ?_, ?_⟩
        · unfold C11.normalizePure C11.setNames
          rw [C11.lookup_mapAt, h2]
          simp [C11.namesTop, C11.resourceNames]
        · rw [C11.lookup_mapVals, C11.lookup_mapVals, hn]
          rfl
        · rw [lookup_env_normService, lookup_env_nnService, he]
          rfl

/-- **pipeline_load_env_final_seq.**  The clause about the *whole* composed function with normalization **on** (the
    loader's default): for every configuration and list of documents on which `Pipeline.load` returns a model, every
    service whose `environment` left the path stage in sequence form (elements tokenised at their first `=`) has, in the
    returned model, exactly the tree of C16's `normalizeEnv (resolveSeqEnv y)` — the value `loadedEnv` decodes, which
    `load_env_precedence` connects to `finalEnv`. -/
theorem pipeline_load_env_final_seq (c : Pipeline.Cfg) (docs : List KVs) (out : KVs)
    (hnorm : c.opts.skipNormalization = false) (h : Pipeline.load c docs = .ok out) :
    ∃ dict, ∀ (svcs cfg : KVs) (items : List Item) (n : String), Val.lookup "services" dict = some (.map svcs) →
        Val.lookup n svcs = some (.map cfg) → Val.lookup "environment" cfg = some (seqVal items) →
        (∀ it ∈ items, '=' ∉ it.key) →
        ∃ svcs' cfg', Val.lookup "services" out = some (.map svcs') ∧ Val.lookup n svcs' = some (.map cfg') ∧
          Val.lookup "environment" cfg' =
            some (seqVal ((items.map (resolveSeqItem (penvOf c.env))).map (normalizeItem (penvOf c.env)))) := by
  unfold Pipeline.load at h
  split at h
  · cases h
  · obtain ⟨m, hm, hfin⟩ := out_bind_ok h
    unfold Pipeline.loadYamlModel at hm
    obtain ⟨d0, hd0, hfm⟩ := out_bind_ok hm
    unfold Pipeline.finishModel at hfm
    obtain ⟨d1, hd1, h1⟩ := out_bind_ok hfm
    obtain ⟨d2, hd2, h2⟩ := out_bind_ok h1
    obtain ⟨d3, hd3, h3⟩ := out_bind_ok h2
    unfold Pipeline.envStage at h3
    split at h3
    · rename_i kvs
      simp only [Pipeline.Out.ok.injEq] at h3
      subst h3
      refine ⟨kvs, fun svcs cfg items n hs hn he hk => ?_⟩
      obtain ⟨svcs1, hs1, hn1⟩ := pipeline_resolveEnvironment_service c.env kvs svcs cfg items n hs hn he
      unfold Pipeline.finishLoad at hfin
      simp only [hnorm] at hfin
      split at hfin
      · cases hfin
      · split at hfin
        · cases hfin
        · simp only [Bool.false_eq_true, if_false] at hfin
          cases hN : C11.normalize c.clean c.env (Val.insert "name" (.str c.projectName) (Pipeline.resolveEnvironment c.env kvs)) with
          | ok d' =>
            rw [hN] at hfin
            simp only [Pipeline.ofC11, Pipeline.Out.ok.injEq] at hfin
            subst hfin
            have hs2 : Val.lookup "services" (Val.insert "name" (.str c.projectName) (Pipeline.resolveEnvironment c.env kvs)) = some (.map svcs1) := by
              rw [Val.lookup_insert_ne (by decide)]; exact hs1
            obtain ⟨svcs', cfg', h1', h2', h3'⟩ := normalize_env_clause c.clean c.env _ d' svcs1 _ n _ hN hs2 hn1
              (Val.lookup_insert_self _ _ _)
            exact ⟨svcs', cfg', h1', h2', by rw [h3', pipeline_two_stages_seq c.env items hk]⟩
          | err e => rw [hN] at hfin; simp [Pipeline.ofC11] at hfin
          | panic e => rw [hN] at hfin; simp [Pipeline.ofC11] at hfin
    · cases h3

/-- `resolveServicesEnvironment` leaves a mapping-form `environment` alone (`serviceConfig["environment"].([]any)` fails) -/
theorem pipeline_resolveEnvironment_service_map (env : List (String × String)) (dict svcs cfg m : KVs)
    (n : String) (hs : Val.lookup "services" dict = some (.map svcs)) (hn : Val.lookup n svcs = some (.map cfg))
    (he : Val.lookup "environment" cfg = some (.map m)) :
    ∃ svcs', Val.lookup "services" (Pipeline.resolveEnvironment env dict) = some (.map svcs') ∧
      Val.lookup n svcs' = some (.map cfg) := by
  refine ⟨svcs.map fun kv => (kv.1, Pipeline.resolveServiceEnv env kv.2), ?_, ?_⟩
  · unfold Pipeline.resolveEnvironment Secrets.resolveConfigsEnv Secrets.resolveSecretsEnv
    rw [lookup_services_resolveSection _ _ _ _ (by decide), lookup_services_resolveSection _ _ _ _ (by decide)]
    unfold Pipeline.resolveServicesEnv
    simp only [hs]
    exact Val.lookup_insert_self _ _ _
  · rw [lookup_map_services, hn, Option.map_some]
    simp only [Pipeline.resolveServiceEnv, he]

/-- **pipeline_load_env_final_map.**  The same clause for the mapping form: in the model `Pipeline.load` returns (default
    options) a mapping-form `environment` is the tree of C16's `normalizeEnv y` — `k:` (null) has taken the project
    environment's value when there is one and stays null otherwise; `ResolveEnvironment` did not touch it. -/
theorem pipeline_load_env_final_map (c : Pipeline.Cfg) (docs : List KVs) (out : KVs)
    (hnorm : c.opts.skipNormalization = false) (h : Pipeline.load c docs = .ok out) :
    ∃ dict, ∀ (svcs cfg : KVs) (kvs : List (Key × Option Str)) (n : String), Val.lookup "services" dict = some (.map svcs) →
        Val.lookup n svcs = some (.map cfg) → Val.lookup "environment" cfg = some (.map (mapVal kvs)) →
        ∃ svcs' cfg', Val.lookup "services" out = some (.map svcs') ∧ Val.lookup n svcs' = some (.map cfg') ∧
          Val.lookup "environment" cfg' = some (.map (mapVal (kvs.map (normalizePair (penvOf c.env))))) := by
  unfold Pipeline.load at h
  split at h
  · cases h
  · obtain ⟨m, hm, hfin⟩ := out_bind_ok h
    unfold Pipeline.loadYamlModel at hm
    obtain ⟨d0, hd0, hfm⟩ := out_bind_ok hm
    unfold Pipeline.finishModel at hfm
    obtain ⟨d1, hd1, h1⟩ := out_bind_ok hfm
    obtain ⟨d2, hd2, h2⟩ := out_bind_ok h1
    obtain ⟨d3, hd3, h3⟩ := out_bind_ok h2
    unfold Pipeline.envStage at h3
    split at h3
    · rename_i kvs0
      simp only [Pipeline.Out.ok.injEq] at h3
      subst h3
      refine ⟨kvs0, fun svcs cfg kvs n hs hn he => ?_⟩
      obtain ⟨svcs1, hs1, hn1⟩ := pipeline_resolveEnvironment_service_map c.env kvs0 svcs cfg _ n hs hn he
      unfold Pipeline.finishLoad at hfin
      simp only [hnorm] at hfin
      split at hfin
      · cases hfin
      · split at hfin
        · cases hfin
        · simp only [Bool.false_eq_true, if_false] at hfin
          cases hN : C11.normalize c.clean c.env (Val.insert "name" (.str c.projectName) (Pipeline.resolveEnvironment c.env kvs0)) with
          | ok d' =>
            rw [hN] at hfin
            simp only [Pipeline.ofC11, Pipeline.Out.ok.injEq] at hfin
            subst hfin
            have hs2 : Val.lookup "services" (Val.insert "name" (.str c.projectName) (Pipeline.resolveEnvironment c.env kvs0)) = some (.map svcs1) := by
              rw [Val.lookup_insert_ne (by decide)]; exact hs1
            obtain ⟨svcs', cfg', h1', h2', h3'⟩ := normalize_env_clause c.clean c.env _ d' svcs1 _ n _ hN hs2 hn1 he
            exact ⟨svcs', cfg', h1', h2', by rw [h3', pipeline_normalize_map c.env kvs]⟩
          | err e => rw [hN] at hfin; simp [Pipeline.ofC11] at hfin
          | panic e => rw [hN] at hfin; simp [Pipeline.ofC11] at hfin
    · cases h3

end PipelineNormalize

/-! ## non-vacuity -/
namespace Example

/-- the world of `Example.fs0` moved under `b/` -/
def fsB : FS := { node := fun q => match q with
  | 'b' :: '/' :: p => fs0.node p
  | _ => none }

/-- hypotheses of `relocation_env` / `relocation_labels` / `relocation_final`: `fsB` holds at `b/p` what `fs0` holds at
    `p`; the relocated `s0` lists `b/f1`, `b/f3`, `b/f2` and resolves to the same environment (`A` from the later file,
    `C` from the project environment, `D` unset), references renamed -/
example : FS.Relocates (fun p => 'b' :: '/' :: p) fs0 fsB ∧
    (s0.reloc (fun p => 'b' :: '/' :: p)).envFiles.map EnvFile.path = [['b', '/', 'f', '1'], ['b', '/', 'f', '3'], ['b', '/', 'f', '2']] ∧
    (resolveServiceEnv penv0 fsB false (s0.reloc (fun p => 'b' :: '/' :: p))).map (fun s' =>
      (([['A'], ['C'], ['D']] : List Key).map fun k => lookup k s'.environment, s'.envFiles.map EnvFile.path)) =
    .ok ([some (some ['2']), some (some ['c']), some none], [['b', '/', 'f', '1'], ['b', '/', 'f', '3'], ['b', '/', 'f', '2']]) := by
  refine ⟨⟨fun _ => rfl, rfl⟩, by decide, by decide⟩

/-- `second_call_site_agrees` on `s0`: both orders succeed with the same project; and a service on which they fail with
    *different* errors, as `second_call_site_fails_iff` allows: its env file `d` is a directory (`read`, reported by the
    loader, which resolves environments first), its label file `n` is missing (`notFound`, reported at the second site,
    where the loader has read the label files before the caller resolves the environment) -/
example :
    loadThenResolve ⟨false, false, true⟩ penv0 fs0 [(['s'], .absent, s0)] =
      loadProject ⟨false, false, true⟩ penv0 fs0 [(['s'], .absent, s0)] ∧
    (loadProject ⟨false, false, true⟩ penv0 fs0 [(['s'], .absent, s0)]).toBool = true ∧
    loadProject ⟨false, false, false⟩ penv0 fs0 [(['s'], .absent, { s0 with envFiles := [⟨['d'], true, []⟩], labelFiles := [['n']] })] = .error [.read] ∧
    loadThenResolve ⟨false, false, false⟩ penv0 fs0 [(['s'], .absent, { s0 with envFiles := [⟨['d'], true, []⟩], labelFiles := [['n']] })] = .error [.notFound] := by
  decide

/-- `pipeline_item` / `normalize_item` on concrete elements: with `A=1` in the project environment `- A` becomes `A=1` in
    either stage, `- B` stays, and `- A=1` with the variable `A=1` set becomes `A=1=x` in `ResolveEnvironment` only -/
example :
    resolveSeqItem (penvOf [("A", "1")]) (.bare ['A']) = .kv ['A'] ['1'] ∧
    normalizeItem (penvOf [("A", "1")]) (.bare ['B']) = .bare ['B'] ∧
    resolveSeqItem (penvOf [("A=1", "x")]) (.kv ['A'] ['1']) = .kv ['A'] ['1', '=', 'x'] ∧
    normalizeItem (penvOf [("A=1", "x")]) (.kv ['A'] ['1']) = .kv ['A'] ['1'] ∧
    '=' ∉ (Item.bare ['A']).key := by
  decide

end Example

end CV.EnvLayers
