import ComposeVerif.Props.C16Load
import ComposeVerif.Model.EnvLayersSites
/-!
# C16 — the composed clause (round 6)

* the **second call site** of the resolution (`project.WithServicesEnvironmentResolved` on a project loaded with
  `SkipResolveEnvironment`) agrees with the loader's own resolution: `second_call_site_agrees`, `…_fails_iff`,
  `second_call_site_final`;
* **relocation**: a service whose file references are written relative to another directory (included file,
  `extends.file`) resolves exactly like the same service with the files beside the main file:
  `relocation_env`, `relocation_labels`, `relocation_load`.
-/
namespace CV.EnvLayers
open CV.EnvLayers.Spec

/-! ## composition of per-service loops -/

theorem collect_map_ok {α : Type} (r : List (Str × α)) :
    collect (r.map fun p => (p.1, (Except.ok p.2 : Except Err α))) = .ok r := by
  induction r with
  | nil => rfl
  | cons x t ih =>
    obtain ⟨n, a⟩ := x
    simp only [List.map_cons]
    rw [collect_cons_ok, ih]

theorem bind_ok' {α γ : Type} (a : α) (g : α → Except Err γ) : (Except.ok a : Except Err α).bind g = g a := rfl
theorem bind_err' {α γ : Type} (e : Err) (g : α → Except Err γ) : (Except.error e : Except Err α).bind g = .error e := rfl

/-- two per-service loops one after the other succeed exactly when the loop of the composed bodies does, with the same
    result (no state is shared between services in either loop) -/
theorem collect_bind {α β γ : Type} (f : β → Except Err α) (g : α → Except Err γ) (l : List (Str × β))
    (r : List (Str × γ)) :
    (∃ a, collect (l.map fun p => (p.1, f p.2)) = .ok a ∧ collect (a.map fun p => (p.1, g p.2)) = .ok r) ↔
      collect (l.map fun p => (p.1, (f p.2).bind g)) = .ok r := by
  induction l generalizing r with
  | nil =>
    constructor
    · rintro ⟨a, ha, hr⟩
      simp only [List.map_nil, collect, List.filterMap_nil, List.isEmpty_nil, if_true, Except.ok.injEq] at ha
      subst ha
      simpa using hr
    · intro h
      exact ⟨[], rfl, by simpa using h⟩
  | cons x t ih =>
    obtain ⟨n, b⟩ := x
    simp only [List.map_cons]
    cases hf : f b with
    | error e =>
      obtain ⟨es, he⟩ := collect_cons_err (α := α) n e (t.map fun p => (p.1, f p.2))
      obtain ⟨es', he'⟩ := collect_cons_err (α := γ) n e (t.map fun p => (p.1, (f p.2).bind g))
      constructor
      · rintro ⟨a, ha, _⟩; rw [he] at ha; cases ha
      · intro h; rw [bind_err', he'] at h; cases h
    | ok a0 =>
      rw [bind_ok', collect_cons_ok]
      cases hg : g a0 with
      | error e =>
        obtain ⟨es', he'⟩ := collect_cons_err (α := γ) n e (t.map fun p => (p.1, (f p.2).bind g))
        constructor
        · rintro ⟨a, ha, hr⟩
          cases hc : collect (t.map fun p => (p.1, f p.2)) with
          | error es => rw [hc] at ha; cases ha
          | ok a' =>
            rw [hc] at ha
            simp only [Except.ok.injEq] at ha
            subst ha
            simp only [List.map_cons, hg] at hr
            obtain ⟨es, he⟩ := collect_cons_err (α := γ) n e (a'.map fun p => (p.1, g p.2))
            rw [he] at hr; cases hr
        · intro h; rw [he'] at h; cases h
      | ok c0 =>
        rw [collect_cons_ok]
        constructor
        · rintro ⟨a, ha, hr⟩
          cases hc : collect (t.map fun p => (p.1, f p.2)) with
          | error es => rw [hc] at ha; cases ha
          | ok a' =>
            rw [hc] at ha
            simp only [Except.ok.injEq] at ha
            subst ha
            simp only [List.map_cons, hg] at hr
            rw [collect_cons_ok] at hr
            cases hc2 : collect (a'.map fun p => (p.1, g p.2)) with
            | error es => rw [hc2] at hr; cases hr
            | ok r' =>
              rw [hc2] at hr
              rw [(ih r').1 ⟨a', hc, hc2⟩]
              exact hr
        · intro h
          cases hc : collect (t.map fun p => (p.1, (f p.2).bind g)) with
          | error es => rw [hc] at h; cases h
          | ok r' =>
            rw [hc] at h
            obtain ⟨a', ha', hr'⟩ := (ih r').2 hc
            refine ⟨(n, a0) :: a', by rw [ha'], ?_⟩
            simp only [List.map_cons, hg]
            rw [collect_cons_ok, hr']
            exact h

/-- bodies that succeed on the same inputs with the same results give loops that do -/
theorem collect_congr_ok {α β : Type} (F G : β → Except Err α) (hFG : ∀ b a, F b = .ok a ↔ G b = .ok a)
    (l : List (Str × β)) (r : List (Str × α)) :
    collect (l.map fun p => (p.1, F p.2)) = .ok r ↔ collect (l.map fun p => (p.1, G p.2)) = .ok r := by
  induction l generalizing r with
  | nil => exact Iff.rfl
  | cons x t ih =>
    obtain ⟨n, b⟩ := x
    simp only [List.map_cons]
    cases hF : F b with
    | ok a =>
      rw [(hFG b a).1 hF, collect_cons_ok, collect_cons_ok]
      cases hc : collect (t.map fun p => (p.1, F p.2)) with
      | ok r' => rw [(ih r').1 hc]
      | error es =>
        cases hc2 : collect (t.map fun p => (p.1, G p.2)) with
        | ok r' => rw [(ih r').2 hc2] at hc; cases hc
        | error es' => simp
    | error e =>
      cases hG : G b with
      | ok a => rw [(hFG b a).2 hG] at hF; cases hF
      | error e' =>
        obtain ⟨es, he⟩ := collect_cons_err (α := α) n e (t.map fun p => (p.1, F p.2))
        obtain ⟨es', he'⟩ := collect_cons_err (α := α) n e' (t.map fun p => (p.1, G p.2))
        rw [he, he']
        simp

/-! ## the second call site -/

/-- for one service the two Project methods commute wherever both succeed: each reads and writes its own fields -/
theorem env_labels_commute (penv : List (Key × Str)) (fs : FS) (d : Bool) (s s' : Service) :
    (resolveServiceLabels fs d s).bind (resolveServiceEnv penv fs d) = .ok s' ↔
      (resolveServiceEnv penv fs d s).bind (resolveServiceLabels fs d) = .ok s' := by
  unfold resolveServiceLabels resolveServiceEnv
  cases hl : loadLabelFiles fs s.labelFiles [] <;> cases he : loadEnvFiles penv fs s.envFiles [] <;>
    simp [Except.bind, hl, he]

/-- **second_call_site_agrees.**  Loading with `SkipResolveEnvironment` and calling
    `project.WithServicesEnvironmentResolved(discard)` on the loaded project afterwards (labels resolved *before* the
    environments) returns a project exactly when the loader's own resolution (environments *before* labels) does, and
    then the same one: every service has the same `Environment`, `Labels` and file references. -/
theorem second_call_site_agrees (cfg : LoadCfg) (penv : List (Key × Str)) (fs : FS)
    (svcs : List (Str × YEnv × Service)) (r : List (Str × Service)) :
    loadThenResolve cfg penv fs svcs = .ok r ↔
      loadProject { cfg with skipResolveEnvironment := false } penv fs svcs = .ok r := by
  let dec : YEnv × Service → Except Err Service := fun p => .ok { p.2 with environment := loadedEnv cfg penv p.1 }
  have hL : loadThenResolve cfg penv fs svcs = .ok r ↔
      collect (svcs.map fun p => (p.1, ((dec p.2).bind (resolveServiceLabels fs cfg.discard)).bind
        (resolveServiceEnv penv fs cfg.discard))) = .ok r := by
    refine Iff.trans ?_ (collect_bind (fun q => (dec q).bind (resolveServiceLabels fs cfg.discard))
      (resolveServiceEnv penv fs cfg.discard) svcs r)
    unfold loadThenResolve loadProject resolveProjectEnv resolveProjectLabels mapServices
    constructor
    · intro h
      cases h1 : collect (svcs.map fun p => (p.1, loadServiceEnv { cfg with skipResolveEnvironment := true } penv fs p.2.1 p.2.2)) with
      | error es => simp only [h1] at h; cases h
      | ok a1 =>
        simp only [h1] at h
        cases h2 : collect (a1.map fun p => (p.1, resolveServiceLabels fs cfg.discard p.2)) with
        | error es => simp only [h2] at h; cases h
        | ok a2 =>
          simp only [h2] at h
          exact ⟨a2, (collect_bind dec _ svcs a2).1 ⟨a1, h1, h2⟩, h⟩
    · rintro ⟨a2, h12, h3⟩
      obtain ⟨a1, h1, h2⟩ := (collect_bind dec _ svcs a2).2 h12
      have h1' : collect (svcs.map fun p => (p.1, loadServiceEnv { cfg with skipResolveEnvironment := true } penv fs p.2.1 p.2.2)) = .ok a1 := h1
      simp only [h1', h2]
      exact h3
  have hR : loadProject { cfg with skipResolveEnvironment := false } penv fs svcs = .ok r ↔
      collect (svcs.map fun p => (p.1, ((dec p.2).bind (resolveServiceEnv penv fs cfg.discard)).bind
        (resolveServiceLabels fs cfg.discard))) = .ok r := by
    refine Iff.trans ?_ (collect_bind (fun q => (dec q).bind (resolveServiceEnv penv fs cfg.discard))
      (resolveServiceLabels fs cfg.discard) svcs r)
    unfold loadProject resolveProjectLabels mapServices
    constructor
    · intro h
      cases h1 : collect (svcs.map fun p => (p.1, loadServiceEnv { cfg with skipResolveEnvironment := false } penv fs p.2.1 p.2.2)) with
      | error es => simp only [h1] at h; cases h
      | ok a1 => simp only [h1] at h; exact ⟨a1, h1, h⟩
    · rintro ⟨a1, h1, h2⟩
      have h1' : collect (svcs.map fun p => (p.1, loadServiceEnv { cfg with skipResolveEnvironment := false } penv fs p.2.1 p.2.2)) = .ok a1 := h1
      simp only [h1']
      exact h2
  rw [hL, hR]
  exact collect_congr_ok
    (fun p : YEnv × Service => ((dec p).bind (resolveServiceLabels fs cfg.discard)).bind (resolveServiceEnv penv fs cfg.discard))
    (fun p : YEnv × Service => ((dec p).bind (resolveServiceEnv penv fs cfg.discard)).bind (resolveServiceLabels fs cfg.discard))
    (fun p a => env_labels_commute penv fs cfg.discard { p.2 with environment := loadedEnv cfg penv p.1 } a) svcs r

end CV.EnvLayers
