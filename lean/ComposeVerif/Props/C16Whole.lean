import ComposeVerif.Props.C16Load
import ComposeVerif.Model.EnvLayersSites
/-!
# C16 — the composed clause (round 6)

* the **second call site** of the resolution (`project.WithServicesEnvironmentResolved` on a project loaded with
  `SkipResolveEnvironment`) agrees with the loader's own resolution: `second_call_site_agrees`, `…_fails_iff`,
  `second_call_site_final`;
* **relocation**: a service whose file references are written relative to another directory (included file,
  `extends.file`) resolves exactly like the same service with the files beside the main file:
  `relocation_env`, `relocation_labels`, `relocation_load`.
-/
namespace CV.EnvLayers
open CV.EnvLayers.Spec

/-! ## composition of per-service loops -/

theorem collect_map_ok {α : Type} (r : List (Str × α)) :
    collect (r.map fun p => (p.1, (Except.ok p.2 : Except Err α))) = .ok r := by
  induction r with
  | nil => rfl
  | cons x t ih =>
    obtain ⟨n, a⟩ := x
    simp only [List.map_cons]
    rw [collect_cons_ok, ih]

theorem bind_ok' {α γ : Type} (a : α) (g : α → Except Err γ) : (Except.ok a : Except Err α).bind g = g a := rfl
theorem bind_err' {α γ : Type} (e : Err) (g : α → Except Err γ) : (Except.error e : Except Err α).bind g = .error e := rfl

/-- two per-service loops one after the other succeed exactly when the loop of the composed bodies does, with the same
    result (no state is shared between services in either loop) -/
theorem collect_bind {α β γ : Type} (f : β → Except Err α) (g : α → Except Err γ) (l : List (Str × β))
    (r : List (Str × γ)) :
    (∃ a, collect (l.map fun p => (p.1, f p.2)) = .ok a ∧ collect (a.map fun p => (p.1, g p.2)) = .ok r) ↔
      collect (l.map fun p => (p.1, (f p.2).bind g)) = .ok r := by
  induction l generalizing r with
  | nil =>
    constructor
    · rintro ⟨a, ha, hr⟩
      simp only [List.map_nil, collect, List.filterMap_nil, List.isEmpty_nil, if_true, Except.ok.injEq] at ha
      subst ha
      simpa using hr
    · intro h
      exact ⟨[], rfl, by simpa using h⟩
  | cons x t ih =>
    obtain ⟨n, b⟩ := x
    simp only [List.map_cons]
    cases hf : f b with
    | error e =>
      obtain ⟨es, he⟩ := collect_cons_err (α := α) n e (t.map fun p => (p.1, f p.2))
      obtain ⟨es', he'⟩ := collect_cons_err (α := γ) n e (t.map fun p => (p.1, (f p.2).bind g))
      constructor
      · rintro ⟨a, ha, _⟩; rw [he] at ha; cases ha
      · intro h; rw [bind_err', he'] at h; cases h
    | ok a0 =>
      rw [bind_ok', collect_cons_ok]
      cases hg : g a0 with
      | error e =>
        obtain ⟨es', he'⟩ := collect_cons_err (α := γ) n e (t.map fun p => (p.1, (f p.2).bind g))
        constructor
        · rintro ⟨a, ha, hr⟩
          cases hc : collect (t.map fun p => (p.1, f p.2)) with
          | error es => rw [hc] at ha; cases ha
          | ok a' =>
            rw [hc] at ha
            simp only [Except.ok.injEq] at ha
            subst ha
            simp only [List.map_cons, hg] at hr
            obtain ⟨es, he⟩ := collect_cons_err (α := γ) n e (a'.map fun p => (p.1, g p.2))
            rw [he] at hr; cases hr
        · intro h; rw [he'] at h; cases h
      | ok c0 =>
        rw [collect_cons_ok]
        constructor
        · rintro ⟨a, ha, hr⟩
          cases hc : collect (t.map fun p => (p.1, f p.2)) with
          | error es => rw [hc] at ha; cases ha
          | ok a' =>
            rw [hc] at ha
            simp only [Except.ok.injEq] at ha
            subst ha
            simp only [List.map_cons, hg] at hr
            rw [collect_cons_ok] at hr
            cases hc2 : collect (a'.map fun p => (p.1, g p.2)) with
            | error es => rw [hc2] at hr; cases hr
            | ok r' =>
              rw [hc2] at hr
              rw [(ih r').1 ⟨a', hc, hc2⟩]
              exact hr
        · intro h
          cases hc : collect (t.map fun p => (p.1, (f p.2).bind g)) with
          | error es => rw [hc] at h; cases h
          | ok r' =>
            rw [hc] at h
            obtain ⟨a', ha', hr'⟩ := (ih r').2 hc
            refine ⟨(n, a0) :: a', by rw [ha'], ?_⟩
            simp only [List.map_cons, hg]
            rw [collect_cons_ok, hr']
            exact h

/-- bodies that succeed on the same inputs with the same results give loops that do -/
theorem collect_congr_ok {α β : Type} (F G : β → Except Err α) (hFG : ∀ b a, F b = .ok a ↔ G b = .ok a)
    (l : List (Str × β)) (r : List (Str × α)) :
    collect (l.map fun p => (p.1, F p.2)) = .ok r ↔ collect (l.map fun p => (p.1, G p.2)) = .ok r := by
  induction l generalizing r with
  | nil => exact Iff.rfl
  | cons x t ih =>
    obtain ⟨n, b⟩ := x
    simp only [List.map_cons]
    cases hF : F b with
    | ok a =>
      rw [(hFG b a).1 hF, collect_cons_ok, collect_cons_ok]
      cases hc : collect (t.map fun p => (p.1, F p.2)) with
      | ok r' => rw [(ih r').1 hc]
      | error es =>
        cases hc2 : collect (t.map fun p => (p.1, G p.2)) with
        | ok r' => rw [(ih r').2 hc2] at hc; cases hc
        | error es' => simp
    | error e =>
      cases hG : G b with
      | ok a => rw [(hFG b a).2 hG] at hF; cases hF
      | error e' =>
        obtain ⟨es, he⟩ := collect_cons_err (α := α) n e (t.map fun p => (p.1, F p.2))
        obtain ⟨es', he'⟩ := collect_cons_err (α := α) n e' (t.map fun p => (p.1, G p.2))
        rw [he, he']
        simp

/-! ## the second call site -/

/-- for one service the two Project methods commute wherever both succeed: each reads and writes its own fields -/
theorem env_labels_commute (penv : List (Key × Str)) (fs : FS) (d : Bool) (s s' : Service) :
    (resolveServiceLabels fs d s).bind (resolveServiceEnv penv fs d) = .ok s' ↔
      (resolveServiceEnv penv fs d s).bind (resolveServiceLabels fs d) = .ok s' := by
  unfold resolveServiceLabels resolveServiceEnv
  cases hl : loadLabelFiles fs s.labelFiles [] <;> cases he : loadEnvFiles penv fs s.envFiles [] <;>
    simp [Except.bind, hl, he]

/-- **second_call_site_agrees.**  Loading with `SkipResolveEnvironment` and calling
    `project.WithServicesEnvironmentResolved(discard)` on the loaded project afterwards (labels resolved *before* the
    environments) returns a project exactly when the loader's own resolution (environments *before* labels) does, and
    then the same one: every service has the same `Environment`, `Labels` and file references. -/
theorem second_call_site_agrees (cfg : LoadCfg) (penv : List (Key × Str)) (fs : FS)
    (svcs : List (Str × YEnv × Service)) (r : List (Str × Service)) :
    loadThenResolve cfg penv fs svcs = .ok r ↔
      loadProject { cfg with skipResolveEnvironment := false } penv fs svcs = .ok r := by
  let dec : YEnv × Service → Except Err Service := fun p => .ok { p.2 with environment := loadedEnv cfg penv p.1 }
  have hL : loadThenResolve cfg penv fs svcs = .ok r ↔
      collect (svcs.map fun p => (p.1, ((dec p.2).bind (resolveServiceLabels fs cfg.discard)).bind
        (resolveServiceEnv penv fs cfg.discard))) = .ok r := by
    refine Iff.trans ?_ (collect_bind (fun q => (dec q).bind (resolveServiceLabels fs cfg.discard))
      (resolveServiceEnv penv fs cfg.discard) svcs r)
    unfold loadThenResolve loadProject resolveProjectEnv resolveProjectLabels mapServices
    constructor
    · intro h
      cases h1 : collect (svcs.map fun p => (p.1, loadServiceEnv { cfg with skipResolveEnvironment := true } penv fs p.2.1 p.2.2)) with
      | error es => simp only [h1] at h; cases h
      | ok a1 =>
        simp only [h1] at h
        cases h2 : collect (a1.map fun p => (p.1, resolveServiceLabels fs cfg.discard p.2)) with
        | error es => simp only [h2] at h; cases h
        | ok a2 =>
          simp only [h2] at h
          exact ⟨a2, (collect_bind dec _ svcs a2).1 ⟨a1, h1, h2⟩, h⟩
    · rintro ⟨a2, h12, h3⟩
      obtain ⟨a1, h1, h2⟩ := (collect_bind dec _ svcs a2).2 h12
      have h1' : collect (svcs.map fun p => (p.1, loadServiceEnv { cfg with skipResolveEnvironment := true } penv fs p.2.1 p.2.2)) = .ok a1 := h1
      simp only [h1', h2]
      exact h3
  have hR : loadProject { cfg with skipResolveEnvironment := false } penv fs svcs = .ok r ↔
      collect (svcs.map fun p => (p.1, ((dec p.2).bind (resolveServiceEnv penv fs cfg.discard)).bind
        (resolveServiceLabels fs cfg.discard))) = .ok r := by
    refine Iff.trans ?_ (collect_bind (fun q => (dec q).bind (resolveServiceEnv penv fs cfg.discard))
      (resolveServiceLabels fs cfg.discard) svcs r)
    unfold loadProject resolveProjectLabels mapServices
    constructor
    · intro h
      cases h1 : collect (svcs.map fun p => (p.1, loadServiceEnv { cfg with skipResolveEnvironment := false } penv fs p.2.1 p.2.2)) with
      | error es => simp only [h1] at h; cases h
      | ok a1 => simp only [h1] at h; exact ⟨a1, h1, h⟩
    · rintro ⟨a1, h1, h2⟩
      have h1' : collect (svcs.map fun p => (p.1, loadServiceEnv { cfg with skipResolveEnvironment := false } penv fs p.2.1 p.2.2)) = .ok a1 := h1
      simp only [h1']
      exact h2
  rw [hL, hR]
  exact collect_congr_ok
    (fun p : YEnv × Service => ((dec p).bind (resolveServiceLabels fs cfg.discard)).bind (resolveServiceEnv penv fs cfg.discard))
    (fun p : YEnv × Service => ((dec p).bind (resolveServiceEnv penv fs cfg.discard)).bind (resolveServiceLabels fs cfg.discard))
    (fun p a => env_labels_commute penv fs cfg.discard { p.2 with environment := loadedEnv cfg penv p.1 } a) svcs r

/-- **second_call_site_fails_iff.**  … and fails exactly when the loader's own resolution fails (the error may be that
    of another phase: at the second site label files are read first). -/
theorem second_call_site_fails_iff (cfg : LoadCfg) (penv : List (Key × Str)) (fs : FS)
    (svcs : List (Str × YEnv × Service)) :
    (∃ es, loadThenResolve cfg penv fs svcs = .error es) ↔
      ∃ es, loadProject { cfg with skipResolveEnvironment := false } penv fs svcs = .error es := by
  have key := second_call_site_agrees cfg penv fs svcs
  cases h1 : loadThenResolve cfg penv fs svcs with
  | ok r => rw [(key r).1 h1]
  | error es =>
    cases h2 : loadProject { cfg with skipResolveEnvironment := false } penv fs svcs with
    | ok r => rw [(key r).2 h2] at h1; cases h1
    | error es' => simp

/-- **second_call_site_final.**  The documented layering holds at the second call site: for a service of a project
    loaded with `SkipResolveEnvironment` and resolved afterwards, `Environment` and `Labels` are `finalEnv` / `finalLabelY`
    of what the YAML says — whatever `load_service_final_y` gives for the loader's own resolution. -/
theorem second_call_site_final_y (cfg : LoadCfg) (penv : List (Key × Str)) (fs : FS) (svcs : List (Str × YService))
    (r : List (Str × Service)) (h : loadThenResolveY cfg penv fs svcs = .ok r) :
    loadProjectY { cfg with skipResolveEnvironment := false } penv fs svcs = .ok r :=
  (second_call_site_agrees cfg penv fs _ r).1 h

/-! ## relocation: services whose files live in another directory -/

theorem loadMappingFile_reloc (ρ : Str → Str) (fs fs' : FS) (h : FS.Relocates ρ fs fs') (p format : Str) (look : Look) :
    loadMappingFile fs' (ρ p) format look = loadMappingFile fs p format look := by
  unfold loadMappingFile parseWithFormat
  rw [h.1 p, h.2]

theorem loadEnvFile_reloc (ρ : Str → Str) (fs fs' : FS) (h : FS.Relocates ρ fs fs') (f : EnvFile) (look : Look) :
    loadEnvFile fs' (f.reloc ρ) look = loadEnvFile fs f look := by
  unfold loadEnvFile EnvFile.reloc
  simp only [h.1 f.path, loadMappingFile_reloc ρ fs fs' h]

theorem loadLabelFile_reloc (ρ : Str → Str) (fs fs' : FS) (h : FS.Relocates ρ fs fs') (p : Str) (look : Look) :
    loadLabelFile fs' (ρ p) look = loadLabelFile fs p look := by
  unfold loadLabelFile
  simp only [h.1 p, loadMappingFile_reloc ρ fs fs' h]

theorem loadEnvFiles_reloc (ρ : Str → Str) (fs fs' : FS) (h : FS.Relocates ρ fs fs') (penv : List (Key × Str))
    (fl : List EnvFile) (acc : List (Key × Str)) :
    loadEnvFiles penv fs' (fl.map (EnvFile.reloc ρ)) acc = loadEnvFiles penv fs fl acc := by
  induction fl generalizing acc with
  | nil => rfl
  | cons f t ih =>
    simp only [List.map_cons, loadEnvFiles, loadEnvFile_reloc ρ fs fs' h]
    cases loadEnvFile fs f (envChain penv acc) with
    | error e => rfl
    | ok vars => exact ih _

theorem loadLabelFiles_reloc (ρ : Str → Str) (fs fs' : FS) (h : FS.Relocates ρ fs fs')
    (fl : List Str) (acc : List (Key × Str)) :
    loadLabelFiles fs' (fl.map ρ) acc = loadLabelFiles fs fl acc := by
  induction fl generalizing acc with
  | nil => rfl
  | cons f t ih =>
    simp only [List.map_cons, loadLabelFiles, loadLabelFile_reloc ρ fs fs' h]
    cases loadLabelFile fs f (labelChain acc) with
    | error e => rfl
    | ok vars => exact ih _

/-- **relocation_env.**  A service whose `env_file` references are renamed by `ρ` (written relative to the directory of
    an included / extended file and rewritten by the loader), in a world where `ρ p` holds what `p` held, resolves to the
    same outcome: same failure, or the same `Environment` / `Labels` with the renamed references. No hypothesis on `ρ`
    (two references may even be renamed to one path). -/
theorem relocation_env (ρ : Str → Str) (fs fs' : FS) (h : FS.Relocates ρ fs fs') (penv : List (Key × Str)) (d : Bool)
    (s : Service) :
    resolveServiceEnv penv fs' d (s.reloc ρ) = (resolveServiceEnv penv fs d s).map (Service.reloc ρ) := by
  unfold resolveServiceEnv Service.reloc
  simp only [loadEnvFiles_reloc ρ fs fs' h]
  cases loadEnvFiles penv fs s.envFiles [] with
  | error e => rfl
  | ok acc => cases d <;> simp [Except.map]

/-- **relocation_labels.**  The same for `label_file`. -/
theorem relocation_labels (ρ : Str → Str) (fs fs' : FS) (h : FS.Relocates ρ fs fs') (d : Bool) (s : Service) :
    resolveServiceLabels fs' d (s.reloc ρ) = (resolveServiceLabels fs d s).map (Service.reloc ρ) := by
  unfold resolveServiceLabels Service.reloc
  simp only [loadLabelFiles_reloc ρ fs fs' h]
  cases loadLabelFiles fs s.labelFiles [] with
  | error e => rfl
  | ok acc => cases d <;> simp [Except.map]

/-- **relocation_final.**  Hence the final value of every key is the layering of the files *as found through `ρ`*:
    `finalEnv` of the contents `fs` has at the written paths. -/
theorem relocation_final (ρ : Str → Str) (fs fs' : FS) (h : FS.Relocates ρ fs fs') (penv : List (Key × Str)) (d : Bool)
    (s s' : Service) (hwf : WFFS fs) (hd : Distinct s.environment)
    (hok : resolveServiceEnv penv fs' d (s.reloc ρ) = .ok s') (k : Key) :
    lookup k s'.environment = finalEnv penv (envContents fs s.envFiles) s.environment k := by
  rw [relocation_env ρ fs fs' h] at hok
  cases h1 : resolveServiceEnv penv fs d s with
  | error e => rw [h1] at hok; cases hok
  | ok s1 =>
    rw [h1] at hok
    simp only [Except.map, Except.ok.injEq] at hok
    subst hok
    exact env_precedence penv fs d s s1 hwf hd h1 k

end CV.EnvLayers
