import ComposeVerif.Lemmas.InterpTree
/-!
# C08 — whole documents (round 5)

The per-leaf theorems of `Props/C08.lean` composed over the traversal: statements about *documents* — the objects the
property quantifies over ("all generated documents × all choices of which scalar leaves are replaced by `${V}`,
`${UNSET:-literal}` or `pre${V}post`", "writing every `$` of a document as `$$`").  Definitions: `Spec/InterpTree.lean`
(`walk`, `castTree`, `LeafRel`, `IsTemplateOf`, `interpolateStage`).  Every theorem holds for every tree, path, table,
environment and float parser; the equalities are between *outcomes* (value, error with its path, or panic).
-/
namespace CV.Interp
open CV CV.TPath

/-- `recursiveInterpolate` is the traversal with the `case string:` arm `leaf` -/
theorem interp_is_walk (c : Cfg) (p : TPath) (v : Val) : interp c p v = walk (leaf c) p v := interp_eq_walk c v p

/-- **the `$$` clause at full strength** (no `NoCast` hypothesis, cf. `interp_escape_roundtrip`): a document with every `$`
    of every value written `$$`, interpolated under *any* environment, is the original document with nothing substituted —
    strings on cast rows cast, cast failures reported with their path, everything else untouched -/
theorem escape_document_typed (c : Cfg) (p : TPath) (v : Val) : interp c p (escapeAll v) = castTree c p v := by
  rw [interp_eq_walk]
  exact walk_congr (R := fun _ s s' => s = escapeStr s') (fun q s s' h => by subst h; exact leaf_escapeStr c q s')
    (escapeAll v) v p (leafRel_escapeAll v p)

/-- the same for the entry point `Interpolate` (top-level mapping, keys start at `tree.NewPath(key)`) -/
theorem escape_toplevel_typed (c : Cfg) (kvs : List (String × Val)) :
    interpolate c (escapeKVs kvs) = castDocument c kvs := by
  unfold interpolate castDocument
  rw [interpKVs_eq_walk]
  exact walkKVs_congr (R := fun _ s s' => s = escapeStr s') (fun q s s' h => by subst h; exact leaf_escapeStr c q s')
    (escapeKVs kvs) kvs root (leafRelKVs_escapeAll kvs root)

/-- hence the escaped document does not depend on the environment at all -/
theorem escape_env_independent (c c' : Cfg) (ht : c'.table = c.table) (hf : c'.fp = c.fp) (p : TPath) (v : Val) :
    interp c p (escapeAll v) = interp c' p (escapeAll v) := by
  rw [escape_document_typed, escape_document_typed]
  unfold castTree
  exact walk_congr (R := fun _ s s' => s = s') (fun q s s' h => by subst h; simp only [castOnly, ht, hf]) v v p
    (leafRel_self v p (fun _ _ _ => rfl))

/-- a document without `$` in its values: interpolation on gives the document with nothing substituted -/
theorem dollar_free_document_typed (c : Cfg) (p : TPath) (v : Val)
    (hd : ∀ q s, (q, s) ∈ leaves p v → '$' ∉ s.toList) : interp c p v = castTree c p v := by
  rw [interp_eq_walk]
  refine walk_congr (R := fun _ s s' => s = s' ∧ '$' ∉ s.toList) ?_ v v p (leafRel_self v p (fun q s hm => ⟨rfl, hd q s hm⟩))
  rintro q s s' ⟨rfl, h⟩
  rw [leaf_of_subst (CV.Template.subst_lit c.env _ (fun ch hc he => h (he ▸ hc))), String.ofList_toList]

/-- where no string leaf lies on a cast row, "nothing substituted" is the document itself -/
theorem castTree_noCast (c : Cfg) (p : TPath) (v : Val) (h : NoCast c.table p v) : castTree c p v = .ok v := by
  rw [← escape_document_typed]
  apply interp_escapeAll
  intro q s hm
  rw [leaf_escapeStr]
  unfold castOnly
  rw [h q s hm]

/-- **type transparency for whole documents**: replace any choice of string leaves of `v` by well-formed templates of the
    grammar (`${V}`, `$V`, `${UNSET:-lit}`, `pre${V}post`, any nesting) that evaluate, under the environment, to the text
    they replace — the variable-bearing document `v'` has exactly the outcome of the literal document with nothing
    substituted: same typed values at every path, same error naming the same path -/
theorem variable_document_is_literal (c : Cfg) (p : TPath) (v' v : Val)
    (h : LeafRel (fun _ s t => IsTemplateOf c.env s t) p v' v) : interp c p v' = castTree c p v := by
  rw [interp_eq_walk]
  refine walk_congr (R := fun _ s t => IsTemplateOf c.env s t) ?_ v' v p h
  rintro q s t ⟨tm, hwf, rfl, he⟩
  have hs := CV.Template.subst_render c.env tm hwf
  simp only [CV.Template.evalOut, he] at hs
  rw [leaf_of_subst (by rw [String.toList_ofList]; exact hs), String.ofList_toList]

/-- … and when the literal document itself carries no `$`, both documents *interpolate* to the same outcome
    (the statement the oracle `c08meta` samples on real loads) -/
theorem variable_document_eq_literal_document (c : Cfg) (p : TPath) (v' v : Val)
    (h : LeafRel (fun _ s t => IsTemplateOf c.env s t) p v' v)
    (hd : ∀ q s, (q, s) ∈ leaves p v → '$' ∉ s.toList) : interp c p v' = interp c p v := by
  rw [variable_document_is_literal c p v' v h, dollar_free_document_typed c p v hd]

/-- a `$`-free string is a template of itself: leaves that are left alone satisfy the relation -/
theorem isTemplateOf_literal (env : CV.Template.Env) (s : String) (h : '$' ∉ s.toList) : IsTemplateOf env s s := by
  refine ⟨[.lit s.toList], ?_, ?_, ?_⟩
  · simp only [CV.Template.WF, CV.Template.wfL, CV.Template.Seg.wf, CV.Template.litOkTop, Bool.and_true, Bool.false_eq_true,
      if_false, List.all_eq_true, bne_iff_ne, ne_eq]
    intro ch hc he; exact h (he ▸ hc)
  · simp [CV.Template.renderL, CV.Template.Seg.render, String.ofList_toList]
  · simp [CV.Template.evalL, CV.Template.Seg.eval]

/-- `${NAME}` with `NAME` set to `t` is a template of `t` -/
theorem isTemplateOf_var (env : CV.Template.Env) (n : Str) (t : String) (hn : CV.Template.validName n = true)
    (he : env n = some t.toList) : IsTemplateOf env (String.ofList ('$' :: '{' :: (n ++ ['}']))) t := by
  refine ⟨[.var n true], ?_, ?_, ?_⟩
  · simp [CV.Template.WF, CV.Template.wfL, CV.Template.Seg.wf, hn]
  · simp [CV.Template.renderL, CV.Template.Seg.render]
  · simp [CV.Template.evalL, CV.Template.Seg.eval, he]

/-- the variable-bearing document and the literal one have the same keys, in the same order -/
theorem variable_document_keys {R : TPath → String → String → Prop} (p : TPath) (kvs' kvs : List (String × Val))
    (h : LeafRelKVs R p kvs' kvs) : kvs.map Prod.fst = kvs'.map Prod.fst := leafRel_keys kvs' kvs p h

/-! ## errors at document level: "a value that cannot be converted is an error naming the attribute path" -/

/-- nothing substituted: the only possible error is the cast error of one string leaf, naming that leaf's path -/
theorem castTree_error_names_path (c : Cfg) (p : TPath) (v : Val) (e : Err) (h : castTree c p v = .err e) :
    ∃ q s, (q, s) ∈ leaves p v ∧ castOnly c q s = .err e ∧ e = .cast (pathString q) :=
  castTree_err c p v e h

/-- the variable-bearing document fails exactly when the literal one has a string that its cast row rejects, and the error
    names the path of that attribute *in the literal document* (never a substitution error: the templates evaluate) -/
theorem variable_document_error_names_path (c : Cfg) (p : TPath) (v' v : Val) (e : Err)
    (h : LeafRel (fun _ s t => IsTemplateOf c.env s t) p v' v) (he : interp c p v' = .err e) :
    ∃ q t, (q, t) ∈ leaves p v ∧ castOnly c q t = .err e ∧ e = .cast (pathString q) := by
  rw [variable_document_is_literal c p v' v h] at he
  exact castTree_err c p v e he

/-- the same for the escaped document: the only way it can fail is a `$`-bearing (or otherwise unconvertible) text on a
    cast row, reported at its path -/
theorem escaped_document_error_names_path (c : Cfg) (p : TPath) (v : Val) (e : Err)
    (he : interp c p (escapeAll v) = .err e) :
    ∃ q t, (q, t) ∈ leaves p v ∧ castOnly c q t = .err e ∧ e = .cast (pathString q) := by
  rw [escape_document_typed] at he
  exact castTree_err c p v e he

/-! ## the loader step: interpolation on / off (loader/loader.go `loadYamlFile`, pinned by `Props/C08Source.lean`) -/

/-- with `SkipInterpolation` the document is handed on as it is -/
theorem stage_off_id (c : Cfg) (kvs : List (String × Val)) : interpolateStage true c kvs = .ok kvs := rfl

/-- **on(escaped) ≡ off(original)** at the loader step, typed: the escaped document with interpolation on is the
    original document — which is what interpolation off hands on — with nothing substituted (`castDocument`; the
    decode-time cast of loader/mapstructure.go computes the same leaf values, `decode_time_is_castOnly`) -/
theorem stage_on_escaped_is_stage_off (c : Cfg) (kvs : List (String × Val)) :
    interpolateStage false c (escapeKVs kvs) =
      (match interpolateStage true c kvs with
       | .ok kvs0 => castDocument c kvs0
       | .err e => .err e
       | .panic s => .panic s) := by
  simp only [interpolateStage, if_true, Bool.false_eq_true, if_false]
  exact escape_toplevel_typed c kvs

/-! ## non-vacuity -/

private def cfgT : Cfg :=
  { table := [(["services", "*", "init"], "toBoolean"), (["services", "*", "scale"], "toInt")],
    fp := { f64 := fun _ => none, f32 := fun _ => none },
    env := fun k => if k = ['V'] then some ['y', 'e', 's'] else if k = ['N'] then some ['0', '1', '0'] else none }

/-- `variable_document_is_literal`: a two-leaf document, one leaf replaced by `${V}`, one by `${N}`, one left alone -/
example : LeafRel (fun _ s t => IsTemplateOf cfgT.env s t) ["services"]
    (.map [("a", .map [("init", .str "${V}"), ("scale", .str "${N}"), ("image", .str "i"), ("x", .int 3)])])
    (.map [("a", .map [("init", .str "yes"), ("scale", .str "010"), ("image", .str "i"), ("x", .int 3)])]) := by
  simp only [LeafRel, LeafRelKVs]
  refine ⟨_, rfl, _, _, rfl, ⟨_, rfl, _, _, rfl, ⟨_, rfl, ?_⟩, _, _, rfl, ⟨_, rfl, ?_⟩, _, _, rfl, ⟨_, rfl, ?_⟩, _, _, rfl, rfl, rfl⟩, rfl⟩
  · exact isTemplateOf_var cfgT.env ['V'] "yes" (by decide) (by decide)
  · exact isTemplateOf_var cfgT.env ['N'] "010" (by decide) (by decide)
  · exact isTemplateOf_literal cfgT.env "i" (by decide)

/-- … and the literal text with nothing substituted is the typed value (`010` ↦ 8: YAML's octal) -/
example : castTree cfgT ["services", "a", "scale"] (.str "010") = .ok (.int 8) := by
  simp only [castTree, walk]
  unfold castOnly
  rw [show firstMatch cfgT.table ["services", "a", "scale"] = some "toInt" by decide]
  rfl

/-- `escape_document_typed` on a cast row: the `$`-bearing text is not a boolean — the cast error names the path -/
example : castTree cfgT ["services", "a", "init"] (.str "$V") = .err (.cast (pathString ["services", "a", "init"])) := by
  simp only [castTree, walk]
  unfold castOnly
  rw [show firstMatch cfgT.table ["services", "a", "init"] = some "toBoolean" by decide]
  rfl

end CV.Interp
