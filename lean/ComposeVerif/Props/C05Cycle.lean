import ComposeVerif.Props.C05
import ComposeVerif.Lemmas.ExtendsCycle
import ComposeVerif.Lemmas.ExtendsWalk
/-!
# C05 — cycle detection: soundness and completeness of the error `Circular reference`

"a cyclic chain is an error" — and only a cyclic one is *that* error.  Both directions, for chains of any length within
and across files, for every visit order (the tracker is a list of `(file, service)` keys threaded through the
recursion; memoisation rewrites the services map while the loop runs).
-/
namespace CV.Extends
open CV CV.Val

/-- **soundness**: if `ApplyExtends` reports `circular`, some service's chain really runs into a cycle — the tracker
never reports a cycle that is not there, even in documents that have other defects, in every visit order.
(`NoCircularEnv`: the class `circular` is the tracker's own — the merge step and the nested loads have no such error;
`hmain` as in `acyclic_ok`.) -/
theorem circular_sound {E : Env} (hE : NoCircularEnv E) {order : List String} {dict S : KVs}
    (hS : lookup "services" dict = some (.map S)) (hnn : NoNull S) (hfs : NoNullFS E)
    (hmain : fileServices E.fs E.mainFile = none) (hord : Visits order S)
    (h : applyExtendsOrd E order dict = .err "circular") :
    ∃ n, n ∈ order ∧ Cyclic E (S, n) := by
  simp only [applyExtendsOrd, hS] at h
  split at h
  · cases h
  · rename_i c hc
    simp only [Out.err.injEq] at h
    subst h
    exact applyAll_circular_sound E hE hfs hmain _ order S S hnn (Inv.refl E S) (fun m hm => (hord m).mp hm) hc
  · cases h

/-- **completeness, with the class**: in a document whose services each either flatten or run into a cycle (no missing
base, no unreadable file, no failing merge), the presence of one cyclic chain makes `ApplyExtends` fail with exactly
`circular`, in every visit order — whichever service the loop happens to visit first. -/
theorem cycle_is_circular {E : Env} (hE : FuelFree E) {order : List String} {dict S : KVs}
    (hS : lookup "services" dict = some (.map S))
    (hmain : fileServices E.fs E.mainFile = none) (hord : Visits order S)
    (hall : ∀ n, lookup n S ≠ none → (∃ v, Flat E S n v) ∨ Cyclic E (S, n))
    (hc : ∃ n, lookup n S ≠ none ∧ Cyclic E (S, n)) :
    applyExtendsOrd E order dict = .err "circular" := by
  obtain ⟨n, hn, hcn⟩ := hc
  have := applyAll_cyclic E hE hmain S order S (Inv.refl E S) (KeysSub.self E S)
    (fun m hm => hall m ((hord m).mp hm)) ⟨n, (hord n).mpr hn, hcn⟩
  simp [applyExtendsOrd, hS, this]

/-- **`circular` ⇔ cyclic**, for documents whose only possible defect is a cycle: the error is reported exactly when a
cyclic chain exists, independently of the visit order -/
theorem circular_iff_cyclic {E : Env} (hE : FuelFree E) {order : List String} {dict S : KVs}
    (hS : lookup "services" dict = some (.map S))
    (hmain : fileServices E.fs E.mainFile = none) (hord : Visits order S)
    (hall : ∀ n, lookup n S ≠ none → (∃ v, Flat E S n v) ∨ Cyclic E (S, n)) :
    applyExtendsOrd E order dict = .err "circular" ↔ ∃ n, lookup n S ≠ none ∧ Cyclic E (S, n) := by
  constructor
  · intro h
    apply Classical.byContradiction
    intro hno
    have hflat : ∀ n, lookup n S ≠ none → ∃ v, Flat E S n v := fun n hn => by
      rcases hall n hn with hf | hc
      · exact hf
      · exact absurd ⟨n, hn, hc⟩ hno
    obtain ⟨out, hout⟩ := acyclic_ok hS hord hmain hflat
    rw [hout] at h; cases h
  · exact cycle_is_circular hE hS hmain hord hall

/-- the per-service form: resolving a service whose chain runs into a cycle reports `circular` — at any depth of the
recursion, whatever the tracker already holds and whatever has been memoised so far — unless the fuel runs out -/
theorem cyclic_service_circular (E : Env) (fuel : Nat) (cf n : String) (cur orig : KVs) (tr : List Key)
    (hi : Inv E orig cur) (hc : Cyclic E (orig, n)) :
    applySvc E fuel cf n cur tr = .err "circular" ∨ applySvc E fuel cf n cur tr = .panic fuelMark :=
  applySvc_cyclic E fuel cf n cur tr orig hi hc

/-- the specification side of the cycle oracle: on a cyclic service the executable flatten specification answers
`chain-too-long` for every bound, and never a value — so the services the `c05.apply` oracle counts as cyclic include
every cyclic one, and the ones it counts as flattening are exactly the `Flat` ones (`flattenF_iff_flat`) -/
theorem cyclic_flattenF_too_long (E : Env) (fuel : Nat) (S : KVs) (n : String) (hc : Cyclic E (S, n)) :
    flattenF E fuel S n = .err "flatten:chain-too-long" := flattenF_cyclic E fuel S n hc

/-- **`Cyclic` is decidable by following the links**: with more fuel than there are tracker keys, the link walk
`walkChain` (no merge, no tracker, no memo) is still going exactly when the chain runs into a cycle — pigeonhole over the
finite set of `(mapping, name)` nodes.  The driver evaluates `walkChain` for every service of every `c05.apply` case; this
is the classification the cycle oracle compares the real outcome with. -/
theorem walkChain_long_iff_cyclic (E : Env) (S : KVs) (n : String) (fuel : Nat)
    (hfuel : (keyUniverse E S).length + 1 ≤ fuel) :
    walkChain E fuel S n = .long ↔ Cyclic E (S, n) :=
  ⟨walkChain_long_cyclic E S n fuel hfuel, walkChain_cyclic E fuel S n⟩

/-- **the three outcomes of the link walk**, for a service of the main mapping and fuel beyond the number of tracker
keys: `leaf` ⇔ the service has a (finite) chain to a base without `extends`; `long` ⇔ its chain runs into a cycle;
`stuck` ⇔ neither — some link cannot be followed (missing base, missing / unreadable file, malformed reference, a
service that is not a mapping).  A chain, a cycle and a broken link exclude one another. -/
theorem walkChain_trichotomy (E : Env) (S : KVs) (n : String) (fuel : Nat)
    (hfuel : (keyUniverse E S).length + 1 ≤ fuel) :
    (walkChain E fuel S n = .leaf ↔ ∃ links leaf, Chain E E.mainFile S n links leaf) ∧
    (walkChain E fuel S n = .long ↔ Cyclic E (S, n)) ∧
    (walkChain E fuel S n = .stuck ↔ (¬ ∃ links leaf, Chain E E.mainFile S n links leaf) ∧ ¬ Cyclic E (S, n)) := by
  have hlong := walkChain_long_iff_cyclic E S n fuel hfuel
  have hleaf : walkChain E fuel S n = .leaf ↔ ∃ links leaf, Chain E E.mainFile S n links leaf := by
    constructor
    · intro h
      obtain ⟨links, leaf, hc, _⟩ := walkChain_leaf_chain E fuel E.mainFile S n h
      exact ⟨links, leaf, hc⟩
    · intro ⟨links, leaf, hc⟩
      cases hw : walkChain E fuel S n with
      | leaf => rfl
      | long => exact absurd (hlong.mp hw) hc.not_cyclic
      | stuck =>
        exact absurd ⟨links, leaf, hc⟩ (walkChain_stuck_no_chain E fuel E.mainFile S n hw)
  refine ⟨hleaf, hlong, ?_⟩
  constructor
  · intro h
    constructor
    · intro hc
      have := hleaf.mpr hc
      rw [h] at this; cases this
    · intro hc
      have := hlong.mpr hc
      rw [h] at this; cases this
  · intro ⟨h1, h2⟩
    cases hw : walkChain E fuel S n with
    | stuck => rfl
    | leaf => exact absurd (hleaf.mp hw) h1
    | long => exact absurd (hlong.mp hw) h2

/-- **the outcome of `ApplyExtends`, read off the link walk** (every visit order; `hfold`: the merges along every chain
succeed — otherwise the outcome is the merge's error, C04's concern):
1. every service's walk ends at a leaf ⇒ accepted;
2. no walk is stuck and one is `long` ⇒ exactly `err circular`;
3. some walk is stuck (missing base, missing file, malformed reference, …) ⇒ not accepted. -/
theorem applyExtends_outcome_by_walk {E : Env} (hE : FuelFree E) {order : List String} {dict S : KVs}
    (hS : lookup "services" dict = some (.map S)) (hnn : NoNull S) (hfs : NoNullFS E)
    (hmain : fileServices E.fs E.mainFile = none) (hord : Visits order S)
    (fuel : Nat) (hfuel : (keyUniverse E S).length + 1 ≤ fuel)
    (hfold : ∀ n links leaf, Chain E E.mainFile S n links leaf → ∃ m, foldChain E leaf.2.2 links = .ok m) :
    ((∀ n, lookup n S ≠ none → walkChain E fuel S n = .leaf) → ∃ out, applyExtendsOrd E order dict = .ok out) ∧
    ((∀ n, lookup n S ≠ none → walkChain E fuel S n ≠ .stuck) →
      (∃ n, lookup n S ≠ none ∧ walkChain E fuel S n = .long) → applyExtendsOrd E order dict = .err "circular") ∧
    ((∃ n, lookup n S ≠ none ∧ walkChain E fuel S n = .stuck) → ∀ out, applyExtendsOrd E order dict ≠ .ok out) := by
  have hflat_of_leaf : ∀ n, walkChain E fuel S n = .leaf → ∃ v, Flat E S n v := by
    intro n hw
    obtain ⟨links, leaf, hc⟩ := ((walkChain_trichotomy E S n fuel hfuel).1).mp hw
    obtain ⟨m, hm⟩ := hfold n links leaf hc
    exact ⟨_, hc.flat m hm⟩
  refine ⟨fun hall => acyclic_ok hS hord hmain (fun n hn => hflat_of_leaf n (hall n hn)), ?_, ?_⟩
  · intro hns ⟨n, hn, hl⟩
    refine cycle_is_circular hE hS hmain hord (fun k hk => ?_)
      ⟨n, hn, ((walkChain_trichotomy E S n fuel hfuel).2.1).mp hl⟩
    cases hw : walkChain E fuel S k with
    | leaf => exact Or.inl (hflat_of_leaf k hw)
    | long => exact Or.inr (((walkChain_trichotomy E S k fuel hfuel).2.1).mp hw)
    | stuck => exact absurd hw (hns k hk)
  · intro ⟨n, hn, hst⟩ out
    refine not_flat_not_ok hS hnn hfs hord hn (fun v hf => ?_) out
    obtain ⟨links, leaf, _, hc, _, _⟩ := hf.chain E.mainFile
    exact (((walkChain_trichotomy E S n fuel hfuel).2.2).mp hst).1 ⟨links, leaf, hc⟩

/-- the oracle's reading of a real `circular`: if the walk of no service is `long`, `ApplyExtends` does not report
`circular` (contrapositive of `circular_sound` through the decision procedure) -/
theorem no_long_walk_no_circular {E : Env} (hE : NoCircularEnv E) {order : List String} {dict S : KVs}
    (hS : lookup "services" dict = some (.map S)) (hnn : NoNull S) (hfs : NoNullFS E)
    (hmain : fileServices E.fs E.mainFile = none) (hord : Visits order S)
    (hwalk : ∀ n, lookup n S ≠ none → walkChain E ((keyUniverse E S).length + 2) S n ≠ .long) :
    applyExtendsOrd E order dict ≠ .err "circular" := by
  intro h
  obtain ⟨n, hn, hc⟩ := circular_sound hE hS hnn hfs hmain hord h
  exact hwalk n ((hord n).mp hn) (walkChain_cyclic E _ S n hc)

/-! ### non-vacuity -/

/-- `NoCircularEnv`, `FuelFree` hold of the two-file example environment -/
example : NoCircularEnv Neg.env := by
  constructor
  · intro b s h; cases h
  · intro f h
    simp only [Neg.env, fsLookup] at h
    split at h <;> cases h

/-- a document with one flat and one cyclic service satisfies the hypotheses of `cycle_is_circular` … -/
def exCyc : KVs := [("a", .map [("extends", .str "a")]), ("p", .map [("image", .str "i")])]

example : ∀ n, lookup n exCyc ≠ none → (∃ v, Flat Neg.env exCyc n v) ∨ Cyclic Neg.env (exCyc, n) := by
  intro n hn
  by_cases ha : n = "a"
  · subst ha
    exact Or.inr (Or.inl (Reach.one ⟨[("extends", .str "a")], .str "a", none, by simp [exCyc, Val.lookup],
      by simp [Val.lookup], rfl, by simp [baseMap, exCyc, Val.lookup]⟩))
  · by_cases hp : n = "p"
    · subst hp
      exact Or.inl ⟨_, Flat.leaf (svc := [("image", .str "i")]) (by simp [exCyc, Val.lookup]) (by simp [Val.lookup])⟩
    · simp [exCyc, Val.lookup, ha, hp] at hn

/-- the link walk classifies the two services of the example -/
example : walkChain Neg.env 5 exCyc "a" = .long ∧ walkChain Neg.env 5 exCyc "p" = .leaf := by
  constructor <;> rfl

/-- … and both visit orders report `circular` (computed) -/
example : applyExtendsOrd Neg.env ["a", "p"] [("services", .map exCyc)] = .err "circular" ∧
    applyExtendsOrd Neg.env ["p", "a"] [("services", .map exCyc)] = .err "circular" := by
  constructor <;> rfl

end CV.Extends
