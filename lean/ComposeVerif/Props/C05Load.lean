import ComposeVerif.Props.C05Anchor
import ComposeVerif.Props.C01Whole
import ComposeVerif.Model.ExtendsLoad
import ComposeVerif.Lemmas.ExtendsNoCircular
/-!
# C05 — extends through files: the nested load inside the model  (round 6)

`Model/ExtendsLoad.lean` computes the file-system parameter of the extends model from a **virtual file system of raw
documents**: an entry is `loadFile c relDir raw` = the composed per-document pipeline (`Pipeline.processDoc`, the model of
`loadYamlFile` / `processRawYaml`) under the option block `getExtendsBaseFromFile` clones (`nestedOpts`: no extends, no
validation, no defaults, no path resolution, no normalisation) on the empty model, followed by C12's
`Paths.resolve` at the file's own directory.  Tied to the real code by the streams `c05.load` and `c05.applyv`.

Here, for **every** configuration `c`, every virtual file system `vfs`, every main document and visit order:

* what the nested load is (`nestedLoad_eq`: interpolate, then the merge stages — the `extends` of the base file are *not*
  resolved by it, its schema is *not* checked: `nestedLoad_keeps_extends_stage_out`);
* the nested load and the path resolution never panic (`loadedFS_never_panics`, from C01's `processDoc_only_panic_sites`
  and C12's `resolve_never_panics`), so `PanicFree` and `FuelFree` hold outright: **no fuel and no environment hypothesis
  is left** in `extends_terminates_loaded`, `applyExtendsV_ok_or_err`, `extends_eq_flatten_loaded`,
  `extends_eq_chain_fold_loaded`, `cycle_is_circular_loaded`, `circular_sound_loaded` (the merge half of `NoCircularEnv` is
  proved too: `realEnv_noCircular`), `circular_iff_cyclic_loaded`, `applyExtends_perm_loaded`;
* every element of a chain of any length that is attributed to file `f` is a service of `f`'s raw document after the
  nested load, resolved against **`f`'s own directory** (`chain_elements_loaded`).
-/
namespace CV.Extends
open CV CV.Val

/-! ### the nested load -/

/-- the option block of `getExtendsBaseFromFile`, flag by flag: the clone keeps the interpolation switch only -/
theorem nestedOpts_flags (o : Pipeline.Opts) :
    (nestedOpts o).skipInterpolation = o.skipInterpolation ∧ (nestedOpts o).skipExtends = true ∧
    (nestedOpts o).skipValidation = true ∧ (nestedOpts o).skipDefaultValues = true ∧
    (nestedOpts o).resolvePaths = false ∧ (nestedOpts o).skipNormalization = true :=
  ⟨rfl, rfl, rfl, rfl, rfl, rfl⟩

/-- **what the nested load is**: the document is interpolated (under the outer switch) and goes through the merge
stages into the empty model — no `ApplyExtends` in between: the base file's own `extends` stay in the tree for the
recursion of `applyServiceExtends` -/
theorem nestedLoad_eq (c : Pipeline.Cfg) (raw : KVs) :
    nestedLoad c raw = (Pipeline.interpStage c raw).bind (Pipeline.mergeStages (nestedCfg c) (.map [])) := by
  unfold nestedLoad Pipeline.processDoc
  have h1 : Pipeline.interpStage (nestedCfg c) raw = Pipeline.interpStage c raw := rfl
  rw [h1]
  cases Pipeline.interpStage c raw with
  | ok cfg => simp [Pipeline.Out.bind, Pipeline.extendsStage, nestedCfg, nestedOpts]
  | err e => rfl
  | panic s => rfl

/-- … and the schema is not consulted by it (`SkipValidation`): the merged result is validated, not the base file -/
theorem nestedLoad_keeps_extends_stage_out (c : Pipeline.Cfg) (cfg : KVs) (d : Val) :
    Pipeline.extendsStage (nestedCfg c) cfg = .ok cfg ∧ Pipeline.schemaStage (nestedCfg c).opts d = .ok d := by
  constructor
  · simp [Pipeline.extendsStage, nestedCfg, nestedOpts]
  · simp [Pipeline.schemaStage, nestedCfg, nestedOpts]

/-- the nested load never panics (C01 `processDoc_only_panic_sites`: interpolation, merge, unicity, canonical form,
omitEmpty are all panic-free since the repairs of rounds 2–5) -/
theorem nestedLoad_never_panics (c : Pipeline.Cfg) (raw : KVs) (s : String) : nestedLoad c raw ≠ .panic s :=
  fun h => CV.C01.Whole.processDoc_only_panic_sites _ _ _ _ h

/-- the file-system entry of a raw file: a load error, or the loaded document resolved at the file's directory -/
theorem loadFile_cases (c : Pipeline.Cfg) (relDir : String) (raw : KVs) :
    loadFile c relDir raw = .err "loadErr" ∨
    ∃ d, nestedLoad c raw = .ok (.map d) ∧
      loadFile c relDir raw = anchoredFileAt { c.paths with wd := relDir.toList } d := by
  unfold loadFile
  split
  · rename_i d hd; exact Or.inr ⟨d, hd, rfl⟩
  · exact Or.inl rfl
  · exact Or.inl rfl
  · rename_i s hs; exact absurd hs (nestedLoad_never_panics c raw s)

theorem anchoredFileAt_cases (pc : CV.Paths.Cfg) (d : KVs) :
    (∃ d', CV.Paths.resolve pc (.map d) = .ok (.map d') ∧ anchoredFileAt pc d = .ok d' false) ∨
    anchoredFileAt pc d = .ok d true := by
  unfold anchoredFileAt
  split
  · rename_i d' h; exact Or.inl ⟨d', h, rfl⟩
  · exact Or.inr rfl
  · exact Or.inr rfl
  · rename_i s h; exact absurd h (CV.Paths.resolve_never_panics _ _ s)

theorem fsLookup_loadedFS {c : Pipeline.Cfg} {vfs : VFS} {f : String} {r : FileRes}
    (h : fsLookup f (loadedFS c vfs) = some r) : ∃ vf, (f, vf) ∈ vfs ∧ r = loadVFile c vf := by
  induction vfs with
  | nil => simp [loadedFS, fsLookup] at h
  | cons p rest ih =>
    obtain ⟨k, vf⟩ := p
    simp only [loadedFS, List.map_cons, fsLookup] at h
    by_cases hk : f = k
    · simp only [hk, ↓reduceIte, Option.some.injEq] at h
      subst hk
      exact ⟨vf, List.mem_cons_self .., h.symm⟩
    · simp only [hk, ↓reduceIte] at h
      obtain ⟨vf', hm, hr⟩ := ih h
      exact ⟨vf', List.mem_cons_of_mem _ hm, hr⟩

/-- **loading a raw extended file never panics** — neither the nested load nor the path resolution after it -/
theorem loadedFS_never_panics (c : Pipeline.Cfg) (vfs : VFS) (f s : String) : ¬ fsPanics (loadedFS c vfs) f s := by
  intro ⟨r, h1, h2⟩
  obtain ⟨vf, _, hr⟩ := fsLookup_loadedFS h1
  subst hr
  cases vf with
  | bad cls => simp [loadVFile, FileRes.panicSite?] at h2
  | doc relDir raw =>
    simp only [loadVFile] at h2
    rcases loadFile_cases c relDir raw with h | ⟨d, _, h⟩
    · rw [h] at h2; simp [FileRes.panicSite?] at h2
    · rw [h] at h2
      rcases anchoredFileAt_cases { c.paths with wd := relDir.toList } d with ⟨d', _, h'⟩ | h'
      · rw [h'] at h2; simp [FileRes.panicSite?] at h2
      · rw [h'] at h2; simp [FileRes.panicSite?] at h2

/-- **`PanicFree` (hence `FuelFree`) discharged** for the real merge step over any virtual file system of raw files -/
theorem loadedEnv_panicFree (c : Pipeline.Cfg) (vfs : VFS) : PanicFree (loadedEnv c vfs) :=
  realEnv_panicFree c.mainFile _ (loadedFS_never_panics c vfs)

/-! ### the property's clauses with the files inside the model — no fuel, no environment hypothesis -/

/-- **termination / fuel sufficiency**: whatever the raw files contain and however they refer to one another, the
recursion of `applyServiceExtends` is cut by the tracker before the fuel `fuelFor` (number of tracker keys + 1) runs out -/
theorem extends_terminates_loaded (c : Pipeline.Cfg) (vfs : VFS) {order : List String} {dict : KVs}
    (hord : ∀ S, lookup "services" dict = some (.map S) → Visits order S) :
    applyExtendsV c vfs order dict ≠ .panic fuelMark :=
  extends_terminates (loadedEnv_panicFree c vfs).fuelFree hord

/-- **a result or an error, never a crash, never a hang** — for every configuration, every set of raw files, every main
document and every visit order -/
theorem applyExtendsV_ok_or_err (c : Pipeline.Cfg) (vfs : VFS) {order : List String} {dict : KVs}
    (hord : ∀ S, lookup "services" dict = some (.map S) → Visits order S) :
    (∃ out, applyExtendsV c vfs order dict = .ok out) ∨ ∃ cls, applyExtendsV c vfs order dict = .err cls :=
  applyExtends_ok_or_err (loadedEnv_panicFree c vfs) hord

/-- **extends = base-then-local override** through raw files: every service of an accepted document is its `Flat` form
over the loaded files -/
theorem extends_eq_flatten_loaded (c : Pipeline.Cfg) (vfs : VFS) {order : List String} {dict out S : KVs}
    (hS : lookup "services" dict = some (.map S)) (hnn : NoNull S) (hfs : NoNullFS (loadedEnv c vfs))
    (hord : Visits order S) (h : applyExtendsV c vfs order dict = .ok out) :
    ∃ R, lookup "services" out = some (.map R) ∧
      ∀ n, (lookup n S = none → lookup n R = none) ∧
           (lookup n S ≠ none → ∃ v, lookup n R = some v ∧ Flat (loadedEnv c vfs) S n v) :=
  extends_eq_flatten hS hnn hfs hord h

/-- **chains of any depth `k`** through raw files: the value of every service is the base-first fold along its chain
(`foldChain`: induction over the chain, `Lemmas/ExtendsChain.lean`) — no bound on `k`, no fuel in the statement -/
theorem extends_eq_chain_fold_loaded (c : Pipeline.Cfg) (vfs : VFS) {order : List String} {dict out S : KVs}
    (hS : lookup "services" dict = some (.map S)) (hnn : NoNull S) (hfs : NoNullFS (loadedEnv c vfs))
    (hord : Visits order S) (h : applyExtendsV c vfs order dict = .ok out) :
    ∃ R, lookup "services" out = some (.map R) ∧
      ∀ n, lookup n S ≠ none → ∃ links leaf m, Chain (loadedEnv c vfs) c.mainFile S n links leaf ∧
        foldChain (loadedEnv c vfs) leaf.2.2 links = .ok m ∧ lookup n R = some (.map m) :=
  extends_eq_chain_fold (E := loadedEnv c vfs) hS hnn hfs hord h

/-- **acyclic ⇒ accepted, in every order** through raw files -/
theorem acyclic_ok_loaded (c : Pipeline.Cfg) (vfs : VFS) {order : List String} {dict S : KVs}
    (hS : lookup "services" dict = some (.map S)) (hord : Visits order S)
    (hmain : fileServices (loadedFS c vfs) c.mainFile = none)
    (hflat : ∀ n, lookup n S ≠ none → ∃ v, Flat (loadedEnv c vfs) S n v) :
    ∃ out, applyExtendsV c vfs order dict = .ok out :=
  acyclic_ok (E := loadedEnv c vfs) hS hord hmain hflat

/-- **order independence** through raw files -/
theorem applyExtends_perm_loaded (c : Pipeline.Cfg) (vfs : VFS) {order₁ order₂ : List String} {dict out₁ S : KVs}
    (hS : lookup "services" dict = some (.map S)) (hnn : NoNull S) (hfs : NoNullFS (loadedEnv c vfs))
    (hmain : fileServices (loadedFS c vfs) c.mainFile = none)
    (h₁ : Visits order₁ S) (h₂ : Visits order₂ S) (r₁ : applyExtendsV c vfs order₁ dict = .ok out₁) :
    ∃ out₂ R₁ R₂, applyExtendsV c vfs order₂ dict = .ok out₂ ∧
      lookup "services" out₁ = some (.map R₁) ∧ lookup "services" out₂ = some (.map R₂) ∧
      ∀ n, lookup n R₁ = lookup n R₂ :=
  applyExtends_perm (E := loadedEnv c vfs) hS hnn hfs hmain h₁ h₂ r₁

/-- **cycle detection is complete** through raw files: a document whose services each flatten or run into a cycle, one
of them cyclic (within or across files), is rejected as `circular`, in every visit order -/
theorem cycle_is_circular_loaded (c : Pipeline.Cfg) (vfs : VFS) {order : List String} {dict S : KVs}
    (hS : lookup "services" dict = some (.map S))
    (hmain : fileServices (loadedFS c vfs) c.mainFile = none) (hord : Visits order S)
    (hall : ∀ n, lookup n S ≠ none → (∃ v, Flat (loadedEnv c vfs) S n v) ∨ Cyclic (loadedEnv c vfs) (S, n))
    (hc : ∃ n, lookup n S ≠ none ∧ Cyclic (loadedEnv c vfs) (S, n)) :
    applyExtendsV c vfs order dict = .err "circular" :=
  cycle_is_circular (loadedEnv_panicFree c vfs).fuelFree hS hmain hord hall hc

/-- a raw file never yields the class `circular`: its entry is a document or the class `loadErr` / the read error -/
theorem loadedFS_not_circular (c : Pipeline.Cfg) (vfs : VFS)
    (hbad : ∀ f cls, (f, VFile.bad cls) ∈ vfs → cls ≠ "circular") (f : String) :
    fsLookup f (loadedFS c vfs) ≠ some (.err "circular") := by
  intro h
  obtain ⟨vf, hm, hr⟩ := fsLookup_loadedFS h
  cases vf with
  | bad cls =>
    simp only [loadVFile, FileRes.err.injEq] at hr
    exact hbad f cls hm hr.symm
  | doc relDir raw =>
    simp only [loadVFile] at hr
    rcases loadFile_cases c relDir raw with h' | ⟨d, _, h'⟩
    · rw [h'] at hr; simp at hr
    · rw [h'] at hr
      rcases anchoredFileAt_cases { c.paths with wd := relDir.toList } d with ⟨d', _, h''⟩ | h''
      · rw [h''] at hr; cases hr
      · rw [h''] at hr; cases hr

/-- **`NoCircularEnv` discharged for the real merge step**: the class `circular` is the tracker's own — the C04 merge
model returns only `cannotOverride`, `unexpectedType`, `unknown-merger`, `top-level` (`mergeExtend_not_circular`: induction
over the merge, `Lemmas/ExtendsNoCircular.lean`) -/
theorem realEnv_noCircular (mainFile : String) (fs : FS) (hfs : ∀ f, fsLookup f fs ≠ some (.err "circular")) :
    NoCircularEnv (realEnv mainFile fs) :=
  ⟨mergeExtend_not_circular, hfs⟩

/-- **cycle detection is sound** through raw files: `Circular reference` ⇒ some service's chain really runs into a
cycle — in every visit order, also in documents with other defects; no hypothesis on the merge step or the loading left
(`hbad`: a file that cannot be read is not reported with the tracker's class) -/
theorem circular_sound_loaded (c : Pipeline.Cfg) (vfs : VFS) {order : List String} {dict S : KVs}
    (hbad : ∀ f cls, (f, VFile.bad cls) ∈ vfs → cls ≠ "circular")
    (hS : lookup "services" dict = some (.map S)) (hnn : NoNull S) (hfs : NoNullFS (loadedEnv c vfs))
    (hmain : fileServices (loadedFS c vfs) c.mainFile = none) (hord : Visits order S)
    (h : applyExtendsV c vfs order dict = .err "circular") :
    ∃ n, n ∈ order ∧ Cyclic (loadedEnv c vfs) (S, n) :=
  circular_sound (E := loadedEnv c vfs) (realEnv_noCircular _ _ (loadedFS_not_circular c vfs hbad)) hS hnn hfs hmain hord h

/-- … and through canonical files (`anchoredFS`): sound with no environment hypothesis at all -/
theorem circular_sound_anchored (mainFile : String) (files : List (String × String × KVs))
    {order : List String} {dict S : KVs}
    (hS : lookup "services" dict = some (.map S)) (hnn : NoNull S)
    (hfs : NoNullFS (realEnv mainFile (anchoredFS files)))
    (hmain : fileServices (anchoredFS files) mainFile = none) (hord : Visits order S)
    (h : applyExtendsOrd (realEnv mainFile (anchoredFS files)) order dict = .err "circular") :
    ∃ n, n ∈ order ∧ Cyclic (realEnv mainFile (anchoredFS files)) (S, n) :=
  circular_sound (realEnv_noCircular _ _ (anchoredFS_not_circular files)) hS hnn hfs hmain hord h

/-- **sound and complete in one statement** through raw files: for a document whose services each flatten or run into a
cycle, `ApplyExtends` answers `circular` **iff** a cyclic chain exists — every visit order -/
theorem circular_iff_cyclic_loaded (c : Pipeline.Cfg) (vfs : VFS) {order : List String} {dict S : KVs}
    (hS : lookup "services" dict = some (.map S))
    (hmain : fileServices (loadedFS c vfs) c.mainFile = none) (hord : Visits order S)
    (hall : ∀ n, lookup n S ≠ none → (∃ v, Flat (loadedEnv c vfs) S n v) ∨ Cyclic (loadedEnv c vfs) (S, n)) :
    applyExtendsV c vfs order dict = .err "circular" ↔ ∃ n, lookup n S ≠ none ∧ Cyclic (loadedEnv c vfs) (S, n) :=
  circular_iff_cyclic (E := loadedEnv c vfs) (loadedEnv_panicFree c vfs).fuelFree hS hmain hord hall

/-! ### anchoring through the nested load -/

/-- a loaded raw file offers services only when it loaded and its relative paths resolved; they are the services of
the **loaded** document resolved against the file's own directory -/
theorem fileServices_loaded {c : Pipeline.Cfg} {vfs : VFS} {f : String} {S' : KVs}
    (h : fileServices (loadedFS c vfs) f = some S') :
    ∃ relDir raw d d', (f, VFile.doc relDir raw) ∈ vfs ∧ nestedLoad c raw = .ok (.map d) ∧
      CV.Paths.resolve { c.paths with wd := relDir.toList } (.map d) = .ok (.map d') ∧
      lookup "services" d' = some (.map S') := by
  obtain ⟨d', hd, hs⟩ := fileServices_inv h
  obtain ⟨vf, hm, hr⟩ := fsLookup_loadedFS hd
  cases vf with
  | bad cls => simp [loadVFile] at hr
  | doc relDir raw =>
    simp only [loadVFile] at hr
    rcases loadFile_cases c relDir raw with h' | ⟨d, hl, h'⟩
    · rw [h'] at hr; cases hr
    · rw [h'] at hr
      rcases anchoredFileAt_cases { c.paths with wd := relDir.toList } d with ⟨d'', hres, h''⟩ | h''
      · rw [h''] at hr
        simp only [FileRes.ok.injEq, and_true] at hr
        subst hr
        exact ⟨relDir, raw, d, d', hm, hl, hres, hs⟩
      · rw [h''] at hr; simp at hr

/-- **anchoring along a chain of any length through raw files**: every chain element attributed to file `f` is a
service of the starting mapping, or a service of `f`'s raw document *after the nested load* (interpolated, canonical)
resolved against **`f`'s own directory** — never the referring file's directory, never the project directory -/
theorem chain_elements_loaded {c : Pipeline.Cfg} {vfs : VFS}
    {cf : String} {S : KVs} {n : String} {links : List ChainElt} {leaf : ChainElt}
    (h : Chain (loadedEnv c vfs) cf S n links leaf) :
    ∀ x ∈ links ++ [leaf], (x.1 = cf ∧ lookup x.2.1 S = some (.map x.2.2)) ∨
      (∃ relDir raw d d' S', (x.1, VFile.doc relDir raw) ∈ vfs ∧ nestedLoad c raw = .ok (.map d) ∧
        CV.Paths.resolve { c.paths with wd := relDir.toList } (.map d) = .ok (.map d') ∧
        lookup "services" d' = some (.map S') ∧ lookup x.2.1 S' = some (.map x.2.2)) := by
  intro x hx
  rcases h.elt_source x hx with hl | ⟨S', hfs, hl⟩
  · exact Or.inl hl
  · obtain ⟨relDir, raw, d, d', hm, hld, hres, hs⟩ := fileServices_loaded hfs
    exact Or.inr ⟨relDir, raw, d, d', S', hm, hld, hres, hs, hl⟩

/-! ### non-vacuity: a two-file system (the base file in `sub/`), hypotheses of the theorems above are satisfiable -/

/-- `sub/base.yaml` with one service, and a file that cannot be read -/
def exVFS : VFS :=
  [("sub/base.yaml", .doc "sub" [("services", .map [("b", .map [("image", .str "i")])])]),
   ("gone.yaml", .bad "noFile")]

example : ∀ f cls, (f, VFile.bad cls) ∈ exVFS → cls ≠ "circular" := by
  intro f cls h
  simp [exVFS] at h
  rcases h with ⟨_, h⟩
  subst h; decide

example (c : Pipeline.Cfg) : (loadedFS c exVFS).map Prod.fst = ["sub/base.yaml", "gone.yaml"] := rfl

/-- a file that cannot be read offers no services -/
example (c : Pipeline.Cfg) : fileServices (loadedFS c exVFS) "gone.yaml" = none := by
  simp [fileServices, loadedFS, exVFS, fsLookup, loadVFile]

/-- `hmain` is satisfiable: the main file's own name is not a reference of this file system -/
example (c : Pipeline.Cfg) : fileServices (loadedFS c exVFS) "compose.yaml" = none := by
  simp [fileServices, loadedFS, exVFS, fsLookup, loadVFile]

end CV.Extends
