import ComposeVerif.Model.InterpFloat
import ComposeVerif.Model.InterpCustom
/-!
# C08 — the float casters (round 5): which reading applies is proved, only `strconv.ParseFloat` stays opaque

Every theorem holds for every `RawFloat` (the opaque `strconv.ParseFloat` and integer→float conversions).
-/
namespace CV.Interp

/-- **the float casters extend the integer casters**: a text `toInt` / `toInt64` read as `i` is read by `toFloat` as
    `float64(i)` (and by `toFloat32` as `float32(float64(i))`) — never through `strconv.ParseFloat` -/
theorem float_caster_extends_int_caster (rf : RawFloat) (s : String) (i : Int) (h : parseInt s = some i) :
    Caster.toFloat.apply rf.parser s = some (.float (rf.ofInt64 i)) ∧
    Caster.toFloat32.apply rf.parser s = some (.float (rf.ofInt32 i)) := by
  simp only [Caster.apply, RawFloat.parser, parseYAMLFloat, h, Option.map_some, and_self]

/-- **type transparency at float attributes, integer spellings, full strength since the repair** (`Neg/C08.lean:
    float_casters_literal_eq_variable_false_before_repair`, witness `0b+1`): every text yaml.v3 resolves as a plain `!!int`
    literal `i` — which the decoder turns into `float64(i)` at a float attribute — is cast to `float64(i)` when it arrives
    through a variable (`cpu_percent`, `cpus`, `max_failure_ratio`; `deploy.resources.*.cpus` via `decodeNanoCPUs`) -/
theorem literal_eq_variable_float (rf : RawFloat) (s : String) (i : Int) (h : yamlInt s = some i) :
    Caster.toFloat.apply rf.parser s = some (.float (rf.ofInt64 i)) ∧
    Caster.toFloat32.apply rf.parser s = some (.float (rf.ofInt32 i)) ∧
    decodeNanoCPUs rf.parser s = some (rf.ofInt64 i) := by
  have hp : parseInt s = some i := by
    unfold yamlInt at h
    unfold parseInt
    split at h
    · split at h
      · rw [h]
      · cases h
    · cases h
  refine ⟨(float_caster_extends_int_caster rf s i hp).1, (float_caster_extends_int_caster rf s i hp).2, ?_⟩
  simp only [decodeNanoCPUs, RawFloat.parser, parseYAMLFloat, hp]

/-- unsigned 64-bit integers beyond int64 (`ParseUint(plain, 0, 64)`) are the float of that integer -/
theorem float_caster_uint (rf : RawFloat) (s : String) (u : Nat) (hi : parseInt s = none)
    (hu : parseUint0 (stripUnderscores s.toList) = some u) :
    Caster.toFloat.apply rf.parser s = some (.float (rf.ofInt64 u)) := by
  simp only [Caster.apply, RawFloat.parser, parseYAMLFloat, hi, hu, Option.map_some]

/-- every other text is read by `strconv.ParseFloat`: first without its underscores, then as it is; rejected by both ⇒
    the caster fails (and the walk reports a cast error naming the path, `cast_failure_is_error`) -/
theorem float_caster_else (rf : RawFloat) (s : String) (hi : parseInt s = none)
    (hu : parseUint0 (stripUnderscores s.toList) = none) :
    Caster.toFloat.apply rf.parser s =
      ((rf.parse64 (String.ofList (stripUnderscores s.toList))).orElse (fun _ => rf.parse64 s)).map Val.float := by
  simp only [Caster.apply, RawFloat.parser, parseYAMLFloat, hi, hu]
  cases rf.parse64 (String.ofList (stripUnderscores s.toList)) <;> rfl

/-- the repair changed the float casters only where `ParseYAMLInt` reads more than `ParseInt(_, 0, 64)`: on every text
    the latter reads, old and new agree -/
theorem float_caster_repair_conservative (parse : String → Option String) (ofInt : Int → String) (s : String) (i : Int)
    (h : parseInt0 (stripUnderscores s.toList) = some i) :
    parseYAMLFloat parse ofInt s = parseYAMLFloatOld parse ofInt s := by
  have hp : parseInt s = some i := by
    unfold parseInt yamlIntCore
    simp only [h]
  simp only [parseYAMLFloat, parseYAMLFloatOld, hp, h]

/-! ## non-vacuity -/

private def rf0 : RawFloat :=
  { parse64 := fun s => if s = "0.5" then some "0.5" else none, parse32 := fun s => if s = "0.5" then some "0.5" else none,
    ofInt64 := fun i => ToString.toString i, ofInt32 := fun i => ToString.toString i }

/-- `literal_eq_variable_float`: `0440`, `0x10`, `1_000` and yaml.v3's `0b+1` are YAML integers; `float_caster_else`: `0.5` -/
example : yamlInt "0440" = some 288 ∧ yamlInt "0b+1" = some 1 ∧ parseInt "0.5" = none ∧
    parseUint0 (stripUnderscores "0.5".toList) = none := by decide
example : Caster.toFloat.apply rf0.parser "0.5" = some (.float "0.5") := by
  rw [float_caster_else rf0 "0.5" (by decide) (by decide)]; rfl
/-- `float_caster_uint`: 2^63 -/
example : parseInt "9223372036854775808" = none ∧
    parseUint0 (stripUnderscores "9223372036854775808".toList) = some 9223372036854775808 := by decide

end CV.Interp
