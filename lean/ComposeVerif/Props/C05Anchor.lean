import ComposeVerif.Props.C05Chain
import ComposeVerif.Props.C05Cycle
import ComposeVerif.Model.ExtendsFS
import ComposeVerif.Props.C12
/-!
# C05 — path anchoring across files, and the file-system parameter discharged for canonical base files

"Relative paths inherited from a base in another file resolve against that file's directory."

The model's file-system parameter holds, for a base file already in canonical form, `anchoredFile R doc` = C12's model
of `paths.ResolveRelativePaths` run with the directory `R` of *that file* (relative to the project directory) — tied to
the real `getExtendsBaseFromFile` by the `c05.base` stream.  Here:

* every element of a chain of any length, through any number of files, that is attributed to file `f` is a service of
  the document of `f` **resolved against `f`'s own directory** (`chain_elements_anchored`);
* the project-level resolution that runs later over the merged model (against the project directory `W`) turns a base
  file's paths into paths under `Join(W, R)` — the file's directory — by C12's `resolve_compose_tree`
  (`inherited_paths_resolve_against_base_dir`);
* loading such a file never panics (C12's `resolve_never_panics`), so with the real merge step `PanicFree` holds
  outright and `ApplyExtends` returns a result or an error for every document and visit order
  (`applyExtends_ok_or_err_anchored`).
-/
namespace CV.Extends
open CV CV.Val

theorem fsLookup_anchoredFS {files : List (String × String × KVs)} {f : String} {r : FileRes}
    (h : fsLookup f (anchoredFS files) = some r) :
    ∃ relDir doc, (f, relDir, doc) ∈ files ∧ r = anchoredFile relDir doc := by
  induction files with
  | nil => simp [anchoredFS, fsLookup] at h
  | cons p rest ih =>
    obtain ⟨k, relDir, doc⟩ := p
    simp only [anchoredFS, List.map_cons, fsLookup] at h
    by_cases hk : f = k
    · simp only [hk, ↓reduceIte, Option.some.injEq] at h
      subst hk
      exact ⟨relDir, doc, List.mem_cons_self .., h.symm⟩
    · simp only [hk, ↓reduceIte] at h
      obtain ⟨rd, d, hm, hr⟩ := ih h
      exact ⟨rd, d, List.mem_cons_of_mem _ hm, hr⟩

/-- an anchored file offers services only when its relative paths resolved, and then they are the services of the
document **as resolved against the file's directory** -/
theorem fileServices_anchored {files : List (String × String × KVs)} {f : String} {S' : KVs}
    (h : fileServices (anchoredFS files) f = some S') :
    ∃ relDir doc d, (f, relDir, doc) ∈ files ∧
      CV.Paths.resolve { wd := relDir.toList, home := none } (.map doc) = .ok (.map d) ∧
      lookup "services" d = some (.map S') := by
  obtain ⟨d, hd, hs⟩ := fileServices_inv h
  obtain ⟨relDir, doc, hm, hr⟩ := fsLookup_anchoredFS hd
  refine ⟨relDir, doc, d, hm, ?_, hs⟩
  unfold anchoredFile at hr
  split at hr
  · rename_i d' hres
    simp only [FileRes.ok.injEq, and_true] at hr
    subst hr; exact hres
  · simp at hr
  · simp at hr
  · cases hr

/-- **anchoring along a chain of any length**: in an environment whose files are canonical documents anchored at their
own directories, every element of a chain (the extending services and the last base) is either a service of the mapping
the chain started in, or a service of the document of the file it is attributed to, resolved against *that file's*
directory — never against the directory of the file that referred to it, nor the project directory -/
theorem chain_elements_anchored {mainFile : String} {files : List (String × String × KVs)} {extend : KVs → KVs → Out KVs}
    {cf : String} {S : KVs} {n : String} {links : List ChainElt} {leaf : ChainElt}
    (h : Chain ⟨mainFile, anchoredFS files, extend⟩ cf S n links leaf) :
    ∀ x ∈ links ++ [leaf], (x.1 = cf ∧ lookup x.2.1 S = some (.map x.2.2)) ∨
      (∃ relDir doc d S', (x.1, relDir, doc) ∈ files ∧
        CV.Paths.resolve { wd := relDir.toList, home := none } (.map doc) = .ok (.map d) ∧
        lookup "services" d = some (.map S') ∧ lookup x.2.1 S' = some (.map x.2.2)) := by
  intro x hx
  rcases h.elt_source x hx with hl | ⟨S', hfs, hl⟩
  · exact Or.inl hl
  · obtain ⟨relDir, doc, d, hm, hr, hs⟩ := fileServices_anchored hfs
    exact Or.inr ⟨relDir, doc, d, S', hm, hr, hs, hl⟩

/-- **inherited paths end up under the base file's directory.**  The document of a base file stored in the relative
directory `R` enters the merge resolved against `R`; the resolution of the merged model against the project directory
`W` then gives, on that document, exactly the resolution against `Join(W, R)` — the base file's own directory —
(C12 `resolve_compose_tree`: same tree, same error) -/
theorem inherited_paths_resolve_against_base_dir (W : CV.Str) (R : String) (doc d : KVs)
    (hW : W ≠ []) (hR : R.toList ≠ []) (hRr : CV.Paths.isAbs R.toList = false)
    (h : anchoredFile R doc = .ok d false) :
    CV.Paths.resolve ⟨W, none, fun _ => false, some⟩ (.map d) =
      CV.Paths.resolve ⟨CV.Paths.join W R.toList, none, fun _ => false, some⟩ (.map doc) := by
  have hres : CV.Paths.resolve ⟨R.toList, none, fun _ => false, some⟩ (.map doc) = .ok (.map d) := by
    unfold anchoredFile at h
    split at h
    · rename_i d' hres
      simp only [FileRes.ok.injEq, and_true] at h
      subst h; exact hres
    · simp at h
    · simp at h
    · cases h
  exact CV.Paths.resolve_compose_tree none W R.toList hW hR hRr (fun _ hh => by cases hh) _ _ hres

/-- loading a canonical base file never panics (C12: no resolver panics any more) -/
theorem anchoredFS_never_panics (files : List (String × String × KVs)) (f s : String) :
    ¬ fsPanics (anchoredFS files) f s := by
  intro ⟨r, h1, h2⟩
  obtain ⟨relDir, doc, _, hr⟩ := fsLookup_anchoredFS h1
  subst hr
  unfold anchoredFile at h2
  split at h2
  · cases h2
  · cases h2
  · cases h2
  · rename_i s' hp
    exact CV.Paths.resolve_never_panics _ _ s' hp

/-- **`PanicFree` discharged**: real merge step (C04) + canonical base files anchored by C12's resolver -/
theorem anchoredEnv_panicFree (mainFile : String) (files : List (String × String × KVs)) :
    PanicFree (realEnv mainFile (anchoredFS files)) :=
  realEnv_panicFree mainFile _ (anchoredFS_never_panics files)

/-- with the real merge step and canonical base files, `ApplyExtends` returns a result or an error — never a crash,
never a hang — for every document, every set of files and every visit order; no hypothesis on the environment left -/
theorem applyExtends_ok_or_err_anchored (mainFile : String) (files : List (String × String × KVs))
    {order : List String} {dict : KVs}
    (hord : ∀ S, lookup "services" dict = some (.map S) → Visits order S) :
    (∃ out, applyExtendsOrd (realEnv mainFile (anchoredFS files)) order dict = .ok out) ∨
      ∃ c, applyExtendsOrd (realEnv mainFile (anchoredFS files)) order dict = .err c :=
  applyExtends_ok_or_err (anchoredEnv_panicFree mainFile files) hord

/-- an anchored file never yields the class `circular` (its entry is a document, never a load error) -/
theorem anchoredFS_not_circular (files : List (String × String × KVs)) (f : String) :
    fsLookup f (anchoredFS files) ≠ some (.err "circular") := by
  intro h
  obtain ⟨relDir, doc, _, hr⟩ := fsLookup_anchoredFS h
  unfold anchoredFile at hr
  split at hr <;> cases hr

/-- **the outcome read off the link walk, for real loads of canonical files**: real merge step, files anchored by C12's
resolver — `FuelFree` / `PanicFree` are discharged, what remains are statements about the *documents*: no reference spelled
like the main file, no `null` service, merges along chains succeed -/
theorem applyExtends_outcome_by_walk_anchored (mainFile : String) (files : List (String × String × KVs))
    {order : List String} {dict S : KVs}
    (hS : lookup "services" dict = some (.map S)) (hnn : NoNull S)
    (hfs : NoNullFS (realEnv mainFile (anchoredFS files)))
    (hmain : fileServices (anchoredFS files) mainFile = none) (hord : Visits order S)
    (fuel : Nat) (hfuel : (keyUniverse (realEnv mainFile (anchoredFS files)) S).length + 1 ≤ fuel)
    (hfold : ∀ n links leaf, Chain (realEnv mainFile (anchoredFS files)) mainFile S n links leaf →
      ∃ m, foldChain (realEnv mainFile (anchoredFS files)) leaf.2.2 links = .ok m) :
    ((∀ n, lookup n S ≠ none → walkChain (realEnv mainFile (anchoredFS files)) fuel S n = .leaf) →
      ∃ out, applyExtendsOrd (realEnv mainFile (anchoredFS files)) order dict = .ok out) ∧
    ((∀ n, lookup n S ≠ none → walkChain (realEnv mainFile (anchoredFS files)) fuel S n ≠ .stuck) →
      (∃ n, lookup n S ≠ none ∧ walkChain (realEnv mainFile (anchoredFS files)) fuel S n = .long) →
      applyExtendsOrd (realEnv mainFile (anchoredFS files)) order dict = .err "circular") ∧
    ((∃ n, lookup n S ≠ none ∧ walkChain (realEnv mainFile (anchoredFS files)) fuel S n = .stuck) →
      ∀ out, applyExtendsOrd (realEnv mainFile (anchoredFS files)) order dict ≠ .ok out) :=
  applyExtends_outcome_by_walk (anchoredEnv_panicFree mainFile files).fuelFree hS hnn hfs hmain hord fuel hfuel hfold

/-- a cyclic chain through canonical files is reported as `circular`, nothing else, in every visit order -/
theorem cycle_is_circular_anchored (mainFile : String) (files : List (String × String × KVs))
    {order : List String} {dict S : KVs}
    (hS : lookup "services" dict = some (.map S))
    (hmain : fileServices (anchoredFS files) mainFile = none) (hord : Visits order S)
    (hall : ∀ n, lookup n S ≠ none → (∃ v, Flat (realEnv mainFile (anchoredFS files)) S n v) ∨
      Cyclic (realEnv mainFile (anchoredFS files)) (S, n))
    (hc : ∃ n, lookup n S ≠ none ∧ Cyclic (realEnv mainFile (anchoredFS files)) (S, n)) :
    applyExtendsOrd (realEnv mainFile (anchoredFS files)) order dict = .err "circular" :=
  cycle_is_circular (anchoredEnv_panicFree mainFile files).fuelFree hS hmain hord hall hc

/-! ### non-vacuity: a base file in `sub/` (that `anchoredFile "sub" doc` is `.ok d false` with `env_file: [{path: e.env}]`
turned into `sub/e.env` is what the driver computes and the `c05.base` stream compares with the real
`getExtendsBaseFromFile`; the kernel cannot unfold the string primitives inside `resolve`, so only the side
conditions are shown here) -/

example : ("sub".toList ≠ []) ∧ CV.Paths.isAbs "sub".toList = false ∧ (['/', 'w'] : CV.Str) ≠ [] := by decide

end CV.Extends
