import ComposeVerif.Model.Marshal
import ComposeVerif.Lemmas.Marshal
import ComposeVerif.Lemmas.Duration
import ComposeVerif.Model.Encode
import ComposeVerif.Lemmas.Encode
import ComposeVerif.Spec.RoundTrip
import ComposeVerif.Gen.Types
import ComposeVerif.Neg.C09
import ComposeVerif.Lemmas.AuditCmd
/-!
# C09 — a marshalled project reloads to the same project (YAML and JSON)

Property theorems only.  Three groups:

* **descriptor facts** over the regenerated `Gen.Types` (`decide`): the YAML and the JSON rendering name every
  field of every model type identically, keys are unambiguous, `omitempty` agrees, and the set of types with
  hand-written marshallers is exactly the set modelled in `Model/Marshal.lean`;
* **custom round trips**: for each hand-written marshaller/decoder pair, `decode (marshal v) = v` for *all* values
  (where the unchanged tree falsifies that, the witness is in `Neg/C09.lean` and the provable statement is `_partial`);
* **omitempty is lossless**: a field left out of the rendering decodes to the value it had.
-/
namespace CV.C09
open CV CV.Marshal CV.RoundTrip CV.TypeDesc

/-! ## descriptor facts (re-decided whenever `types/*.go` changes) -/

theorem descriptor_facts :
    Facts Gen.structs Gen.namedTypes Gen.customMethods (modelTypes Gen.structs Gen.namedTypes) = true := by
  decide

/-- every field of every type a `Project` can contain has the same key in the YAML and in the JSON rendering
    (or is left out of both; extension attributes are inlined in YAML and omitted from JSON by design) -/
theorem tags_consistent : TagsConsistent Gen.structs (modelTypes Gen.structs Gen.namedTypes) = true := by
  have h := descriptor_facts
  simp only [Facts, Bool.and_eq_true] at h
  exact h.1.1.1.1

/-- the reachability closure that defines the model types has reached its fixed point (enough fuel) -/
theorem modelTypes_closed : Closed Gen.structs Gen.namedTypes (modelTypes Gen.structs Gen.namedTypes) = true := by
  have h := descriptor_facts
  simp only [Facts, Bool.and_eq_true] at h
  exact h.1.1.1.2

/-- within one model type no two rendered fields share a key (so decoding by key is unambiguous) -/
theorem keys_distinct : KeysDistinct Gen.structs (modelTypes Gen.structs Gen.namedTypes) = true := by
  have h := descriptor_facts
  simp only [Facts, Bool.and_eq_true] at h
  exact h.1.1.2

/-- `omitempty` is declared alike for both renderings (JSON keeps `null` for `ShellCommand` on purpose) -/
theorem omitempty_agrees : OmitAgrees Gen.structs Gen.customMethods (modelTypes Gen.structs Gen.namedTypes) = true := by
  have h := descriptor_facts
  simp only [Facts, Bool.and_eq_true] at h
  exact h.1.2

/-- the types whose rendering or decoding is hand-written in the source are exactly the ones the model covers:
    a new custom marshaller must come with a model (and its round-trip theorem) -/
theorem customs_are_modelled :
    customTypes Gen.customMethods (modelTypes Gen.structs Gen.namedTypes) = modelledCustoms := by
  have h := descriptor_facts
  simp only [Facts, Bool.and_eq_true] at h
  exact eq_of_beq h.2

/-! ## custom round trips -/

/-- byte sizes: **every** int64 size survives both renderings — also -1 (unlimited swap) and sizes above 2^53
    (promoted from `_partial` after the repair of `UnitBytes.DecodeMapstructure`; pre-repair behaviour: `Neg.C09.unitbytes_negative`) -/
theorem custom_roundtrip_UnitBytes (i : Int) (h : -(two63 : Int) ≤ i ∧ i < (two63 : Int)) :
    (marshalY_UnitBytes (.int i)).bind decode_UnitBytes = .ok (.int i) ∧
    (marshalJ_UnitBytes (.int i)).bind decode_UnitBytes = .ok (.int i) := by
  have key : (marshalY_UnitBytes (.int i)).bind decode_UnitBytes = .ok (.int i) := by
    simp only [marshalY_UnitBytes, Out.bind, decode_UnitBytes, parseInt64?, parseInt_fmtInt, h, and_self, if_true]
  exact ⟨key, key⟩

example : -(two63 : Int) ≤ (-1 : Int) ∧ (-1 : Int) < (two63 : Int) := by decide

/-- durations: `time.ParseDuration(d.String()) = d` for **every** `time.Duration` (all of int64), both renderings
    (the text has at most three `h`/`m`/`s` segments or one sub-second segment; the fraction digits printed by `fmtFrac`
    always divide the unit, so `ParseDuration`'s float64 step is exact) -/
theorem custom_roundtrip_Duration (d : Int) (h : -(two63 : Int) ≤ d ∧ d < (two63 : Int)) :
    (marshal_Duration (.int d)).bind decode_Duration = .ok (.int d) := by
  show parseDuration (sprint (.str (durString d))) = _
  exact parseDuration_durString d h

example : -(two63 : Int) ≤ (90500000000 : Int) ∧ (90500000000 : Int) < (two63 : Int) := by decide

/-- device counts are rendered as plain integers and decode to themselves -/
theorem custom_roundtrip_DeviceCount (i : Int) :
    (marshal_DeviceCount (.int i)).bind decode_DeviceCount = .ok (.int i) := rfl

/-- a `[]string` value: nil, or a list of strings -/
def IsStrSlice : Val → Prop
  | .null => True
  | .seq xs => allStr xs = true
  | _ => False

/-- commands (`ShellCommand`): nil stays nil, a list (even an empty one) stays that list -/
theorem custom_roundtrip_ShellCommand (v : Val) (h : IsStrSlice v) :
    (marshal_StrSlice v).bind decode_ShellCommand = .ok v := by
  cases v <;> simp_all [IsStrSlice, marshal_StrSlice, Out.bind, decode_ShellCommand]

theorem custom_roundtrip_HealthCheckTest (v : Val) (h : IsStrSlice v) :
    (marshal_StrSlice v).bind decode_HealthCheckTest = .ok v := by
  cases v <;> simp_all [IsStrSlice, marshal_StrSlice, Out.bind, decode_HealthCheckTest]

theorem custom_roundtrip_StringList (v : Val) (h : IsStrSlice v) :
    (marshal_StrSlice v).bind decode_StringList = .ok v := by
  cases v <;> simp_all [IsStrSlice, marshal_StrSlice, Out.bind, decode_StringList]

theorem custom_roundtrip_StringOrNumberList (v : Val) (h : IsStrSlice v) :
    (marshal_StrSlice v).bind decode_StringOrNumberList = .ok v := by
  cases v with
  | null => rfl
  | seq xs =>
    simp only [IsStrSlice] at h
    simp [marshal_StrSlice, h, Out.bind, decode_StringOrNumberList, guardScalars, allStr_scalar xs h, allStr_sprint xs h]
  | _ => simp [IsStrSlice] at h

example : IsStrSlice (.seq [.str "sh", .str "-c", .str "echo hi"]) := by simp [IsStrSlice, allStr]
example : IsStrSlice (.seq []) := by simp [IsStrSlice, allStr]

/-- a `map[string]string` value -/
def IsStrMap : Val → Prop
  | .null => True
  | .map kvs => allStrVals kvs = true
  | _ => False

/-- a `map[string]*string` value -/
def IsStrPtrMap : Val → Prop
  | .null => True
  | .map kvs => allStrOrNullVals kvs = true
  | _ => False

theorem custom_roundtrip_Mapping (v : Val) (h : IsStrMap v) :
    (marshal_StrMap v).bind decode_Mapping = .ok v := by
  cases v with
  | null => rfl
  | map kvs =>
    simp only [IsStrMap] at h
    simp only [marshal_StrMap, h, if_true, Out.bind, decode_Mapping, guardScalars, allStrVals_scalar kvs h]
    rw [allStrVals_sprint kvs h]
  | _ => simp [IsStrMap] at h

theorem custom_roundtrip_Labels (v : Val) (h : IsStrMap v) :
    (marshal_StrMap v).bind decode_Labels = .ok v := custom_roundtrip_Mapping v h

theorem custom_roundtrip_Options (v : Val) (h : IsStrMap v) :
    (marshal_StrMap v).bind decode_Options = .ok v := by
  cases v with
  | null => rfl
  | map kvs =>
    simp only [IsStrMap] at h
    simp only [marshal_StrMap, h, if_true, Out.bind, decode_Options, guardScalars, allStrVals_scalar kvs h]
    rw [allStrVals_sprint kvs h]
  | _ => simp [IsStrMap] at h

/-- environment-like mappings: a key without value (nil) stays without value -/
theorem custom_roundtrip_MappingWithEquals (v : Val) (h : IsStrPtrMap v) :
    (marshal_StrPtrMap v).bind decode_MappingWithEquals = .ok v := by
  cases v with
  | null => rfl
  | map kvs =>
    simp only [IsStrPtrMap] at h
    simp only [marshal_StrPtrMap, h, if_true, Out.bind, decode_MappingWithEquals, guardScalars, allStrOrNullVals_scalar kvs h]
    rw [allStrOrNullVals_sprint kvs h]
  | _ => simp [IsStrPtrMap] at h

example : IsStrPtrMap (.map [("A", .str "b"), ("FROM_ENV", .null)]) := by simp [IsStrPtrMap, allStrOrNullVals]

/-- ulimits, YAML: every value the decoder can produce (a single limit, or a soft/hard pair) survives -/
theorem custom_roundtrip_Ulimits_yaml (single soft hard : Int) (canon : single ≠ 0 → soft = 0 ∧ hard = 0) :
    (marshalY_Ulimits (mkUlimit single soft hard)).bind decode_Ulimits = .ok (mkUlimit single soft hard) := by
  by_cases hs : single = 0
  · subst hs
    simp [marshalY_Ulimits, mkUlimit, getInt, Val.lookup, Out.bind, decode_Ulimits, schemaOk_Ulimits]
  · obtain ⟨h1, h2⟩ := canon hs
    subst h1 h2
    simp [marshalY_Ulimits, mkUlimit, getInt, Val.lookup, Out.bind, decode_Ulimits, schemaOk_Ulimits, hs]

/-- ulimits, JSON: same statement (promoted after the repair of `MarshalJSON`; pre-repair: `Neg.C09.ulimits_json_zero`) -/
theorem custom_roundtrip_Ulimits_json (single soft hard : Int) (canon : single ≠ 0 → soft = 0 ∧ hard = 0) :
    (marshalJ_Ulimits (mkUlimit single soft hard)).bind decode_Ulimits = .ok (mkUlimit single soft hard) :=
  custom_roundtrip_Ulimits_yaml single soft hard canon

example : ∃ single soft hard : Int, (single ≠ 0 → soft = 0 ∧ hard = 0) := ⟨0, 0, 2048, by decide⟩

/-- env_file, YAML: every path, required or not, with or without a format
    (promoted after the repair of the marshallers; pre-repair: `Neg.C09.envfile_format_lost_yaml`) -/
theorem custom_roundtrip_EnvFile_yaml (path format : String) (required : Bool) :
    (marshalY_EnvFile (mkEnvFile path required format)).bind decode_EnvFile = .ok (mkEnvFile path required format) := by
  cases required <;> by_cases hf : format = "" <;>
    simp [marshalY_EnvFile, mkEnvFile, getBool, getStr, Val.lookup, Out.bind, decode_EnvFile, optStr, hf]

/-- env_file, JSON: likewise (pre-repair: `Neg.C09.envfile_format_lost_json`) -/
theorem custom_roundtrip_EnvFile_json (path format : String) (required : Bool) :
    (marshalJ_EnvFile (mkEnvFile path required format)).bind decode_EnvFile = .ok (mkEnvFile path required format) := by
  cases required <;> by_cases hp : path = "" <;> by_cases hf : format = "" <;>
    simp [marshalJ_EnvFile, mkEnvFile, getBool, getStr, Val.lookup, Out.bind, decode_EnvFile, optStr, hp, hf]

/-- ssh keys: every list of keys with distinct ids free of `=` survives both renderings — keys with a path, the
    default agent and other agent keys (promoted after the repair of the SSHKey marshallers; pre-repair:
    `Neg.C09.sshkey_path_yaml`, `sshkey_path_json`, `sshkey_named_agent`; an id containing `=`: `Neg.C09.sshkey_id_with_equals`) -/
theorem custom_roundtrip_SSHConfig (ks : List (String × String)) (hnd : (ks.map Prod.fst).Nodup)
    (heq : ∀ k ∈ ks, '=' ∉ k.1.toList) :
    (marshalY_SSHConfig (.seq (ks.map sshVal))).bind decode_SSHConfig = .ok (.seq (ks.map sshVal)) ∧
    (marshalJ_SSHConfig (.seq (ks.map sshVal))).bind decode_SSHConfig = .ok (.seq (ks.map sshVal)) :=
  ⟨roundtrip_SSHConfig ks hnd heq, roundtrip_SSHConfig ks hnd heq⟩

example : (([("default", ""), ("mykey", "./id_rsa"), ("agent2", "")] : List (String × String)).map Prod.fst).Nodup := by decide

/-- extra_hosts: every mapping of distinct well-formed hosts (non-empty, no `:` or `=`) to non-empty lists of
    well-formed addresses (no comma, no enclosing brackets) reloads to the same mapping: the result lists the entries in
    the marshaller's order (a permutation — a Go map has no order) and keeps each host's addresses in their own order
    (holds since the repair of `HostsList.MarshalYAML/JSON`; pre-repair: `Neg.C09.hosts_reordered`) -/
theorem custom_roundtrip_HostsList (es : List HEnt) (hok : ∀ e ∈ es, entOK e) (hnd : (es.map Prod.fst).Nodup) :
    (marshal_HostsList (.map (es.map entVal))).bind decode_HostsList = .ok (.map ((sortH es).map entVal)) ∧
    (sortH es).Perm es :=
  ⟨roundtrip_HostsList es hok hnd, sortH_perm es⟩

/-- whenever a round trip holds, rendering the reloaded value gives the same rendering again -/
theorem render_idem_of_roundtrip (marshal decode : Val → Out) (v : Val) (h : (marshal v).bind decode = .ok v) :
    ((marshal v).bind decode).bind marshal = marshal v := by
  rw [h]; rfl

/-! ## the tag-driven encoding: every field under its key, omitempty lossless -/

open CV.Encode

/-- **Struct rendering is faithful** (both encoders, any descriptor list with distinct keys): in a successful rendering
    every keyed field is either present under its own key with the rendering of its value, or absent — and absent
    exactly when its tag says `omitempty` and the value is zero.  So decoding by key recovers each field or its zero. -/
theorem struct_fields_rendered (fmt : Fmt) (enc : TyExpr → Val → Out) (zero : TyExpr → Val → Bool)
    (fds : List FieldDesc) (fs out : List (String × Val))
    (hni : NoInline fmt fds fs) (hnd : ((fds.filter (keyed fmt)).map (keyOf fmt)).Nodup)
    (h : encodeFieldsWith fmt enc zero fds fs = .ok (.map out)) :
    ∀ fd ∈ fds, keyed fmt fd = true →
      (omitted fmt zero fs fd = true ∧ Val.lookup (keyOf fmt fd) out = none) ∨
      (omitted fmt zero fs fd = false ∧ ∃ t, enc fd.ty (field fs fd.goName) = .ok t ∧ Val.lookup (keyOf fmt fd) out = some t) :=
  encodeFields_field fmt enc zero fds fs out hni hnd h

/-- the hypothesis of `struct_fields_rendered` holds for every model type of the source as it is now -/
theorem model_struct_keys_nodup (s : StructDesc) (hs : s ∈ Gen.structs)
    (hm : (modelTypes Gen.structs Gen.namedTypes).contains s.name = true) (fmt : Fmt) :
    ((s.fields.filter (keyed fmt)).map (keyOf fmt)).Nodup := by
  have h := keys_distinct
  simp only [KeysDistinct, List.all_eq_true] at h
  have h1 := h s hs
  simp only [hm, Bool.not_true, Bool.false_or, Bool.and_eq_true] at h1
  cases fmt with
  | yaml => rw [← renderedYamlKeys_eq]; exact nodupB_nodup _ h1.1
  | json => rw [← renderedJsonKeys_eq]; exact nodupB_nodup _ h1.2

/-- what a missing key decodes to, with nil and empty identified -/
def ZeroLike : TyExpr → Val → Prop
  | .prim _, v => primZero v = true
  | .other _, v => primZero v = true
  | .ptr _, v => v = .null
  | .slice _, v => v = .null ∨ v = .seq []
  | .map _, v => v = .null ∨ v = .map []
  | .named _, _ => True

/-- **omitempty is lossless, YAML**: per kind, a value the encoder leaves out is the zero value of its type -/
theorem omitempty_lossless_yaml (env : Env) (f : Nat) (ty : TyExpr) (v : Val) (h : isZeroY env f ty v = true) :
    ZeroLike ty v := by
  cases f with
  | zero => simp [isZeroY] at h
  | succ f =>
    cases ty with
    | prim p => simpa [isZeroY, ZeroLike] using h
    | other p => simpa [isZeroY, ZeroLike] using h
    | ptr e => cases v <;> simp_all [isZeroY, ZeroLike]
    | slice e =>
      cases v with
      | seq xs => cases xs <;> simp_all [isZeroY, ZeroLike]
      | _ => simp_all [isZeroY, ZeroLike]
    | map e =>
      cases v with
      | map xs => cases xs <;> simp_all [isZeroY, ZeroLike]
      | _ => simp_all [isZeroY, ZeroLike]
    | named n => trivial

/-- **omitempty is lossless, JSON** -/
theorem omitempty_lossless_json (env : Env) (f : Nat) (ty : TyExpr) (v : Val) (h : isEmptyJ env f ty v = true) :
    ZeroLike ty v := by
  cases f with
  | zero => simp [isEmptyJ] at h
  | succ f =>
    cases ty with
    | prim p => simpa [isEmptyJ, ZeroLike] using h
    | other p => simpa [isEmptyJ, ZeroLike] using h
    | ptr e => cases v <;> simp_all [isEmptyJ, ZeroLike]
    | slice e =>
      cases v with
      | seq xs => cases xs <;> simp_all [isEmptyJ, ZeroLike]
      | _ => simp_all [isEmptyJ, ZeroLike]
    | map e =>
      cases v with
      | map xs => cases xs <;> simp_all [isEmptyJ, ZeroLike]
      | _ => simp_all [isEmptyJ, ZeroLike]
    | named n => trivial

/-- a type with `IsZero` (ShellCommand) is left out only when nil: an explicitly empty command is kept -/
theorem omitempty_keeps_empty_command (env : Env) (f : Nat) (n : String) (v : Val)
    (hz : hasMethod env n "IsZero" = true) : isZeroY env (f + 1) (.named n) v = true ↔ v = .null := by
  cases v <;> simp [isZeroY, hz]

example : hasMethod { structs := Gen.structs, named := Gen.namedTypes, customs := Gen.customMethods } "ShellCommand" "IsZero" = true := by decide

/-- a struct-valued field is never left out of the JSON rendering, and out of the YAML one only when all its
    exported fields are zero -/
theorem struct_omission (env : Env) (f : Nat) (n : String) (s : StructDesc) (fs : List (String × Val))
    (hs : findStruct env.structs n = some s) (hz : hasMethod env n "IsZero" = false) :
    isEmptyJ env (f + 1) (.named n) (.map fs) = false ∧
    (isZeroY env (f + 1) (.named n) (.map fs) = true ↔
      ∀ fd ∈ s.fields, fd.exported = true → isZeroY env f fd.ty (field fs fd.goName) = true) := by
  constructor
  · simp [isEmptyJ, hs]
  · simp only [isZeroY, hz, hs, Bool.false_eq_true, if_false, List.all_eq_true, Bool.or_eq_true, Bool.not_eq_true']
    constructor
    · intro h fd hm he
      rcases h fd hm with h1 | h1
      · rw [he] at h1; cases h1
      · exact h1
    · intro h fd hm
      cases he : fd.exported with
      | false => exact Or.inl rfl
      | true => exact Or.inr (h fd hm he)

end CV.C09
