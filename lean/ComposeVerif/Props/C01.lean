import ComposeVerif.Lemmas.C01Stages
import ComposeVerif.Lemmas.C01Dep
import ComposeVerif.Lemmas.C01DepSound
import ComposeVerif.Lemmas.C01Inc
import ComposeVerif.Lemmas.C01Ext
import ComposeVerif.Lemmas.C01Reset
import ComposeVerif.Lemmas.C01Mono
/-!
# C01 — loading is total: a project or an error, never a crash or a hang

Property theorems only (helper lemmas live in `Lemmas/C01*.lean`; the models in `Model/C01Stages.lean`,
`Model/C01Cycles.lean`; proved negations in `Neg/C01.lean`; schema kind-safety in `Props/C01Schema.lean`).
All statements hold for every input — no bound on tree size, number of services, files or references.
-/
namespace CV.C01

/-! ## the tree walkers that run before JSON-schema validation never panic, on any tree, any kinds anywhere -/

/-- `processRawYaml`'s head (`convertToStringKeysRecursive` + the `, ok` test): a mapping or an error -/
theorem convertTop_total (raw : GoVal) (site : String) : convertTop raw ≠ .panic site := by
  unfold convertTop
  split <;> intro h <;> cases h

/-- `parseYAML` asserts `converted.(map[string]interface{})` without `, ok`: the assertion cannot fail -/
theorem parseYAML_total (raw : GoVal) (site : String) : parseYAMLTop raw ≠ .panic site := by
  have aux : ∀ r : GoVal, ((∃ kvs, r = .map kvs) ∨ (∃ kvs, r = .imap kvs)) →
      assertMap (convert r) ≠ Out.panic site := by
    intro r hshape
    cases hc : convert r with
    | error c => intro h; cases h
    | ok v =>
      obtain ⟨kvs', hk⟩ := convert_map_shape r v hshape hc
      subst hk
      intro h; cases h
  cases raw with
  | map kvs => simpa [parseYAMLTop] using aux (.map kvs) (Or.inl ⟨kvs, rfl⟩)
  | imap kvs => simpa [parseYAMLTop] using aux (.imap kvs) (Or.inr ⟨kvs, rfl⟩)
  | null => simp [parseYAMLTop]
  | bool _ => simp [parseYAMLTop]
  | int _ => simp [parseYAMLTop]
  | float _ => simp [parseYAMLTop]
  | str _ => simp [parseYAMLTop]
  | nilseq => simp [parseYAMLTop]
  | seq _ => simp [parseYAMLTop]

/-- `OmitEmpty` asserts `cleaned.(map[string]any)` without `, ok`: the assertion cannot fail, whatever the table -/
theorem omitEmpty_total (pats : List (List String)) (m : List (String × GoVal)) (site : String) :
    omitEmptyTop pats m ≠ .panic site := by
  unfold omitEmptyTop
  simp only [omitEmpty]
  intro h; cases h

/-- `OmitEmpty` runs after each file's schema validation and before the next one's: since C04's repair ("OmitEmpty
keeps an empty sequence empty") its result contains no nil slice, on any tree -/
theorem omitEmpty_leaves_no_nil (pats : List (List String)) (v : GoVal) (p : TPath) : noNil (omitEmpty pats v p) = true :=
  omitEmpty_noNil pats v p

/-- what reaches gojsonschema after `convertToStringKeysRecursive` and `fixEmptyNotNull`: string-keyed mappings
only and no nil slice anywhere (the two shapes gojsonschema cannot handle), for every input tree -/
theorem walkers_establish_schema_input (raw v : GoVal) (h : convert raw = .ok v) :
    stringKeyed (fixEmpty v) = true ∧ noNil (fixEmpty v) = true :=
  have hk := convert_stringKeyed raw v h
  ⟨fixEmpty_stringKeyed v hk, fixEmpty_noNil v hk⟩

example : convert (.imap [(.str "services", .seq []), (.str "x", .nilseq)]) = .ok (.map [("services", .nilseq), ("x", .nilseq)]) := by
  rfl

/-- a non-string key anywhere is an error (never a crash, never silently dropped) -/
example : convert (.map [("a", .seq [.imap [(.int 1, .null)]])]) = .error "nonStringKey" := by rfl

/-! ## the extends cycle tracker -/

/-- `cycle ⇒ err`: `Add` refuses exactly the references already followed on this branch -/
theorem tracker_cycle_err (t : Tracker) (r : Ref) : t.add r = none ↔ r ∈ t :=
  Tracker.add_none_iff t r

/-- `tracker_terminates`: a chain of references accepted one after the other is duplicate-free, hence no
longer than the set of `(file, service)` pairs it is drawn from -/
theorem tracker_terminates (refs : List Ref) (u : List Ref) (t : Tracker)
    (hu : ∀ r ∈ refs, r ∈ u) (h : Tracker.run refs [] = some t) : refs.length ≤ u.length := by
  obtain ⟨ht, hn⟩ := Tracker.run_spec refs [] t List.nodup_nil h
  simp only [List.nil_append] at ht
  subst ht
  exact nodup_subset_length _ _ hn hu

example : Tracker.run [⟨"f", "a"⟩, ⟨"f", "b"⟩, ⟨"g", "a"⟩] [] = some [⟨"f", "a"⟩, ⟨"f", "b"⟩, ⟨"g", "a"⟩] := by decide
example : Tracker.run [⟨"f", "a"⟩, ⟨"f", "b"⟩, ⟨"f", "a"⟩] [] = none := by decide

/-! ## extends -/

/-- `extends_terminates`: `applyServiceExtends` returns on every input — any services, any files, any shape
of every `extends` value — once the fuel exceeds the number of `(file, service)` references that exist -/
theorem extends_terminates (fs : Ext.FS) (main : String) (svcs : Ext.Services) (name : String) (fuel : Nat)
    (hf : (Ext.refUniverse fs main svcs).length < fuel) :
    (Ext.resolve fs main fuel svcs name []).1 ≠ .outOfFuel :=
  (Ext.resolve_ne_fuel fs main svcs fuel main svcs name [] (List.mem_cons_self ..) (Ext.inv_self fs main svcs) List.nodup_nil
    (by intro r hr; cases hr) (by simpa using hf)).1

/-- … and so does `ApplyExtends`, in whatever order Go ranges over the services map -/
theorem applyExtends_terminates (fs : Ext.FS) (main : String) (svcs : Ext.Services) (order : List String) (fuel : Nat)
    (hf : (Ext.refUniverse fs main svcs).length < fuel) :
    Ext.applyExtends fs main fuel order svcs ≠ .outOfFuel :=
  Ext.applyExtends_ne_fuel fs main svcs fuel hf order svcs (Ext.inv_self fs main svcs)

/-- `extends_cycle_err`: a chain of `extends` that can be followed forever (on finite files: one that runs
into a cycle) is reported as "Circular reference", from any starting tracker -/
theorem extends_cycle_err (fs : Ext.FS) (main : String) (svcs : Ext.Services) (name : String) (fuel : Nat)
    (hcyc : Ext.Forever fs main (svcs, name)) (hf : (Ext.refUniverse fs main svcs).length < fuel) :
    (Ext.resolve fs main fuel svcs name []).1 = .err "circular" := by
  rcases Ext.resolve_forever fs fuel main svcs name [] hcyc with h | h
  · exact absurd h (extends_terminates fs main svcs name fuel hf)
  · exact h

/-- non-vacuity: a service extending itself is such a chain … -/
example : Ext.Forever [] "m" ([("a", .ext (.str "a"))], "a") :=
  Ext.forever_of_fixpoint (by decide)
/-- … so is a ring of two services (period 2), in the same file or across files … -/
example : Ext.Forever [] "m" ([("a", .ext (.str "b")), ("b", .ext (.map (.str "a") .absent))], "a") :=
  Ext.forever_of_period 2 (by decide) (by decide)
/-- … and a two-file ring is reported (evaluated) -/
example : (Ext.resolve [("o.yml", .services [("b", .ext (.map (.str "a") (.str "m.yml")))]),
                        ("m.yml", .services [("a", .ext (.map (.str "b") (.str "o.yml")))])]
            "main" 9 [("a", .ext (.map (.str "b") (.str "o.yml")))] "a" []).1 = .err "circular" := by decide

/-- the part of `applyServiceExtends` before `tracker.Add` has no panic branch (since `absExtendsPath` reports a
non-string `extends.file` as an error) -/
theorem locate_never_panics (fs : Ext.FS) (main : String) (svcs : Ext.Services) (e : Ext.ExtVal) (s : String) :
    Ext.locate fs main svcs e ≠ .error (.panic s) := by
  unfold Ext.locate
  repeat' split
  all_goals (intro h; cases h)

/-- `extends_never_panics` (full strength since the repair of `panic@paths.(*relativePathsResolver).absExtendsPath`;
it was `Neg.extends_never_panics_false`): the extends recursion has no panic outcome, for any file system, fuel,
services and tracker -/
theorem extends_never_panics (fs : Ext.FS) :
    ∀ (fuel : Nat) (main : String) (svcs : Ext.Services) (name : String) (tr : Tracker) (s : String),
      (Ext.resolve fs main fuel svcs name tr).1 ≠ .panic s
  | 0, _, _, _, _, _ => by unfold Ext.resolve; intro h; cases h
  | fuel + 1, main, svcs, name, tr, s => by
    unfold Ext.resolve
    split
    · intro h; cases h
    · intro h; cases h
    · intro h; cases h
    · intro h; cases h
    · rename_i e _
      split
      · rename_i r hl
        intro h
        have : r = .panic s := h
        subst this
        exact locate_never_panics fs main svcs e s hl
      · rename_i ref file target hl
        split
        · intro h; cases h
        · rename_i tr' _
          have ih := extends_never_panics fs fuel file (target.getD svcs) ref tr' s
          generalize Ext.resolve fs file fuel (target.getD svcs) ref tr' = res at ih
          obtain ⟨r1, b, s'⟩ := res
          simp only at ih
          cases r1 with
          | ok => cases b <;> (intro h; cases h)
          | err c => intro h; cases h
          | panic t => intro h; simp only at h; cases h; exact ih rfl
          | outOfFuel => intro h; cases h

/-- `ok_xor_err` for the extends stage (full strength): with enough fuel the outcome is success or an error class -/
theorem extends_ok_xor_err (fs : Ext.FS) (main : String) (svcs : Ext.Services) (name : String) (fuel : Nat)
    (hf : (Ext.refUniverse fs main svcs).length < fuel) :
    (Ext.resolve fs main fuel svcs name []).1 = .ok ∨ ∃ c, (Ext.resolve fs main fuel svcs name []).1 = .err c := by
  have h := extends_terminates fs main svcs name fuel hf
  cases hr : (Ext.resolve fs main fuel svcs name []).1 with
  | ok => exact Or.inl rfl
  | err c => exact Or.inr ⟨c, rfl⟩
  | panic s => exact absurd hr (extends_never_panics fs fuel main svcs name [] s)
  | outOfFuel => exact absurd hr h

/-! ## include -/

/-- `include_terminates` (full strength since the repair of `hang@include-override-position`: every path of an
entry, not only the first, is tested against the files being loaded): the include loop returns on every file
system, for any entries, any override paths -/
theorem include_terminates (fs : Inc.FS) (files : List String) (fuel : Nat)
    (hf : (Inc.keys fs).length < fuel) : Inc.loadModel fs fuel files [] ≠ .outOfFuel :=
  Inc.loadModel_ne_fuel fs fuel files [] List.nodup_nil (by intro x hx; cases hx) (by intro f _ hx; cases hx) (by simpa using hf)

/-- `include_cycle_not_ok`: a file from which an include cycle is reachable is never loaded successfully,
whatever the fuel, the override paths, the other entries -/
theorem include_cycle_not_ok (fs : Inc.FS) (f : String) (rest : List String) (fuel : Nat) (h : Inc.CanLoop fs f) :
    Inc.loadModel fs fuel (f :: rest) [] ≠ .ok :=
  Inc.loadModel_ne_ok fs fuel f rest [] h

/-- `include_cycle_err`: … it is reported as an error -/
theorem include_cycle_err (fs : Inc.FS) (f : String) (rest : List String) (fuel : Nat)
    (h : Inc.CanLoop fs f) (hf : (Inc.keys fs).length < fuel) :
    ∃ c, Inc.loadModel fs fuel (f :: rest) [] = .err c := by
  have h1 := include_cycle_not_ok fs f rest fuel h
  have h2 := include_terminates fs (f :: rest) fuel hf
  cases hr : Inc.loadModel fs fuel (f :: rest) [] with
  | ok => exact absurd hr h1
  | err c => exact ⟨c, rfl⟩
  | outOfFuel => exact absurd hr h2
  | panic s =>
    -- the include loop has no panic branch
    exfalso
    exact Inc.loadModel_ne_panic fs fuel (f :: rest) [] s hr

example : Inc.loadModel [("a.yml", [["b.yml"]]), ("b.yml", [["a.yml"]])] 3 ["a.yml"] [] = .err "includeCycle" := by decide
/-- the input of the repaired defect: a cycle that closes through an override position -/
example : Inc.loadModel [("A", [["B", "A"]]), ("B", [])] 3 ["A"] [] = .err "includeCycle" := by decide

/-! ## a referenced file that is missing is an error naming the reference, never skipped -/

/-- a compose file (top-level or included) that cannot be read is an error, whatever follows it -/
theorem include_missing_file_err (fs : Inc.FS) (f : String) (rest inc : List String) (fuel : Nat)
    (h : Inc.lookup f fs = none) : Inc.loadModel fs (fuel + 1) (f :: rest) inc = .err "fileNotFound" := by
  unfold Inc.loadModel Inc.loadFiles
  rw [h]

/-- `extends: {file: f, service: r}` with `f` absent is an error, for any service, tracker and fuel -/
theorem extends_missing_file_err (fs : Ext.FS) (main : String) (svcs : Ext.Services) (name ref f : String)
    (tr : Tracker) (fuel : Nat)
    (hs : Ext.lookup name svcs = some (.ext (.map (.str ref) (.str f)))) (hf : Ext.lookup f fs = none) :
    (Ext.resolve fs main (fuel + 1) svcs name tr).1 = .err "fileNotFound" := by
  unfold Ext.resolve
  rw [hs]
  simp only [Ext.locate, Ext.parse, hf]

example : Ext.lookup "a" [("a", Ext.Svc.ext (.map (.str "b") (.str "gone.yml")))] = some (.ext (.map (.str "b") (.str "gone.yml"))) ∧
    Ext.lookup "gone.yml" ([] : Ext.FS) = none := by decide

/-! ## YAML alias expansion (`ResetProcessor.resolveReset` + `checkAcyclic`, loader/reset.go) -/

/-- `alias_resolution_total` (full strength since the repairs of `hang@alias-self-merge` and
`hang@alias-override-cycle`): on EVERY node arena — any aliases, including aliases to enclosing anchors through
merge keys, any tags, any sharing — alias expansion followed by the tree check returns as soon as the fuel exceeds
twice the number of nodes: no node is ever nested more than twice on the recursion stack. -/
theorem alias_resolution_total (arena : List Reset.Node) (root fuel : Nat) (hf : 2 * arena.length < fuel) :
    Reset.run arena root fuel ≠ .error .outOfFuel := by
  unfold Reset.run
  have h := Reset.resolve_total arena.length fuel { arena := arena, visited := [], paths := [] } [] root [] rfl
    ⟨by intro x; simp, by intro x hx; cases hx⟩ (by simpa using hf)
  revert h
  cases Reset.resolve fuel { arena := arena, visited := [], paths := [] } [] root [] with
  | error e =>
    intro h
    simp only [Reset.PostN] at h
    intro he
    cases he
    exact h rfl
  | ok pr =>
    obtain ⟨st, r⟩ := pr
    intro h
    simp only [Reset.PostN] at h
    cases r with
    | none => intro he; cases he
    | some k =>
      simp only
      have hc := Reset.checkAcyclic_total st.arena fuel k (by omega)
      cases hca : Reset.checkAcyclic st.arena fuel k with
      | ok => intro he; cases he
      | cycle p => intro he; cases he
      | outOfFuel => exact absurd hca hc

/-- `decode_input_acyclic`: when `UnmarshalYAML` reaches `Decode`, the node handed to yaml.v3 reaches no cycle
through content or alias pointers — the decoder's recursion over it is finite -/
theorem decode_input_acyclic (arena : List Reset.Node) (fuel k : Nat)
    (h : Reset.checkAcyclic arena fuel k = .ok) : ¬ Dep.CanLoop (Reset.graphOf arena) k := by
  intro hc
  exact Dep.searchCycle_ne_ok (Reset.graphOf arena) fuel [k] k hc h

/-- the three inputs of the repaired defects, evaluated: `&x {<<: *x}`, a plain self reference, and the cycle through
an `!override` node (which `resolve` alone lets through: `Neg.resolve_output_tree_false`) -/
example : Reset.run [.map "" [("<<", 1)], .alias 0] 0 5 = .error .cycle := by rfl
example : Reset.run [.map "" [("a", 1)], .map "" [("k", 2)], .alias 1] 0 7 = .error .cycle := by rfl
example : Reset.run [.seq "" [1, 5, 6], .map "!override" [("b", 2), ("x-a", 4)], .map "" [("services", 3)],
    .alias 1, .alias 1, .alias 2, .alias 2] 0 15 = .error .cycle := by rfl
/-- sharing without cycles is expanded, the `!reset` recorded once per visit path: `{a: &x {k: !reset v}, b: *x}` -/
example : Reset.run [.map "" [("a", 1), ("b", 3)], .map "" [("k", 2)], .scalar "!reset", .alias 1] 0 9 = .ok [["a", "k"]] := by
  rfl

/-! ## depends_on -/

/-- `checkCycle_terminates`: the cycle search returns on every closed graph (edges point at vertices) -/
theorem checkCycle_terminates {α : Type} [DecidableEq α] (g : Dep.G α) (hg : Dep.Closed g) (fuel : Nat) (hf : g.length < fuel) :
    Dep.checkCycle g fuel ≠ .outOfFuel := by
  unfold Dep.checkCycle
  apply Dep.checkFrom_ne_fuel
  intro v hv
  apply Dep.searchCycle_ne_fuel g hg fuel [v] v (by simp)
  · intro x hx; simp only [List.mem_singleton] at hx; subst hx; exact hv
  · simp only [Dep.verts, List.length_map, List.length_singleton]; omega

/-- `dependsOn_cycle_err`: if some service can reach a dependency cycle, `checkCycle` reports a cycle -/
theorem dependsOn_cycle_err {α : Type} [DecidableEq α] (g : Dep.G α) (hg : Dep.Closed g) (v : α) (hv : v ∈ Dep.verts g)
    (hc : Dep.CanLoop g v) (fuel : Nat) (hf : g.length < fuel) :
    ∃ p, Dep.checkCycle g fuel = .cycle p := by
  have h1 := checkCycle_terminates g hg fuel hf
  have h2 : Dep.checkCycle g fuel ≠ .ok :=
    Dep.checkFrom_ne_ok g fuel _ ⟨v, hv, Dep.searchCycle_ne_ok g fuel [v] v hc⟩
  cases hr : Dep.checkCycle g fuel with
  | ok => exact absurd hr h2
  | cycle p => exact ⟨p, rfl⟩
  | outOfFuel => exact absurd hr h1

example : Dep.checkCycle ([("a", ["b"]), ("b", ["c"]), ("c", ["b"])] : Dep.G String) 4 = .cycle ["b", "c", "b"] := by decide
example : Dep.checkCycle ([("a", ["b", "c"]), ("b", ["c"]), ("c", [])] : Dep.G String) 4 = .ok := by decide

/-- `dependsOn_reported_cycle_sound` (round 5): the list that `checkCycle` puts into `dependency cycle detected: …` is a
walk along edges of the graph, of at least one edge, from a vertex back to itself — on EVERY graph (closed or not),
every fuel: the error is never a false alarm and names a real cycle -/
theorem dependsOn_reported_cycle_sound {α : Type} [DecidableEq α] (g : Dep.G α) (fuel : Nat) (p : List α)
    (h : Dep.checkCycle g fuel = .cycle p) : Dep.IsCycle g p :=
  Dep.checkFrom_sound g fuel _ p h

example : Dep.IsCycle ([("a", ["b"]), ("b", ["c"]), ("c", ["b"])] : Dep.G String) ["b", "c", "b"] :=
  dependsOn_reported_cycle_sound _ 4 _ (by decide)

/-- `dependsOn_cycle_iff`: on a closed graph a cycle is reported exactly when some service can follow `depends_on`
forever (`dependsOn_cycle_err` is the ← half) -/
theorem dependsOn_cycle_iff {α : Type} [DecidableEq α] (g : Dep.G α) (hg : Dep.Closed g) (fuel : Nat) (hf : g.length < fuel) :
    (∃ p, Dep.checkCycle g fuel = .cycle p) ↔ ∃ v, v ∈ Dep.verts g ∧ Dep.CanLoop g v :=
  ⟨fun ⟨p, h⟩ => (dependsOn_reported_cycle_sound g fuel p h).canLoop_vertex hg,
   fun ⟨v, hv, hc⟩ => dependsOn_cycle_err g hg v hv hc fuel hf⟩

/-- `dependsOn_ok_iff_acyclic`: … and the check passes exactly on the graphs in which no service can -/
theorem dependsOn_ok_iff_acyclic {α : Type} [DecidableEq α] (g : Dep.G α) (hg : Dep.Closed g) (fuel : Nat) (hf : g.length < fuel) :
    Dep.checkCycle g fuel = .ok ↔ ¬ ∃ v, v ∈ Dep.verts g ∧ Dep.CanLoop g v := by
  rw [← dependsOn_cycle_iff g hg fuel hf]
  have ht := checkCycle_terminates g hg fuel hf
  cases hr : Dep.checkCycle g fuel with
  | ok => simp
  | cycle p => simp
  | outOfFuel => exact absurd hr ht

/-! ## the fuel is a proof device only: above the bound the answer does not depend on it -/

/-- `extends_fuel_independent` (the DESIGN §2.4 form of totality): every fuel above the size of the reference
universe gives the same outcome, the same nil-flag and the same memoised services map -/
theorem extends_fuel_independent (fs : Ext.FS) (main : String) (svcs : Ext.Services) (name : String) (f1 f2 : Nat)
    (h1 : (Ext.refUniverse fs main svcs).length < f1) (h2 : (Ext.refUniverse fs main svcs).length < f2) :
    Ext.resolve fs main f1 svcs name [] = Ext.resolve fs main f2 svcs name [] := by
  have hb := extends_terminates fs main svcs name ((Ext.refUniverse fs main svcs).length + 1) (Nat.lt_succ_self _)
  have e1 := Ext.resolve_mono_le fs main svcs name [] _ hb (f1 - ((Ext.refUniverse fs main svcs).length + 1))
  have e2 := Ext.resolve_mono_le fs main svcs name [] _ hb (f2 - ((Ext.refUniverse fs main svcs).length + 1))
  rw [show (Ext.refUniverse fs main svcs).length + 1 + (f1 - ((Ext.refUniverse fs main svcs).length + 1)) = f1 by omega] at e1
  rw [show (Ext.refUniverse fs main svcs).length + 1 + (f2 - ((Ext.refUniverse fs main svcs).length + 1)) = f2 by omega] at e2
  rw [e1, e2]

/-- `include_fuel_independent` -/
theorem include_fuel_independent (fs : Inc.FS) (files : List String) (f1 f2 : Nat)
    (h1 : (Inc.keys fs).length < f1) (h2 : (Inc.keys fs).length < f2) :
    Inc.loadModel fs f1 files [] = Inc.loadModel fs f2 files [] := by
  have hb := include_terminates fs files ((Inc.keys fs).length + 1) (Nat.lt_succ_self _)
  have e1 := Inc.loadModel_mono_le fs files [] _ hb (f1 - ((Inc.keys fs).length + 1))
  have e2 := Inc.loadModel_mono_le fs files [] _ hb (f2 - ((Inc.keys fs).length + 1))
  rw [show (Inc.keys fs).length + 1 + (f1 - ((Inc.keys fs).length + 1)) = f1 by omega] at e1
  rw [show (Inc.keys fs).length + 1 + (f2 - ((Inc.keys fs).length + 1)) = f2 by omega] at e2
  rw [e1, e2]

/-- `checkCycle_fuel_independent` -/
theorem checkCycle_fuel_independent {α : Type} [DecidableEq α] (g : Dep.G α) (hg : Dep.Closed g) (f1 f2 : Nat) (h1 : g.length < f1) (h2 : g.length < f2) :
    Dep.checkCycle g f1 = Dep.checkCycle g f2 := by
  have key : ∀ f, g.length < f → Dep.checkCycle g f = Dep.checkCycle g (g.length + 1) := by
    intro f hf
    unfold Dep.checkCycle
    apply Dep.checkFrom_congr
    intro v hv
    have hb : Dep.searchCycle g (g.length + 1) [v] v ≠ .outOfFuel := by
      apply Dep.searchCycle_ne_fuel g hg _ [v] v (by simp)
      · intro x hx; simp only [List.mem_singleton] at hx; subst hx; simpa [Dep.verts] using hv
      · simp only [Dep.verts, List.length_map, List.length_singleton]; omega
    have e := Dep.searchCycle_mono_le g [v] v _ hb (f - (g.length + 1))
    rw [show g.length + 1 + (f - (g.length + 1)) = f by omega] at e
    exact e
  rw [key f1 h1, key f2 h2]

end CV.C01
