import ComposeVerif.Props.C05Load
import ComposeVerif.Lemmas.ExtendsFuelMono
/-!
# C05 — the fuel of the model is not part of the property  (round 6)

`applySvc` (the model of the recursive `applyServiceExtends`) is defined by recursion on a fuel argument and
`applyExtendsOrd` runs it with `fuelFor E S` = number of possible tracker keys + 1.  Two facts make the fuel invisible:

* **sufficiency** (`extends_terminates`, round 1): with `fuelFor` the out-of-fuel marker is never produced — the cycle
  tracker holds pairwise distinct keys of a finite universe (pigeonhole), so every chain ends or is cut before;
* **irrelevance** (`applySvc_fuel_mono`, this round): a run that does not end in the marker is reproduced verbatim by every
  run with more fuel — induction on the fuel through every branch of the function.

Hence `fuel_irrelevant`: for **every** fuel `≥ fuelFor E S` the loop of `ApplyExtends` computes the same outcome (result,
error class or panic site) as `applyExtendsOrd` — the outcome is a function of the document, the files and the visit
order alone; `fuelFor` is a bound that always suffices, not a parameter of the statement.  With the files inside the
model (`loadedEnv`, `Props/C05Load.lean`) no hypothesis on the environment is left: `fuel_irrelevant_loaded`.
-/
namespace CV.Extends
open CV CV.Val

/-- **fuel sufficiency and irrelevance**: any fuel `≥ fuelFor E S` gives the outcome of `fuelFor E S`, for every
document, every file system and every visit order (`FuelFree`: the merge step / file loading do not themselves return
the model's marker — discharged for the real merge step over loaded files below) -/
theorem fuel_irrelevant {E : Env} (hE : FuelFree E) {order : List String} {S : KVs} (hord : Visits order S)
    (fuel : Nat) (hf : fuelFor E S ≤ fuel) :
    applyAll E fuel order S = applyAll E (fuelFor E S) order S :=
  applyAll_fuel_mono E (fuelFor E S) fuel hf order S
    (applyAll_no_fuel E hE S order S (KeysSub.self E S)
      (fun n hn => KeysSub.self E S n ((hord n).mp hn)))

/-- the outcome of the loop is the **limit** over the fuel: from `fuelFor E S` on it is constant and never the marker -/
theorem extends_outcome_is_fuel_limit {E : Env} (hE : FuelFree E) {order : List String} {S : KVs} (hord : Visits order S) :
    ∃ r, r ≠ .panic fuelMark ∧ ∀ fuel, fuelFor E S ≤ fuel → applyAll E fuel order S = r :=
  ⟨applyAll E (fuelFor E S) order S,
   applyAll_no_fuel E hE S order S (KeysSub.self E S) (fun n hn => KeysSub.self E S n ((hord n).mp hn)),
   fun fuel hf => fuel_irrelevant hE hord fuel hf⟩

/-- the same for one service resolved from the raw mapping with an empty tracker (what `flattenF` / the chain fold
describe): every fuel `≥ fuelFor` gives the same outcome -/
theorem fuel_irrelevant_service {E : Env} (hE : FuelFree E) {S : KVs} (n : String) (fuel : Nat) (hf : fuelFor E S ≤ fuel) :
    applySvc E fuel E.mainFile n S [] = applySvc E (fuelFor E S) E.mainFile n S [] :=
  applySvc_fuel_mono E (fuelFor E S) fuel _ _ _ _ hf
    (applySvc_no_fuel E hE S (fuelFor E S) E.mainFile n S [] (by simp [allFiles]) (KeysSub.self E S) List.nodup_nil
      (fun k hk => by cases hk) (by simp [fuelFor])).1

/-- **no hypothesis left** with the real merge step over a virtual file system of raw files -/
theorem fuel_irrelevant_loaded (c : Pipeline.Cfg) (vfs : VFS) {order : List String} {S : KVs} (hord : Visits order S)
    (fuel : Nat) (hf : fuelFor (loadedEnv c vfs) S ≤ fuel) :
    applyAll (loadedEnv c vfs) fuel order S = applyAll (loadedEnv c vfs) (fuelFor (loadedEnv c vfs) S) order S :=
  fuel_irrelevant (loadedEnv_panicFree c vfs).fuelFree hord fuel hf

/-- … and with the real merge step over canonical files (`anchoredFS`) -/
theorem fuel_irrelevant_anchored (mainFile : String) (files : List (String × String × KVs))
    {order : List String} {S : KVs} (hord : Visits order S) (fuel : Nat)
    (hf : fuelFor (realEnv mainFile (anchoredFS files)) S ≤ fuel) :
    applyAll (realEnv mainFile (anchoredFS files)) fuel order S =
      applyAll (realEnv mainFile (anchoredFS files)) (fuelFor (realEnv mainFile (anchoredFS files)) S) order S :=
  fuel_irrelevant (anchoredEnv_panicFree mainFile files).fuelFree hord fuel hf

/-- non-vacuity: the bound is a concrete number — one file, two services: 2 files × 2 names + 1 -/
example : fuelFor ⟨"m", [], fun _ s => .ok s⟩ [("a", .null), ("b", .null)] = 3 := rfl

end CV.Extends
