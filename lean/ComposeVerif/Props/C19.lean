import ComposeVerif.Lemmas.FanoutProgress
import ComposeVerif.Lemmas.Interleave
import ComposeVerif.Gen.Globals
import ComposeVerif.Gen.FanoutSource
import ComposeVerif.Neg.C19
import ComposeVerif.Lemmas.AuditCmd  -- so that `lake build Props.C19` also builds the audit command used by `check`
/-!
# C19 — the library is safe to use from concurrent goroutines

Property theorems only.

(a) `types.(*Project).WithServicesTransform` as the transition system `CV.Fanout` (Model/Fanout.lean): for EVERY
    service list without duplicates, EVERY outcome of the supplied function and EVERY schedule
    (`Reach` = any finite sequence of enabled steps): no deadlock, termination, exact result, first error,
    at most one call of the function per service, no race on `newProject.Services`.
(b) Non-interference of loads that write no shared state, for every interleaving (`interleave_noninterf`), and the
    regenerated list of writes to shared state in the source (`shared_writes_reviewed`).
-/
namespace CV.Fanout

variable {cfg : Cfg} {s : St}

/-- every reachable state satisfies the invariant set -/
theorem fanout_invariant (hN : cfg.svcs.Nodup) (hR : Reach cfg s) : Inv cfg s := inv_reach hN hR

/-- **no deadlock**: in every reachable state the call has returned or some goroutine can take a step -/
theorem fanout_deadlock_free (hN : cfg.svcs.Nodup) (hR : Reach cfg s) :
    terminal s ∨ ∃ l s', step? cfg s l = some s' :=
  deadlock_free_of_inv (inv_reach hN hR)

/-- every step strictly decreases the measure `mu` -/
theorem fanout_measure_decreases (hN : cfg.svcs.Nodup) (hR : Reach cfg s) {l : Label} {s' : St}
    (h : step? cfg s l = some s') : mu cfg s' < mu cfg s :=
  mu_decreases (inv_reach hN hR) h

/-- **termination**: every schedule is finite — no run from the initial state has more than `7·n + 8` steps -/
theorem fanout_terminates (hN : cfg.svcs.Nodup) (ls : List Label) (s' : St) (h : run cfg (init cfg) ls = some s') :
    ls.length ≤ 7 * cfg.svcs.length + 8 := by
  have := run_length hN ls (init cfg) s' .init h
  rw [mu_init] at this; omega

/-- … and every reachable state can be continued to a state in which the call has returned -/
theorem fanout_can_finish (hN : cfg.svcs.Nodup) (hR : Reach cfg s) :
    ∃ ls s', run cfg s ls = some s' ∧ terminal s' := by
  have key : ∀ k, ∀ s, Reach cfg s → mu cfg s ≤ k → ∃ ls s', run cfg s ls = some s' ∧ terminal s' := by
    intro k
    induction k with
    | zero =>
      intro s hs hk
      rcases deadlock_free_of_inv (inv_reach hN hs) with ht | ⟨l, s1, hst⟩
      · exact ⟨[], s, rfl, ht⟩
      · have := mu_decreases (inv_reach hN hs) hst; omega
    | succ k ih =>
      intro s hs hk
      rcases deadlock_free_of_inv (inv_reach hN hs) with ht | ⟨l, s1, hst⟩
      · exact ⟨[], s, rfl, ht⟩
      · have hlt := mu_decreases (inv_reach hN hs) hst
        obtain ⟨ls, s', hrun, ht⟩ := ih s1 (.step hs hst) (by omega)
        exact ⟨l :: ls, s', by simp [run, hst, hrun], ht⟩
  exact key (mu cfg s) s hR (Nat.le_refl _)

/-- **exact result**: when the call has returned without error, the project's services are exactly
    `{n ↦ fn n s}` — every service of the receiver, nothing else, each with the value the function returned for it -/
theorem fanout_complete (hN : cfg.svcs.Nodup) (hR : Reach cfg s) (ht : terminal s) (he : s.firstErr = none) :
    ∃ f, s.services = some f ∧ ∀ v, f v = if v ∈ cfg.svcs then cfg.fn v else none := by
  have hI := inv_reach hN hR
  have hc := (hI.ret ht).1
  have hnc : s.cancelled ≠ true := fun h => (hI.cancelIff.mp h) he
  rcases hI.gone hc with ⟨hs, h0⟩ | ⟨_, hcan⟩
  · refine ⟨s.acc, hs, fun v => ?_⟩
    by_cases hv : v ∈ cfg.svcs
    · simp only [hv, if_true]
      have hst := all_stored hI h0 v hv
      have hne := (hI.accItem v).mpr hst
      cases ha : s.acc v with
      | none => exact absurd ha hne
      | some r => exact (hI.accFn v r ha).symm
    · simp only [hv, if_false]
      cases ha : s.acc v with
      | none => rfl
      | some r =>
        exfalso
        have hst := (hI.accItem v).mp (by simp [ha])
        have hw := hI.itemW v (by simp [hst])
        exact hv (hI.wSvcs v (by rcases hw with h | h <;> simp [h]))
  · exact absurd hcan hnc

/-- **first error**: the returned error is the error of the FIRST call of the function that failed (in the order
    in which the failures were recorded), it is an error of a service of the project, no error is returned iff no
    call failed, and on error the project keeps the receiver's services -/
theorem fanout_first_error (hN : cfg.svcs.Nodup) (hR : Reach cfg s) (ht : terminal s) :
    s.firstErr = s.fails.head? ∧
    (∀ v, s.firstErr = some v → v ∈ cfg.svcs ∧ cfg.fn v = none) ∧
    (s.firstErr = none ↔ ∀ v ∈ cfg.svcs, cfg.fn v ≠ none) ∧
    (s.firstErr ≠ none → s.services = none) := by
  have hI := inv_reach hN hR
  have hfirst : ∀ v, s.firstErr = some v → v ∈ cfg.svcs ∧ cfg.fn v = none := by
    intro v hv
    have hm : v ∈ s.fails := by
      have := hI.errFails; rw [hv] at this
      exact List.mem_of_mem_head? this.symm
    have hw := (hI.failsW v).mp hm
    exact ⟨hI.wSvcs v (by simp [hw]), hI.failedFn v hw⟩
  refine ⟨hI.errFails, hfirst, ⟨fun he v hv hf => ?_, fun hall => ?_⟩, fun hne => ?_⟩
  · obtain ⟨f, _, hf2⟩ := fanout_complete hN hR ht he
    have hI2 := hI
    have hc := (hI.ret ht).1
    rcases hI.gone hc with ⟨_, h0⟩ | ⟨_, hcan⟩
    · have hst := all_stored hI h0 v hv
      have hne := (hI.accItem v).mpr hst
      cases ha : s.acc v with
      | none => exact hne ha
      | some r => have := hI.accFn v r ha; rw [hf] at this; cases this
    · exact (hI.cancelIff.mp hcan) he
  · cases he : s.firstErr with
    | none => rfl
    | some v => exact absurd (hfirst v he).2 (hall v (hfirst v he).1)
  · have hc := (hI.ret ht).1
    rcases hI.gone hc with ⟨_, h0⟩ | ⟨hs, _⟩
    · exfalso
      cases he : s.firstErr with
      | none => exact hne he
      | some v =>
        have hv := hfirst v he
        have hst := all_stored hI h0 v hv.1
        have hne2 := (hI.accItem v).mpr hst
        cases ha : s.acc v with
        | none => exact hne2 ha
        | some r => have := hI.accFn v r ha; rw [hv.2] at this; cases this
    · exact hs

/-- **one call per service**: when the call has returned, the supplied function has been invoked exactly once for every
    service of the project and for nothing else (also after a failure: no worker is skipped) -/
theorem fanout_calls_once (hN : cfg.svcs.Nodup) (hR : Reach cfg s) (ht : terminal s) :
    s.calls.Nodup ∧ ∀ v, v ∈ s.calls ↔ v ∈ cfg.svcs := by
  have hI := inv_reach hN hR
  refine ⟨hI.callsNodup, fun v => ⟨fun hv => hI.wSvcs v ((hI.callsW v).mp hv).1, fun hv => ?_⟩⟩
  have h1 := hI.waitAll (.inr ht) v hv
  have h2 := (hI.ret ht).2 v hv
  refine (hI.callsW v).mpr ⟨h1, fun hs => ?_⟩
  rw [hs] at h2; simp [live] at h2

/-- **no data race on `newProject.Services`**: in no reachable state are two conflicting accesses to the field
    (the caller's read before its loop / after `Wait`, the collector's final store) enabled together -/
theorem fanout_no_field_race (hN : cfg.svcs.Nodup) (hR : Reach cfg s) : ¬ RaceAt cfg s := by
  have hI := inv_reach hN hR
  rintro ⟨l₁, l₂, w₁, w₂, hact, ha₁, ha₂, _, he₁, he₂⟩
  have hexit : ∀ l, (step? cfg s l).isSome = true → l = .cExit → s.c = .fin := by
    intro l h e; subst e
    simp only [step?] at h
    split at h <;> simp_all
  have hread : ∀ l, (step? cfg s l).isSome = true → l = .mRead → s.m = .read := by
    intro l h e; subst e
    simp only [step?] at h
    split at h <;> simp_all
  have hret : ∀ l, (step? cfg s l).isSome = true → l = .mReturn → s.c = .gone := by
    intro l h e; subst e
    simp only [step?] at h
    split at h <;> simp_all
  have hno : ¬ (s.m = .read ∧ s.c = .fin) := fun ⟨h1, h2⟩ => by
    have := hI.cStart.mp (.inl h1); rw [h2] at this; cases this
  cases l₁ <;> simp only [fieldAccess] at ha₁ <;> (try cases ha₁) <;>
    cases l₂ <;> simp only [fieldAccess] at ha₂ <;> (try cases ha₂) <;> (try simp [actor] at hact)
  · exact hno ⟨hread _ he₁ rfl, hexit _ he₂ rfl⟩
  · have h1 := hret _ he₁ rfl; have h2 := hexit _ he₂ rfl; rw [h1] at h2; cases h2
  · exact hno ⟨hread _ he₂ rfl, hexit _ he₁ rfl⟩
  · have h1 := hret _ he₂ rfl; have h2 := hexit _ he₁ rfl; rw [h1] at h2; cases h2

/-- **the outcome does not depend on the schedule** (`_partial`: everything but the identity of the error).  Two
    returned states of the same call — reached by ANY two schedules, spawn orders, completion orders — agree on whether an
    error is returned, on whether the services were replaced, and on every service value; when at most one service's
    function fails they also return the same error.  The full-strength statement (the same error always) is refuted in
    `Neg/C19.lean` (`fanout_error_depends_on_schedule`): with two failing services the schedule decides which is first. -/
theorem fanout_schedule_independent_partial (hN : cfg.svcs.Nodup) {s₁ s₂ : St} (h₁ : Reach cfg s₁) (h₂ : Reach cfg s₂)
    (t₁ : terminal s₁) (t₂ : terminal s₂) :
    (s₁.firstErr = none ↔ s₂.firstErr = none) ∧
    (s₁.services.isSome = s₂.services.isSome) ∧
    (∀ f₁ f₂, s₁.services = some f₁ → s₂.services = some f₂ → ∀ v, f₁ v = f₂ v) ∧
    ((∀ v w, v ∈ cfg.svcs → w ∈ cfg.svcs → cfg.fn v = none → cfg.fn w = none → v = w) → s₁.firstErr = s₂.firstErr) := by
  have e₁ := fanout_first_error hN h₁ t₁
  have e₂ := fanout_first_error hN h₂ t₂
  have hiff : s₁.firstErr = none ↔ s₂.firstErr = none := e₁.2.2.1.trans e₂.2.2.1.symm
  have hsv : ∀ {s : St}, Reach cfg s → terminal s → (s.services.isSome = true ↔ s.firstErr = none) := by
    intro s h t
    have e := fanout_first_error hN h t
    constructor
    · intro hs
      apply Classical.byContradiction
      intro hne
      rw [e.2.2.2 hne] at hs; cases hs
    · intro he
      obtain ⟨f, hf, _⟩ := fanout_complete hN h t he
      rw [hf]; rfl
  refine ⟨hiff, ?_, ?_, ?_⟩
  · have a := hsv h₁ t₁
    have b := hsv h₂ t₂
    cases x : s₁.services.isSome <;> cases y : s₂.services.isSome <;> simp_all
  · intro f₁ f₂ hf₁ hf₂ v
    have he₁ : s₁.firstErr = none := (hsv h₁ t₁).mp (by rw [hf₁]; rfl)
    have he₂ : s₂.firstErr = none := (hsv h₂ t₂).mp (by rw [hf₂]; rfl)
    obtain ⟨g₁, hg₁, hv₁⟩ := fanout_complete hN h₁ t₁ he₁
    obtain ⟨g₂, hg₂, hv₂⟩ := fanout_complete hN h₂ t₂ he₂
    rw [hf₁] at hg₁; rw [hf₂] at hg₂
    injection hg₁ with hg₁; injection hg₂ with hg₂
    subst hg₁; subst hg₂
    rw [hv₁ v, hv₂ v]
  · intro huniq
    cases x : s₁.firstErr with
    | none => exact (hiff.mp x).symm
    | some v =>
      cases y : s₂.firstErr with
      | none => have := hiff.mpr y; rw [x] at this; cases this
      | some w =>
        have a := e₁.2.1 v x
        have b := e₂.2.1 w y
        rw [huniq v w a.1 b.1 a.2 b.2]

end CV.Fanout

namespace CV.Interleave

/-- **non-interference**: if every load writes only its own locations (no package-level variable, no caller-owned
    map, nothing of another load) and what it writes depends only on its own and the shared locations, then for
    EVERY interleaving `sched` of any number of loads, each load ends with exactly the state it reaches when its
    steps run alone, and the shared state is unchanged -/
theorem interleave_noninterf {Loc Val Tid : Type} [DecidableEq Tid] (S : Sys Loc Val Tid)
    (hW : WritesOwn S) (hR : ReadsOwnOrShared S) (sched : List Tid) (m : Loc → Val) :
    (∀ t x, S.owner x = some t → exec S sched m x = solo S t (sched.count t) m x) ∧
    (∀ x, S.owner x = none → exec S sched m x = m x) := by
  refine ⟨fun t x hx => exec_agree_solo hW hR t sched m x (.inl hx), fun x hx => ?_⟩
  induction sched generalizing m with
  | nil => rfl
  | cons u rest ih =>
    simp only [exec]
    rw [ih (S.step u m)]
    exact hW u m x (by rw [hx]; simp)

end CV.Interleave

namespace CV.Gen

/-- the regenerated list of writes to package-level state that happen after initialisation without a held mutex is
    the reviewed one: only `dotenv.RegisterFormat` (an exported registration function that no load, fan-out or
    traversal reaches).  A new package-level cache written during a load, or the removal of the mutex around
    `versionWarning`, changes the regenerated fact and breaks this theorem. -/
theorem shared_writes_reviewed :
    unguardedGlobalWrites = [("dotenv", "formats", "dotenv.RegisterFormat", false)] ∧
    (unguardedGlobalWrites.filter fun (_, _, _, reach) => reach) = [] := by
  decide

/-- every access — READS included — to a package-level variable that is written under a held `Lock()` happens under a
    held `Lock()` too (outside `init`); the guarded variables are the reviewed ones.  Narrowing the locked region of
    `warnObsoleteVersion` so that `slices.Contains` reads `versionWarning` unlocked changes this regenerated fact. -/
theorem guarded_vars_always_locked :
    lockGuardedVars = ["loader.versionWarning"] ∧ unguardedAccessesOfGuardedVars = [] := by
  decide

/-- no function hands out a package-level variable (or a part, an alias or the address of one) as its result: nobody
    outside the writers listed in `globalWrites` can store through it.  `globalWrites` itself now also lists stores
    through LOCAL ALIASES of a package-level variable (`t := G; t[k] = v`, `p := &G; (*p)[k] = v`, `for _, x := range G`)
    and stores made by a callee that is handed the variable (`f(G)` with `f` — transitively — storing through that
    parameter, `sort.Strings(G)` …), so `shared_writes_reviewed` speaks about those as well. -/
theorem no_global_escapes_by_return : globalsReturned = [] := by
  decide

/-- **the modelled function is the source's**: the statement skeleton of `WithServicesTransform` (hook calls and comments
    removed) regenerated from the tree is, line for line, the one `Model/Fanout.lean` was written against — `expect` is the
    number of services and the result channel is buffered with exactly that capacity (`wSend` never blocks), the field is
    read before the collector starts, the collector selects on `ctx.Done()` and the channel and counts down, a worker
    tests the error before it sends.  An unbuffered channel, a dropped `select` case, a send before the error test … all
    change this fact. -/
theorem fanout_source_is_modelled :
    fanoutSource =
    [
    "func (p *Project) WithServicesTransform(fn func(name string, s ServiceConfig) (ServiceConfig, error)) (*Project, error) {",
    "type result struct {",
    "name string",
    "service ServiceConfig",
    "}",
    "expect := len(p.Services)",
    "resultCh := make(chan result, expect)",
    "newProject := p.deepCopy()",
    "services := newProject.Services",
    "eg, ctx := errgroup.WithContext(context.Background())",
    "eg.Go(func() error {",
    "s := Services{}",
    "for expect > 0 {",
    "select {",
    "case <-ctx.Done():",
    "return nil",
    "case r := <-resultCh:",
    "s[r.name] = r.service",
    "expect--",
    "}",
    "}",
    "newProject.Services = s",
    "return nil",
    "})",
    "for n, s := range services {",
    "name := n",
    "service := s",
    "eg.Go(func() error {",
    "updated, err := fn(name, service)",
    "if err != nil {",
    "return err",
    "}",
    "resultCh <- result{",
    "name: name,",
    "service: updated,",
    "}",
    "return nil",
    "})",
    "}",
    "return newProject, eg.Wait()",
    "}"] := by
  decide

/-- reference-typed package-level variables leave their variable only once: the interpolation cast table is placed in the
    per-load `interp.Options.TypeCastMapping` (by `loader.toOptions`) — and nothing in the module stores or deletes through
    a field of that name, so the copy is read-only.  A table handed to a struct field / map / slice / channel, or `&G`
    handed to code outside the module, adds a row here; a store through such a field adds one to the last list. -/
theorem global_escapes_reviewed :
    globalsEscaping = [("loader", "interpolateTypeCastMapping", "loader.toOptions", "literal:interp.Options.TypeCastMapping")] ∧
    escapedIntoFields = ["TypeCastMapping"] ∧ storesThroughEscapedFields = [] := by
  decide

/-- the statement order the model's initial state assumes (the caller reads `newProject.Services` before the collector
    goroutine exists, two `eg.Go` sites) is the order of the source now -/
theorem fanout_model_order_is_the_sources : fanoutFieldReadPrecedesSpawn = true := by decide

/-- the only store into caller-owned data through a parameter of the loader / cli packages is the known one
    (`loader.projectName`, finding `race-write@loader.projectName`); the full-strength statement
    `callerOwnedWrites = []` is refuted in `Neg/C19.lean` -/
theorem caller_owned_writes_reviewed_partial :
    callerOwnedWrites = [("loader.projectName", "details", "details.Environment[consts.ComposeProjectName]")] := by
  decide

end CV.Gen

namespace CV.Interleave

/-- **from the static facts to `WritesOwn`** — the step that was "by convention" made explicit.  Let `foot t` be a set of
    locations that over-approximates what load `t` may write (`frame`: a step changes nothing outside it).  If
    (`globalFoot`) a package-level variable is in a load's footprint only when the regenerated table lists a write to it
    that is reachable from a load entry point, after `init`, without a held lock — and
    `CV.Gen.shared_writes_reviewed` says there is no such row — and (`privFoot`) every other location of the footprint is
    owned by the writing load, then the loads write only what they own; with `ReadsOwnOrShared` every interleaving
    gives each load the state it reaches alone and leaves the package-level variables untouched.
    What stays trusted is exactly `frame` + `globalFoot`: that `translator/globals.go` sees every write (its blind spots are
    listed in design/C19.md). -/
theorem noninterf_from_static_facts {L Val Tid : Type} [DecidableEq Tid] (S : Sys (PLoc L) Val Tid)
    (foot : Tid → PLoc L → Prop)
    (frame : ∀ t m x, ¬ foot t x → S.step t m x = m x)
    (globalsShared : ∀ p v, S.owner (.global p v) = none)
    (globalFoot : ∀ t p v, foot t (.global p v) → ∃ w, (p, v, w, true) ∈ CV.Gen.unguardedGlobalWrites)
    (privFoot : ∀ t l, foot t (.priv l) → S.owner (.priv l) = some t)
    (hR : ReadsOwnOrShared S) (sched : List Tid) (m : PLoc L → Val) :
    (∀ t x, S.owner x = some t → exec S sched m x = solo S t (sched.count t) m x) ∧
    (∀ p v, exec S sched m (.global p v) = m (.global p v)) := by
  have hnone : ∀ p v w, (p, v, w, true) ∉ CV.Gen.unguardedGlobalWrites := by
    intro p v w hmem
    have h := CV.Gen.shared_writes_reviewed.2
    have : (p, v, w, true) ∈ CV.Gen.unguardedGlobalWrites.filter (fun (_, _, _, reach) => reach) :=
      List.mem_filter.mpr ⟨hmem, rfl⟩
    rw [h] at this; cases this
  have hW : WritesOwn S := by
    intro t m x hx
    apply frame
    intro hf
    cases x with
    | global p v => obtain ⟨w, hw⟩ := globalFoot t p v hf; exact hnone p v w hw
    | priv l => exact hx (privFoot t l hf)
  have h := interleave_noninterf S hW hR sched m
  exact ⟨h.1, fun p v => h.2 _ (globalsShared p v)⟩

/-- non-vacuity: two loads that each add the value of a package-level table entry to their own counter satisfy every
    hypothesis of `noninterf_from_static_facts` (footprint = the load's own counter) -/
def exLoads : Sys (PLoc Bool) Nat Bool :=
  { owner := fun x => match x with | .global _ _ => none | .priv b => some b,
    step := fun t m x => if x = .priv t then m x + m (.global "loader" "interpolateTypeCastMapping") else m x }

example (sched : List Bool) (m : PLoc Bool → Nat) :
    ∀ p v, exec exLoads sched m (.global p v) = m (.global p v) :=
  (noninterf_from_static_facts exLoads (fun t x => x = .priv t)
    (by intro t m x hx; simp only [exLoads]; split
        · next h => exact absurd h hx
        · rfl)
    (by intro p v; rfl)
    (by intro t p v h; cases h)
    (by intro t l h; cases h; rfl)
    (by intro t m m' hA x hx
        cases x with
        | global p v => simp [exLoads] at hx
        | priv b =>
          simp only [exLoads] at hx
          have hb : b = t := by injection hx
          subst hb
          simp only [exLoads, if_true]
          rw [hA (.priv b) (.inl rfl), hA (.global _ _) (.inr rfl)])
    sched m).2

end CV.Interleave

/-! ### non-vacuity: the hypotheses are satisfiable by non-trivial values -/
namespace CV.Fanout

/-- three services, the function fails on the middle one -/
def exCfg : Cfg := { svcs := [0, 1, 2], fn := fun v => if v = 1 then none else some (10 + v) }
/-- three services, no failure -/
def exOk : Cfg := { svcs := [0, 1, 2], fn := fun v => some (10 + v) }

def exRunOk : List Label :=
  [.mRead, .mSpawnC, .mSpawn 2, .mSpawn 0, .wBegin 2, .mSpawn 1, .mWait, .wBegin 0, .wReturn 2, .wSend 2, .cRecv, .wBegin 1,
   .wReturn 1, .wReturn 0, .wSend 0, .cStore, .wSend 1, .wExit 2, .cRecv, .cStore, .cRecv, .wExit 0, .cStore, .cExit, .wExit 1, .mReturn]

def exRunErr : List Label :=
  [.mRead, .mSpawnC, .mSpawn 0, .mSpawn 1, .mSpawn 2, .mWait, .wBegin 1, .wBegin 0, .wReturn 1, .wReturn 0, .wFail 1, .wSend 0,
   .cRecv, .cStore, .wBegin 2, .wReturn 2, .wSend 2, .cCtxDone, .cReturn, .wExit 0, .wExit 2, .mReturn]

/-- what the caller observes of a final state -/
def observe (cfg : Cfg) (s : St) : MPc × Option V × Option (List (Option Nat)) :=
  (s.m, s.firstErr, s.services.map fun f => cfg.svcs.map f)

example : exOk.svcs.Nodup ∧ exCfg.svcs.Nodup := by decide
/-- the witness state of `Neg/C19.lean` (`legacy_order_races`) with the statement order of the code as it is now: no race -/
example : ¬ RaceAt emptyCfg (init emptyCfg) := fanout_no_field_race (by decide) .init
/-- a 26-step run with interleaved workers reaches a returned state with exactly `fn`'s results -/
example : (run exOk (init exOk) exRunOk).map (observe exOk) = some (.returned, none, some [some 10, some 11, some 12]) := by decide
/-- a run in which service 1 fails while 0 and 2 still send: the error of 1 is returned, the services are untouched -/
example : (run exCfg (init exCfg) exRunErr).map (observe exCfg) = some (.returned, some 1, none) := by decide
/-- reachable non-terminal states exist in which several goroutines are enabled (the theorems quantify over real choice) -/
example : ((run exCfg (init exCfg) (exRunErr.take 12)).map fun s => (enabled exCfg s).length) = some 4 := by decide

end CV.Fanout

namespace CV.Interleave

/-- a two-load system satisfying the hypotheses of `interleave_noninterf`: each load increments its own counter by the
    value of a shared read-only location -/
def exSys : Sys (Option Bool) Nat Bool :=
  { owner := fun x => x,
    step := fun t m x => if x = some t then m x + m none else m x }

example : WritesOwn exSys := by
  intro t m x hx
  simp only [exSys] at hx ⊢
  split
  · next h => exact absurd h hx
  · rfl

example : ReadsOwnOrShared exSys := by
  intro t m m' hA x hx
  simp only [exSys] at hx ⊢
  subst hx
  simp only [if_true]
  rw [hA (some t) (.inl rfl), hA none (.inr rfl)]

end CV.Interleave
