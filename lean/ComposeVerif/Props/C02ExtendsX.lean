import ComposeVerif.Lemmas.C02ExtendsX
import ComposeVerif.Neg.C02ExtendsX
/-!
# C02 — `loader.ApplyExtends` with references into other files is independent of the visit order

`Model/C02ExtendsX.lean`: a main-file service that extends a service of another file is resolved from a *fresh load* of
that file every time it is reached, and — because `services[name] = merged` then writes into the other file's map — it
is **not memoised in the main map** when reached through a sibling.  The theorems say that this makes no difference:
the run is simulated step by step by the same-file algorithm (`CV.Det.applyOne / applyAll`, `Props/C02.lean` §3b) on the
map whose cross-file references are resolved up front, so every two complete visit orders fail or succeed alike and give
every service the same definition.  The closest wrong program (seeds C02-3 / C02-6) is refuted in `Neg/C02ExtendsX.lean`.
-/
namespace CV.Det.ExtX.Props
open CV CV.Det CV.Det.ExtX

variable {β : Type}

/-- **refinement**: resolving one service on the main map = resolving it with the same-file algorithm on the
pre-resolved map (same value, related maps); `bad` is any name that is not a service (what a failing cross-file
reference is turned into) -/
theorem applyServiceExtendsX_refines (mrg : β → β → β) (files : AL (AL (XSvc β))) (bad : String) (n : Nat)
    (m : AL (XS β)) (name : String) (hb : find bad m = none) :
    Sim mrg files bad (applyOneX mrg files n m name) (applyOne mrg n (preMap mrg files bad m) name) :=
  applyOneX_sim mrg files bad n m name hb

/-- the whole loop refines the same-file loop, for every visit order -/
theorem applyExtendsX_refines (mrg : β → β → β) (files : AL (AL (XSvc β))) (bad : String) (n : Nat) (order : List String)
    (m : AL (XS β)) (hb : find bad m = none) :
    (applyAllX mrg files n order m).map (preMap mrg files bad) = applyAll mrg n order (preMap mrg files bad m) :=
  applyAllX_sim mrg files bad n order m hb

/-- a service that has been resolved stays resolved (no later step puts a reference back) -/
theorem applyExtendsX_resolves_all (mrg : β → β → β) (files : AL (AL (XSvc β))) (n : Nat) (order : List String)
    (m mf : AL (XS β)) (h : applyAllX mrg files n order m = some mf) (x : String) (hx : x ∈ order) :
    ∃ b, find x mf = some (.none, b) := applyAllX_tagged mrg files n order m mf h x (.inr hx)

/-- **`ApplyExtends` with cross-file references does not depend on the order in which Go ranges over the services
map**: two complete visit orders fail or succeed alike and, on success, give every service the same definition -/
theorem applyExtendsX_order_independent (mrg : β → β → β) (files : AL (AL (XSvc β))) (bad : String) (m0 : AL (XS β))
    (hb : find bad m0 = none) {order order' : List String} (hp : order'.Perm order)
    (hall : ∀ x, (find x m0).isSome = true → x ∈ order) :
    (applyAllX mrg files (m0.length + 1) order' m0).isSome = (applyAllX mrg files (m0.length + 1) order m0).isSome ∧
    ∀ mf mf', applyAllX mrg files (m0.length + 1) order m0 = some mf →
      applyAllX mrg files (m0.length + 1) order' m0 = some mf' → ∀ x ∈ order, find x mf' = find x mf := by
  have hlen : (preMap mrg files bad m0).length = m0.length := by simp [preMap]
  have hall' : ∀ x, (find x (preMap mrg files bad m0)).isSome = true → x ∈ order := by
    intro x hx; rw [find_preMap, Option.isSome_map] at hx; exact hall x hx
  have hf : FuelEnough mrg (m0.length + 1) (preMap mrg files bad m0) := by
    rw [← hlen]; exact fuelEnough_length mrg _ 1
  have key := applyAll_perm mrg (m0.length + 1) (preMap mrg files bad m0) hf hp hall'
  have s1 := applyAllX_sim mrg files bad (m0.length + 1) order m0 hb
  have s2 := applyAllX_sim mrg files bad (m0.length + 1) order' m0 hb
  refine ⟨?_, ?_⟩
  · have := key.1
    rw [← s1, ← s2, Option.isSome_map, Option.isSome_map] at this
    exact this
  · intro mf mf' h h' x hx
    rw [h] at s1; rw [h'] at s2
    have hk := key.2 _ _ s1.symm s2.symm x
    rw [find_preMap, find_preMap] at hk
    obtain ⟨b, hbx⟩ := applyAllX_tagged mrg files _ order m0 mf h x (.inr hx)
    obtain ⟨b', hbx'⟩ := applyAllX_tagged mrg files _ order' m0 mf' h' x (.inr (hp.mem_iff.mpr hx))
    rw [hbx, hbx'] at hk ⊢
    simp only [Option.map_some, pre, Option.some.injEq, Prod.mk.injEq, true_and] at hk
    rw [hk]

/-- non-vacuity: the hypotheses hold for the witness of `Neg/C02ExtendsX.lean`, and the two orders do agree -/
example : find "⊥" CV.Det.Neg.ExtX.main = none ∧
    (∀ x, (find x CV.Det.Neg.ExtX.main).isSome = true → x ∈ ["a", "b"]) ∧
    applyAllX CV.Det.Neg.ExtX.mrg CV.Det.Neg.ExtX.files 3 ["a", "b"] CV.Det.Neg.ExtX.main =
      applyAllX CV.Det.Neg.ExtX.mrg CV.Det.Neg.ExtX.files 3 ["b", "a"] CV.Det.Neg.ExtX.main := by
  refine ⟨by decide, ?_, by decide⟩
  intro x hx
  simp only [CV.Det.Neg.ExtX.main, find] at hx
  by_cases ha : x = "a"
  · simp [ha]
  · by_cases hb : x = "b"
    · simp [hb]
    · simp [ha, hb] at hx

end CV.Det.ExtX.Props
