import ComposeVerif.Gen.C15Facts
/-!
# C15 — the source the model was written against is the source now

`translator/c15.go` prints, on every run, the signature and every statement (in source order) of each function that
`Model/Select.lean` models by hand.  The theorems below state those skeletons as literals, each next to the model
definition that was written against it.  An edit of one of these bodies (a dropped `var dependencies`, a changed
condition, a reordered delete, another argument to `WithServicesEnvironmentResolved` …) breaks the matching obligation
before any differential stream runs; the check then reports `no-failing-input-found` unless the streams find an input.
-/
namespace CV.Sel

/-- `HasProfile` — modelled by `hasProfile`: no profile ⇒ true; otherwise some listed profile is `*` or one of the service's -/
theorem source_HasProfile_is_modelled :
    CV.Gen.c15_HasProfile = [
  "func (profiles []string) bool",
  "if len(s.Profiles) == 0",
  "return true",
  "for _, p := range profiles",
  "if p == \"*\"",
  "return true",
  "for _, sp := range s.Profiles",
  "if sp == p",
  "return true",
  "return false"] := by
  rfl

/-- `AllServices` — modelled by `allServices`: enabled entries first, disabled entries written over them -/
theorem source_AllServices_is_modelled :
    CV.Gen.c15_AllServices = [
  "func () Services",
  "all := Services{}",
  "for name, service := range p.Services",
  "all[name] = service",
  "for name, service := range p.DisabledServices",
  "all[name] = service",
  "return all"] := by
  rfl

/-- `WithProfiles` — modelled by `withProfiles`: range over `AllServices()` of the copy, `HasProfile` decides the side, both maps and `Profiles` replaced -/
theorem source_WithProfiles_is_modelled :
    CV.Gen.c15_WithProfiles = [
  "func (profiles []string) (*Project, error)",
  "newProject := p.deepCopy()",
  "enabled := Services{}",
  "disabled := Services{}",
  "for name, service := range newProject.AllServices()",
  "if service.HasProfile(profiles)",
  "(has else)",
  "enabled[name] = service",
  "disabled[name] = service",
  "newProject.Services = enabled",
  "newProject.DisabledServices = disabled",
  "newProject.Profiles = slices.Clone(profiles)",
  "return newProject, nil"] := by
  rfl

/-- `WithServicesEnabled` — modelled by `withServicesEnabled` / `enableProfiles`: no names ⇒ the copy; for each name not enabled the profiles of `p.DisabledServices[name]` (zero value if absent) are appended; then `WithProfiles`, then `WithServicesEnvironmentResolved(true)` -/
theorem source_WithServicesEnabled_is_modelled :
    CV.Gen.c15_WithServicesEnabled = [
  "func (names ...string) (*Project, error)",
  "newProject := p.deepCopy()",
  "if len(names) == 0",
  "return newProject, nil",
  "profiles := append([]string{}, p.Profiles...)",
  "for _, name := range names",
  "if _, ok := newProject.Services[name]; ok",
  "_, ok := newProject.Services[name]",
  "continue",
  "service := p.DisabledServices[name]",
  "profiles = append(profiles, service.Profiles...)",
  "newProject, err := newProject.WithProfiles(profiles)",
  "if err != nil",
  "return newProject, err",
  "return newProject.WithServicesEnvironmentResolved(true)"] := by
  rfl

/-- `WithServicesEnvironmentResolved` — modelled by `resolveEnabled` / `resolveEnvSvc` (`Model/Select.lean`, services without env_file) and `resolveEnabledFiles` (`Model/SelectEnv.lean`, with env files through C16's `EnvLayers.resolveServiceEnv`): only `newProject.Services` is ranged over -/
theorem source_WithServicesEnvironmentResolved_is_modelled :
    CV.Gen.c15_WithServicesEnvironmentResolved = [
  "func (discardEnvFiles bool) (*Project, error)",
  "newProject := p.deepCopy()",
  "for i, service := range newProject.Services",
  "service.Environment = service.Environment.Resolve(newProject.Environment.Resolve)",
  "environment := MappingWithEquals{}",
  "var resolve dotenv.LookupFn = func(s string) (string, bool) { …",
  "v, ok := environment[s]",
  "if ok && v != nil",
  "return *v, ok",
  "return newProject.Environment.Resolve(s)",
  "for _, envFile := range service.EnvFiles",
  "vars, err := loadEnvFile(envFile, resolve)",
  "if err != nil",
  "return nil, err",
  "environment.OverrideBy(vars.ToMappingWithEquals())",
  "service.Environment = environment.OverrideBy(service.Environment)",
  "if discardEnvFiles",
  "service.EnvFiles = nil",
  "newProject.Services[i] = service",
  "return newProject, nil"] := by
  rfl

/-- `WithServicesDisabled` — modelled by `withServicesDisabled` / `disableOne`: per name, in argument order: delete the name from every enabled service's `DependsOn`, then move the service if it is enabled -/
theorem source_WithServicesDisabled_is_modelled :
    CV.Gen.c15_WithServicesDisabled = [
  "func (names ...string) *Project",
  "newProject := p.deepCopy()",
  "if len(names) == 0",
  "return newProject",
  "if newProject.DisabledServices == nil",
  "newProject.DisabledServices = Services{}",
  "for _, name := range names",
  "for i, s := range newProject.Services",
  "if _, ok := s.DependsOn[name]; ok",
  "_, ok := s.DependsOn[name]",
  "delete(s.DependsOn, name)",
  "newProject.Services[i] = s",
  "if service, ok := newProject.Services[name]; ok",
  "service, ok := newProject.Services[name]",
  "newProject.DisabledServices[name] = service",
  "delete(newProject.Services, name)",
  "return newProject"] := by
  rfl

/-- `ForEachService` — modelled by `forEachService`: default policy = dependencies; fresh `seen`, empty `dependencies` map -/
theorem source_ForEachService_is_modelled :
    CV.Gen.c15_ForEachService = [
  "func (names []string, fn ServiceFunc, options ...DependencyOption) error",
  "if len(options) == 0",
  "options = []DependencyOption{IncludeDependencies}",
  "return p.withServices(names, fn, map[string]bool{}, options, map[string]ServiceDependency{})"] := by
  rfl

/-- `withServices` — modelled by `walk` / `walkLoop` / `missingFatal` / `nextOf`: not-found check first (fatal unless the caller's `dependencies` marks it optional), then the range over the found services with `seen`, a fresh per-service `dependencies` map (`var dependencies`), recursion on its sorted keys, `fn` after the recursion -/
theorem source_withServices_is_modelled :
    CV.Gen.c15_withServices = [
  "func (names []string, fn ServiceFunc, seen map[string]bool, options []DependencyOption, dependencies map[string]ServiceDependency) error",
  "services, servicesNotFound := p.getServicesByNames(names...)",
  "if len(servicesNotFound) > 0",
  "for _, serviceNotFound := range servicesNotFound",
  "if dependency, ok := dependencies[serviceNotFound]; !ok || dependency.Required",
  "dependency, ok := dependencies[serviceNotFound]",
  "return fmt.Errorf(\"no such service: %s\", serviceNotFound)",
  "opts := withServicesOptions{ …",
  "for _, option := range options",
  "option(&opts)",
  "for name, service := range services",
  "if seen[name]",
  "continue",
  "seen[name] = true",
  "var dependencies map[string]ServiceDependency",
  "switch opts.dependencyPolicy",
  "case includeDependents",
  "dependencies = utils.MapsAppend(dependencies, p.dependentsForService(service))",
  "case includeDependencies",
  "dependencies = utils.MapsAppend(dependencies, service.DependsOn)",
  "case ignoreDependencies",
  "if len(dependencies) > 0",
  "err := p.withServices(utils.MapKeys(dependencies), fn, seen, options, dependencies)",
  "if err != nil",
  "return err",
  "if err := fn(name, service.deepCopy()); err != nil",
  "err := fn(name, service.deepCopy())",
  "return err",
  "return nil"] := by
  rfl

/-- `getServicesByNames` — modelled by `walk` (`names' := if names.isEmpty then keys svcs else names`) and the `lookup` in `walkLoop` -/
theorem source_getServicesByNames_is_modelled :
    CV.Gen.c15_getServicesByNames = [
  "func (names ...string) (Services, []string)",
  "if len(names) == 0",
  "return p.Services, nil",
  "services := Services{}",
  "var servicesNotFound []string",
  "for _, name := range names",
  "service, ok := p.Services[name]",
  "if !ok",
  "servicesNotFound = append(servicesNotFound, name)",
  "continue",
  "services[name] = service",
  "return services, servicesNotFound"] := by
  rfl

/-- `dependentsForService` — modelled by `dependents`: keyed by the dependent's `Name`, compared with `s.Name` -/
theorem source_dependentsForService_is_modelled :
    CV.Gen.c15_dependentsForService = [
  "func (s ServiceConfig) map[string]ServiceDependency",
  "dependent := make(map[string]ServiceDependency)",
  "for _, service := range p.Services",
  "for name, dependency := range service.DependsOn",
  "if name == s.Name",
  "dependent[service.Name] = dependency",
  "return dependent"] := by
  rfl

/-- `WithSelectedServices` — modelled by `withSelectedServices` / `selectStep` / `pruneDeps` / `sortNames`: no names ⇒ the copy; walk on the receiver; selected services pruned to the set and kept, the others collected, sorted and disabled with one call; `Services` replaced -/
theorem source_WithSelectedServices_is_modelled :
    CV.Gen.c15_WithSelectedServices = [
  "func (names []string, options ...DependencyOption) (*Project, error)",
  "newProject := p.deepCopy()",
  "if len(names) == 0",
  "return newProject, nil",
  "set := utils.NewSet[string]()",
  "err := p.ForEachService(names, func(name string, service *ServiceConfig) error { …",
  "set.Add(name)",
  "return nil",
  "if err != nil",
  "return nil, err",
  "enabled := Services{}",
  "var unselected []string",
  "for name, s := range newProject.Services",
  "if _, ok := set[name]; ok",
  "(has else)",
  "_, ok := set[name]",
  "dependencies := s.DependsOn",
  "for d := range dependencies",
  "if _, ok := set[d]; !ok",
  "_, ok := set[d]",
  "delete(dependencies, d)",
  "s.DependsOn = dependencies",
  "enabled[name] = s",
  "unselected = append(unselected, name)",
  "sort.Strings(unselected)",
  "newProject = newProject.WithServicesDisabled(unselected...)",
  "newProject.Services = enabled",
  "return newProject, nil"] := by
  rfl

/-- `WithoutUnnecessaryResources` — modelled by `withoutUnnecessaryResources` / `pick` / `volSources` / `secretSources`: four required sets from the enabled services of the copy, each resource map rebuilt from the copy's map -/
theorem source_WithoutUnnecessaryResources_is_modelled :
    CV.Gen.c15_WithoutUnnecessaryResources = [
  "func () *Project",
  "newProject := p.deepCopy()",
  "requiredNetworks := map[string]struct{}{}",
  "requiredVolumes := map[string]struct{}{}",
  "requiredSecrets := map[string]struct{}{}",
  "requiredConfigs := map[string]struct{}{}",
  "for _, s := range newProject.Services",
  "for k := range s.Networks",
  "requiredNetworks[k] = struct{}{}",
  "for _, v := range s.Volumes",
  "if v.Type != VolumeTypeVolume || v.Source == \"\"",
  "continue",
  "requiredVolumes[v.Source] = struct{}{}",
  "for _, v := range s.Secrets",
  "requiredSecrets[v.Source] = struct{}{}",
  "if s.Build != nil",
  "for _, v := range s.Build.Secrets",
  "requiredSecrets[v.Source] = struct{}{}",
  "for _, v := range s.Configs",
  "requiredConfigs[v.Source] = struct{}{}",
  "networks := Networks{}",
  "for k := range requiredNetworks",
  "if value, ok := newProject.Networks[k]; ok",
  "value, ok := newProject.Networks[k]",
  "networks[k] = value",
  "newProject.Networks = networks",
  "volumes := Volumes{}",
  "for k := range requiredVolumes",
  "if value, ok := newProject.Volumes[k]; ok",
  "value, ok := newProject.Volumes[k]",
  "volumes[k] = value",
  "newProject.Volumes = volumes",
  "secrets := Secrets{}",
  "for k := range requiredSecrets",
  "if value, ok := newProject.Secrets[k]; ok",
  "value, ok := newProject.Secrets[k]",
  "secrets[k] = value",
  "newProject.Secrets = secrets",
  "configs := Configs{}",
  "for k := range requiredConfigs",
  "if value, ok := newProject.Configs[k]; ok",
  "value, ok := newProject.Configs[k]",
  "configs[k] = value",
  "newProject.Configs = configs",
  "return newProject"] := by
  rfl

/-- `MapKeys` — modelled by sorted keys (the model recurses on the keys in list order; the visit order is not observable: `forEachService_reach`) -/
theorem source_MapKeys_is_modelled :
    CV.Gen.c15_MapKeys = [
  "func [T constraints.Ordered, U any](theMap map[T]U) []T",
  "result := maps.Keys(theMap)",
  "slices.Sort(result)",
  "return result"] := by
  rfl

/-- `MapsAppend` — modelled by with a nil target (always the case after `var dependencies`) the source map itself -/
theorem source_MapsAppend_is_modelled :
    CV.Gen.c15_MapsAppend = [
  "func [T comparable, U any](target map[T]U, source map[T]U) map[T]U",
  "if target == nil",
  "return source",
  "if source == nil",
  "return target",
  "for key, value := range source",
  "if _, ok := target[key]; !ok",
  "_, ok := target[key]",
  "target[key] = value",
  "return target"] := by
  rfl

/-! ## round 5: option functions and accessors -/

/-- `IncludeDependencies` — modelled by `Policy.deps` in `policyOf`: an option overwrites `dependencyPolicy`, so of several options the last one decides -/
theorem source_IncludeDependencies_is_modelled :
    CV.Gen.c15_IncludeDependencies = [
  "func (options *withServicesOptions)",
  "options.dependencyPolicy = includeDependencies"] := by
  rfl

/-- `IncludeDependents` — `Policy.dependents` -/
theorem source_IncludeDependents_is_modelled :
    CV.Gen.c15_IncludeDependents = [
  "func (options *withServicesOptions)",
  "options.dependencyPolicy = includeDependents"] := by
  rfl

/-- `IgnoreDependencies` — `Policy.ignore` -/
theorem source_IgnoreDependencies_is_modelled :
    CV.Gen.c15_IgnoreDependencies = [
  "func (options *withServicesOptions)",
  "options.dependencyPolicy = ignoreDependencies"] := by
  rfl

/-- `ServiceNames` — modelled by `serviceNames`: the keys of `Services`, `sort.Strings`ed -/
theorem source_ServiceNames_is_modelled :
    CV.Gen.c15_ServiceNames = [
  "func () []string",
  "var names []string",
  "for k := range p.Services",
  "names = append(names, k)",
  "sort.Strings(names)",
  "return names"] := by
  rfl

/-- `DisabledServiceNames` — modelled by `disabledServiceNames` -/
theorem source_DisabledServiceNames_is_modelled :
    CV.Gen.c15_DisabledServiceNames = [
  "func () []string",
  "var names []string",
  "for k := range p.DisabledServices",
  "names = append(names, k)",
  "sort.Strings(names)",
  "return names"] := by
  rfl

/-- `GetService` — modelled by `getService`: the enabled service, else `ErrDisabled` if the name is a disabled service, else `ErrNotFound` -/
theorem source_GetService_is_modelled :
    CV.Gen.c15_GetService = [
  "func (name string) (ServiceConfig, error)",
  "service, ok := p.Services[name]",
  "if !ok",
  "_, ok := p.DisabledServices[name]",
  "if ok",
  "return ServiceConfig{}, fmt.Errorf(\"no such service: %s: %w\", name, errdefs.ErrDisabled)",
  "return ServiceConfig{}, fmt.Errorf(\"no such service: %s: %w\", name, errdefs.ErrNotFound)",
  "return service, nil"] := by
  rfl

/-- `GetServices` — modelled by `getServices` / `getServicesLoop`: no name ⇒ the service map; else `GetService` per name in argument order, the first error is returned -/
theorem source_GetServices_is_modelled :
    CV.Gen.c15_GetServices = [
  "func (names ...string) (Services, error)",
  "if len(names) == 0",
  "return p.Services, nil",
  "services := Services{}",
  "for _, name := range names",
  "service, err := p.GetService(name)",
  "if err != nil",
  "return nil, err",
  "services[name] = service",
  "return services, nil"] := by
  rfl

/-- `GetDisabledService` — modelled by `getDisabledService` -/
theorem source_GetDisabledService_is_modelled :
    CV.Gen.c15_GetDisabledService = [
  "func (name string) (ServiceConfig, error)",
  "service, ok := p.DisabledServices[name]",
  "if !ok",
  "return ServiceConfig{}, fmt.Errorf(\"no such service: %s\", name)",
  "return service, nil"] := by
  rfl

/-- `GetDependentsForService` — modelled by `getDependentsForService`: `MapKeys` (sorted) of `dependentsForService` -/
theorem source_GetDependentsForService_is_modelled :
    CV.Gen.c15_GetDependentsForService = [
  "func (s ServiceConfig) []string",
  "return utils.MapKeys(p.dependentsForService(s))"] := by
  rfl

/-- `ServiceConfig.GetDependents` — modelled by `getDependents`: one `service.Name` per enabled service with a `depends_on` entry for `s.Name`, in range order -/
theorem source_GetDependents_is_modelled :
    CV.Gen.c15_GetDependents = [
  "func (p *Project) []string",
  "var dependent []string",
  "for _, service := range p.Services",
  "for name := range service.DependsOn",
  "if name == s.Name",
  "dependent = append(dependent, service.Name)",
  "return dependent"] := by
  rfl

/-- `Services.GetProfiles` — modelled by `getProfilesPre` (one possible order) / `getProfiles` (its sorted view): the profiles of the services collected in a set, listed by ranging over that set (not sorted: callers get an unordered list) -/
theorem source_GetProfiles_is_modelled :
    CV.Gen.c15_GetProfiles = [
  "func () []string",
  "set := map[string]struct{}{}",
  "for _, service := range s",
  "for _, p := range service.Profiles",
  "set[p] = struct{}{}",
  "var profiles []string",
  "for k := range set",
  "profiles = append(profiles, k)",
  "return profiles"] := by
  rfl

/-! ## round 6: the loader side (`Model/SelectLoad.lean`) -/

/-- `loader.modelToProject` — modelled by `loadApply`: `Transform`, then `WithProfiles(opts.Profiles)` unconditionally, then the
consistency check unless skipped, then the environment resolution unless skipped — in this order -/
theorem source_modelToProject_tail_is_modelled :
    CV.Gen.c15_modelToProject_tail = [
  "err = Transform(dict, project)",
  "if project, err = project.WithProfiles(opts.Profiles); err != nil",
  "project, err = project.WithProfiles(opts.Profiles)",
  "if !opts.SkipConsistencyCheck",
  "err := checkConsistency(project)",
  "if !opts.SkipResolveEnvironment",
  "project, err = project.WithServicesEnvironmentResolved(opts.discardEnvFiles)"] := by
  rfl

/-- the `depends_on` loop of `loader.checkConsistency` — modelled by `depOffence` / `checkDeps`: `GetService` must succeed, or fail
with `ErrDisabled` on an edge that is not required -/
theorem source_checkConsistency_dependsOn_is_modelled :
    CV.Gen.c15_checkConsistency_dependsOn = [
  "for dependedService, cfg := range s.DependsOn",
  "if _, err := project.GetService(dependedService); err != nil",
  "_, err := project.GetService(dependedService)",
  "if errors.Is(err, errdefs.ErrDisabled) && !cfg.Required",
  "return fmt.Errorf(\"service %q depends on undefined service %q: %w\", s.Name, dependedService, errdefs.ErrInvalid)"] := by
  rfl

/-- `cli.WithDefaultProfiles` — modelled by `defaultProfiles`: no given profile ⇒ `COMPOSE_PROFILES` split at `,`, each piece
`TrimSpace`d; the result goes to `loader.WithProfiles` -/
theorem source_WithDefaultProfiles_is_modelled :
    CV.Gen.c15_WithDefaultProfiles = [
  "func (profiles ...string) ProjectOptionsFn",
  "return func(o *ProjectOptions) error { …",
  "if len(profiles) == 0",
  "for _, s := range strings.Split(o.Environment[consts.ComposeProfiles], \",\")",
  "profiles = append(profiles, strings.TrimSpace(s))",
  "o.loadOptions = append(o.loadOptions, loader.WithProfiles(profiles))",
  "return nil"] := by
  rfl

end CV.Sel
