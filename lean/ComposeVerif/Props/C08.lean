import ComposeVerif.Lemmas.Interp
import ComposeVerif.Lemmas.Path
import ComposeVerif.Gen.Tables
import ComposeVerif.Gen.Schema
import ComposeVerif.Model.SchemaPaths
import ComposeVerif.Model.InterpTyped
import ComposeVerif.Gen.Types
import ComposeVerif.Gen.C08Facts
import ComposeVerif.Lemmas.InterpCustom
/-!
# C08 — interpolation touches only string values and is type-transparent

Property theorems only (definitions: `Model/Interp.lean`, `Spec/Interp.lean`; helper lemmas: `Lemmas/Interp.lean`).
All theorems hold for every tree (any depth / width), every environment, every path, every float parser
(`FloatParser` is the opaque `strconv.ParseFloat`), and — unless they name `CV.Gen.castTable` — every cast table.
-/
namespace CV.Interp
open CV CV.TPath

/-! ## 1. only string scalar values change -/

/-- keys (in order), list lengths, and every non-string scalar are preserved; a string becomes a scalar -/
theorem interp_keys_shape (c : Cfg) (p : TPath) (v v' : Val) (h : interp c p v = .ok v') : SameShape v v' :=
  interp_shape c v p v' h

/-- the top-level entry point `Interpolate`: same keys in the same order -/
theorem interpolate_keys (c : Cfg) (kvs kvs' : List (String × Val)) (h : interpolate c kvs = .ok kvs') :
    kvs'.map Prod.fst = kvs.map Prod.fst :=
  sameShapeKVs_keys _ _ (interpKVs_shape c kvs root kvs' h)

theorem interp_map_keys (c : Cfg) (p : TPath) (kvs : List (String × Val)) (v' : Val) (h : interp c p (.map kvs) = .ok v') :
    ∃ kvs', v' = .map kvs' ∧ kvs'.map Prod.fst = kvs.map Prod.fst := by
  have hs := interp_shape c _ p v' h
  simp only [SameShape] at hs
  obtain ⟨kvs', rfl, hk⟩ := hs
  exact ⟨kvs', rfl, sameShapeKVs_keys _ _ hk⟩

theorem interp_seq_length (c : Cfg) (p : TPath) (xs : List Val) (v' : Val) (h : interp c p (.seq xs) = .ok v') :
    ∃ xs', v' = .seq xs' ∧ xs'.length = xs.length := by
  have hs := interp_shape c _ p v' h
  simp only [SameShape] at hs
  obtain ⟨xs', rfl, hk⟩ := hs
  exact ⟨xs', rfl, sameShapeList_length _ _ hk⟩

/-- a non-string scalar is returned as it is, at every path, whatever the table says -/
theorem interp_nonstring_id (c : Cfg) (p : TPath) :
    interp c p .null = .ok .null ∧ (∀ b, interp c p (.bool b) = .ok (.bool b)) ∧
    (∀ i, interp c p (.int i) = .ok (.int i)) ∧ (∀ f, interp c p (.float f) = .ok (.float f)) :=
  ⟨by simp only [interp], fun _ => by simp only [interp], fun _ => by simp only [interp], fun _ => by simp only [interp]⟩

/-- a string value becomes exactly: its substitution, cast if (and only if) its path is on a row of the table -/
theorem interp_string_only_subst (c : Cfg) (p : TPath) (s : String) (v' : Val) (h : interp c p (.str s) = .ok v') :
    ∃ s', CV.Template.subst c.env s.toList = .ok s' ∧
      ((firstMatch c.table p = none ∧ v' = .str (String.ofList s')) ∨
       (∃ name, firstMatch c.table p = some name ∧ (Caster.ofName name).apply c.fp (String.ofList s') = some v')) := by
  simp only [interp] at h
  obtain ⟨s', hs, hc⟩ := leaf_ok_inv h
  refine ⟨s', hs, ?_⟩
  unfold castOnly at hc
  split at hc
  · cases hc; exact .inl ⟨‹_›, rfl⟩
  · rename_i name hm
    split at hc
    · cases hc; exact .inr ⟨name, hm, ‹_›⟩
    · cases hc

/-- pointwise through a mapping: the entry under `k` is the interpolation of the old entry at `path.Next(k)` -/
theorem interp_map_lookup (c : Cfg) (p : TPath) (kvs kvs' : List (String × Val)) (h : interpKVs c p kvs = .ok kvs') (k : String) :
    match Val.lookup k kvs with
    | some v => ∃ v', Val.lookup k kvs' = some v' ∧ interp c (next p k) v = .ok v'
    | none => Val.lookup k kvs' = none :=
  interpKVs_lookup c p kvs kvs' h k

/-- pointwise through a sequence: item `i` is the interpolation of the old item at `path.Next("[]")` -/
theorem interp_seq_get (c : Cfg) (p : TPath) (xs xs' : List Val) (h : interpList c p xs = .ok xs') (i : Nat) :
    match xs[i]? with
    | some v => ∃ v', xs'[i]? = some v' ∧ interp c (next p "[]") v = .ok v'
    | none => xs'[i]? = none :=
  interpList_get c p xs xs' h i

/-! ## 2. escaping: `$` ↦ `$$` with interpolation on gives back the original -/

/-- a text without `$` is not changed by substitution (C07's `subst_lit`, restated with `∉`) -/
theorem subst_no_dollar (env : CV.Template.Env) (s : Str) (h : '$' ∉ s) : CV.Template.subst env s = .ok s :=
  CV.Template.subst_lit env s (fun c hc he => h (he ▸ hc))

/-- typed form, per leaf: the escaped text with interpolation on denotes what the original denotes with
    interpolation off (`castOnly` = the value itself, or its cast at a cast path) -/
theorem leaf_escape (c : Cfg) (p : TPath) (s : String) : leaf c p (escapeStr s) = castOnly c p s := by
  have h := CV.Template.subst_escape c.env s.toList
  have : (escapeStr s).toList = CV.Template.escapeDollars s.toList := by simp [escapeStr, String.toList_ofList]
  rw [leaf_of_subst (s' := s.toList) (by rw [this]; exact h), String.ofList_toList]

/-- whole trees: writing every `$` of every value as `$$` and interpolating gives back the original tree,
    whatever the environment, when no string leaf lies on a cast row -/
theorem interp_escape_roundtrip (c : Cfg) (p : TPath) (v : Val) (h : NoCast c.table p v) :
    interp c p (escapeAll v) = .ok v := by
  apply interp_escapeAll
  intro q s hm
  rw [leaf_escape]
  unfold castOnly
  rw [h q s hm]

/-- a `$`-free, cast-free tree is a fixed point of interpolation (interpolation on ≡ off) -/
theorem interp_dollar_free (c : Cfg) (p : TPath) (v : Val) (h : NoCast c.table p v)
    (hd : ∀ q s, (q, s) ∈ leaves p v → '$' ∉ s.toList) : interp c p v = .ok v := by
  apply interp_fix
  intro q s hm
  rw [leaf_of_subst (subst_no_dollar c.env _ (hd q s hm)), String.ofList_toList]
  unfold castOnly
  rw [h q s hm]

/-! ## 3. type transparency in the model: a variable is the literal -/

/-- **every form of the grammar at once**: a well-formed template (any nesting of `$V`, `${V}`, `${V:-…}`, `${V:+…}`,
    `${V:?…}`, `$$`, literal text) that the grammar evaluates to the text `t` denotes, at every path, exactly what
    the literal `t` denotes with nothing to substitute: same typed value, same cast error (uses C07's `subst_render`) -/
theorem template_is_literal (c : Cfg) (p : TPath) (tm : List CV.Template.Seg) (t : Str)
    (hwf : CV.Template.WF tm = true) (he : CV.Template.evalL c.env tm = .ok t) :
    leaf c p (String.ofList (CV.Template.renderL tm)) = castOnly c p (String.ofList t) := by
  have h := CV.Template.subst_render c.env tm hwf
  simp only [CV.Template.evalOut, he] at h
  exact leaf_of_subst (by rw [String.toList_ofList]; exact h)

/-- `${NAME}` with NAME set to `t` -/
theorem var_is_literal (c : Cfg) (p : TPath) (n : Str) (t : String) (hn : CV.Template.validName n = true)
    (he : c.env n = some t.toList) :
    leaf c p (String.ofList ('$' :: '{' :: (n ++ ['}']))) = castOnly c p t := by
  have := template_is_literal c p [.var n true] t.toList (by simp [CV.Template.WF, CV.Template.wfL, CV.Template.Seg.wf, hn])
    (by simp [CV.Template.evalL, CV.Template.Seg.eval, he])
  simpa [CV.Template.renderL, CV.Template.Seg.render, String.ofList_toList] using this

/-- `pre${NAME}post`: the value is spliced between literal text (`pre`, `post` without `$`) -/
theorem split_is_literal (c : Cfg) (p : TPath) (n pre post v : Str) (hn : CV.Template.validName n = true)
    (hpre : CV.Template.litOkTop pre = true) (hpost : CV.Template.litOkTop post = true) (he : c.env n = some v) :
    leaf c p (String.ofList (pre ++ '$' :: '{' :: (n ++ ['}']) ++ post)) = castOnly c p (String.ofList (pre ++ v ++ post)) := by
  have := template_is_literal c p [.lit pre, .var n true, .lit post] (pre ++ v ++ post)
    (by simp [CV.Template.WF, CV.Template.wfL, CV.Template.Seg.wf, hn, hpre, hpost])
    (by simp [CV.Template.evalL, CV.Template.Seg.eval, he])
  simpa [CV.Template.renderL, CV.Template.Seg.render] using this

/-- `${UNSET:-literal}` (and `${EMPTY:-literal}`): the default is the value -/
theorem default_is_literal (c : Cfg) (p : TPath) (n d : Str) (hn : CV.Template.validName n = true)
    (hd : CV.Template.litOkArg d = true) (he : c.env n = none ∨ c.env n = some []) :
    leaf c p (String.ofList ('$' :: '{' :: (n ++ [':', '-'] ++ d ++ ['}']))) = castOnly c p (String.ofList d) := by
  have := template_is_literal c p [.op n .colonDash [.lit d]] d
    (by simp [CV.Template.WF, CV.Template.wfL, CV.Template.Seg.wf, hn, hd])
    (by rcases he with he | he <;> simp [CV.Template.evalL, CV.Template.Seg.eval, CV.Template.opSpec, he])
  simpa [CV.Template.renderL, CV.Template.Seg.render, CV.Template.Op.str] using this

/-- … and so does the literal `t` itself when it contains no `$`: same typed value, same error -/
theorem var_transparent (c : Cfg) (p : TPath) (n : Str) (t : String) (hn : CV.Template.validName n = true)
    (he : c.env n = some t.toList) (hd : '$' ∉ t.toList) :
    leaf c p (String.ofList ('$' :: '{' :: (n ++ ['}']))) = leaf c p t := by
  rw [var_is_literal c p n t hn he, leaf_of_subst (subst_no_dollar c.env _ hd), String.ofList_toList]

/-- the two integer casters are the same function (both are `parseYAMLInt`, 64 bit) -/
theorem toInt_eq_toInt64 (fp : FloatParser) (s : String) : Caster.toInt.apply fp s = Caster.toInt64.apply fp s := rfl

/-- the YAML-1.1 boolean spellings, in any ASCII case, are accepted -/
theorem parseBool_yaml11 :
    (∀ w ∈ ["true", "True", "TRUE", "y", "Y", "yes", "Yes", "YES", "on", "On", "ON"], parseBool w = some true) ∧
    (∀ w ∈ ["false", "False", "FALSE", "n", "N", "no", "No", "NO", "off", "Off", "OFF"], parseBool w = some false) ∧
    (∀ w ∈ ["", "1", "0", "t", "f", "maybe", "truee", " true", "~", "null"], parseBool w = none) := by
  decide

/-- **full strength since the repair "casts read numbers like YAML does"** (before it: `Neg/C08.lean`, witness `0440`):
    every text yaml.v3 resolves as a plain `!!int` literal (underscores, `0x`/`0o`/`0b`, leading-zero octal, signs)
    is cast to the same integer when it arrives through a variable -/
theorem literal_eq_variable_int (s : String) (i : Int) (h : yamlInt s = some i) : parseInt s = some i := by
  unfold yamlInt at h
  unfold parseInt
  split at h
  · split at h
    · rw [h]
    · cases h
  · cases h

/-- the casters accept strictly more than YAML's integers only in one way: a text that is not valid octal is decimal -/
theorem parseInt_cases (s : String) (i : Int) (h : parseInt s = some i) :
    yamlIntCore (stripUnderscores s.toList) = some i ∨
    (yamlIntCore (stripUnderscores s.toList) = none ∧ parseIntDecimal (stripUnderscores s.toList) = some i) := by
  unfold parseInt at h
  split at h
  · rename_i j hj; cases h; exact .inl hj
  · rename_i hj; exact .inr ⟨hj, h⟩

/-- the spellings of the recorded findings, now read as YAML reads them -/
theorem parseInt_yaml_spellings :
    parseInt "0440" = some 288 ∧ parseInt "0x10" = some 16 ∧ parseInt "0o17" = some 15 ∧ parseInt "0b11" = some 3 ∧
    parseInt "1_000" = some 1000 ∧ parseInt "-0x1F" = some (-31) ∧ parseInt "08" = some 8 ∧ parseInt "+7" = some 7 ∧
    parseInt "0" = some 0 ∧ parseInt "0x" = none ∧ parseInt "1e3" = none ∧ parseInt "" = none ∧ parseInt "_" = none ∧
    parseInt "9223372036854775808" = none ∧ parseInt "-9223372036854775808" = some (-9223372036854775808) := by
  decide

/-! ## 4. errors name the attribute path -/

/-- an error of the walk is the error of one string leaf, and carries that leaf's path -/
theorem cast_error_names_path (c : Cfg) (p : TPath) (v : Val) (e : Err) (h : interp c p v = .err e) :
    ∃ q s, (q, s) ∈ leaves p v ∧ leaf c q s = .err e ∧ e.path = pathString q := by
  obtain ⟨q, s, hm, hl⟩ := interp_err_leaf c v p e h
  exact ⟨q, s, hm, hl, leaf_err_path hl⟩

/-- a substituted text its caster rejects is a `cast` error at that path (never a silently kept string) -/
theorem cast_failure_is_error (c : Cfg) (p : TPath) (s : String) (s' : Str) (name : String)
    (hs : CV.Template.subst c.env s.toList = .ok s') (hm : firstMatch c.table p = some name)
    (hc : (Caster.ofName name).apply c.fp (String.ofList s') = none) :
    interp c p (.str s) = .err (.cast (pathString p)) := by
  simp only [interp]
  rw [leaf_of_subst hs]
  unfold castOnly
  rw [hm]
  simp only [hc]

/-- collect mode is sound: the error of the list-order walk is among the errors reachable under some map order -/
theorem interp_err_in_errs (c : Cfg) (p : TPath) (v : Val) (e : Err) (h : interp c p v = .err e) : e ∈ errs c p v :=
  err_mem_errs c v p e h

theorem interp_ok_no_errs (c : Cfg) (p : TPath) (v v' : Val) (h : interp c p v = .ok v') : errs c p v = [] :=
  errs_nil_of_ok c v p v' h

/-! ## 5. obligations on the regenerated cast table (`loader/interpolate.go`, re-checked on every run) -/

/-- every caster named in the table is one of the five modelled functions -/
theorem rows_known : ∀ row ∈ CV.Gen.castTable, (Caster.ofName row.2).known = true := by decide

/-- no two rows can match the same path -/
theorem castTable_exclusive : PairwiseExclusive CV.Gen.castTable := by decide

/-- hence Go's random iteration order over the table cannot change which caster applies -/
theorem cast_lookup_perm (t' : Table) (hp : t'.Perm CV.Gen.castTable) (p : TPath) :
    firstMatch t' p = firstMatch CV.Gen.castTable p :=
  firstMatch_perm castTable_exclusive hp p

/-- every expected typed path still has its row, with a caster of the expected kind -/
theorem rows_expected : ∀ row ∈ expectedRows,
    (row.1, row.2) ∈ CV.Gen.castTable.map (fun r => (r.1, Caster.ofName r.2)) := by decide

/-- cast rows sit where the schema admits a string (so that `${V}` passes validation after the cast made it typed)
    *and* the caster's result type (so that the cast value passes validation) -/
def schemaCompatible (c : Caster) (tys : List CV.Schema.Ty) : Bool :=
  tys.contains .string &&
  match c.kind with
  | some .int => tys.contains .integer || tys.contains .number
  | some .float => tys.contains .number || tys.contains .integer
  | some .bool => tys.contains .boolean
  | none => false

theorem cast_rows_schema_compatible : ∀ row ∈ CV.Gen.castTable,
    schemaCompatible (Caster.ofName row.2) (CV.Schema.kindsAt CV.Gen.composeSchema row.1) = true := by decide

/-! ## 6. every typed attribute is reachable by a variable: cast row or decode-time conversion -/

/-- the typed leaves (bool / int / uint / float, Duration, UnitBytes, NanoCPUs, DeviceCount) of `types.Project`, from the
    regenerated struct descriptors -/
def projectLeaves : List TypedLeaf := typedLeaves CV.Gen.structs CV.Gen.namedTypes CV.Gen.customMethods "Project"

/-- the scalar short form of a self-decoding struct is stored in a pseudo field (`UlimitsConfig.Single`): its row is the
    row of the struct's own path -/
def TypedLeaf.rowPath (l : TypedLeaf) : List String :=
  if l.path.getLast? = some "single" then l.path.dropLast else l.path

/-- struct fields that are not attributes of the Compose schema at all (the plain literal is rejected there:
    "Additional property … is not allowed"; the oracle `c08typed` asserts exactly that on the real loader for these
    paths).  `Schema.kindsAt` is not kernel-evaluable on undeclared keys (`String.startsWith`), hence the explicit list. -/
def notInSchema : List (List String) := [
  ["services", "*", "build", "ulimits", "*", "single"],
  ["services", "*", "ulimits", "*", "single"],
  ["services", "*", "deploy", "resources", "limits", "devices", "[]", "count"],
  ["services", "*", "deploy", "resources", "limits", "generic_resources", "[]", "discrete_resource_spec", "value"],
  ["services", "*", "deploy", "resources", "reservations", "pids"]]

/-- **no typed path is missing from both mechanisms**: wherever the regenerated schema admits a string at a typed leaf,
    the string is converted — by a row of the cast table, by the `cast` hook (its regenerated kind list), or by the
    type's own `DecodeMapstructure`; fields of a self-decoding struct (ulimits) need a row -/
theorem typed_paths_covered :
    (projectLeaves.filter (fun l => !notInSchema.contains l.path)).all (fun l =>
      !(CV.Schema.kindsAt CV.Gen.composeSchema l.path).contains .string ||
      CV.Gen.castTable.any (fun r => r.1 == l.rowPath) || l.decodeConverts CV.Gen.c08_castHook) = true := by decide

/-- the short forms: `ulimits.<name>: <scalar>` has a row wherever the struct is self-decoding -/
theorem short_forms_covered :
    (projectLeaves.filter (fun l => l.path.getLast? = some "single")).all (fun l =>
      CV.Gen.castTable.any (fun r => r.1 == l.rowPath)) = true := by decide

/-- the decode-time hook converts exactly Bool / Int / Int64 / Float32 / Float64 targets, each with a caster of that kind -/
theorem cast_hook_known : ∀ r ∈ CV.Gen.c08_castHook,
    (Caster.ofName r.2).kind = (match r.1 with
      | "Bool" => some NumKind.bool | "Int" => some .int | "Int64" => some .int
      | "Float32" => some .float | "Float64" => some .float | _ => none) := by decide

/-- the two mechanisms never convert the same attribute to different kinds: where a cast row sits on a primitive leaf
    the hook also handles, both casters produce the same kind of value (and the integer / boolean casters are the very
    same functions, `toInt_eq_toInt64`) -/
theorem cast_hook_agrees_with_table :
    projectLeaves.all (fun l => match l.conv with
      | .hook k => CV.Gen.castTable.all (fun r => r.1 != l.path ||
          (match CV.Gen.c08_castHook.find? (fun h => h.1 == k) with
           | some h => (Caster.ofName h.2).kind == (Caster.ofName r.2).kind
           | none => true))
      | _ => true) = true := by decide

/-- the hook, as a function: a string at a target kind it knows is converted by the row-independent caster; any other
    kind (e.g. `Uint32`) is left to mapstructure, which rejects a string for a numeric target -/
theorem decodeCast_spec (fp : FloatParser) (s : String) :
    decodeCast CV.Gen.c08_castHook fp "Bool" s = some ((parseBool s).map Val.bool) ∧
    decodeCast CV.Gen.c08_castHook fp "Int" s = some ((parseInt s).map Val.int) ∧
    decodeCast CV.Gen.c08_castHook fp "Int64" s = some ((parseInt s).map Val.int) ∧
    decodeCast CV.Gen.c08_castHook fp "Uint16" s = none ∧ decodeCast CV.Gen.c08_castHook fp "Uint32" s = none ∧
    decodeCast CV.Gen.c08_castHook fp "Uint64" s = none ∧ decodeCast CV.Gen.c08_castHook fp "String" s = none := by
  refine ⟨rfl, rfl, rfl, rfl, rfl, rfl, rfl⟩

/-- interpolation off ≡ interpolation on at a cast row whose leaf the hook also converts with the same caster: the
    decode-time value of a string is `castOnly` of it -/
theorem decode_time_is_castOnly (c : Cfg) (p : TPath) (name kind : String) (s : String) (v : Val)
    (hrow : firstMatch c.table p = some name) (hhook : (kind, name) ∈ CV.Gen.c08_castHook)
    (hd : decodeCast CV.Gen.c08_castHook c.fp kind s = some (some v)) : castOnly c p s = .ok v := by
  have hk : decodeCast CV.Gen.c08_castHook c.fp kind s = some ((Caster.ofName name).apply c.fp s) := by
    simp only [CV.Gen.c08_castHook, List.mem_cons, Prod.mk.injEq, List.mem_nil_iff, or_false] at hhook
    rcases hhook with ⟨rfl, rfl⟩ | ⟨rfl, rfl⟩ | ⟨rfl, rfl⟩ | ⟨rfl, rfl⟩ | ⟨rfl, rfl⟩ <;> rfl
  rw [hk] at hd
  simp only [Option.some.injEq] at hd
  unfold castOnly
  rw [hrow]
  simp only [hd]

/-- the casters still go through the modelled parsers (`utils.ParseYAMLInt` / `utils.ParseYAMLFloat`, utils/stringutils.go) -/
theorem casters_are_modelled :
    CV.Gen.c08_casterCalls = [
      ("toInt", ["int", "int64", "strconv.Atoi", "utils.ParseYAMLInt"]),
      ("toInt64", ["strconv.ParseInt", "utils.ParseYAMLInt"]),
      ("toFloat", ["utils.ParseYAMLFloat"]),
      ("toFloat32", ["float32", "utils.ParseYAMLFloat"]),
      ("toBoolean", ["fmt.Errorf", "logrus.Warnf", "strings.ToLower"])] := by decide

/-- the per-file option sets (files reached through `extends` / `include`) inherit the interpolation switch and the
    interpolation options -/
theorem clone_keeps_interpolation :
    "SkipInterpolation=o.SkipInterpolation" ∈ CV.Gen.c08_cloneCopies ∧ "Interpolate=o.Interpolate" ∈ CV.Gen.c08_cloneCopies := by
  decide

/-! ## 7. the self-decoding numeric types (no cast row, no hook: `DeviceCount`, `NanoCPUs`, `UnitBytes`) -/

/-- on a canonical decimal numeral (digits, no leading zero) the repaired casters read what the decimal readers read -/
theorem casters_decimal_on_canonical (ds : List Char) (h : CanonicalDecimal ds) :
    parseInt (String.ofList ds) = parseIntDecimal ds :=
  parseInt_canonical_decimal ds h

/-- FULL STRENGTH IS FALSE for the self-decoding types (`Neg/C08.lean: devicecount_literal_eq_variable_false`, witness
    `0440`; findings `typed:yaml-number-syntax:*:devicecount`).  What holds: on canonical decimal numerals
    `DeviceCount`'s own decoder gives a variable the value the casters — hence (`literal_eq_variable_int`) the YAML
    literal — give -/
theorem devicecount_literal_eq_variable_partial (ds : List Char) (h : CanonicalDecimal ds) :
    decodeDeviceCount (String.ofList ds) = parseInt (String.ofList ds) :=
  devicecount_canonical_decimal ds h

/-- `count: all` in any ASCII case is -1 -/
theorem devicecount_all : decodeDeviceCount "all" = some (-1) ∧ decodeDeviceCount "ALL" = some (-1) ∧ decodeDeviceCount "aLl" = some (-1) := by
  decide

/-- round 5 (repair 3b56c47 `NanoCPUs reads a number given as a string like YAML reads the literal`; before it: findings
    `typed:yaml-number-syntax:{leading-zero,0x}:nanocpus`): the self-decoding `NanoCPUs` reads a string exactly as the
    `toFloat` caster reads it — both call `utils.ParseYAMLFloat(_, 64)` (pinned by `modelled_functions_are_source`, compared with the model
    `parseYAMLFloat` by the `c08casters` correspondence) — so `deploy.resources.*.cpus` through a variable is what a cast row would give -/
theorem nanocpus_reads_like_toFloat (fp : FloatParser) (s : String) :
    (decodeNanoCPUs fp s).map Val.float = Caster.toFloat.apply fp s := rfl

/-! ## non-vacuity -/

private def cfg0 : Cfg :=
  { table := CV.Gen.castTable, fp := { f64 := fun _ => none, f32 := fun _ => none },
    env := fun k => if k = ['V'] then some ['y', 'e', 's'] else none }

/-- `interp_keys_shape`, `interp_string_only_subst`: successful runs that substitute + cast, and unescape -/
example : interp cfg0 ["services", "a", "init"] (.str "${V}") = .ok (.bool true) := by
  simp only [interp]
  rw [leaf_of_subst (s' := "yes".toList) (by decide)]
  unfold castOnly
  rw [show firstMatch cfg0.table ["services", "a", "init"] = some "toBoolean" by decide]
  rfl
example : interp cfg0 ["services", "a", "image"] (.str "x$$y") = .ok (.str "x$y") := by
  simp only [interp]
  rw [leaf_of_subst (s' := "x$y".toList) (by decide)]
  unfold castOnly
  rw [show firstMatch cfg0.table ["services", "a", "image"] = none by decide]
  rfl
/-- whole trees: `interp_dollar_free` / `interp_escape_roundtrip` produce successful runs on any cast-free tree (next example) -/
example : interp cfg0 ["x"] (escapeAll (.map [("a", .str "${V}$"), ("b", .seq [.str "$$", .int 1])])) =
    .ok (.map [("a", .str "${V}$"), ("b", .seq [.str "$$", .int 1])]) := by
  apply interp_escape_roundtrip
  intro q s hm
  simp only [leaves, leavesKVs, leavesList, List.append_nil, List.mem_append, List.mem_singleton, Prod.mk.injEq] at hm
  rcases hm with ⟨rfl, _⟩ | ⟨rfl, _⟩ <;> decide

/-- `interp_escape_roundtrip`: a tree with `$` in values and no cast path satisfies `NoCast` -/
example : NoCast CV.Gen.castTable ["x"] (.map [("a", .str "${V}$"), ("b", .seq [.str "$$", .int 1])]) := by
  intro q s hm
  simp only [leaves, leavesKVs, leavesList, List.append_nil, List.mem_append, List.mem_singleton, Prod.mk.injEq] at hm
  rcases hm with ⟨rfl, _⟩ | ⟨rfl, _⟩ <;> decide

/-- `var_is_literal` / `var_transparent`: `V` is a valid name, and `cfg0` sets it -/
example : CV.Template.validName ['V'] = true ∧ cfg0.env ['V'] = some "yes".toList ∧ '$' ∉ "yes".toList := by
  refine ⟨by decide, by decide, by decide⟩

/-- `template_is_literal`: a nested template that is well formed and evaluates -/
example : CV.Template.WF [.lit ['a'], .op ['U'] .colonDash [.var ['V'] true, .lit ['!']]] = true ∧
    CV.Template.evalL cfg0.env [.lit ['a'], .op ['U'] .colonDash [.var ['V'] true, .lit ['!']]] = .ok "ayes!".toList := by
  refine ⟨by decide, by rfl⟩

/-- `literal_eq_variable_int`: YAML reads `0440` as 288, and so does the caster -/
example : yamlInt "0440" = some 288 ∧ yamlInt "-0b11" = some (-3) ∧ yamlInt "1_0" = some 10 := by decide

/-- `cast_error_names_path`, `cast_failure_is_error`: an error run whose error carries the concrete path -/
example : interp cfg0 ["services", "a", "scale"] (.str "${V}") = .err (.cast (pathString ["services", "a", "scale"])) :=
  cast_failure_is_error cfg0 _ _ "yes".toList "toInt" (by decide) (by decide) (by rfl)

/-- `typed_paths_covered` is about 93 leaves, 88 of them in the schema; `decode_time_is_castOnly` has instances -/
example : projectLeaves.length = 93 ∧ (projectLeaves.filter (fun l => !notInSchema.contains l.path)).length = 88 := by decide
example : ("Bool", "toBoolean") ∈ CV.Gen.c08_castHook ∧ firstMatch cfg0.table ["services", "a", "init"] = some "toBoolean" := by decide

/-- `casters_decimal_on_canonical`, `devicecount_literal_eq_variable_partial`: `4096` is canonical, `0440` is not -/
example : CanonicalDecimal "4096".toList := ⟨by decide, '4', "096".toList, rfl, by decide⟩
example : ¬ CanonicalDecimal "0440".toList := by
  rintro ⟨_, c, cs, h, h0⟩
  have hc : c = '0' := by have := congrArg List.head? h; simpa using this.symm
  have := h0 hc
  subst this; subst hc
  revert h; decide

/-- `cast_lookup_perm`: the reversed table is a permutation -/
example : (CV.Gen.castTable.reverse).Perm CV.Gen.castTable := List.reverse_perm _

end CV.Interp
