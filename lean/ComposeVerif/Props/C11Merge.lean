import ComposeVerif.Model.Merge
import ComposeVerif.Lemmas.C11KV
import ComposeVerif.Gen.C11Facts
/-!
# C11 — a short spelling taking part in a merge leaves every default implicit (round 7)

`build: <dir>` says nothing about `dockerfile`: the default `Dockerfile` is written by `Normalize`, after every
layer (config files, YAML documents, extended bases) has been merged.  `override.mergeBuild` expands the short
syntax of either side with its local helper `toBuild`; if that helper completed the mapping with a default, an
override written `build: ./other` would replace the `dockerfile: Dockerfile.dev` of the base, while the long
spelling `build: {context: ./other}` keeps it (seeded change C11-9).

* `merge_build_is_source` — the printed body of `override.mergeBuild` (regenerated, `Gen.c11_body_mergeBuild`) is the
  one C04's model `Merge.toBuild` / `Merge.specialStep … .build` (used here read-only) was written against;
* `toBuild_short_is_context_only` — the expansion of the short syntax mentions `context` and nothing else;
* `mergeBuild_short_override_keeps_base` — **for every base build mapping, every directory and every recursive
  merger: after merging the override `build: <dir>`, every attribute of the base other than `context` is there with
  the value the base gave it** (in particular an explicit `dockerfile`);
* `mergeBuild_short_override_absent_stays_absent` is the other half: an attribute the base does not have is not
  invented by the merge (so `Normalize` still sees `dockerfile` unset and may apply the default);
* `mergeBuild_short_eq_long_override` — and the merge does not distinguish `build: <dir>` from `build: {context: <dir>}`.

The whole-load oracle runs the same statement on the real loader (`meta-exh-cross-layer:build/form3`).
-/
namespace CV.C11
open CV CV.Val CV.Merge

theorem merge_build_is_source :
    CV.Gen.c11_body_mergeBuild =
      "{ toBuild := func(c any) (map[string]any, error) { switch v := c.(type) { case nil: return map[string]any{}, nil case string: return map[string]any{ \"context\": v, }, nil case map[string]any: return v, nil } return nil, fmt.Errorf(\"cannot override %s\", path) } right, err := toBuild(c) if err != nil { return nil, err } left, err := toBuild(o) if err != nil { return nil, err } return mergeMappings(right, left, path) }" := by
  rfl

theorem toBuild_short_is_context_only (dir : String) :
    Merge.toBuild (.str dir) = .ok [("context", .str dir)] := rfl

/-- the merged build section is the base with (only) `context` rewritten -/
theorem mergeBuild_short_override_shape (f : Val → Val → TPath → Merge.Out Val) (base : KVs) (dir : String) (p : TPath)
    (m : Val) (h : Merge.specialStep (mergeKVsWith f) .build (.map base) (.str dir) p = .ok m) :
    ∃ c, m = .map (Val.insert "context" c base) := by
  simp only [Merge.specialStep, Merge.convMerge, Merge.toBuild, Merge.Out.bind, mergeKVsWith] at h
  cases hl : lookup "context" base with
  | none =>
    simp only [hl] at h
    cases h
    exact ⟨_, rfl⟩
  | some e =>
    have hx : hasXPrefix "context" = false := by decide
    simp only [hl, hx] at h
    cases hf : f e (.str dir) (next p "context") with
    | ok c =>
      simp only [hf] at h
      cases h
      exact ⟨_, rfl⟩
    | err e' => simp [hf] at h
    | panic s => simp [hf] at h

theorem mergeBuild_short_override_keeps_base (f : Val → Val → TPath → Merge.Out Val) (base : KVs) (dir : String) (p : TPath)
    (m : KVs) (h : Merge.specialStep (mergeKVsWith f) .build (.map base) (.str dir) p = .ok (.map m))
    (k : String) (hk : k ≠ "context") :
    lookup k m = lookup k base := by
  obtain ⟨c, hc⟩ := mergeBuild_short_override_shape f base dir p _ h
  cases hc
  exact lookup_insert_ne hk c base

theorem mergeBuild_short_override_absent_stays_absent (f : Val → Val → TPath → Merge.Out Val) (base : KVs) (dir : String)
    (p : TPath) (m : KVs) (h : Merge.specialStep (mergeKVsWith f) .build (.map base) (.str dir) p = .ok (.map m))
    (hb : lookup "dockerfile" base = none) :
    lookup "dockerfile" m = none := by
  rw [mergeBuild_short_override_keeps_base f base dir p m h "dockerfile" (by decide)]; exact hb

theorem mergeBuild_short_eq_long_override (mk : KVs → KVs → TPath → Merge.Out KVs) (x : Val) (dir : String) (p : TPath) :
    Merge.specialStep mk .build x (.str dir) p = Merge.specialStep mk .build x (.map [("context", .str dir)]) p := by
  simp [Merge.specialStep, Merge.convMerge, Merge.toBuild]

/-- non-vacuity: the scenario of the seeded change, on the model -/
example :
    Merge.specialStep (mergeKVsWith fun _ o _ => .ok o) .build
      (.map [("context", .str "./app"), ("dockerfile", .str "Dockerfile.dev")]) (.str "./other") []
      = .ok (.map [("context", .str "./other"), ("dockerfile", .str "Dockerfile.dev")]) := by
  rfl

end CV.C11
