import ComposeVerif.Lemmas.Decode
import ComposeVerif.Gen.Types
import ComposeVerif.Lemmas.AuditCmd
/-!
# C09 — first generic round trip: tag-driven encoding followed by generic decoding is the identity

Scope (`Spec/Generic.lean`): types rendered and decoded by the struct tags alone (`plainB`: scalars, pointers, lists,
`map[string]T`, nested structs; no hand-written marshaller / decoder / `IsZero`), values the rendering can carry
(`Stable`).  The encoder is `Model/Encode.lean` (tied by `c09.struct`), the decoder `Model/Decode.lean` (tied by `c09.load`).
-/
namespace CV.C09
open CV CV.TypeDesc CV.Marshal CV.Encode CV.Decode CV.Generic

/-- **generic round trip (YAML)**: for every plain type and every stable value of it, the rendering succeeds and decoding
    the rendering gives the value back — for any descriptor environment, any nesting depth -/
theorem generic_roundtrip (env : Env) (f : Nat) (ty : TyExpr) (v : Val)
    (hp : plainB env f ty = true) (hs : Stable env f ty v) :
    ∃ t, encode env .yaml f ty v = .ok t ∧ decode env f ty t = .ok v :=
  let ⟨t, he, hd, _⟩ := generic_roundtrip_aux env f ty v hp hs
  ⟨t, he, hd⟩

/-- … and rendering the reloaded value gives the same rendering again -/
theorem generic_render_idem (env : Env) (f : Nat) (ty : TyExpr) (v : Val)
    (hp : plainB env f ty = true) (hs : Stable env f ty v) :
    ∃ t v', encode env .yaml f ty v = .ok t ∧ decode env f ty t = .ok v' ∧ encode env .yaml f ty v' = .ok t :=
  let ⟨t, he, hd, _⟩ := generic_roundtrip_aux env f ty v hp hs
  ⟨t, v, he, hd, he⟩

def genEnv : Env := { structs := Gen.structs, named := Gen.namedTypes, customs := Gen.customMethods }

/-- the model types of the current source that are in the scope of `generic_roundtrip` -/
theorem plain_model_types :
    (["CredentialSpecConfig", "DeviceMapping", "DiscreteGenericResource", "ExtendsConfig", "FileReferenceConfig",
      "ServiceSecretConfig", "ServiceConfigObjConfig", "GenericResource", "Placement", "PlacementPreferences",
      "ServiceDependency", "DependsOnConfig", "ServicePortConfig", "ServiceVolumeBind", "ServiceVolumeVolume", "WeightDevice"].all
      fun n => plainB genEnv 12 (.named n)) = true := by
  decide

def ppVals (fd : FieldDesc) : Val := if fd.goName = "Spread" then .str "node.labels.az" else .null

/-- non-vacuity: a placement preference is a stable value of a plain model type -/
example : Stable genEnv 5 (.named "PlacementPreferences")
    (.map [("Spread", .str "node.labels.az"), ("Extensions", .null)]) := by
  have hfs : findStruct genEnv.structs "PlacementPreferences" = some Gen.struct_PlacementPreferences := by decide
  simp only [Stable, hfs]
  refine ⟨ppVals, rfl, ?_⟩
  intro fd hm hr
  simp only [Gen.struct_PlacementPreferences, List.mem_cons, List.mem_nil_iff, or_false] at hm
  rcases hm with h | h <;> subst h
  · refine ⟨fun h => by simp at h, ?_, ?_⟩
    · intro _ h
      simp [omittedY, zeroOf, isZeroY, primZero, ppVals] at h
    · intro _ _; simp [Stable, ppVals, isScalar]
  · exact ⟨fun _ => rfl, fun h => by simp at h, fun h => by simp at h⟩

end CV.C09
