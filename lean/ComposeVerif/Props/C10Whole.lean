import ComposeVerif.Model.C10Pipeline
import ComposeVerif.Props.C10Glue
import ComposeVerif.Props.C10Opts
import ComposeVerif.Props.C10Rules
/-!
# C10 — accepted ⇒ consistent, stated for the composed pipeline (round 6)

About `Pipeline.load` (the composed model of `loader.LoadModelWithContext`, tied to the real function by the streams
`pipeline.load` / `pipeline.loadY`) and `C10Whole.loadProject` (the same followed by the typed decode — a parameter — and
the consistency check):

* `load_ok_validated` — a load that succeeds with `SkipValidation` off went through the structural stage: the tree that
  stage read (`validatedTree`: all documents merged, defaults set) exists and is a `ValidTree`;
* `load_rejects_invalid_tree` — the converse clause: when the merged tree breaks a structural rule (an external volume with
  creation parameters, a secret / config with none or several sources, …) no option other than `SkipValidation` lets the load
  succeed — whatever `SkipInterpolation`, `SkipDefaultValues`, `ResolvePaths`, `SkipNormalization`, `SkipExtends` are;
* `load_validation_error` — and the stage that reports it is `validation` unless an assertion of a checker panics;
* `loadProject_accepted_consistent` — **accepted ⇒ consistent for the whole function**: a project returned with both checks
  on comes from a `ValidTree` and is `ConsistentFull` / `Consistent` (it is `postState` of the decoded project);
* `loadProject_rejects` — the converse for the whole function; `loadProject_skip_frame` — a skipped check neither rejects
  nor writes;
* `load_rejects_external_volume`, `load_rejects_secret_sources`, `load_rejects_config_sources`, `load_rejects_gpus_count_and_ids`,
  `load_rejects_blank_watch_path`, `loadProject_rejects_broken_rule` — the converse clauses of the property one by one;
* `loadY_ok_validated`, `loadY_rejects_invalid_tree` — the same for files given as YAML text (`Pipeline.loadY`);
* `validateStage_cast_invariant` — the verdict of the stage inside the pipeline does not depend on whether the `external`
  leaves were cast (interpolation on) or not (`SkipInterpolation`).
-/
namespace CV.C10Whole
open CV CV.Pipeline CV.Consistency CV.Validate

theorem bind_ok {α β : Type} {x : Out α} {f : α → Out β} {b : β} (h : x.bind f = .ok b) :
    ∃ a, x = .ok a ∧ f a = .ok b := by
  cases x with
  | ok a => exact ⟨a, rfl, h⟩
  | err e => cases h
  | panic s => cases h

theorem validateStage_ok {c : Cfg} {d d' : Val} (hv : c.opts.skipValidation = false)
    (h : validateStage c d = .ok d') : d' = d ∧ validate d = .ok := by
  unfold validateStage at h
  rw [hv] at h
  simp only [Bool.false_eq_true, if_false] at h
  cases hval : validate d with
  | ok => rw [hval] at h; simp only [ofValidate] at h; cases h; exact ⟨rfl, rfl⟩
  | err e => rw [hval] at h; cases h
  | panic s => rw [hval] at h; cases h

/-- what a successful `finishModel` went through -/
theorem finishModel_ok_validated (c : Cfg) (hv : c.opts.skipValidation = false) (merged : Val) (m : Val.KVs)
    (h : finishModel c merged = .ok m) : ∃ d, defaultsStage c merged = .ok d ∧ ValidTree d := by
  unfold finishModel at h
  obtain ⟨d, hd, h⟩ := bind_ok h
  obtain ⟨d', hd', _⟩ := bind_ok h
  obtain ⟨_, hval⟩ := validateStage_ok hv hd'
  exact ⟨d, hd, (validate_iff d).mp hval⟩

/-- non-vacuity (`SkipInterpolation` set: `external: yes` is still a string): the seed-shaped tree stops in the validation
stage, the same volume without creation parameter goes through -/
example : (finishModel exCfg (.map exBadDoc)).stage = "err:validation" := by decide
example : ∃ m, finishModel exCfg (.map exGoodDoc) = .ok m := ⟨_, rfl⟩
example : (validateStage exCfg (.map exBadDoc)).stage = "err:validation" ∧ (validateStage exCfg (castTop (.map exBadDoc))).stage = "err:validation" := by decide

/-- **a load that succeeds with validation on validated a `ValidTree`**: the tree the structural stage reads — every
document merged, defaults set — exists and every checked node of it satisfies its rule; all configurations, all option
combinations, any number of documents -/
theorem load_ok_validated (c : Cfg) (hv : c.opts.skipValidation = false) (docs : List Val.KVs) (m : Val.KVs)
    (h : load c docs = .ok m) : ∃ d, validatedTree c docs = .ok d ∧ ValidTree d := by
  unfold load at h
  split at h
  · cases h
  · obtain ⟨m', hm', _⟩ := bind_ok h
    unfold loadYamlModel at hm'
    obtain ⟨merged, hmerged, hfin⟩ := bind_ok hm'
    obtain ⟨d, hd, hvalid⟩ := finishModel_ok_validated c hv merged m' hfin
    refine ⟨d, ?_, hvalid⟩
    unfold validatedTree
    rw [hmerged]
    exact hd

/-- **the converse clause for the whole dictionary pipeline**: a model whose merged tree breaks a structural rule does not
load, whatever the other options are -/
theorem load_rejects_invalid_tree (c : Cfg) (hv : c.opts.skipValidation = false) (docs : List Val.KVs) (d : Val)
    (hd : validatedTree c docs = .ok d) (hbad : ¬ ValidTree d) : ∀ m, load c docs ≠ .ok m := by
  intro m h
  obtain ⟨d', hd', hvalid⟩ := load_ok_validated c hv docs m h
  rw [hd] at hd'
  cases hd'
  exact hbad hvalid

/-- … and the failure is reported by the `validation` stage (or is a panic of one of the checkers' unchecked assertions) -/
theorem load_validation_error (c : Cfg) (hv : c.opts.skipValidation = false) (docs : List Val.KVs) (hne : docs ≠ []) (d : Val)
    (hd : validatedTree c docs = .ok d) (hbad : ¬ ValidTree d) :
    load c docs = .err "validation" ∨ ∃ s, load c docs = .panic s := by
  have hnv : validate d ≠ .ok := fun h => hbad ((validate_iff d).mp h)
  unfold validatedTree at hd
  obtain ⟨merged, hmerged, hdef⟩ := bind_ok hd
  have he : docs.isEmpty = false := by cases docs <;> simp_all
  unfold load loadYamlModel finishModel validateStage
  simp only [he, Bool.false_eq_true, if_false, hmerged, Out.bind, hdef, hv]
  cases hval : validate d with
  | ok => exact absurd hval hnv
  | err e => left; rfl
  | panic s => right; exact ⟨s, rfl⟩

/-- the seed-shaped instance: the merged tree declares an external volume — `external` in any spelling the cast reads as
true — together with a creation parameter ⇒ the load fails, with `SkipInterpolation` or without -/
theorem load_rejects_external_volume_any_spelling (c : Cfg) (hv : c.opts.skipValidation = false) (docs : List Val.KVs)
    (top vols kvs : Val.KVs) (name k s : String) (x : Val)
    (hd : validatedTree c docs = .ok (.map top))
    (h1 : ("volumes", Val.map vols) ∈ top) (h2 : (name, Val.map kvs) ∈ vols)
    (hext : Val.lookup "external" kvs = some (.str s)) (hs : Interp.parseBool s = some true)
    (hk : (k, x) ∈ kvs) (hbad : externalAllowed k = false) : ∀ m, load c docs ≠ .ok m :=
  load_rejects_invalid_tree c hv docs _ hd fun hvalid =>
    validate_rejects_external_volume_any_spelling top vols kvs name k s x h1 h2 hext hs hk hbad ((validate_iff _).mpr hvalid)

/-- the stage inside the pipeline decides the tree the same way with its `external` leaves cast or not -/
theorem validateStage_cast_invariant (c : Cfg) (d : Val) :
    (validateStage c (castTop d)).stage = (validateStage c d).stage := by
  unfold validateStage
  split
  · rfl
  · rw [validate_cast_invariant]
    cases validate d <;> rfl

theorem tailOpts_checksOn (c : Cfg) (hv : c.opts.skipValidation = false) : Glue.ChecksOn (tailOpts c false) :=
  ⟨hv, rfl⟩

/-- **accepted ⇒ consistent, for the composed function**: a project returned by a load with both checks on comes from a
merged tree in which every checked node satisfies its structural rule, and it satisfies every reference, exclusivity and
pairing rule and has an acyclic dependency graph; it is the decoded project with `deploy.replicas := scale` written -/
theorem loadProject_accepted_consistent (c : Cfg) (hv : c.opts.skipValidation = false) (decode : Val.KVs → Proj)
    (hnd : ∀ m, (decode m).enabled.Nodup) (docs : List Val.KVs) (p : Proj)
    (h : loadProject c false decode docs = .ok p) :
    (∃ d, validatedTree c docs = .ok d ∧ ValidTree d) ∧
    ∃ m, load c docs = .ok m ∧ p = postState (decode m) ∧ ConsistentFull (decode m) ∧ ConsistentFull p ∧ Consistent p := by
  unfold loadProject at h
  obtain ⟨m, hm, htail⟩ := bind_ok h
  refine ⟨load_ok_validated c hv docs m hm, m, hm, ?_⟩
  unfold Glue.consistencyStage tailOpts at htail
  simp only [Bool.false_eq_true, if_false] at htail
  cases hc : checkConsistency (decode m) with
  | some e => rw [hc] at htail; cases htail
  | none =>
    rw [hc] at htail
    simp only [ofGlue] at htail
    cases htail
    have hfull := (checkConsistency_iff (decode m) (hnd m)).mp hc
    have hret := accepted_returned_consistent (decode m) (hnd m) hc
    exact ⟨rfl, hfull, hret, hret.consistent⟩

/-- **the converse for the composed function**: the merged tree breaks a structural rule, or the decoded project breaks a
consistency rule ⇒ no project is returned -/
theorem loadProject_rejects (c : Cfg) (hv : c.opts.skipValidation = false) (decode : Val.KVs → Proj)
    (hnd : ∀ m, (decode m).enabled.Nodup) (docs : List Val.KVs)
    (hbad : (∃ d, validatedTree c docs = .ok d ∧ ¬ ValidTree d) ∨ (∀ m, load c docs = .ok m → ¬ ConsistentFull (decode m))) :
    ∀ p, loadProject c false decode docs ≠ .ok p := by
  intro p h
  obtain ⟨⟨d, hd, hvalid⟩, m, hm, _, hfull, _⟩ := loadProject_accepted_consistent c hv decode hnd docs p h
  rcases hbad with ⟨d', hd', hb⟩ | hb
  · rw [hd] at hd'; cases hd'; exact hb hvalid
  · exact hb m hm hfull

/-- a skipped consistency check neither rejects nor writes: the decoded project is returned as it is -/
theorem loadProject_skip_frame (c : Cfg) (decode : Val.KVs → Proj) (docs : List Val.KVs) (m : Val.KVs)
    (h : load c docs = .ok m) : loadProject c true decode docs = .ok (decode m) := by
  unfold loadProject
  rw [h]
  rfl

/-! ## the converse clauses of the property, one by one, for the composed pipeline

Each is `load_rejects_invalid_tree` applied to the whole-tree rejection theorem of the rule: whatever the documents, the
option flags other than `SkipValidation`, and the rest of the merged tree. -/

/-- an external volume declared (as a boolean) together with a creation parameter -/
theorem load_rejects_external_volume (c : Cfg) (hv : c.opts.skipValidation = false) (docs : List Val.KVs)
    (top vols kvs : Val.KVs) (name k : String) (x : Val) (hd : validatedTree c docs = .ok (.map top))
    (h1 : ("volumes", Val.map vols) ∈ top) (h2 : (name, Val.map kvs) ∈ vols)
    (hext : Val.lookup "external" kvs = some (.bool true)) (hk : (k, x) ∈ kvs) (hbad : externalAllowed k = false) :
    ∀ m, load c docs ≠ .ok m :=
  load_rejects_invalid_tree c hv docs _ hd fun hvalid =>
    validate_rejects_external_volume_with_parameters top vols kvs name k x h1 h2 hext hk hbad ((validate_iff _).mpr hvalid)

/-- a secret with none (and no driver / external) or several of its mutually exclusive sources -/
theorem load_rejects_secret_sources (c : Cfg) (hv : c.opts.skipValidation = false) (docs : List Val.KVs)
    (top secs kvs : Val.KVs) (name : String) (hd : validatedTree c docs = .ok (.map top))
    (h1 : ("secrets", Val.map secs) ∈ top) (h2 : (name, Val.map kvs) ∈ secs)
    (hbad : countPresent ["file", "environment"] kvs > 1 ∨
      (countPresent ["file", "environment"] kvs = 0 ∧ has "driver" kvs = false ∧ has "external" kvs = false)) :
    ∀ m, load c docs ≠ .ok m :=
  load_rejects_invalid_tree c hv docs _ hd fun hvalid =>
    validate_rejects_secret_sources top secs kvs name h1 h2 hbad ((validate_iff _).mpr hvalid)

/-- a config with none (and no driver / external) or several of its mutually exclusive sources -/
theorem load_rejects_config_sources (c : Cfg) (hv : c.opts.skipValidation = false) (docs : List Val.KVs)
    (top cfgs kvs : Val.KVs) (name : String) (hd : validatedTree c docs = .ok (.map top))
    (h1 : ("configs", Val.map cfgs) ∈ top) (h2 : (name, Val.map kvs) ∈ cfgs)
    (hbad : countPresent ["file", "environment", "content"] kvs > 1 ∨
      (countPresent ["file", "environment", "content"] kvs = 0 ∧ has "driver" kvs = false ∧ has "external" kvs = false)) :
    ∀ m, load c docs ≠ .ok m :=
  load_rejects_invalid_tree c hv docs _ hd fun hvalid =>
    validate_rejects_config_sources top cfgs kvs name h1 h2 hbad ((validate_iff _).mpr hvalid)

/-- a `gpus` device request with both `count` and `device_ids`, in any service -/
theorem load_rejects_gpus_count_and_ids (c : Cfg) (hv : c.opts.skipValidation = false) (docs : List Val.KVs)
    (top svcs svc kvs : Val.KVs) (name : String) (gpus : List Val) (hd : validatedTree c docs = .ok (.map top))
    (h1 : ("services", Val.map svcs) ∈ top) (h2 : (name, Val.map svc) ∈ svcs) (h3 : ("gpus", Val.seq gpus) ∈ svc)
    (h4 : Val.map kvs ∈ gpus) (hc : has "count" kvs = true) (hi : has "device_ids" kvs = true) :
    ∀ m, load c docs ≠ .ok m :=
  load_rejects_invalid_tree c hv docs _ hd fun hvalid =>
    validate_rejects_gpus_count_and_ids top svcs svc kvs name gpus h1 h2 h3 h4 hc hi ((validate_iff _).mpr hvalid)

/-- a blank `develop.watch.*.path`, in any service -/
theorem load_rejects_blank_watch_path (c : Cfg) (hv : c.opts.skipValidation = false) (docs : List Val.KVs)
    (top svcs svc dev trig : Val.KVs) (name : String) (watch : List Val) (hd : validatedTree c docs = .ok (.map top))
    (h1 : ("services", Val.map svcs) ∈ top) (h2 : (name, Val.map svc) ∈ svcs) (h3 : ("develop", Val.map dev) ∈ svc)
    (h4 : ("watch", Val.seq watch) ∈ dev) (h5 : Val.map trig ∈ watch) (h6 : ("path", Val.str "") ∈ trig) :
    ∀ m, load c docs ≠ .ok m :=
  load_rejects_invalid_tree c hv docs _ hd fun hvalid =>
    validate_rejects_blank_watch_path top svcs svc dev trig name watch h1 h2 h3 h4 h5 h6 ((validate_iff _).mpr hvalid)

/-- the consistency half, rule by rule: a decoded project in which some enabled service breaks one of the nineteen rules, a
secret has no source, or the dependency graph has a cycle, is not returned -/
theorem loadProject_rejects_broken_rule (c : Cfg) (hv : c.opts.skipValidation = false) (decode : Val.KVs → Proj)
    (hnd : ∀ m, (decode m).enabled.Nodup) (docs : List Val.KVs) (m : Val.KVs) (hm : load c docs = .ok m)
    (hbad : ¬ Consistent (decode m)) : ∀ p, loadProject c false decode docs ≠ .ok p := by
  intro p h
  obtain ⟨_, m', hm', _, hfull, _⟩ := loadProject_accepted_consistent c hv decode hnd docs p h
  rw [hm] at hm'
  cases hm'
  exact hbad hfull.consistent

/-! ## the same for files given as YAML text (`Pipeline.loadY`: several `---` documents per file, `!reset` / `!override`) -/

/-- a load from YAML text that succeeds with validation on validated a `ValidTree` -/
theorem loadY_ok_validated (c : Cfg) (hv : c.opts.skipValidation = false) (files : List (List Reset.YNode)) (m : Val.KVs)
    (h : loadY c files = .ok m) : ∃ d, validatedTreeY c files = .ok d ∧ ValidTree d := by
  unfold loadY at h
  split at h
  · cases h
  · obtain ⟨m', hm', _⟩ := bind_ok h
    unfold loadYamlModelY at hm'
    obtain ⟨merged, hmerged, hfin⟩ := bind_ok hm'
    obtain ⟨d, hd, hvalid⟩ := finishModel_ok_validated c hv merged m' hfin
    refine ⟨d, ?_, hvalid⟩
    unfold validatedTreeY
    rw [hmerged]
    exact hd

/-- … and a merged tree that breaks a structural rule does not load, whatever `!reset` / `!override` tags produced it -/
theorem loadY_rejects_invalid_tree (c : Cfg) (hv : c.opts.skipValidation = false) (files : List (List Reset.YNode)) (d : Val)
    (hd : validatedTreeY c files = .ok d) (hbad : ¬ ValidTree d) : ∀ m, loadY c files ≠ .ok m := by
  intro m h
  obtain ⟨d', hd', hvalid⟩ := loadY_ok_validated c hv files m h
  rw [hd] at hd'
  cases hd'
  exact hbad hvalid

end CV.C10Whole
