import ComposeVerif.Props.C04Whole
import ComposeVerif.Gen.OmitEmpty
/-!
# C04 / composed pipeline — the omit-empty table of the tree as it is now

`Props/C04Whole.lean` proves that a top-level entry introduced with `!override` survives every later stage of the composed
step under the hypothesis that no pattern of the omit-empty table has fewer than two parts.  Until round 6 that table
reached the model only at run time (the harness hands `loader.VerifOmitEmptyPatterns()` to the driver); it is now also
regenerated from `loader/omitEmpty.go` on every run (`translator/omitempty.go` → `Gen/OmitEmpty.lean`), so the hypothesis is
a decided fact about the source, the theorems are instantiated at the table the code has, and the driver refuses a run
whose run-time table is not the regenerated one (`Ops/Pipeline.omitTableBad`: a disagreement, the tie is broken).
-/
namespace CV.C04.Whole
open CV CV.Pipeline

/-- the table the models and the theorems below were written against; `unknown:` rows (a shape the translator does not
recognise) or any other table break this obligation -/
theorem omitempty_table_is_source : CV.Gen.omitempty = [["services", "*", "dns"]] := by decide

/-- every pattern of the table of the tree has at least two parts (no top-level key can be dropped by `OmitEmpty`) -/
theorem omitempty_patterns_long : ∀ pat ∈ CV.Gen.omitempty, 2 ≤ pat.length := by decide

/-- `restStages_keeps_top_key` at the table of the tree: no hypothesis about the table is left -/
theorem restStages_keeps_top_key_src (c : Cfg) (ho : c.omitPats = CV.Gen.omitempty) (u : Val.KVs) (r : Val) (k : String)
    (hk : k ≠ "version") (hin : k ∈ Val.keys u) (h : restStages c (.map u) = .ok r) :
    ∃ kvs, r = .map kvs ∧ k ∈ Val.keys kvs :=
  restStages_keeps_top_key c (ho ▸ omitempty_patterns_long) u r k hk hin h

/-- **`!override` on a top-level entry, through all stages of the composed step, for the loader's own table** -/
theorem processNode_override_replaces_src (c : Cfg) (hi : c.opts.skipInterpolation = true) (he : c.opts.skipExtends = true)
    (ho : c.omitPats = CV.Gen.omitempty)
    (a : Val.KVs) (es : List (String × Reset.YNode)) (k : String) (x : Reset.YNode) (r : Val) (hk : k ≠ "version")
    (ht : x.tag = .override) (hnd : (es.map Prod.fst).Nodup) (hmem : (k, x) ∈ es)
    (h : processNode c (.map a) (.map .none es) = .ok r) : ∃ kvs, r = .map kvs ∧ k ∈ Val.keys kvs :=
  processNode_override_replaces c hi he (ho ▸ omitempty_patterns_long) a es k x r hk ht hnd hmem h

/-- the non-vacuity configuration of `C04Whole` uses exactly the table of the tree -/
example : exCfg.omitPats = CV.Gen.omitempty := by decide

end CV.C04.Whole
