import ComposeVerif.Model.Include
import ComposeVerif.Model.IncludeResolve
import ComposeVerif.Gen.IncludeFacts
/-!
# C06 — the functions of `loader/include.go` the model mirrors are the ones in the source now

`translator/c06.go` prints, on every run, the body of each modelled function (comments dropped, white space
normalised) and the list of sections `importResourcesWith` walks.  The obligations below hold only while those
bodies are the ones `Model/Include.lean` was written against: any edit of `loadIncludeConfig`, `ApplyInclude`,
`sameResource`, `importResources`, `importResourcesWith`, `importResource` breaks one of them until the model (and
this file) has been reviewed.  Function → model: `loadIncludeConfig` → `loadIncludeConfig`/`cfgOf`/`strList`;
`ApplyInclude` → `applyInclude`/`includeAll`/`includeOne`/`baseDir`/`plan`/`resolveFirst`/`envFiles`/`includeEnv`;
`sameResource` → `sameResource`; `importResources*`/`importResource` → `importResources`/`importKinds`/`importResource`/`importEntries`.
-/
namespace CV.Include

/-- the sections imported, and their order, are the model's `resourceKinds` -/
theorem import_kinds_are_source : CV.Gen.Include.importKinds = resourceKinds := by decide

/-- `loadIncludeConfig` is the function that was modelled -/
theorem loadIncludeConfig_is_source :
    CV.Gen.Include.body_loadIncludeConfig =
      "{ if source == nil { return nil, nil } configs, ok := source.([]any) if !ok { return nil, fmt.Errorf(\"`include` must be a list, got %s\", source) } for i, config := range configs { if v, ok := config.(string); ok { configs[i] = map[string]any{ \"path\": v, } } } var requires []types.IncludeConfig err := Transform(source, &requires) return requires, err }" := by
  rfl

/-- `ApplyInclude` is the function that was modelled -/
theorem ApplyInclude_is_source :
    CV.Gen.Include.body_ApplyInclude =
      "{ includeConfig, err := loadIncludeConfig(model[\"include\"]) if err != nil { return err } baseDir := workingDir if !filepath.IsAbs(baseDir) { for _, l := range options.ResourceLoaders { if local, ok := l.(localResourceLoader); ok && local.WorkingDir != \"\" { baseDir = local.WorkingDir } } } for _, r := range includeConfig { for _, listener := range options.Listeners { listener(\"include\", map[string]any{ \"path\": r.Path, \"workingdir\": workingDir, }) } var relworkingdir string for i, p := range r.Path { for _, loader := range options.ResourceLoaders { if !loader.Accept(p) { continue } path, err := loader.Load(ctx, p) if err != nil { return err } p = path if i == 0 { switch { case r.ProjectDirectory == \"\": relworkingdir = loader.Dir(path) r.ProjectDirectory = filepath.Dir(path) case !filepath.IsAbs(r.ProjectDirectory): relworkingdir = loader.Dir(r.ProjectDirectory) r.ProjectDirectory = filepath.Join(baseDir, r.ProjectDirectory) default: relworkingdir = r.ProjectDirectory } } for _, f := range included { if f == path { included = append(included, path) return fmt.Errorf(\"include cycle detected:\\n%s\\n include %s\", included[0], strings.Join(included[1:], \"\\n include \")) } } } r.Path[i] = p } loadOptions := options.clone() loadOptions.ResolvePaths = true loadOptions.SkipNormalization = true loadOptions.SkipConsistencyCheck = true loadOptions.ResourceLoaders = append(loadOptions.RemoteResourceLoaders(), localResourceLoader{ WorkingDir: r.ProjectDirectory, }) if len(r.EnvFile) == 0 { f := filepath.Join(r.ProjectDirectory, \".env\") if s, err := os.Stat(f); err == nil && !s.IsDir() { r.EnvFile = types.StringList{f} } } else { envFile := []string{} for _, f := range r.EnvFile { if !filepath.IsAbs(f) { f = filepath.Join(baseDir, f) s, err := os.Stat(f) if err != nil { return err } if s.IsDir() { return fmt.Errorf(\"%s is not a file\", f) } } envFile = append(envFile, f) } r.EnvFile = envFile } envFromFile, err := dotenv.GetEnvFromFile(environment, r.EnvFile) if err != nil { return err } config := types.ConfigDetails{ WorkingDir: relworkingdir, ConfigFiles: types.ToConfigFiles(r.Path), Environment: environment.Clone().Merge(envFromFile), } loadOptions.Interpolate = &interp.Options{ Substitute: options.Interpolate.Substitute, LookupValue: config.LookupEnv, TypeCastMapping: options.Interpolate.TypeCastMapping, } imported, err := loadYamlModel(ctx, config, loadOptions, &cycleTracker{}, included) if err != nil { return err } var remotes []paths.RemoteResource for _, loader := range options.RemoteResourceLoaders() { remotes = append(remotes, loader.Accept) } err = importResourcesWith(imported, model, func(key, name string, a, b any) bool { return sameResource(key, name, a, b, baseDir, remotes) }) if err != nil { return err } } delete(model, \"include\") return nil }" := by
  rfl

/-- `sameResource` is the function that was modelled -/
theorem sameResource_is_source :
    CV.Gen.Include.body_sameResource =
      "{ if reflect.DeepEqual(a, b) { return true } resolved := func(v any) (r any, ok bool) { defer func() { if recover() != nil { r, ok = nil, false } }() m := map[string]any{key: map[string]any{name: deepClone(v)}} if err := paths.ResolveRelativePaths(m, base, remotes); err != nil { return nil, false } return m[key].(map[string]any)[name], true } ra, ok := resolved(a) if !ok { return false } rb, ok := resolved(b) return ok && reflect.DeepEqual(ra, rb) }" := by
  rfl

/-- `importResources` is the function that was modelled -/
theorem importResources_is_source :
    CV.Gen.Include.body_importResources =
      "{ return importResourcesWith(source, target, func(_, _ string, a, b any) bool { return reflect.DeepEqual(a, b) }) }" := by
  rfl

/-- `importResourcesWith` is the function that was modelled -/
theorem importResourcesWith_is_source :
    CV.Gen.Include.body_importResourcesWith =
      "{ for _, key := range []string{\"services\", \"volumes\", \"networks\", \"secrets\", \"configs\"} { if err := importResource(source, target, key, same); err != nil { return err } } return nil }" := by
  rfl

/-- `importResource` is the function that was modelled -/
theorem importResource_is_source :
    CV.Gen.Include.body_importResource =
      "{ from := source[key] if from != nil { var to map[string]any if v, ok := target[key]; ok && v != nil { to, ok = v.(map[string]any) if !ok { return fmt.Errorf(\"%s must be a mapping\", key) } } else { to = map[string]any{} } resources, ok := from.(map[string]any) if !ok { return fmt.Errorf(\"%s must be a mapping\", key) } for name, a := range resources { if conflict, ok := to[name]; ok { if same(key, name, a, conflict) { continue } return fmt.Errorf(\"%s.%s conflicts with imported resource\", key, name) } to[name] = a } target[key] = to } return nil }" := by
  rfl

/-! ## round 5: the glue around the six functions

`Options.clone()` is a hand-written list of fields: `clone_copies_every_option` is a statement about the source alone
(every field of the struct is copied from the receiver), so a field added to `Options` and forgotten in `clone` — or a
copy dropped — breaks it without any hand-written constant being involved.  (Before fix aa4f0f3 it did not hold:
`SkipResolveEnvironment` and `SkipDefaultValues` were not copied.) -/

/-- the model's `Opts` has one field per field of `loader.Options`, same names, same order -/
theorem options_fields_are_source : CV.Gen.Include.optionsFields = Opts.fieldNames := by decide

/-- **`Options.clone()` copies every field of `Options` from its receiver** -/
theorem clone_copies_every_option :
    CV.Gen.Include.cloneCopies = CV.Gen.Include.optionsFields.map (fun f => (f, "o." ++ f)) := by decide

/-- what `ApplyInclude` sets on the cloned options, in order: exactly the fields `Opts.forInclude` overrides -/
theorem include_forced_are_source :
    CV.Gen.Include.includeForced =
      [("ResolvePaths", "true"), ("SkipNormalization", "true"), ("SkipConsistencyCheck", "true"), ("ResourceLoaders", "append(loadOptions.RemoteResourceLoaders(), localResourceLoader{ WorkingDir: r.ProjectDirectory, })"), ("Interpolate", "&interp.Options{ Substitute: options.Interpolate.Substitute, LookupValue: config.LookupEnv, TypeCastMapping: options.Interpolate.TypeCastMapping, }")] := by
  rfl

/-- `Options.clone()` is the function that was modelled (→ `Opts.clone`) -/
theorem Options_clone_is_source :
    CV.Gen.Include.body_Options_clone =
      "{ return &Options{ SkipValidation: o.SkipValidation, SkipInterpolation: o.SkipInterpolation, SkipNormalization: o.SkipNormalization, ResolvePaths: o.ResolvePaths, ConvertWindowsPaths: o.ConvertWindowsPaths, SkipConsistencyCheck: o.SkipConsistencyCheck, SkipExtends: o.SkipExtends, SkipInclude: o.SkipInclude, SkipResolveEnvironment: o.SkipResolveEnvironment, SkipDefaultValues: o.SkipDefaultValues, Interpolate: o.Interpolate, discardEnvFiles: o.discardEnvFiles, projectName: o.projectName, projectNameImperativelySet: o.projectNameImperativelySet, Profiles: o.Profiles, ResourceLoaders: o.ResourceLoaders, KnownExtensions: o.KnownExtensions, Listeners: o.Listeners, } }" := by
  rfl

/-- `Options.RemoteResourceLoaders()` (every loader but the local one) is the function that was modelled (→ the `ld` argument of `Opts.forInclude`; `remotes = []` in `sameResource` for the default loader) -/
theorem Options_RemoteResourceLoaders_is_source :
    CV.Gen.Include.body_Options_RemoteResourceLoaders =
      "{ var loaders []ResourceLoader for i, loader := range o.ResourceLoaders { if _, ok := loader.(localResourceLoader); ok { if i != len(o.ResourceLoaders)-1 { logrus.Warning(\"misconfiguration of ResourceLoaders: localResourceLoader should be last\") } continue } loaders = append(loaders, loader) } return loaders }" := by
  rfl

/-- `localResourceLoader.abs` is the function that was modelled (→ `localAbs`) -/
theorem local_abs_is_source :
    CV.Gen.Include.body_local_abs =
      "{ if filepath.IsAbs(p) { return p } return filepath.Join(l.WorkingDir, p) }" := by
  rfl

/-- `localResourceLoader.Accept` (always true: the loop over loaders of `ApplyInclude` ends at the local one) is the function that was modelled (→ `plan`) -/
theorem local_Accept_is_source :
    CV.Gen.Include.body_local_Accept =
      "{ return true }" := by
  rfl

/-- `localResourceLoader.Load` is the function that was modelled (→ `localAbs`) -/
theorem local_Load_is_source :
    CV.Gen.Include.body_local_Load =
      "{ return l.abs(p), nil }" := by
  rfl

/-- `localResourceLoader.Dir` is the function that was modelled (→ `localDir`) -/
theorem local_Dir_is_source :
    CV.Gen.Include.body_local_Dir =
      "{ path := l.abs(originalPath) if !l.isDir(path) { path = l.abs(filepath.Dir(originalPath)) } rel, err := filepath.Rel(l.WorkingDir, path) if err != nil { return path } return rel }" := by
  rfl

/-- `localResourceLoader.isDir` is the function that was modelled (→ `statDir`) -/
theorem local_isDir_is_source :
    CV.Gen.Include.body_local_isDir =
      "{ fileInfo, err := os.Stat(path) if err != nil { return false } return fileInfo.IsDir() }" := by
  rfl

/-- `dotenv.GetEnvFromFile` is the function that was modelled (→ `getEnvFromFile` / `getEnvLoop`) -/
theorem GetEnvFromFile_is_source :
    CV.Gen.Include.body_GetEnvFromFile =
      "{ envMap := make(map[string]string) for _, dotEnvFile := range filenames { abs, err := filepath.Abs(dotEnvFile) if err != nil { return envMap, err } dotEnvFile = abs s, err := os.Stat(dotEnvFile) if errors.Is(err, fs.ErrNotExist) || errors.Is(err, syscall.ENOTDIR) { return envMap, fmt.Errorf(\"Couldn't find env file: %s\", dotEnvFile) } if err != nil { return envMap, err } if s.IsDir() { if len(filenames) == 0 { return envMap, nil } return envMap, fmt.Errorf(\"%s is a directory\", dotEnvFile) } b, err := os.ReadFile(dotEnvFile) if os.IsNotExist(err) { return nil, fmt.Errorf(\"Couldn't read env file: %s\", dotEnvFile) } if err != nil { return envMap, err } env, err := ParseWithLookup(bytes.NewReader(b), func(k string) (string, bool) { v, ok := currentEnv[k] if ok { return v, true } v, ok = envMap[k] return v, ok }) if err != nil { return envMap, fmt.Errorf(\"failed to read %s: %w\", dotEnvFile, err) } for k, v := range env { envMap[k] = v } } return envMap, nil }" := by
  rfl

/-- `types.Mapping.Clone` is the function that was modelled (→ `envMerge`) -/
theorem Mapping_Clone_is_source :
    CV.Gen.Include.body_Mapping_Clone =
      "{ clone := Mapping{} for k, v := range m { clone[k] = v } return clone }" := by
  rfl

/-- `types.Mapping.Merge` is the function that was modelled (→ `envMerge`) -/
theorem Mapping_Merge_is_source :
    CV.Gen.Include.body_Mapping_Merge =
      "{ for k, v := range o { if _, set := m[k]; !set { m[k] = v } } return m }" := by
  rfl

/-- `types.ToConfigFiles` is the function that was modelled (→ the `paths` argument of `World.loadModel`) -/
theorem ToConfigFiles_is_source :
    CV.Gen.Include.body_ToConfigFiles =
      "{ for _, p := range path { f = append(f, ConfigFile{Filename: p}) } return }" := by
  rfl

/-- `transform.transformInclude` (the canonical form of one `include` element) is the function that was modelled (→ `cfgOf` (string = `{path: s}`)) -/
theorem transformInclude_is_source :
    CV.Gen.Include.body_transformInclude =
      "{ switch v := data.(type) { case map[string]any: return v, nil case string: return map[string]any{ \"path\": v, }, nil default: return data, fmt.Errorf(\"%s: invalid type %T for external\", p, v) } }" := by
  rfl

/-! ## round 6: the last statement of `loadYamlModel` and the three resolvers (→ `Model/IncludeResolve.lean`) -/

/-- the model of the last statement: which resolvers run for an included model / a project on its own, in the order the
model composes them (`resolveModelEnv`, `resolveEnvironment`).  A dropped or added call breaks this (no body string
involved) -/
theorem included_branch_calls_are_source :
    CV.Gen.Include.includedTests = 1 ∧
    CV.Gen.Include.ownBranchCalls = ["ResolveEnvironment"] ∧
    CV.Gen.Include.includedBranchCalls = ["resolveServicesEnvironment", "resolveSecretsEnvironment"] ∧
    CV.Gen.Include.resolveEnvironmentCalls =
      ["resolveServicesEnvironment", "resolveSecretsEnvironment", "resolveConfigsEnvironment"] := by decide

/-- the key under which a resolved secret travels is the model's `secretCarrier` -/
theorem secret_carrier_is_source : CV.Gen.Include.secretConfigXValue = secretCarrier := by decide

/-- `loadYamlModel` is the function that was modelled (→ `IncludePipe.loadYaml` / `loadYamlOwn`, last statement → `resolveModelEnv`) -/
theorem loadYamlModel_is_source :
    CV.Gen.Include.body_loadYamlModel =
      "{ var ( dict = map[string]interface{}{} err error ) workingDir, environment := config.WorkingDir, config.Environment for _, file := range config.ConfigFiles { dict, _, err = loadYamlFile(ctx, file, opts, workingDir, environment, ct, dict, included) if err != nil { return nil, err } } if !opts.SkipDefaultValues { dict, err = transform.SetDefaultValues(dict) if err != nil { return nil, err } } if !opts.SkipValidation { if err := validation.Validate(dict); err != nil { return nil, err } } if opts.ResolvePaths { var remotes []paths.RemoteResource for _, loader := range opts.RemoteResourceLoaders() { remotes = append(remotes, loader.Accept) } err = paths.ResolveRelativePaths(dict, config.WorkingDir, remotes) if err != nil { return nil, err } } if len(included) == 0 { ResolveEnvironment(dict, config.Environment) } else { resolveServicesEnvironment(dict, config.Environment) resolveSecretsEnvironment(dict, config.Environment) } return dict, nil }" := by
  rfl

/-- `ResolveEnvironment` (→ `resolveEnvironment`) -/
theorem ResolveEnvironment_is_source :
    CV.Gen.Include.body_ResolveEnvironment =
      "{ resolveServicesEnvironment(dict, environment) resolveSecretsEnvironment(dict, environment) resolveConfigsEnvironment(dict, environment) }" := by
  rfl

/-- `resolveServicesEnvironment` (→ `resolveServicesEnvironment` / `resolveService` / `resolveEnvList`) -/
theorem resolveServicesEnvironment_is_source :
    CV.Gen.Include.body_resolveServicesEnvironment =
      "{ services, ok := dict[\"services\"].(map[string]any) if !ok { return } for service, cfg := range services { serviceConfig, ok := cfg.(map[string]any) if !ok { continue } serviceEnv, ok := serviceConfig[\"environment\"].([]any) if !ok { continue } envs := []any{} for _, env := range serviceEnv { varEnv, ok := env.(string) if !ok { continue } if found, ok := environment[varEnv]; ok { envs = append(envs, fmt.Sprintf(\"%s=%s\", varEnv, found)) } else { envs = append(envs, varEnv) } } serviceConfig[\"environment\"] = envs services[service] = serviceConfig } dict[\"services\"] = services }" := by
  rfl

/-- `resolveSecretsEnvironment` (→ `resolveSection "secrets" secretCarrier` / `resolveSource`) -/
theorem resolveSecretsEnvironment_is_source :
    CV.Gen.Include.body_resolveSecretsEnvironment =
      "{ secrets, ok := dict[\"secrets\"].(map[string]any) if !ok { return } for name, cfg := range secrets { secret, ok := cfg.(map[string]any) if !ok { continue } env, ok := secret[\"environment\"].(string) if !ok || env == \"\" { continue } if found, ok := environment[env]; ok { secret[types.SecretConfigXValue] = found } secrets[name] = secret } dict[\"secrets\"] = secrets }" := by
  rfl

/-- `resolveConfigsEnvironment` (→ `resolveSection "configs" "content"` / `resolveSource`) -/
theorem resolveConfigsEnvironment_is_source :
    CV.Gen.Include.body_resolveConfigsEnvironment =
      "{ configs, ok := dict[\"configs\"].(map[string]any) if !ok { return } for name, cfg := range configs { config, ok := cfg.(map[string]any) if !ok { continue } env, ok := config[\"environment\"].(string) if !ok || env == \"\" { continue } if found, ok := environment[env]; ok { config[\"content\"] = found } configs[name] = config } dict[\"configs\"] = configs }" := by
  rfl

end CV.Include
