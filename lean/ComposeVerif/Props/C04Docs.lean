import ComposeVerif.Model.ResetLoop
import ComposeVerif.Props.C04
/-!
# C04 — one `ResetProcessor` per document

* `fresh_processor_is_loadDocs` — the loop as written (a new processor inside the loop) is the fold `loadDocs` all other
  theorems speak about, whatever paths an earlier processor held;
* `hoisted_processor_reapplies_paths` — with one processor for the whole file the `!override` of document 2 is applied
  again before document 3 and removes the value document 2 installed, although document 3 does not mention it:
  documents and files would disagree (`multiDoc_eq_multiFile` would be false);
* `hoisted_processor_harmless_without_tags` — the two loops differ only through recorded paths: for documents without
  tags they coincide.
-/
namespace CV.C04
open CV CV.Val CV.Merge CV.Unicity CV.Reset

/-- the decode loop as written = `loadDocs` -/
theorem fresh_processor_is_loadDocs (post : Val → Out Val) : ∀ (docs : List YNode) (held : List TPath) (dict : Val),
    loadDocsP true post held dict docs = loadDocs post dict docs := by
  intro docs
  induction docs with
  | nil => intro held dict; rfl
  | cons d r ih =>
    intro held dict
    simp only [loadDocsP, loadDocs, docStep, procDecode, if_true, List.nil_append]
    cases (merge (applyNull (readDoc d).2 dict TPath.root) (readDoc d).1).bind fun m => (enforceTop m).bind post with
    | ok dict' => simp only [Out.bind, ih]
    | err e => rfl
    | panic s => rfl

private def doc1 : YNode := .map .none [("services", .map .none [("web", .map .none [("ports", .seq .none [.scalar .none (.str "8080:80")])])])]
private def doc2 : YNode := .map .none [("services", .map .none [("web", .map .none [("ports", .seq .override [.scalar .none (.str "9090:90")])])])]
private def doc3 : YNode := .map .none [("services", .map .none [("web", .map .none [("labels", .seq .none [.scalar .none (.str "a=b")])])])]

/-- one processor for the whole file: the path recorded for document 2's `!override` is applied again before document 3,
which deletes the ports document 2 installed — the code's loop keeps them -/
theorem hoisted_processor_reapplies_paths :
    loadDocsP true .ok [] (.map []) [doc1, doc2, doc3] =
      .ok (.map [("services", .map [("web", .map [("ports", .seq [.str "9090:90"]), ("labels", .seq [.str "a=b"])])])]) ∧
    loadDocsP false .ok [] (.map []) [doc1, doc2, doc3] =
      .ok (.map [("services", .map [("web", .map [("labels", .seq [.str "a=b"])])])]) := by
  exact ⟨rfl, rfl⟩

/-- the two loops differ only through the recorded paths: for documents that record none they coincide -/
theorem hoisted_processor_harmless_without_tags (post : Val → Out Val) : ∀ (docs : List YNode) (dict : Val),
    (∀ d ∈ docs, (readDoc d).2 = []) → loadDocsP false post [] dict docs = loadDocs post dict docs := by
  intro docs
  induction docs with
  | nil => intro dict _; rfl
  | cons d r ih =>
    intro dict h
    have hd : (readDoc d).2 = [] := h d (by simp)
    simp only [loadDocsP, loadDocs, docStep, procDecode, hd, List.append_nil, Bool.false_eq_true, if_false]
    cases (merge (applyNull [] dict TPath.root) (readDoc d).1).bind fun m => (enforceTop m).bind post with
    | ok dict' => simp only [Out.bind]; exact ih dict' (fun d' hd' => h d' (by simp [hd']))
    | err e => rfl
    | panic s => rfl

end CV.C04
