import ComposeVerif.Lemmas.HeapCarry
import ComposeVerif.Props.C14Visit
/-!
# C14 — "returns a project that carries every field of the original not affected by the operation"

* for the deep copy and for the services handed to visitors the clause is proved outright (`copy_carries_every_field`,
  `visited_carries_every_field`): deep equality is field-wise;
* for a derivation = copy, then writes `ws` (`DerivStep` of `Spec/Heap.lean`) it is proved **under the visible hypothesis**
  `Keeps a0 g ws ks` — the writes keep field `g` of the copy (`carry_partial`).  That the nine programs satisfy `Keeps` for
  every field outside their declared frame is not proved for all inputs (it needs a second invariant over the statement
  language); it is *checked on every `c14.deriv` case*: the driver evaluates `Keeps` on the program's own write log for
  every field of the copy and the harness compares the fields found affected with the operation's frame.
-/
namespace CV.Heap
open CV.Heap.Deriv CV.Heap.Visit

/-- deep equality is field-wise -/
theorem DeepEq.field {v w : GoVal} (h : DeepEq v w) (f : Nat) : DeepEq (getFld f v) (getFld f w) := by
  unfold DeepEq at *
  rw [erase_getFld, erase_getFld, h]

/-- the copy carries every field (all plans, types, values, fields) -/
theorem copy_carries_every_field (t : Ty) (p : Plan) (v : GoVal) (n : Nat)
    (ht : hasTy t v = true) (hc : covers t p = true) (f : Nat) :
    DeepEq (getFld f (exec p v n).1) (getFld f v) :=
  DeepEq.field (exec_erase v p t n ht hc) f

/-- every service handed to a visitor carries every field of the receiver's service of that name -/
theorem visited_carries_every_field (t : Ty) (plan : Plan) (hd : deep t plan = true) (hc : covers t plan = true)
    (p : GoVal) (policy : String) (names : List String) (n : Nat) (hb : Below n p) :
    ∀ e ∈ (forEachService t plan p policy false names n).out, ∀ f,
      ∃ s a, kidOf (.str e.1) (kidsOf (getFld fServices p)) = some s ∧ DeepEq (getFld f e.2) (getFld f (.ptr a s)) := by
  intro e he f
  obtain ⟨s, a, hs, heq⟩ := (((forEachService_sound t plan hd hc p policy names n hb).2.1 e he).2.2.2.1)
  exact ⟨s, a, hs, DeepEq.field heq f⟩

/-- **carry, partial**: a derivation = deep copy by a covering plan, then writes that keep field `g` of the copy: the
result's field `g` is deep-equal to the receiver's.  (Full statement: the same without `hk`, for the write log of each of
the nine programs and every `g` outside the operation's frame — oracle `frame:` and the per-case `Keeps` check of `c14.deriv`.) -/
theorem carry_partial (t : Ty) (p : Plan) (v : GoVal) (n : Nat) (ws : List (Nat × Cell)) (a0 g : Nat) (ks : List (Key × GoVal))
    (ht : hasTy t v = true) (hc : covers t p = true)
    (hcopy : (exec p v n).1 = .ptr a0 (.struct ks)) (hk : Keeps a0 g ws ks) :
    DeepEq (getFld g (writes ws (exec p v n).1)) (getFld g v) := by
  rw [hcopy, hk.carries, ← hcopy]
  exact copy_carries_every_field t p v n ht hc g

/-- non-vacuity: a project struct at address 6 with a map of maps in field 0 (addresses 7, 8) and a scalar in field 1; the
writes "empty the inner map, then replace the project struct by one with the same field 1" keep field 1 -/
example : Keeps 6 1 [(8, .kids []), (6, .pointee (.struct [(.fld 1, .scalar "s:x")]))]
    [(.fld 0, .map 7 [(.str "n", .map 8 [(.str "k", .scalar "s:v")])]), (.fld 1, .scalar "s:x")] :=
  Keeps.other (by decide) (by decide) (Keeps.root rfl (Keeps.nil _))

end CV.Heap
