import ComposeVerif.Model.EnvLayersHeap
/-!
# C16 — `MappingWithEquals.Resolve` on the heap: refinement of the value model, freshness, no aliasing
-/
namespace CV.EnvLayers.Heap
open CV.EnvLayers

theorem valid_tail {h : Cells} {p : Key × Option Nat} {r : HMWE} (hv : Valid h (p :: r)) : Valid h r :=
  fun k a hm => hv k a (List.mem_cons_of_mem _ hm)

theorem valid_ext {h : Cells} {m : HMWE} (ext : Cells) (hv : Valid h m) : Valid (h ++ ext) m :=
  fun k a hm => by have := hv k a hm; simp only [List.length_append]; omega

theorem deref_ext (h ext : Cells) (m : HMWE) (hv : Valid h m) : deref (h ++ ext) m = deref h m := by
  induction m with
  | nil => rfl
  | cons p r ih =>
    obtain ⟨k, v⟩ := p
    simp only [deref, List.map_cons] at ih ⊢
    rw [ih (valid_tail hv)]
    cases v with
    | none => rfl
    | some a =>
      have := hv k a (List.mem_cons_self ..)
      simp only [List.getElem?_append_left this]

/-- the heap only grows, the new map is valid, and every address in it is an old address of the map or a new cell -/
theorem resolveH_shape (look : Look) (m : HMWE) (h : Cells) (hv : Valid h m) :
    (∃ ext, (resolveH look m h).2 = h ++ ext) ∧ Valid (resolveH look m h).2 (resolveH look m h).1 ∧
    (∀ a ∈ addrs (resolveH look m h).1, a ∈ addrs m ∨ h.length ≤ a) := by
  induction m generalizing h with
  | nil => exact ⟨⟨[], by simp [resolveH]⟩, fun _ _ hm => by simp [resolveH] at hm, fun a ha => by simp [resolveH, addrs] at ha⟩
  | cons p r ih =>
    obtain ⟨k, v⟩ := p
    cases v with
    | some a0 =>
      obtain ⟨⟨ext, he⟩, hval, haddr⟩ := ih h (valid_tail hv)
      refine ⟨⟨ext, he⟩, ?_, ?_⟩
      · intro k' a hm
        simp only [resolveH, List.mem_cons, Prod.mk.injEq, Option.some.injEq] at hm
        rcases hm with ⟨_, rfl⟩ | hm
        · have := hv k a (List.mem_cons_self ..)
          simp only [resolveH, he, List.length_append]; omega
        · exact hval k' a hm
      · intro a ha
        simp only [resolveH, addrs, List.filterMap_cons, List.mem_cons] at ha ⊢
        rcases ha with rfl | ha
        · exact Or.inl (Or.inl rfl)
        · rcases haddr a ha with h1 | h1
          · exact Or.inl (Or.inr h1)
          · exact Or.inr h1
    | none =>
      cases hl : look k with
      | none =>
        obtain ⟨⟨ext, he⟩, hval, haddr⟩ := ih h (valid_tail hv)
        simp only [resolveH, hl]
        refine ⟨⟨ext, he⟩, ?_, ?_⟩
        · intro k' a hm
          simp only [List.mem_cons, Prod.mk.injEq, reduceCtorEq, and_false, false_or] at hm
          exact hval k' a hm
        · intro a ha
          simp only [addrs, List.filterMap_cons] at ha ⊢
          exact haddr a ha
      | some x =>
        obtain ⟨⟨ext, he⟩, hval, haddr⟩ := ih (h ++ [x]) (valid_ext [x] (valid_tail hv))
        simp only [resolveH, hl]
        refine ⟨⟨[x] ++ ext, by rw [he, List.append_assoc]⟩, ?_, ?_⟩
        · intro k' a hm
          simp only [List.mem_cons, Prod.mk.injEq, Option.some.injEq] at hm
          rcases hm with ⟨_, rfl⟩ | hm
          · rw [he]; simp only [List.length_append, List.length_cons, List.length_nil]; omega
          · exact hval k' a hm
        · intro a ha
          simp only [addrs, List.filterMap_cons, List.mem_cons] at ha ⊢
          rcases ha with rfl | ha
          · exact Or.inr (Nat.le_refl _)
          · rcases haddr a ha with h1 | h1
            · exact Or.inl h1
            · simp only [List.length_append, List.length_cons, List.length_nil] at h1
              exact Or.inr (by omega)

/-- **resolveH_refines.**  Following the pointers after `Resolve` gives exactly the value model `resolveMWE` of what the
    pointers said before. -/
theorem resolveH_refines (look : Look) (m : HMWE) (h : Cells) (hv : Valid h m) :
    deref (resolveH look m h).2 (resolveH look m h).1 = resolveMWE look (deref h m) := by
  induction m generalizing h with
  | nil => rfl
  | cons p r ih =>
    obtain ⟨k, v⟩ := p
    cases v with
    | some a0 =>
      obtain ⟨ext, he⟩ := (resolveH_shape look r h (valid_tail hv)).1
      have hlt := hv k a0 (List.mem_cons_self ..)
      have := ih h (valid_tail hv)
      simp only [resolveH, deref, List.map_cons, resolveMWE] at this ⊢
      rw [this, he, List.getElem?_append_left hlt, List.getElem?_eq_getElem hlt]
    | none =>
      cases hl : look k with
      | none =>
        have := ih h (valid_tail hv)
        simp only [resolveH, hl, deref, List.map_cons, resolveMWE] at this ⊢
        rw [this]
      | some x =>
        obtain ⟨ext, he⟩ := (resolveH_shape look r (h ++ [x]) (valid_ext [x] (valid_tail hv))).1
        have := ih (h ++ [x]) (valid_ext [x] (valid_tail hv))
        rw [deref_ext h [x] r (valid_tail hv)] at this
        simp only [resolveH, hl, deref, List.map_cons, resolveMWE] at this ⊢
        rw [this, he]
        simp

/-- **resolveH_keeps_old_cells.**  `Resolve` never writes a cell that existed before the call: whatever else points
    into the old heap — the project the method was called on — reads the same strings afterwards. -/
theorem resolveH_keeps_old_cells (look : Look) (m : HMWE) (h : Cells) (hv : Valid h m) (a : Nat) (ha : a < h.length) :
    (resolveH look m h).2[a]? = h[a]? := by
  obtain ⟨ext, he⟩ := (resolveH_shape look m h hv).1
  rw [he, List.getElem?_append_left ha]

/-- **resolveH_no_alias.**  If no two keys shared a cell before, none do after: every resolved key got a cell of its own. -/
theorem resolveH_no_alias (look : Look) (m : HMWE) (h : Cells) (hv : Valid h m) (hn : NoAlias m) :
    NoAlias (resolveH look m h).1 := by
  induction m generalizing h with
  | nil => simp [resolveH, NoAlias, addrs]
  | cons p r ih =>
    obtain ⟨k, v⟩ := p
    cases v with
    | some a0 =>
      simp only [NoAlias, addrs, List.filterMap_cons, List.nodup_cons] at hn
      have hr := ih h (valid_tail hv) hn.2
      simp only [NoAlias, resolveH, addrs, List.filterMap_cons, List.nodup_cons]
      refine ⟨fun hmem => ?_, hr⟩
      rcases (resolveH_shape look r h (valid_tail hv)).2.2 a0 hmem with h1 | h1
      · exact hn.1 h1
      · have := hv k a0 (List.mem_cons_self ..); omega
    | none =>
      have hn' : NoAlias r := by simpa [NoAlias, addrs] using hn
      cases hl : look k with
      | none =>
        have hr := ih h (valid_tail hv) hn'
        simpa [NoAlias, resolveH, hl, addrs] using hr
      | some x =>
        have hv' := valid_ext [x] (valid_tail hv)
        have hr := ih (h ++ [x]) hv' hn'
        simp only [NoAlias, resolveH, hl, addrs, List.filterMap_cons, List.nodup_cons]
        refine ⟨fun hmem => ?_, hr⟩
        rcases (resolveH_shape look r (h ++ [x]) hv').2.2 _ hmem with h1 | h1
        · obtain ⟨q, hq, hqa⟩ := List.mem_filterMap.1 h1
          obtain ⟨k', v'⟩ := q
          simp only at hqa
          subst hqa
          have := hv k' h.length (List.mem_cons_of_mem _ hq)
          omega
        · simp only [List.length_append, List.length_cons, List.length_nil] at h1
          omega

/-! ## `ToMappingWithEquals` -/

theorem toMWEH_heap (m : List (Key × Str)) (h : Cells) : (toMWEH m h).2 = h ++ m.map Prod.snd := by
  induction m generalizing h with
  | nil => simp [toMWEH]
  | cons p r ih =>
    obtain ⟨k, v⟩ := p
    simp only [toMWEH, ih, List.map_cons, List.append_assoc, List.singleton_append]

theorem toMWEH_addrs (m : List (Key × Str)) (h : Cells) : addrs (toMWEH m h).1 = List.range' h.length m.length := by
  induction m generalizing h with
  | nil => simp [toMWEH, addrs]
  | cons p r ih =>
    obtain ⟨k, v⟩ := p
    have := ih (h ++ [v])
    simp only [addrs, List.length_append, List.length_cons, List.length_nil] at this
    simp only [toMWEH, addrs, List.filterMap_cons, List.length_cons, List.range'_succ, this]

/-- **toMWEH_refines.**  Following the pointers of `ToMappingWithEquals`'s result gives the value model `toMWE`. -/
theorem toMWEH_refines (m : List (Key × Str)) (h : Cells) : deref (toMWEH m h).2 (toMWEH m h).1 = toMWE m := by
  induction m generalizing h with
  | nil => rfl
  | cons p r ih =>
    obtain ⟨k, v⟩ := p
    have := ih (h ++ [v])
    simp only [toMWEH, deref, List.map_cons, toMWE] at this ⊢
    rw [this, toMWEH_heap]
    simp

/-- **toMWEH_fresh_no_alias.**  Every key gets a cell allocated by this call (old cells are not written, nothing that
    existed before is pointed to) and no two keys share one. -/
theorem toMWEH_fresh_no_alias (m : List (Key × Str)) (h : Cells) :
    NoAlias (toMWEH m h).1 ∧ (∀ a ∈ addrs (toMWEH m h).1, h.length ≤ a ∧ a < (toMWEH m h).2.length) ∧
    (∀ a, a < h.length → (toMWEH m h).2[a]? = h[a]?) := by
  refine ⟨?_, fun a ha => ?_, fun a ha => ?_⟩
  · rw [NoAlias, toMWEH_addrs]
    exact List.nodup_range'
  · rw [toMWEH_addrs, List.mem_range'_1] at ha
    rw [toMWEH_heap]
    simp only [List.length_append, List.length_map]
    omega
  · rw [toMWEH_heap, List.getElem?_append_left ha]

namespace Example
/-- two value-less keys with different project-environment values, one key with a value in cell 0 -/
def m0 : HMWE := [(['A'], none), (['K'], some 0), (['B'], none), (['C'], none)]
def h0 : Cells := [['k']]
def look0 : Look := fun k => if k = ['A'] then some ['a'] else if k = ['B'] then some ['b'] else none

example : Valid h0 m0 ∧ NoAlias m0 := by
  refine ⟨fun k a hm => ?_, by show (addrs m0).Nodup; decide⟩
  simp [m0] at hm
  rcases hm with ⟨_, rfl⟩
  decide
example : resolveH look0 m0 h0 = ([(['A'], some 1), (['K'], some 0), (['B'], some 2), (['C'], none)], [['k'], ['a'], ['b']]) := by
  decide
example : toMWEH [(['A'], ['1']), (['B'], ['2'])] [['k']] = ([(['A'], some 1), (['B'], some 2)], [['k'], ['1'], ['2']]) := by decide
end Example

end CV.EnvLayers.Heap
