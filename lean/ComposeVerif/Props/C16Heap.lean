import ComposeVerif.Model.EnvLayersHeap
/-!
# C16 — `MappingWithEquals.Resolve` on the heap: refinement of the value model, freshness, no aliasing
-/
namespace CV.EnvLayers.Heap
open CV.EnvLayers

theorem valid_tail {h : Cells} {p : Key × Option Nat} {r : HMWE} (hv : Valid h (p :: r)) : Valid h r :=
  fun k a hm => hv k a (List.mem_cons_of_mem _ hm)

theorem valid_ext {h : Cells} {m : HMWE} (ext : Cells) (hv : Valid h m) : Valid (h ++ ext) m :=
  fun k a hm => by have := hv k a hm; simp only [List.length_append]; omega

theorem deref_ext (h ext : Cells) (m : HMWE) (hv : Valid h m) : deref (h ++ ext) m = deref h m := by
  induction m with
  | nil => rfl
  | cons p r ih =>
    obtain ⟨k, v⟩ := p
    simp only [deref, List.map_cons] at ih ⊢
    rw [ih (valid_tail hv)]
    cases v with
    | none => rfl
    | some a =>
      have := hv k a (List.mem_cons_self ..)
      simp only [List.getElem?_append_left this]

/-- the heap only grows, the new map is valid, and every address in it is an old address of the map or a new cell -/
theorem resolveH_shape (look : Look) (m : HMWE) (h : Cells) (hv : Valid h m) :
    (∃ ext, (resolveH look m h).2 = h ++ ext) ∧ Valid (resolveH look m h).2 (resolveH look m h).1 ∧
    (∀ a ∈ addrs (resolveH look m h).1, a ∈ addrs m ∨ h.length ≤ a) := by
  induction m generalizing h with
  | nil => exact ⟨⟨[], by simp [resolveH]⟩, fun _ _ hm => by simp [resolveH] at hm, fun a ha => by simp [resolveH, addrs] at ha⟩
  | cons p r ih =>
    obtain ⟨k, v⟩ := p
    cases v with
    | some a0 =>
      obtain ⟨⟨ext, he⟩, hval, haddr⟩ := ih h (valid_tail hv)
      refine ⟨⟨ext, he⟩, ?_, ?_⟩
      · intro k' a hm
        simp only [resolveH, List.mem_cons, Prod.mk.injEq, Option.some.injEq] at hm
        rcases hm with ⟨_, rfl⟩ | hm
        · have := hv k a (List.mem_cons_self ..)
          simp only [resolveH, he, List.length_append]; omega
        · exact hval k' a hm
      · intro a ha
        simp only [resolveH, addrs, List.filterMap_cons, List.mem_cons] at ha ⊢
        rcases ha with rfl | ha
        · exact Or.inl (Or.inl rfl)
        · rcases haddr a ha with h1 | h1
          · exact Or.inl (Or.inr h1)
          · exact Or.inr h1
    | none =>
      cases hl : look k with
      | none =>
        obtain ⟨⟨ext, he⟩, hval, haddr⟩ := ih h (valid_tail hv)
        simp only [resolveH, hl]
        refine ⟨⟨ext, he⟩, ?_, ?_⟩
        · intro k' a hm
          simp only [List.mem_cons, Prod.mk.injEq, reduceCtorEq, and_false, false_or] at hm
          exact hval k' a hm
        · intro a ha
          simp only [addrs, List.filterMap_cons] at ha ⊢
          exact haddr a ha
      | some x =>
        obtain ⟨⟨ext, he⟩, hval, haddr⟩ := ih (h ++ [x]) (valid_ext [x] (valid_tail hv))
        simp only [resolveH, hl]
        refine ⟨⟨[x] ++ ext, by rw [he, List.append_assoc]⟩, ?_, ?_⟩
        · intro k' a hm
          simp only [List.mem_cons, Prod.mk.injEq, Option.some.injEq] at hm
          rcases hm with ⟨_, rfl⟩ | hm
          · rw [he]; simp only [List.length_append, List.length_cons, List.length_nil]; omega
          · exact hval k' a hm
        · intro a ha
          simp only [addrs, List.filterMap_cons, List.mem_cons] at ha ⊢
          rcases ha with rfl | ha
          · exact Or.inr (Nat.le_refl _)
          · rcases haddr a ha with h1 | h1
            · exact Or.inl h1
            · simp only [List.length_append, List.length_cons, List.length_nil] at h1
              exact Or.inr (by omega)

/-- **resolveH_refines.**  Following the pointers after `Resolve` gives exactly the value model `resolveMWE` of what the
    pointers said before. -/
theorem resolveH_refines (look : Look) (m : HMWE) (h : Cells) (hv : Valid h m) :
    deref (resolveH look m h).2 (resolveH look m h).1 = resolveMWE look (deref h m) := by
  induction m generalizing h with
  | nil => rfl
  | cons p r ih =>
    obtain ⟨k, v⟩ := p
    cases v with
    | some a0 =>
      obtain ⟨ext, he⟩ := (resolveH_shape look r h (valid_tail hv)).1
      have hlt := hv k a0 (List.mem_cons_self ..)
      have := ih h (valid_tail hv)
      simp only [resolveH, deref, List.map_cons, resolveMWE] at this ⊢
      rw [this, he, List.getElem?_append_left hlt, List.getElem?_eq_getElem hlt]
    | none =>
      cases hl : look k with
      | none =>
        have := ih h (valid_tail hv)
        simp only [resolveH, hl, deref, List.map_cons, resolveMWE] at this ⊢
        rw [this]
      | some x =>
        obtain ⟨ext, he⟩ := (resolveH_shape look r (h ++ [x]) (valid_ext [x] (valid_tail hv))).1
        have := ih (h ++ [x]) (valid_ext [x] (valid_tail hv))
        rw [deref_ext h [x] r (valid_tail hv)] at this
        simp only [resolveH, hl, deref, List.map_cons, resolveMWE] at this ⊢
        rw [this, he]
        simp

/-- **resolveH_keeps_old_cells.**  `Resolve` never writes a cell that existed before the call: whatever else points
    into the old heap — the project the method was called on — reads the same strings afterwards. -/
theorem resolveH_keeps_old_cells (look : Look) (m : HMWE) (h : Cells) (hv : Valid h m) (a : Nat) (ha : a < h.length) :
    (resolveH look m h).2[a]? = h[a]? := by
  obtain ⟨ext, he⟩ := (resolveH_shape look m h hv).1
  rw [he, List.getElem?_append_left ha]

/-- **resolveH_no_alias.**  If no two keys shared a cell before, none do after: every resolved key got a cell of its own. -/
theorem resolveH_no_alias (look : Look) (m : HMWE) (h : Cells) (hv : Valid h m) (hn : NoAlias m) :
    NoAlias (resolveH look m h).1 := by
  induction m generalizing h with
  | nil => simp [resolveH, NoAlias, addrs]
  | cons p r ih =>
    obtain ⟨k, v⟩ := p
    cases v with
    | some a0 =>
      simp only [NoAlias, addrs, List.filterMap_cons, List.nodup_cons] at hn
      have hr := ih h (valid_tail hv) hn.2
      simp only [NoAlias, resolveH, addrs, List.filterMap_cons, List.nodup_cons]
      refine ⟨fun hmem => ?_, hr⟩
      rcases (resolveH_shape look r h (valid_tail hv)).2.2 a0 hmem with h1 | h1
      · exact hn.1 h1
      · have := hv k a0 (List.mem_cons_self ..); omega
    | none =>
      have hn' : NoAlias r := by simpa [NoAlias, addrs] using hn
      cases hl : look k with
      | none =>
        have hr := ih h (valid_tail hv) hn'
        simpa [NoAlias, resolveH, hl, addrs] using hr
      | some x =>
        have hv' := valid_ext [x] (valid_tail hv)
        have hr := ih (h ++ [x]) hv' hn'
        simp only [NoAlias, resolveH, hl, addrs, List.filterMap_cons, List.nodup_cons]
        refine ⟨fun hmem => ?_, hr⟩
        rcases (resolveH_shape look r (h ++ [x]) hv').2.2 _ hmem with h1 | h1
        · obtain ⟨q, hq, hqa⟩ := List.mem_filterMap.1 h1
          obtain ⟨k', v'⟩ := q
          simp only at hqa
          subst hqa
          have := hv k' h.length (List.mem_cons_of_mem _ hq)
          omega
        · simp only [List.length_append, List.length_cons, List.length_nil] at h1
          omega

/-! ## `ToMappingWithEquals` -/

theorem toMWEH_heap (m : List (Key × Str)) (h : Cells) : (toMWEH m h).2 = h ++ m.map Prod.snd := by
  induction m generalizing h with
  | nil => simp [toMWEH]
  | cons p r ih =>
    obtain ⟨k, v⟩ := p
    simp only [toMWEH, ih, List.map_cons, List.append_assoc, List.singleton_append]

theorem toMWEH_addrs (m : List (Key × Str)) (h : Cells) : addrs (toMWEH m h).1 = List.range' h.length m.length := by
  induction m generalizing h with
  | nil => simp [toMWEH, addrs]
  | cons p r ih =>
    obtain ⟨k, v⟩ := p
    have := ih (h ++ [v])
    simp only [addrs, List.length_append, List.length_cons, List.length_nil] at this
    simp only [toMWEH, addrs, List.filterMap_cons, List.length_cons, List.range'_succ, this]

/-- **toMWEH_refines.**  Following the pointers of `ToMappingWithEquals`'s result gives the value model `toMWE`. -/
theorem toMWEH_refines (m : List (Key × Str)) (h : Cells) : deref (toMWEH m h).2 (toMWEH m h).1 = toMWE m := by
  induction m generalizing h with
  | nil => rfl
  | cons p r ih =>
    obtain ⟨k, v⟩ := p
    have := ih (h ++ [v])
    simp only [toMWEH, deref, List.map_cons, toMWE] at this ⊢
    rw [this, toMWEH_heap]
    simp

/-- **toMWEH_fresh_no_alias.**  Every key gets a cell allocated by this call (old cells are not written, nothing that
    existed before is pointed to) and no two keys share one. -/
theorem toMWEH_fresh_no_alias (m : List (Key × Str)) (h : Cells) :
    NoAlias (toMWEH m h).1 ∧ (∀ a ∈ addrs (toMWEH m h).1, h.length ≤ a ∧ a < (toMWEH m h).2.length) ∧
    (∀ a, a < h.length → (toMWEH m h).2[a]? = h[a]?) := by
  refine ⟨?_, fun a ha => ?_, fun a ha => ?_⟩
  · rw [NoAlias, toMWEH_addrs]
    exact List.nodup_range'
  · rw [toMWEH_addrs, List.mem_range'_1] at ha
    rw [toMWEH_heap]
    simp only [List.length_append, List.length_map]
    omega
  · rw [toMWEH_heap, List.getElem?_append_left ha]

/-! ## the whole loop body -/

theorem addrs_insert_sub (k : Key) (v : Option Nat) (m : HMWE) (a : Nat) (ha : a ∈ addrs (insert k v m)) :
    a ∈ addrs m ∨ v = some a := by
  induction m with
  | nil =>
    cases v with
    | none => simp [insert, addrs] at ha
    | some b => simp [insert, addrs] at ha; exact Or.inr (by rw [ha])
  | cons p r ih =>
    obtain ⟨k', v'⟩ := p
    by_cases hk : k' = k
    · simp only [insert, hk, if_true, addrs, List.filterMap_cons] at ha ⊢
      cases v with
      | none => cases v' <;> simp_all
      | some b =>
        simp only [List.mem_cons] at ha
        rcases ha with rfl | ha
        · exact Or.inr rfl
        · cases v' <;> simp_all
    · simp only [insert, hk, if_false, addrs, List.filterMap_cons] at ha ⊢
      cases v' with
      | none => exact ih ha
      | some b =>
        simp only [List.mem_cons] at ha ⊢
        rcases ha with rfl | ha
        · exact Or.inl (Or.inl rfl)
        · rcases ih ha with h1 | h1
          · exact Or.inl (Or.inr h1)
          · exact Or.inr h1

theorem noAlias_insert (k : Key) (v : Option Nat) (m : HMWE) (hn : NoAlias m) (hv : ∀ a, v = some a → a ∉ addrs m) :
    NoAlias (insert k v m) := by
  induction m with
  | nil => cases v <;> simp [insert, NoAlias, addrs]
  | cons p r ih =>
    obtain ⟨k', v'⟩ := p
    have hnr : NoAlias r := by
      cases v' <;> simp_all [NoAlias, addrs]
    have hvr : ∀ a, v = some a → a ∉ addrs r := fun a ha hm => hv a ha (by
      cases v' <;> simp_all [addrs])
    by_cases hk : k' = k
    · simp only [insert, hk, if_true]
      cases v with
      | none => simpa [NoAlias, addrs] using hnr
      | some b =>
        simp only [NoAlias, addrs, List.filterMap_cons, List.nodup_cons]
        exact ⟨hvr b rfl, hnr⟩
    · simp only [insert, hk, if_false]
      cases v' with
      | none => simpa [NoAlias, addrs] using ih hnr hvr
      | some b =>
        simp only [NoAlias, addrs, List.filterMap_cons, List.nodup_cons] at hn ⊢
        refine ⟨fun hmem => ?_, ih hnr hvr⟩
        rcases addrs_insert_sub k v r b hmem with h1 | h1
        · exact hn.1 h1
        · exact hv b h1 (by simp [addrs])

theorem noAlias_overrideBy (m o : HMWE) (hm : NoAlias m) (ho : NoAlias o) (hdis : ∀ a ∈ addrs o, a ∉ addrs m) :
    NoAlias (overrideBy m o) ∧ ∀ a ∈ addrs (overrideBy m o), a ∈ addrs m ∨ a ∈ addrs o := by
  induction o generalizing m with
  | nil => exact ⟨hm, fun a ha => Or.inl ha⟩
  | cons p r ih =>
    obtain ⟨k, v⟩ := p
    have hor : NoAlias r := by cases v <;> simp_all [NoAlias, addrs]
    have hsub : ∀ a ∈ addrs r, a ∈ addrs ((k, v) :: r) := fun a ha => by cases v <;> simp_all [addrs]
    have hv : ∀ a, v = some a → a ∉ addrs m := fun a ha => hdis a (by subst ha; simp [addrs])
    have hvr : ∀ a, v = some a → a ∉ addrs r := fun a ha hmem => by
      subst ha
      simp only [NoAlias, addrs, List.filterMap_cons, List.nodup_cons] at ho
      exact ho.1 hmem
    have hins := noAlias_insert k v m hm hv
    have hdis' : ∀ a ∈ addrs r, a ∉ addrs (insert k v m) := fun a ha hmem => by
      rcases addrs_insert_sub k v m a hmem with h1 | h1
      · exact hdis a (hsub a ha) h1
      · exact hvr a h1 ha
    obtain ⟨h1, h2⟩ := ih (insert k v m) hins hor hdis'
    refine ⟨h1, fun a ha => ?_⟩
    rcases h2 a ha with h3 | h3
    · rcases addrs_insert_sub k v m a h3 with h4 | h4
      · exact Or.inl h4
      · exact Or.inr (by subst h4; simp [addrs])
    · exact Or.inr (hsub a h3)

/-- the loop over the env files: the accumulated map never aliases, and all its cells were allocated by the loop -/
theorem loadEnvFilesH_no_alias (penv : List (Key × Str)) (fs : FS) (base : Nat) (efs : List EnvFile) (acc : HMWE) (h : Cells)
    (r : HMWE × Cells) (hn : NoAlias acc) (hb : ∀ a ∈ addrs acc, base ≤ a ∧ a < h.length) (hbase : base ≤ h.length)
    (hr : loadEnvFilesH penv fs efs acc h = .ok r) :
    NoAlias r.1 ∧ (∀ a ∈ addrs r.1, base ≤ a ∧ a < r.2.length) ∧ ∃ ext, r.2 = h ++ ext := by
  induction efs generalizing acc h with
  | nil =>
    simp only [loadEnvFilesH, Except.ok.injEq] at hr
    subst hr
    exact ⟨hn, hb, [], by simp⟩
  | cons f rest ih =>
    simp only [loadEnvFilesH] at hr
    cases hl : loadEnvFile fs f (envChain penv (derefStr h acc)) with
    | error e => rw [hl] at hr; cases hr
    | ok vars =>
      rw [hl] at hr
      simp only at hr
      obtain ⟨hna, hfresh, _⟩ := toMWEH_fresh_no_alias vars h
      have hdis : ∀ a ∈ addrs (toMWEH vars h).1, a ∉ addrs acc := fun a ha hm => by
        have := (hfresh a ha).1
        have := (hb a hm).2
        omega
      obtain ⟨hn', hsub⟩ := noAlias_overrideBy acc (toMWEH vars h).1 hn hna hdis
      have hlen : (toMWEH vars h).2 = h ++ vars.map Prod.snd := toMWEH_heap vars h
      have hb' : ∀ a ∈ addrs (overrideBy acc (toMWEH vars h).1), base ≤ a ∧ a < (toMWEH vars h).2.length := fun a ha => by
        rcases hsub a ha with h1 | h1
        · have := hb a h1
          rw [hlen]; simp only [List.length_append]; omega
        · have := hfresh a h1
          omega
      obtain ⟨r1, r2, ext, hext⟩ := ih _ _ hn' hb' (by rw [hlen]; simp only [List.length_append]; omega) hr
      exact ⟨r1, r2, vars.map Prod.snd ++ ext, by rw [hext, hlen, List.append_assoc]⟩

/-- **resolveServiceEnvH_no_alias.**  The whole loop body of `WithServicesEnvironmentResolved` on the heap: if no two keys
    of the service's `environment` shared a cell, no two keys of the resulting `Environment` do — `Resolve` and every
    `ToMappingWithEquals` allocate cells of their own and `OverrideBy` only copies addresses of disjoint allocations —
    and the cells that existed before the call are unchanged. -/
theorem resolveServiceEnvH_no_alias (penv : List (Key × Str)) (fs : FS) (env : HMWE) (efs : List EnvFile) (h : Cells)
    (r : HMWE × Cells) (hv : Valid h env) (hn : NoAlias env) (hr : resolveServiceEnvH penv fs env efs h = .ok r) :
    NoAlias r.1 ∧ ∀ a, a < h.length → r.2[a]? = h[a]? := by
  unfold resolveServiceEnvH at hr
  cases hl : loadEnvFilesH penv fs efs [] (resolveH (fun k => lookup k penv) env h).2 with
  | error e => rw [hl] at hr; cases hr
  | ok q =>
    rw [hl] at hr
    simp only [Except.ok.injEq] at hr
    subst hr
    obtain ⟨⟨ext1, he1⟩, hval1, _⟩ := resolveH_shape (fun k => lookup k penv) env h hv
    have hn1 := resolveH_no_alias (fun k => lookup k penv) env h hv hn
    obtain ⟨hnq, hbq, ext2, he2⟩ := loadEnvFilesH_no_alias penv fs (resolveH (fun k => lookup k penv) env h).2.length efs []
      (resolveH (fun k => lookup k penv) env h).2 q (by simp [NoAlias, addrs]) (fun a ha => by simp [addrs] at ha) (Nat.le_refl _) hl
    have hdis : ∀ a ∈ addrs (resolveH (fun k => lookup k penv) env h).1, a ∉ addrs q.1 := fun a ha hm => by
      obtain ⟨p, hp, hpa⟩ := List.mem_filterMap.1 ha
      obtain ⟨k', v'⟩ := p
      simp only at hpa
      subst hpa
      have := hval1 k' a hp
      have := (hbq a hm).1
      omega
    refine ⟨(noAlias_overrideBy q.1 _ hnq hn1 hdis).1, fun a ha => ?_⟩
    simp only
    rw [he2, he1, List.append_assoc, List.getElem?_append_left ha]

/-! ## the loop body refines the value model -/

theorem mapSnd_insert {β γ : Type} (g : β → γ) (k : Key) (v : β) (m : List (Key × β)) :
    (insert k v m).map (fun kv => (kv.1, g kv.2)) = insert k (g v) (m.map fun kv => (kv.1, g kv.2)) := by
  induction m with
  | nil => rfl
  | cons p r ih =>
    obtain ⟨k', v'⟩ := p
    by_cases hk : k' = k <;> simp [insert, hk, ih]

theorem mapSnd_overrideBy {β γ : Type} (g : β → γ) (m o : List (Key × β)) :
    (overrideBy m o).map (fun kv => (kv.1, g kv.2)) =
      overrideBy (m.map fun kv => (kv.1, g kv.2)) (o.map fun kv => (kv.1, g kv.2)) := by
  induction o generalizing m with
  | nil => rfl
  | cons p r ih =>
    obtain ⟨k, v⟩ := p
    show (overrideBy (insert k v m) r).map _ = overrideBy (insert k (g v) (m.map _)) (r.map _)
    rw [ih, mapSnd_insert]

theorem deref_overrideBy (h : Cells) (m o : HMWE) : deref h (overrideBy m o) = overrideBy (deref h m) (deref h o) := by
  unfold deref
  exact mapSnd_overrideBy (fun (v : Option Nat) => (match v with | some a => h[a]? | none => none : Option Str)) m o

theorem toMWE_overrideBy (m o : List (Key × Str)) : toMWE (overrideBy m o) = overrideBy (toMWE m) (toMWE o) :=
  mapSnd_overrideBy some m o

theorem ofMWE_toMWE (m : List (Key × Str)) : ofMWE (toMWE m) = m := by
  induction m with
  | nil => rfl
  | cons p r ih =>
    simp only [toMWE, List.map_cons, ofMWE, List.filterMap_cons] at ih ⊢
    rw [ih]

theorem addrs_of_valid {h : Cells} {m : HMWE} (hv : Valid h m) : ∀ a ∈ addrs m, a < h.length := fun a ha => by
  obtain ⟨⟨k, v⟩, hp, hpa⟩ := List.mem_filterMap.1 ha
  simp only at hpa
  subst hpa
  exact hv k a hp

theorem valid_of_addrs {h : Cells} {m : HMWE} (hb : ∀ a ∈ addrs m, a < h.length) : Valid h m :=
  fun k a hm => hb a (List.mem_filterMap.2 ⟨(k, some a), hm, rfl⟩)

theorem addrs_overrideBy_sub (m o : HMWE) : ∀ a ∈ addrs (overrideBy m o), a ∈ addrs m ∨ a ∈ addrs o := by
  induction o generalizing m with
  | nil => exact fun a ha => Or.inl ha
  | cons p r ih =>
    obtain ⟨k, v⟩ := p
    intro a ha
    have hsub : ∀ a ∈ addrs r, a ∈ addrs ((k, v) :: r) := fun a ha => by cases v <;> simp_all [addrs]
    rcases ih (insert k v m) a ha with h1 | h1
    · rcases addrs_insert_sub k v m a h1 with h2 | h2
      · exact Or.inl h2
      · exact Or.inr (by subst h2; simp [addrs])
    · exact Or.inr (hsub a h1)

/-- how a heap-level outcome relates to the value-level outcome -/
def RefinesOut (a : Except Err (HMWE × Cells)) (b : Except Err (List (Key × Option Str))) : Prop :=
  match a, b with
  | .ok r, .ok v => deref r.2 r.1 = v
  | .error e, .error e' => e = e'
  | _, _ => False

theorem loadEnvFilesH_refines (penv : List (Key × Str)) (fs : FS) (efs : List EnvFile) (acc : HMWE) (h : Cells)
    (accV : List (Key × Str)) (hv : Valid h acc) (hd : deref h acc = toMWE accV) :
    RefinesOut (loadEnvFilesH penv fs efs acc h) ((loadEnvFiles penv fs efs accV).map toMWE) ∧
    ∀ r, loadEnvFilesH penv fs efs acc h = .ok r → Valid r.2 r.1 ∧ ∃ ext, r.2 = h ++ ext := by
  induction efs generalizing acc h accV with
  | nil =>
    refine ⟨hd, fun r hr => ?_⟩
    simp only [loadEnvFilesH, Except.ok.injEq] at hr
    subst hr
    exact ⟨hv, [], by simp⟩
  | cons f rest ih =>
    have hstr : derefStr h acc = accV := by rw [derefStr, hd, ofMWE_toMWE]
    simp only [loadEnvFilesH, loadEnvFiles, hstr]
    cases hl : loadEnvFile fs f (envChain penv accV) with
    | error e => exact ⟨rfl, fun r hr => by cases hr⟩
    | ok vars =>
      simp only
      have hheap : (toMWEH vars h).2 = h ++ vars.map Prod.snd := toMWEH_heap vars h
      have hfresh := (toMWEH_fresh_no_alias vars h).2.1
      have hv' : Valid (toMWEH vars h).2 (overrideBy acc (toMWEH vars h).1) := valid_of_addrs fun a ha => by
        rcases addrs_overrideBy_sub acc _ a ha with h1 | h1
        · have := addrs_of_valid hv a h1
          rw [hheap]; simp only [List.length_append]; omega
        · exact (hfresh a h1).2
      have hd' : deref (toMWEH vars h).2 (overrideBy acc (toMWEH vars h).1) = toMWE (overrideBy accV vars) := by
        rw [deref_overrideBy, toMWEH_refines, toMWE_overrideBy, hheap, deref_ext h _ acc hv, hd]
      obtain ⟨h1, h2⟩ := ih _ _ _ hv' hd'
      refine ⟨h1, fun r hr => ?_⟩
      obtain ⟨hvr, ext, he⟩ := h2 r hr
      exact ⟨hvr, vars.map Prod.snd ++ ext, by rw [he, hheap, List.append_assoc]⟩

/-- **resolveServiceEnvH_refines.**  The loop body of `WithServicesEnvironmentResolved` run on the heap — pointers stored,
    copied and followed as the code does — fails exactly when the value model `resolveServiceEnv` fails, with the same
    error, and otherwise following the pointers of its result gives the model's `Environment`. -/
theorem resolveServiceEnvH_refines (penv : List (Key × Str)) (fs : FS) (discard : Bool) (s : Service) (env : HMWE) (h : Cells)
    (hv : Valid h env) (hd : deref h env = s.environment) :
    RefinesOut (resolveServiceEnvH penv fs env s.envFiles h) ((resolveServiceEnv penv fs discard s).map (·.environment)) := by
  obtain ⟨⟨ext1, he1⟩, hval1, _⟩ := resolveH_shape (fun k => lookup k penv) env h hv
  have href := resolveH_refines (fun k => lookup k penv) env h hv
  obtain ⟨h1, h2⟩ := loadEnvFilesH_refines penv fs s.envFiles [] (resolveH (fun k => lookup k penv) env h).2 []
    (fun _ _ hm => by cases hm) rfl
  unfold resolveServiceEnvH resolveServiceEnv
  cases hH : loadEnvFilesH penv fs s.envFiles [] (resolveH (fun k => lookup k penv) env h).2 with
  | error e =>
    rw [hH] at h1
    cases hV : loadEnvFiles penv fs s.envFiles [] with
    | error e' => rw [hV] at h1; exact h1
    | ok accV => rw [hV] at h1; exact h1.elim
  | ok r =>
    rw [hH] at h1
    cases hV : loadEnvFiles penv fs s.envFiles [] with
    | error e' => rw [hV] at h1; exact h1.elim
    | ok accV =>
      rw [hV] at h1
      obtain ⟨_, ext2, he2⟩ := h2 r hH
      show deref r.2 (overrideBy r.1 _) = overrideBy (toMWE accV) (resolveMWE _ s.environment)
      have h1' : deref r.2 r.1 = toMWE accV := h1
      rw [deref_overrideBy, h1', he2, deref_ext _ ext2 _ hval1, href, hd]

namespace Example
/-- two value-less keys with different project-environment values, one key with a value in cell 0 -/
def m0 : HMWE := [(['A'], none), (['K'], some 0), (['B'], none), (['C'], none)]
def h0 : Cells := [['k']]
def look0 : Look := fun k => if k = ['A'] then some ['a'] else if k = ['B'] then some ['b'] else none

example : Valid h0 m0 ∧ NoAlias m0 := by
  refine ⟨fun k a hm => ?_, by show (addrs m0).Nodup; decide⟩
  simp [m0] at hm
  rcases hm with ⟨_, rfl⟩
  decide
example : resolveH look0 m0 h0 = ([(['A'], some 1), (['K'], some 0), (['B'], some 2), (['C'], none)], [['k'], ['a'], ['b']]) := by
  decide
/-- hypotheses of `resolveServiceEnvH_no_alias` on a concrete service: one env file `e` (two keys), `environment` with a
    value-less key found in the project environment and a key with a value in cell 0; the result has four cells of its own -/
def fsE : FS := { node := fun p => if p = ['e'] then some (.file [.assign ['X'] [.lit ['1']], .assign ['K'] [.lit ['2']]]) else none }
example :
    (resolveServiceEnvH [(['A'], ['a'])] fsE [(['A'], none), (['K'], some 0)] [⟨['e'], true, []⟩] [['k']]).toOption =
      some ([(['X'], some 2), (['K'], some 0), (['A'], some 1)], [['k'], ['a'], ['1'], ['2']]) := by
  decide
example : toMWEH [(['A'], ['1']), (['B'], ['2'])] [['k']] = ([(['A'], some 1), (['B'], some 2)], [['k'], ['1'], ['2']]) := by decide
end Example

end CV.EnvLayers.Heap
