import ComposeVerif.Props.C07
import ComposeVerif.Lemmas.TemplateOpts
/-!
# C07 — `SubstituteWithOptions`: the options as parameters, the default instantiation is `Substitute`

`Model/TemplateOpts.lean` models `template.SubstituteWithOptions` with `WithPattern`,
`WithSubstitutionFunction` and `WithReplacementFunction` as parameters (`Cfg`), including the two quirks of the
code: the rest of an over-long match is interpolated with the custom pattern but *without* the custom functions,
and the built-in operators interpolate their argument with the *default* configuration.  It is tied to the real
function by the `substOpts` correspondence (seven concrete configurations).
-/
namespace CV.Template

/-- the pattern built from the same format string with delimiter `$` is the default matcher -/
theorem pattern_delimiter_dollar (s : Str) : matchDelim '$' s = matchDollar s := matchDelim_dollar s

/-- with no option set, the parametric scan is the scan of `Substitute`, for every amount of fuel -/
theorem scanWith_default (env : Env) (f : Nat) (s acc : Str) (fe : Option Err) :
    scanC defaultCfg f env s acc fe = scan f env s acc fe :=
  (scanC_replC_default env f).1 s acc fe

/-- … and so is the parametric replacement function on every text the regexp can hand over -/
theorem replWith_default (env : Env) (f : Nat) (m : Str) (h : DollarHead m) :
    replC defaultCfg f env m = repl f env m :=
  (scanC_replC_default env f).2 m h

/-- **`SubstituteWithOptions` without options is `Substitute`**; every theorem of `Props/C07` therefore holds of it -/
theorem substWith_default (env : Env) (s : Str) : substWith defaultCfg env s = subst env s :=
  scanWith_default env _ s [] none

theorem substWith_default_render (env : Env) (t : List Seg) (h : WF t = true) :
    substWith defaultCfg env (renderL t) = evalOut env t := by
  rw [substWith_default, subst_render env t h]

/-- a custom replacement function sees every match and nothing else is consulted:
    with `replFunc = some g` the scan never calls `replC` -/
theorem scanWith_replFunc_step (cfg : Cfg) (g : Env → Str → Out) (hg : cfg.replFunc = some g)
    (f : Nat) (env : Env) (c : Char) (cs m rest acc : Str) (fe : Option Err)
    (hm : cfg.matchAt (c :: cs) = some (m, rest)) :
    scanC cfg (f + 1) env (c :: cs) acc fe =
      match g env m with
      | .ok v => scanC cfg f env rest (acc ++ v) fe
      | .err e => scanC cfg f env rest acc (pushErr fe e)
      | .panic p => .panic p := by
  rw [scanC_succ]; unfold scanCK; simp only [hm, hg]
  cases g env m <;> rfl

/-- the `panic matchGroups` branch of the model is real: under a caller-supplied pattern whose match contains a
    `}` before its end (`\$\{([a-z]+)\}\}`), the text truncated at the first balanced `}` no longer matches and
    `matchGroups` indexes a nil slice (the real function panics on the same input: corpus
    `opts-custom-pattern-rematch-panics.json`).  For the default pattern this cannot happen: `subst_never_panics`. -/
theorem custom_pattern_can_panic :
    substWith (patCfg matchDblG) (fun _ => none) "${a}}".toList = .panic .matchGroups := by decide

end CV.Template
