import ComposeVerif.Gen.C07Funcs
/-!
# C07 — the functions of template/template.go that the model mirrors are the ones in the source now

`translator/c07_funcs.go` prints, for each function the hand-written models
(`Model/Template.lean`, `Model/TemplateOpts.lean`) mirror, its signature and the text of its statements
(comments dropped, white space squashed).  The obligation below compares them with the text the models were
written against; an edit of any of these functions breaks it and the model has to be re-read against the source.
(`getFirstBraceClosingIndex`, the dotenv mapping closure and the interpolation call: `callers_are_modelled`;
the regexp fragments and the operator table: `regex_is_modelled`, `opTable_is_modelled`.)
-/
namespace CV.Template

/-- `template.SubstituteWithOptions` as modelled -/
def src_SubstituteWithOptions : String × List String :=
  ("func(template string, mapping Mapping, options ...Option) (string, error)",
  ["var returnErr error",
   "cfg := &Config{ pattern: DefaultPattern, replacementFunc: DefaultReplacementFunc, logging: true, }",
   "for _, o := range options { o(cfg) }",
   "result := cfg.pattern.ReplaceAllStringFunc(template, func(substring string) string { replacement, err := cfg.replacementFunc(substring, mapping, cfg) if err != nil { var tmplErr *InvalidTemplateError if errors.As(err, &tmplErr) { if tmplErr.Template == \"\" { tmplErr.Template = template } } if returnErr == nil { returnErr = err } } return replacement })",
   "return result, returnErr"])

/-- `template.DefaultReplacementFunc` as modelled -/
def src_DefaultReplacementFunc : String × List String :=
  ("func(substring string, mapping Mapping, cfg *Config) (string, error)",
  ["value, _, err := DefaultReplacementAppliedFunc(substring, mapping, cfg)",
   "return value, err"])

/-- `template.DefaultReplacementAppliedFunc` as modelled -/
def src_DefaultReplacementAppliedFunc : String × List String :=
  ("func(substring string, mapping Mapping, cfg *Config) (string, bool, error)",
  ["pattern := cfg.pattern",
   "subsFunc := cfg.substituteFunc",
   "if subsFunc == nil { _, subsFunc = getSubstitutionFunctionForTemplate(substring) }",
   "closingBraceIndex := getFirstBraceClosingIndex(substring)",
   "rest := \"\"",
   "if closingBraceIndex > -1 { rest = substring[closingBraceIndex+1:] substring = substring[0 : closingBraceIndex+1] }",
   "matches := pattern.FindStringSubmatch(substring)",
   "groups := matchGroups(matches, pattern)",
   "if escaped := groups[groupEscaped]; escaped != \"\" { return escaped, true, nil }",
   "braced := false",
   "substitution := groups[groupNamed]",
   "if substitution == \"\" { substitution = groups[groupBraced] braced = true }",
   "if substitution == \"\" { return \"\", false, &InvalidTemplateError{} }",
   "if braced { value, applied, err := subsFunc(substitution, mapping) if err != nil { return \"\", false, err } if applied { interpolatedNested, err := SubstituteWith(rest, mapping, pattern) if err != nil { return \"\", false, err } return value + interpolatedNested, true, nil } }",
   "value, ok := mapping(substitution)",
   "if !ok && cfg.logging { logrus.Warnf(\"The %q variable is not set. Defaulting to a blank string.\", substitution) }",
   "return value, ok, nil"])

/-- `template.SubstituteWith` as modelled -/
def src_SubstituteWith : String × List String :=
  ("func(template string, mapping Mapping, pattern *regexp.Regexp, subsFuncs ...SubstituteFunc) (string, error)",
  ["options := []Option{ WithPattern(pattern), }",
   "if len(subsFuncs) > 0 { options = append(options, WithSubstitutionFunction(subsFuncs[0])) }",
   "return SubstituteWithOptions(template, mapping, options...)"])

/-- `template.getSubstitutionFunctionForTemplate` as modelled -/
def src_getSubstitutionFunctionForTemplate : String × List String :=
  ("func(template string) (string, SubstituteFunc)",
  ["interpolationMapping := []struct { string SubstituteFunc }{ {\":?\", requiredErrorWhenEmptyOrUnset}, {\"?\", requiredErrorWhenUnset}, {\":-\", defaultWhenEmptyOrUnset}, {\"-\", defaultWhenUnset}, {\":+\", defaultWhenNotEmpty}, {\"+\", defaultWhenSet}, }",
   "sort.Slice(interpolationMapping, func(i, j int) bool { idxI := strings.Index(template, interpolationMapping[i].string) idxJ := strings.Index(template, interpolationMapping[j].string) if idxI < 0 { return false } if idxJ < 0 { return true } return idxI < idxJ })",
   "return interpolationMapping[0].string, interpolationMapping[0].SubstituteFunc"])

/-- `template.Substitute` as modelled -/
def src_Substitute : String × List String :=
  ("func(template string, mapping Mapping) (string, error)",
  ["return SubstituteWith(template, mapping, DefaultPattern)"])

/-- `template.defaultWhenEmptyOrUnset` as modelled -/
def src_defaultWhenEmptyOrUnset : String × List String :=
  ("func(substitution string, mapping Mapping) (string, bool, error)",
  ["return withDefaultWhenAbsence(substitution, mapping, true)"])

/-- `template.defaultWhenUnset` as modelled -/
def src_defaultWhenUnset : String × List String :=
  ("func(substitution string, mapping Mapping) (string, bool, error)",
  ["return withDefaultWhenAbsence(substitution, mapping, false)"])

/-- `template.defaultWhenNotEmpty` as modelled -/
def src_defaultWhenNotEmpty : String × List String :=
  ("func(substitution string, mapping Mapping) (string, bool, error)",
  ["return withDefaultWhenPresence(substitution, mapping, true)"])

/-- `template.defaultWhenSet` as modelled -/
def src_defaultWhenSet : String × List String :=
  ("func(substitution string, mapping Mapping) (string, bool, error)",
  ["return withDefaultWhenPresence(substitution, mapping, false)"])

/-- `template.requiredErrorWhenEmptyOrUnset` as modelled -/
def src_requiredErrorWhenEmptyOrUnset : String × List String :=
  ("func(substitution string, mapping Mapping) (string, bool, error)",
  ["return withRequired(substitution, mapping, \":?\", func(v string) bool { return v != \"\" })"])

/-- `template.requiredErrorWhenUnset` as modelled -/
def src_requiredErrorWhenUnset : String × List String :=
  ("func(substitution string, mapping Mapping) (string, bool, error)",
  ["return withRequired(substitution, mapping, \"?\", func(_ string) bool { return true })"])

/-- `template.withDefaultWhenPresence` as modelled -/
def src_withDefaultWhenPresence : String × List String :=
  ("func(substitution string, mapping Mapping, notEmpty bool) (string, bool, error)",
  ["sep := \"+\"",
   "if notEmpty { sep = \":+\" }",
   "if !strings.Contains(substitution, sep) { return \"\", false, nil }",
   "name, defaultValue := partition(substitution, sep)",
   "defaultValue, err := Substitute(defaultValue, mapping)",
   "if err != nil { return \"\", false, err }",
   "value, ok := mapping(name)",
   "if ok && (!notEmpty || (notEmpty && value != \"\")) { return defaultValue, true, nil }",
   "return value, true, nil"])

/-- `template.withDefaultWhenAbsence` as modelled -/
def src_withDefaultWhenAbsence : String × List String :=
  ("func(substitution string, mapping Mapping, emptyOrUnset bool) (string, bool, error)",
  ["sep := \"-\"",
   "if emptyOrUnset { sep = \":-\" }",
   "if !strings.Contains(substitution, sep) { return \"\", false, nil }",
   "name, defaultValue := partition(substitution, sep)",
   "defaultValue, err := Substitute(defaultValue, mapping)",
   "if err != nil { return \"\", false, err }",
   "value, ok := mapping(name)",
   "if !ok || (emptyOrUnset && value == \"\") { return defaultValue, true, nil }",
   "return value, true, nil"])

/-- `template.withRequired` as modelled -/
def src_withRequired : String × List String :=
  ("func(substitution string, mapping Mapping, sep string, valid func(string) bool) (string, bool, error)",
  ["if !strings.Contains(substitution, sep) { return \"\", false, nil }",
   "name, errorMessage := partition(substitution, sep)",
   "errorMessage, err := Substitute(errorMessage, mapping)",
   "if err != nil { return \"\", false, err }",
   "value, ok := mapping(name)",
   "if !ok || !valid(value) { return \"\", true, &MissingRequiredError{ Reason: errorMessage, Variable: name, } }",
   "return value, true, nil"])

/-- `template.matchGroups` as modelled -/
def src_matchGroups : String × List String :=
  ("func(matches []string, pattern *regexp.Regexp) map[string]string",
  ["groups := make(map[string]string)",
   "for i, name := range pattern.SubexpNames()[1:] { groups[name] = matches[i+1] }",
   "return groups"])

/-- `template.partition` as modelled -/
def src_partition : String × List String :=
  ("func(s, sep string) (string, string)",
  ["if strings.Contains(s, sep) { parts := strings.SplitN(s, sep, 2) return parts[0], parts[1] }",
   "return s, \"\""])

/-- every modelled function of template/template.go has the signature and statements the model was written against -/
theorem template_functions_are_modelled :
    CV.Gen.c07_fn_SubstituteWithOptions = src_SubstituteWithOptions ∧
    CV.Gen.c07_fn_DefaultReplacementFunc = src_DefaultReplacementFunc ∧
    CV.Gen.c07_fn_DefaultReplacementAppliedFunc = src_DefaultReplacementAppliedFunc ∧
    CV.Gen.c07_fn_SubstituteWith = src_SubstituteWith ∧
    CV.Gen.c07_fn_getSubstitutionFunctionForTemplate = src_getSubstitutionFunctionForTemplate ∧
    CV.Gen.c07_fn_Substitute = src_Substitute ∧
    CV.Gen.c07_fn_defaultWhenEmptyOrUnset = src_defaultWhenEmptyOrUnset ∧
    CV.Gen.c07_fn_defaultWhenUnset = src_defaultWhenUnset ∧
    CV.Gen.c07_fn_defaultWhenNotEmpty = src_defaultWhenNotEmpty ∧
    CV.Gen.c07_fn_defaultWhenSet = src_defaultWhenSet ∧
    CV.Gen.c07_fn_requiredErrorWhenEmptyOrUnset = src_requiredErrorWhenEmptyOrUnset ∧
    CV.Gen.c07_fn_requiredErrorWhenUnset = src_requiredErrorWhenUnset ∧
    CV.Gen.c07_fn_withDefaultWhenPresence = src_withDefaultWhenPresence ∧
    CV.Gen.c07_fn_withDefaultWhenAbsence = src_withDefaultWhenAbsence ∧
    CV.Gen.c07_fn_withRequired = src_withRequired ∧
    CV.Gen.c07_fn_matchGroups = src_matchGroups ∧
    CV.Gen.c07_fn_partition = src_partition :=
  ⟨rfl, rfl, rfl, rfl, rfl, rfl, rfl, rfl, rfl, rfl, rfl, rfl, rfl, rfl, rfl, rfl, rfl⟩

end CV.Template
