import ComposeVerif.Lemmas.ShortIdem
import ComposeVerif.Lemmas.ShortIdemAny
/-!
# C03 — `canonical_idem`: canonicalising twice is canonicalising once

Property theorem only; the induction lives in `Lemmas/ShortIdem.lean`.
-/
namespace CV.Short
open CV CV.TPath

/-- `transform.Canonical` is idempotent on every tree it accepts (normal mode, `ignoreParseError = false`) -/
theorem canonical_idem (v w : Val) (h : canonical false v = .ok w) : canonical false w = .ok w :=
  idem_T v TPath.root w h


/-- the same at any path of the tree (what the loader relies on when an `extends` base is canonicalised again after the merge) -/
theorem transform_idem (p : TPath) (v w : Val) (h : transform false p v = .ok w) : transform false p w = .ok w :=
  idem_T v p w h

/-- the same for either value of `ignoreParseError` (with `true`, which the loader passes when interpolation is skipped,
an unparsable short string is kept as it is, and kept again by the second pass) -/
theorem canonical_idem_any (ign : Bool) (v w : Val) (h : canonical ign v = .ok w) : canonical ign w = .ok w :=
  idem_TA ign v TPath.root w h

theorem transform_idem_any (ign : Bool) (p : TPath) (v w : Val) (h : transform ign p v = .ok w) : transform ign p w = .ok w :=
  idem_TA ign v p w h

/-- non-vacuity for `ignoreParseError = true`: an unparsable volume string is kept, twice -/
example : canonical true (.map [("services", .map [("a", .map [("volumes", .seq [.str "vol::b"])])])])
    = .ok (.map [("services", .map [("a", .map [("volumes", .seq [.str "vol::b"])])])]) := by rfl

/-- non-vacuity: a document with short forms is accepted, and its canonical form is a fixed point -/
example : ∃ w, canonical false (.map [("services", .map [("a", .map [("build", .str "."), ("dns", .str "1.1.1.1")])])]) = .ok w :=
  ⟨_, rfl⟩

end CV.Short
