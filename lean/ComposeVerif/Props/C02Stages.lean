import ComposeVerif.Lemmas.C02StageNormalize
import ComposeVerif.Lemmas.C02StageWalk
import ComposeVerif.Lemmas.C02StageDefaults
import ComposeVerif.Lemmas.C02StageInterp
import ComposeVerif.Lemmas.C02StagePaths
import ComposeVerif.Lemmas.C02StageValidate
import ComposeVerif.Lemmas.C02StageCanonical
import ComposeVerif.Lemmas.C02StageCompose
import ComposeVerif.Lemmas.C02StageInterpWF
/-!
# C02 — `stage_perm`: the loader stages do not depend on the order in which Go ranges over mappings

About the stage models that other properties own and tie to the real functions:
`CV.C11.normalize` (C11, `loader.Normalize`), `CV.Short.transform` (C03, `transform.Canonical`),
`CV.C11.setDefaults` (C11, `transform.SetDefaultValues`), `CV.Paths.walk` (C12, `paths.ResolveRelativePaths`).

* `Normalize` as a whole stage, for the two mappings its loops range over (top level, `services`);
* the three tree walkers, at every mapping of the tree (any path): the loop
  `for k, v := range m { r, err := rec(p.Next(k), v); if err != nil { return err }; m[k] = r }`.
  *Which* failure is reported first may depend on the order, *whether* there is one does not.
-/
namespace CV.Det.Stage.Props
open CV CV.Det.Stage
open CV.Val (lookup keys KVs)

/-! ## `loader.Normalize` -/

/-- ranging the top-level mapping in another order gives a model related by `TopPerm` -/
theorem topPerm_of_perm {d d' : KVs} (hn : (keys d).Nodup) (hp : d'.Perm d) : TopPerm d' d := TopPerm.of_perm hn hp

/-- **whole stage**: for two models that differ only in the order of the top-level mapping and of the `services`
mapping, `Normalize` fails with the same error class (or panics at the same site) or returns models that again differ only in those orders -/
theorem normalize_stage_perm (clean : String → String) (env : CV.C11.Env) {d d' : KVs} (h : TopPerm d' d) :
    NormRel (CV.C11.normalize clean env d') (CV.C11.normalize clean env d) := normalize_topPerm clean env h

/-- in particular every top-level section other than `services` is *identical*, and the services are the same
services, each normalised the same way -/
theorem normalize_pointwise_on_services (clean : String → String) (env : CV.C11.Env) {d d' s s' : KVs}
    (hs : lookup "services" d = some (.map s)) (hs' : lookup "services" d' = some (.map s'))
    (hn : (keys s).Nodup) (hp : s'.Perm s) (name : String) :
    ∃ r r', lookup "services" (CV.C11.normalizePure clean env d) = some (.map r) ∧
      lookup "services" (CV.C11.normalizePure clean env d') = some (.map r') ∧ lookup name r' = lookup name r := by
  refine ⟨CV.C11.mapVals (CV.C11.normServiceV clean env) (CV.C11.mapVals CV.C11.nnServiceV s),
    CV.C11.mapVals (CV.C11.normServiceV clean env) (CV.C11.mapVals CV.C11.nnServiceV s'), ?_, ?_, ?_⟩
  · rw [CV.C11.lookup_normalizePure clean env d (by decide), hs]; simp [CV.C11.topH_services, CV.C11.nnTop, CV.C11.nsTop]
  · rw [CV.C11.lookup_normalizePure clean env d' (by decide), hs']; simp [CV.C11.topH_services, CV.C11.nnTop, CV.C11.nsTop]
  · rw [CV.C11.lookup_mapVals, CV.C11.lookup_mapVals, CV.C11.lookup_mapVals, CV.C11.lookup_mapVals,
      CV.Merge.lookup_perm hn hp name]

/-! ## the tree walkers -/

/-- `transform.Canonical` — `transformMapping` at any path: fails or succeeds alike; on success the same value under
every key -/
theorem canonical_mapping_perm (ign : Bool) (p : TPath) {m m' : KVs} (hn : (keys m).Nodup) (hp : m'.Perm m) :
    (optS (CV.Short.transformKVs ign p m')).isSome = (optS (CV.Short.transformKVs ign p m)).isSome ∧
    ∀ r r', CV.Short.transformKVs ign p m = .ok r → CV.Short.transformKVs ign p m' = .ok r' →
      r'.Perm r ∧ ∀ k, lookup k r' = lookup k r := by
  rw [transformKVs_trav, transformKVs_trav]
  have h := travOpt_perm (fun k e => optS (CV.Short.transform ign (TPath.nextK p k) e)) hn hp
  refine ⟨h.1, fun r r' hr hr' => h.2 r r' ?_ ?_⟩
  · rw [← transformKVs_trav]; exact optS_some.mpr hr
  · rw [← transformKVs_trav]; exact optS_some.mpr hr'

/-- `transform.SetDefaultValues` — the loop of `setDefaults` at any path -/
theorem setDefaults_mapping_perm (tbl : List (List String × String)) (p : TPath) {m m' : KVs}
    (hn : (keys m).Nodup) (hp : m'.Perm m) :
    (optD (CV.C11.setDefaultsKVs tbl p m')).isSome = (optD (CV.C11.setDefaultsKVs tbl p m)).isSome ∧
    ∀ r r', CV.C11.setDefaultsKVs tbl p m = .ok r → CV.C11.setDefaultsKVs tbl p m' = .ok r' →
      r'.Perm r ∧ ∀ k, lookup k r' = lookup k r := by
  rw [setDefaultsKVs_trav, setDefaultsKVs_trav]
  have h := travOpt_perm (fun k v => optD (CV.C11.setDefaults tbl (p.next k) v)) hn hp
  refine ⟨h.1, fun r r' hr hr' => h.2 r r' ?_ ?_⟩
  · rw [← setDefaultsKVs_trav]; exact optD_some.mpr hr
  · rw [← setDefaultsKVs_trav]; exact optD_some.mpr hr'

/-- `paths.ResolveRelativePaths` — the loop of `resolveRelativePaths` at any path -/
theorem resolvePaths_mapping_perm (t : CV.Paths.Table) (cfg : CV.Paths.Cfg) (p : TPath) {m m' : KVs}
    (hn : (keys m).Nodup) (hp : m'.Perm m) :
    (optP (CV.Paths.walkKVs t cfg p m')).isSome = (optP (CV.Paths.walkKVs t cfg p m)).isSome ∧
    ∀ r r', CV.Paths.walkKVs t cfg p m = .ok r → CV.Paths.walkKVs t cfg p m' = .ok r' →
      r'.Perm r ∧ ∀ k, lookup k r' = lookup k r := by
  rw [walkKVs_trav, walkKVs_trav]
  have h := travOpt_perm (fun k v => optP (CV.Paths.walk t cfg (TPath.next p k) v)) hn hp
  refine ⟨h.1, fun r r' hr hr' => h.2 r r' ?_ ?_⟩
  · rw [← walkKVs_trav]; exact optP_some.mpr hr
  · rw [← walkKVs_trav]; exact optP_some.mpr hr'

/-- **`transform.SetDefaultValues` as a whole tree walk** (every nesting level at once, with its four handlers): trees
that are equivalent up to the order of mapping entries at any depth (`CV.Deep.Eqv`) get equivalent defaults, or both
walks fail -/
theorem setDefaults_stage_perm (tbl : List (List String × String)) (p : TPath) {v w : Val}
    (h : CV.Deep.Eqv v w) (wv : CV.Deep.WF v) (ww : CV.Deep.WF w) :
    DRel CV.Deep.Eqv (CV.C11.setDefaults tbl p v) (CV.C11.setDefaults tbl p w) := setDefaults_eqv tbl p h wv ww

/-- in particular for `SetDefaultValues` itself, on the regenerated table -/
theorem setDefaultValues_stage_perm {d d' : KVs} (h : CV.Deep.MEqv d d') (wd : CV.Deep.MWF d) (wd' : CV.Deep.MWF d') :
    DRel CV.Deep.Eqv (CV.C11.setDefaultValues CV.Gen.defaultValues d) (CV.C11.setDefaultValues CV.Gen.defaultValues d') :=
  setDefaults_eqv _ _ (CV.Deep.Eqv.map_iff.mpr h) (CV.Deep.WF.map_iff.mpr wd) (CV.Deep.WF.map_iff.mpr wd')

/-- **`interpolation.Interpolate` as a whole tree walk** (C08's model `CV.Interp.interp`, any cast table, any
environment): trees equivalent up to the order of mapping entries at any depth interpolate to equivalent trees, or both
interpolations fail (which variable / cast error is reported first may depend on the order) -/
theorem interpolate_stage_perm (c : CV.Interp.Cfg) (p : TPath) {v w : Val}
    (h : CV.Deep.Eqv v w) (wv : CV.Deep.WF v) (ww : CV.Deep.WF w) :
    ORel CV.Deep.Eqv (optI (CV.Interp.interp c p v)) (optI (CV.Interp.interp c p w)) := interp_eqv c p h wv ww

/-- **`paths.ResolveRelativePaths` as a whole tree walk** (C12's model `CV.Paths.walk`, any table and configuration, all
seven resolvers): trees equivalent up to the order of mapping entries at any depth resolve to equivalent trees, or both
walks fail -/
theorem resolvePaths_stage_perm (t : CV.Paths.Table) (cfg : CV.Paths.Cfg) (p : TPath) {v w : Val}
    (h : CV.Deep.Eqv v w) (wv : CV.Deep.WF v) (ww : CV.Deep.WF w) :
    PRel CV.Deep.Eqv (CV.Paths.walk t cfg p v) (CV.Paths.walk t cfg p w) := walk_eqv t cfg p h wv ww

/-- in particular for `ResolveRelativePaths` itself, on the regenerated resolver table -/
theorem resolve_stage_perm (cfg : CV.Paths.Cfg) {v w : Val} (h : CV.Deep.Eqv v w) (wv : CV.Deep.WF v) (ww : CV.Deep.WF w) :
    PRel CV.Deep.Eqv (CV.Paths.resolve cfg v) (CV.Paths.resolve cfg w) := walk_eqv _ cfg _ h wv ww

/-- the full-strength statement for `transform.Canonical`: the walk respects the equivalence at *every* path.  It is not
proved: `transformMaybeExternal` (`volumes.*`, `networks.*`, `secrets.*`, `configs.*`) ends with `extname != name` on
untyped values — a run-time panic in Go when both are mappings (one outcome in every order; replayed by
`corpus/C02/stage-canonical-external-name-mappings.json`), and the derived, opaque `BEq` of `Val` in C03's model, about
which nothing can be proved -/
def CanonicalStagePerm : Prop :=
  ∀ (ign : Bool) (p : TPath) (v w : Val), CV.Deep.Eqv v w → CV.Deep.WF v → CV.Deep.WF w →
    ORel CV.Deep.Eqv (optS (CV.Short.transform ign p v)) (optS (CV.Short.transform ign p w))

/-- **`transform.Canonical` as a whole tree walk, at every path at or below which `transformMaybeExternal` cannot match**
(`NoExt p`): all nesting levels at once, the fourteen other handlers of the regenerated table with their helpers
(`dependsMap`, `envFileValue`, `portEntries`, the `KEY=VALUE` / ssh / networks / depends_on list converters).  Trees
equivalent up to the order of mapping entries at any depth become equivalent canonical trees, or both walks fail -/
theorem canonical_stage_perm_partial (ign : Bool) (p : TPath) (hp : NoExt p) {v w : Val}
    (h : CV.Deep.Eqv v w) (wv : CV.Deep.WF v) (ww : CV.Deep.WF w) :
    ORel CV.Deep.Eqv (optS (CV.Short.transform ign p v)) (optS (CV.Short.transform ign p w)) :=
  transform_eqv ign p hp h wv ww

/-- in particular everywhere below `services` (every service, every attribute, every depth) -/
theorem canonical_services_stage_perm (ign : Bool) (rest : List String) {v w : Val}
    (h : CV.Deep.Eqv v w) (wv : CV.Deep.WF v) (ww : CV.Deep.WF w) :
    ORel CV.Deep.Eqv (optS (CV.Short.transform ign ("services" :: rest) v)) (optS (CV.Short.transform ign ("services" :: rest) w)) :=
  transform_eqv ign _ (noExt_services rest) h wv ww

/-- every non-recursing case of every handler (also those of `transformMaybeExternal`) treats equivalent nodes alike -/
theorem canonical_leaf_perm (hname : Option String) (ign : Bool) {v w : Val}
    (h : CV.Deep.Eqv v w) (wv : CV.Deep.WF v) (ww : CV.Deep.WF w) :
    ORel CV.Deep.Eqv (optS (CV.Short.leaf hname ign v)) (optS (CV.Short.leaf hname ign w)) := cong_leaf hname ign v w h wv ww

/-- the rows of the regenerated table with the excluded handler: none starts with `services` or `*` -/
theorem canonical_excluded_rows : ∀ row ∈ CV.Gen.transformers, row.2 = "transformMaybeExternal" →
    row.1.head? ≠ some "*" ∧ row.1.head? ≠ some "services" ∧ row.1 ≠ [] := ext_rows_not_services

/-- `Eqv` is reflexive on every tree (no distinct-keys hypothesis needed) -/
theorem eqv_refl_all (v : Val) : CV.Deep.Eqv v v := eqvRefl v

/-- **`validation.Validate` as a whole tree walk** (C10's model `CV.Validate.validate`: the `check` walk with its six
rows and four checkers): trees equivalent up to the order of mapping entries at any depth are accepted or rejected alike.
*Which* error a rejected tree gets depends on the order (`Neg.Env.validate_which_error_order_dependent`) -/
theorem validate_stage_perm {v w : Val} (h : CV.Deep.Eqv v w) (wv : CV.Deep.WF v) (ww : CV.Deep.WF w) :
    (CV.Validate.validate v = .ok) ↔ (CV.Validate.validate w = .ok) := validate_eqv h wv ww

/-- every checker of the `checks` table decides equivalent nodes alike (the `m[k]` / `len` / key-loop accesses) -/
theorem validate_checker_perm (c : CV.Validate.Checker) {v w : Val} (h : CV.Deep.Eqv v w) :
    CV.Validate.run c v = CV.Validate.run c w := run_eqv c h

/-- `Validate` returns no error exactly when the walk finds no failing node (the error is the first one met) -/
theorem validate_ok_iff_no_failure (t : Val) : CV.Validate.validate t = .ok ↔ CV.Validate.validTreeB t = true :=
  validate_ok_iff t

/-! ## composition: a pipeline of stages -/

/-- **a pipeline of stages that each respect the equivalence respects it** (`runStages` = run them in sequence, stop at
the first failure; `WFAlong` = the input and every intermediate tree has distinct keys everywhere, which every Go
`map[string]any` has by construction) -/
theorem stages_compose (fs : List StageFn) (hall : ∀ f ∈ fs, Respects f) {v w : Val} (h : CV.Deep.Eqv v w)
    (hv : WFAlong fs v) (hw : WFAlong fs w) : ORel CV.Deep.Eqv (runStages fs v) (runStages fs w) :=
  runStages_respects fs hall v w h hv hw

/-- **the stages a service definition goes through, composed**: `Interpolate`, `Canonical`, `SetDefaultValues`,
`ResolveRelativePaths` run one after the other on the subtree at or below `services.<name>` — two spellings of the
subtree that differ only in the order of mapping entries (any depth) end as such spellings of one result, or both fail
(at whichever stage) -/
theorem service_pipeline_perm (c : CV.Interp.Cfg) (ign : Bool) (tbl : List (List String × String)) (t : CV.Paths.Table)
    (cfg : CV.Paths.Cfg) (rest : List String) {v w : Val} (h : CV.Deep.Eqv v w)
    (hv : WFAlong [interpStage c ("services" :: rest), canonicalStage ign ("services" :: rest),
      defaultsStage tbl ("services" :: rest), pathsStage t cfg ("services" :: rest)] v)
    (hw : WFAlong [interpStage c ("services" :: rest), canonicalStage ign ("services" :: rest),
      defaultsStage tbl ("services" :: rest), pathsStage t cfg ("services" :: rest)] w) :
    ORel CV.Deep.Eqv
      (runStages [interpStage c ("services" :: rest), canonicalStage ign ("services" :: rest),
        defaultsStage tbl ("services" :: rest), pathsStage t cfg ("services" :: rest)] v)
      (runStages [interpStage c ("services" :: rest), canonicalStage ign ("services" :: rest),
        defaultsStage tbl ("services" :: rest), pathsStage t cfg ("services" :: rest)] w) := by
  apply runStages_respects _ _ v w h hv hw
  intro f hf
  simp only [List.mem_cons, List.not_mem_nil, or_false] at hf
  rcases hf with rfl | rfl | rfl | rfl
  · exact respects_interp c _
  · exact respects_canonical ign _ (noExt_services rest)
  · exact respects_defaults tbl _
  · exact respects_paths t cfg _

/-- **the whole-document stages without `Canonical`, composed**: `Interpolate`, `Validate`, `SetDefaultValues`,
`ResolveRelativePaths` on the document -/
theorem document_pipeline_perm (c : CV.Interp.Cfg) (tbl : List (List String × String)) (t : CV.Paths.Table)
    (cfg : CV.Paths.Cfg) (p : TPath) {v w : Val} (h : CV.Deep.Eqv v w)
    (hv : WFAlong [interpStage c p, validateStage, defaultsStage tbl p, pathsStage t cfg p] v)
    (hw : WFAlong [interpStage c p, validateStage, defaultsStage tbl p, pathsStage t cfg p] w) :
    ORel CV.Deep.Eqv (runStages [interpStage c p, validateStage, defaultsStage tbl p, pathsStage t cfg p] v)
      (runStages [interpStage c p, validateStage, defaultsStage tbl p, pathsStage t cfg p] w) := by
  apply runStages_respects _ _ v w h hv hw
  intro f hf
  simp only [List.mem_cons, List.not_mem_nil, or_false] at hf
  rcases hf with rfl | rfl | rfl | rfl
  · exact respects_interp c _
  · exact respects_validate
  · exact respects_defaults tbl _
  · exact respects_paths t cfg _

/-- **`Interpolate` keeps the keys of every mapping distinct** (it discharges `WFAlong` for the stage after it) -/
theorem interpolate_preserves_wf (c : CV.Interp.Cfg) (p : TPath) {v r : Val} (wv : CV.Deep.WF v)
    (h : CV.Interp.interp c p v = .ok r) : CV.Deep.WF r := interp_wf c p wv h

/-- `Interpolate` then `Validate`, composed **without** any hypothesis on the intermediate tree -/
theorem interpolate_validate_perm (c : CV.Interp.Cfg) (p : TPath) {v w : Val} (h : CV.Deep.Eqv v w)
    (wv : CV.Deep.WF v) (ww : CV.Deep.WF w) :
    ORel CV.Deep.Eqv (runStages [interpStage c p, validateStage] v) (runStages [interpStage c p, validateStage] w) := by
  have along : ∀ u, CV.Deep.WF u → WFAlong [interpStage c p, validateStage] u := by
    intro u wu
    refine ⟨wu, fun x hx => ⟨?_, fun y hy => ?_⟩⟩
    · unfold interpStage at hx
      cases hi : CV.Interp.interp c p u with
      | ok z => rw [hi] at hx; simp only [optI, Option.some.injEq] at hx; subst hx; exact interp_wf c p wu hi
      | err e => rw [hi] at hx; cases hx
      | panic e => rw [hi] at hx; cases hx
    · unfold interpStage at hx
      unfold validateStage at hy
      cases hi : CV.Interp.interp c p u with
      | ok z =>
        rw [hi] at hx; simp only [optI, Option.some.injEq] at hx; subst hx
        split at hy
        · cases hy; exact interp_wf c p wu hi
        · cases hy
      | err e => rw [hi] at hx; cases hx
      | panic e => rw [hi] at hx; cases hx
  apply runStages_respects _ _ v w h (along v wv) (along w ww)
  intro f hf
  simp only [List.mem_cons, List.not_mem_nil, or_false] at hf
  rcases hf with rfl | rfl
  · exact respects_interp c _
  · exact respects_validate

/-- the walker loop for recursive calls that respect the equivalence (the core of the whole-tree theorems) -/
theorem walker_loop_deep (g g' : String → Val → Option Val) {a b : KVs} (hm : CV.Deep.MEqv a b)
    (wa : CV.Deep.MWF a) (wb : CV.Deep.MWF b)
    (hg : ∀ k x y, lookup k a = some x → lookup k b = some y → ORel CV.Deep.Eqv (g k x) (g' k y)) :
    ORel CV.Deep.MEqv (travOpt g a) (travOpt g' b) := travOpt_meqv g g' hm wa wb hg

/-- the shared loop shape, for any recursive call `g` -/
theorem walker_loop_perm (g : String → Val → Option Val) {m m' : KVs} (hn : (keys m).Nodup) (hp : m'.Perm m) :
    (travOpt g m').isSome = (travOpt g m).isSome ∧
    ∀ r r', travOpt g m = some r → travOpt g m' = some r' → r'.Perm r ∧ ∀ k, lookup k r' = lookup k r :=
  travOpt_perm g hn hp

/-! non-vacuity -/
example : TopPerm [("services", .map [("b", .null), ("a", .null)]), ("name", .str "p")]
                  [("name", .str "p"), ("services", .map [("a", .null), ("b", .null)])] := by
  refine ⟨?_, .inr ⟨_, _, rfl, rfl, List.Perm.swap _ _ _⟩⟩
  intro k hk
  simp only [lookup, hk, if_false]

/-- `validate_stage_perm` on two declaration orders of an invalid and of a valid tree -/
example : CV.Validate.validate (.map [("volumes", .map [("v", .int 5)]), ("configs", .map [("c", .map [])])]) ≠ .ok ∧
    CV.Validate.validate (.map [("configs", .map [("c", .map [])]), ("volumes", .map [("v", .int 5)])]) ≠ .ok ∧
    CV.Validate.validate (.map [("volumes", .map [("v", .null)]), ("configs", .map [("c", .map [("file", .str "f")])])]) = .ok := by
  decide

/-- `NoExt` holds at a service and below; long-form `depends_on` in two orders gets the same defaults -/
example : NoExt ["services", "web"] := noExt_services ["web"]
example : CV.Short.transformDependsOn (.map [("db", .map [("condition", .str "service_healthy")]), ("c", .map [])]) =
    .ok (.map [("db", .map [("condition", .str "service_healthy"), ("required", .bool true)]),
      ("c", .map [("condition", .str "service_started"), ("required", .bool true)])]) := by
  simp [CV.Short.transformDependsOn, CV.Short.dependsMap, CV.Short.dependsDefaults, CV.Short.hasKey, Val.lookup]

/-- `WFAlong` is satisfiable: a scalar document through the validation stage -/
example : WFAlong [validateStage] (.str "x") := ⟨.str _, fun x hx => by
  unfold validateStage at hx; split at hx <;> cases hx; exact .str _⟩

end CV.Det.Stage.Props
