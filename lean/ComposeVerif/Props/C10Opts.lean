import ComposeVerif.Props.C10
import ComposeVerif.Model.ValidateCast
import ComposeVerif.Gen.Tables
/-!
# C10 — the structural checks under loader options that change the shape they see (round 6)

`validation.Validate` runs on the merged tree *after* interpolation — unless `SkipInterpolation` is set: then the cast
table has not run and `external` can still be a string (`yes`, `On`, `"true"`, …).  The helper `asBoolean`
(validation/external.go) reads such a string; this module pins its body and its table of spellings as regenerated source
facts, proves that it reads a not-yet-cast string **exactly as the cast (`toBoolean`, C08's `Interp.parseBool`) would**,
and lifts that to every checker and to `Validate` on the whole tree: the verdict of the structural stage does not depend on
whether interpolation ran (`validate_cast_invariant`).  Hence the clause "an external volume together with creation
parameters fails to load" for *every* spelling of `external` (`validate_rejects_external_volume_any_spelling`).
-/
namespace CV.Validate
open CV CV.TPath

/-- tie: the printed body of `asBoolean` and its `case` lists (type switch, then the two rows of spellings) are the ones the
model is written against; the three `external` leaves are cast by `toBoolean` in the regenerated cast table -/
theorem asBoolean_is_source :
    CV.Gen.c10_body_asBoolean =
      "{ switch b := v.(type) { case bool: return b, nil case string: switch strings.ToLower(b) { case \"true\", \"y\", \"yes\", \"on\": return true, nil case \"false\", \"n\", \"no\", \"off\": return false, nil } return false, fmt.Errorf(\"invalid boolean: %s\", b) default: return false, fmt.Errorf(\"invalid boolean: %v\", v) } }" ∧
    CV.Gen.c10_asBooleanCases = [["<bool>"], ["<string>"], trueSpellings, falseSpellings] ∧
    (["volumes", "*", "external"], "toBoolean") ∈ CV.Gen.castTable ∧
    (["secrets", "*", "external"], "toBoolean") ∈ CV.Gen.castTable ∧
    (["configs", "*", "external"], "toBoolean") ∈ CV.Gen.castTable := by
  refine ⟨rfl, by decide, ?_, ?_, ?_⟩ <;> decide

/-- `asBoolean` on a string is the table look-up of the lower-cased text -/
theorem asBoolean_table (s : String) :
    asBoolean (.str s) =
      if lower s ∈ trueSpellings then some true else if lower s ∈ falseSpellings then some false else none := by
  simp only [asBoolean, lower, trueSpellings, falseSpellings, List.mem_cons, List.not_mem_nil, or_false,
    Bool.or_eq_true, decide_eq_true_eq, or_assoc]

/-- **a not-yet-cast `external` is read exactly as the cast would read it**: same spellings, same value, and a text the
cast rejects is rejected here too -/
theorem asBoolean_str_eq_cast (s : String) : asBoolean (.str s) = Interp.parseBool s := by
  simp only [asBoolean, Interp.parseBool, Bool.or_eq_true, decide_eq_true_eq]
  split
  · rename_i h
    rcases h with ((h | h) | h) | h <;> simp [h]
  · rename_i h
    simp only [not_or] at h
    obtain ⟨⟨⟨h1, h2⟩, h3⟩, h4⟩ := h
    simp only [h1, h2, h3, h4, if_false, or_self]
    split
    · rename_i h
      rcases h with ((h | h) | h) | h <;> simp [h]
    · rename_i h
      simp only [not_or] at h
      obtain ⟨⟨⟨h1, h2⟩, h3⟩, h4⟩ := h
      simp [h1, h2, h3, h4]

/-- casting the leaf first changes nothing for `asBoolean` -/
theorem asBoolean_castLeaf (v : Val) : asBoolean (castLeaf v) = asBoolean v := by
  cases v with
  | str s =>
    simp only [castLeaf]
    cases h : Interp.parseBool s with
    | none => rfl
    | some b => rw [asBoolean_str_eq_cast, h]; rfl
  | _ => rfl

theorem lookup_external_cast : ∀ kvs : Val.KVs,
    Val.lookup "external" (castExternalKVs kvs) = (Val.lookup "external" kvs).map castLeaf
  | [] => rfl
  | (k, v) :: r => by
    simp only [castExternalKVs, Val.lookup]
    by_cases h : k = "external"
    · subst h; simp [Val.lookup]
    · have h' : ¬ "external" = k := fun e => h e.symm
      simp only [h, if_false, Val.lookup, h']
      exact lookup_external_cast r

theorem lookup_isSome_cast (k : String) : ∀ kvs : Val.KVs,
    (Val.lookup k (castExternalKVs kvs)).isSome = (Val.lookup k kvs).isSome
  | [] => rfl
  | (k', v) :: r => by
    simp only [castExternalKVs]
    by_cases h : k' = "external"
    · simp only [h, if_true, Val.lookup]
      by_cases hk : k = "external"
      · simp [hk]
      · simp only [hk, if_false]; exact lookup_isSome_cast k r
    · simp only [h, if_false, Val.lookup]
      by_cases hk : k = k'
      · simp [hk]
      · simp only [hk, if_false]; exact lookup_isSome_cast k r

theorem has_cast (k : String) (kvs : Val.KVs) : has k (castExternalKVs kvs) = has k kvs :=
  lookup_isSome_cast k kvs

theorem all_keys_cast (f : String → Bool) : ∀ kvs : Val.KVs,
    (castExternalKVs kvs).all (fun e => f e.1) = kvs.all (fun e => f e.1)
  | [] => rfl
  | (k, v) :: r => by
    simp only [castExternalKVs, List.all_cons]
    rw [all_keys_cast f r]
    by_cases h : k = "external" <;> simp [h]

theorem countPresent_cast (keys : List String) (kvs : Val.KVs) :
    countPresent keys (castExternalKVs kvs) = countPresent keys kvs := by
  unfold countPresent
  congr 1
  exact List.filter_congr fun k _ => has_cast k kvs

/-- `checkExternal` decides a resource the same way before and after the cast of its `external` leaf -/
theorem checkExternal_cast_invariant (kvs : Val.KVs) : checkExternal (castExternalKVs kvs) = checkExternal kvs := by
  unfold checkExternal
  rw [lookup_external_cast]
  cases h : Val.lookup "external" kvs with
  | none => rfl
  | some x =>
    simp only [Option.map_some, asBoolean_castLeaf, all_keys_cast externalAllowed]

/-- **every checker of the table decides a node the same way before and after the cast** (`SkipInterpolation` changes the
shape of the node, not the verdict) -/
theorem run_cast_invariant (c : Checker) (v : Val) : run c (castResource v) = run c v := by
  cases v with
  | map kvs =>
    cases c with
    | volume => exact checkExternal_cast_invariant kvs
    | fileObject keys =>
      simp only [run, castResource, checkFileObject, countPresent_cast, has_cast]
    | path => rfl
    | deviceRequest => simp only [run, castResource, checkDeviceRequest, has_cast]
  | _ => rfl

theorem failuresAt_matched {p : TPath} {c : Checker} (h : firstMatch table p = some c) (v : Val) :
    failuresAt p v = runL c v := by
  cases v <;> simp only [failuresAt, h]

theorem failuresKVs_resources {sec : String} {c : Checker}
    (hm : ∀ n : String, firstMatch table [sec, n] = some c) (hne : ([sec] : TPath) ≠ TPath.root) :
    ∀ rs : Val.KVs, failuresKVs [sec] (rs.map fun e => (e.1, castResource e.2)) = failuresKVs [sec] rs
  | [] => rfl
  | (n, r) :: rest => by
    have hn : next [sec] n = [sec, ghostify n] := by unfold next; simp [hne]
    simp only [List.map_cons, failuresKVs, hn]
    rw [failuresAt_matched (hm _), failuresAt_matched (hm _), failuresKVs_resources hm hne rest]
    simp only [runL, run_cast_invariant]

theorem failuresAt_section {sec : String} {c : Checker} (hn : firstMatch table [sec] = none)
    (hm : ∀ n : String, firstMatch table [sec, n] = some c) (hne : ([sec] : TPath) ≠ TPath.root) (v : Val) :
    failuresAt [sec] (castSection v) = failuresAt [sec] v := by
  cases v with
  | map rs => simp only [castSection, failuresAt, hn, failuresKVs_resources hm hne rs]
  | _ => rfl

theorem failuresKVs_top : ∀ top : Val.KVs,
    failuresKVs TPath.root (top.map fun e => if isResourceSection e.1 then (e.1, castSection e.2) else e) =
      failuresKVs TPath.root top
  | [] => rfl
  | (k, v) :: rest => by
    simp only [List.map_cons, failuresKVs]
    rw [failuresKVs_top rest]
    by_cases h : isResourceSection k = true
    · simp only [h, if_true]
      simp only [isResourceSection, Bool.or_eq_true, beq_iff_eq] at h
      rcases h with (h | h) | h <;> subst h
      · have : next TPath.root "volumes" = ["volumes"] := by decide
        rw [this, failuresAt_section (c := .volume) (by decide) (fun n => by simp [firstMatch, table, pmatch]) (by decide)]
      · have : next TPath.root "secrets" = ["secrets"] := by decide
        rw [this, failuresAt_section (c := .fileObject ["file", "environment"]) (by decide)
          (fun n => by simp [firstMatch, table, pmatch]) (by decide)]
      · have : next TPath.root "configs" = ["configs"] := by decide
        rw [this, failuresAt_section (c := .fileObject ["file", "environment", "content"]) (by decide)
          (fun n => by simp [firstMatch, table, pmatch]) (by decide)]
    · simp only [h]
      rfl

/-- **the structural stage does not depend on whether interpolation ran**: `validation.Validate` returns the same outcome
(the same first failure, even) on the merged tree with its `external` leaves cast and not cast — every tree, well shaped
or not -/
theorem validate_cast_invariant (t : Val) : validate (castTop t) = validate t := by
  cases t with
  | map top =>
    have : failures (castTop (.map top)) = failures (.map top) := by
      simp only [failures, castTop, failuresAt]
      have hroot : firstMatch table TPath.root = none := by decide
      simp only [hroot, failuresKVs_top]
    simp only [validate, this]
  | _ => rfl

theorem validate_seen_invariant (skip : Bool) (t : Val) : validate (seenByValidate skip t) = validate t := by
  cases skip
  · exact validate_cast_invariant t
  · rfl

/-- **an external volume with a creation parameter is rejected however `external` is spelled** — a boolean, or any text
the cast would turn into `true` (`yes`, `On`, `"true"`, `Y`, …): with `SkipInterpolation` the load still fails -/
theorem validate_rejects_external_volume_any_spelling (top vols kvs : Val.KVs) (name k s : String) (x : Val)
    (h1 : ("volumes", Val.map vols) ∈ top) (h2 : (name, Val.map kvs) ∈ vols)
    (hext : Val.lookup "external" kvs = some (.str s)) (hs : Interp.parseBool s = some true)
    (hk : (k, x) ∈ kvs) (hbad : externalAllowed k = false) :
    validate (.map top) ≠ .ok := by
  intro hok
  have hv := (validate_iff _).mp hok _ _ .volume
    (reaches_top (by decide) (by decide) (by decide) h1 h2) (by simp [firstMatch, table, pmatch])
  rcases hv with h | ⟨kvs', h, hx⟩
  · cases h
  · cases h
    rcases hx with h | ⟨y, h, hb⟩ | ⟨y, -, -, h⟩
    · rw [hext] at h; cases h
    · rw [hext] at h; cases h
      rw [asBoolean_str_eq_cast, hs] at hb; cases hb
    · have := h (k, x) hk
      rw [hbad] at this; cases this

/-- non-vacuity: the seed-shaped input (`external: yes` next to `driver`) is rejected as it stands and after the cast -/
example : validate (.map [("volumes", .map [("data", .map [("external", .str "yes"), ("driver", .str "nfs")])])])
    = .err .conflictingExternal := by decide
example : castTop (.map [("volumes", .map [("data", .map [("external", .str "yes"), ("driver", .str "nfs")])])])
    = .map [("volumes", .map [("data", .map [("external", .bool true), ("driver", .str "nfs")])])] := by rfl
example : asBoolean (.str "On") = some true ∧ asBoolean (.str "N") = some false ∧ asBoolean (.str "1") = none := by decide

end CV.Validate
