import ComposeVerif.Model.Pipeline
import ComposeVerif.Props.C08Tree
import ComposeVerif.Lemmas.C08Canonical
import ComposeVerif.Props.C04Whole
/-!
# C08 — the composed pipeline (round 6)

`Props/C08Tree.lean` stops at `Interpolate` / the loader step.  Here the same clauses are stated about the *composed*
function `Pipeline.load` (`Model/Pipeline.lean`: interpolate → extends → merge → unicity → schema → canonical → omitEmpty →
unicity per document, then defaults → validation → paths → environment → normalize), which the streams `pipeline.load` /
`pipeline.loadY` run against `loader.LoadModelWithContext`:

* what the interpolation stage may change (`interpStage_keys`, `interpStage_shape`, `interpStage_off`,
  `interpStage_dollar_free`, `interpStage_fixed`): keys and shape kept, only string leaves become scalars, and on a document
  without `$` the stage is exactly "cast the strings on the rows of the cast table" — the identity where no string lies on a row;
* the pipeline reads a document only through its interpolation stage (`load_congr`), hence
* **type transparency of the whole load** (`load_variable_eq_literal`): documents whose string leaves are supplied through
  well-formed templates evaluating to the literal texts load to *the same outcome* — model, failing stage or panic site —
  as the literal documents, for every option combination with interpolation on, every number of documents;
* the `$$` clause (`load_escaped_eq_literal`, `load_escaped_env_independent`);
* interpolation off ignores the interpolation options altogether (`load_off_ignores_interp_options`);
* interpolation on ≡ off (`load_on_eq_off`): for documents without `$` and without a string on a cast row the two loads can
  differ only through `transform.Canonical(dict, opts.SkipInterpolation)`, which is handed the same flag — stated through
  `loadG`, the same pipeline with that second use of the flag made a parameter (`load_eq_loadG`);
* on `load` itself (`load_on_ok_imp_off_ok`): such documents that load with interpolation on load with `SkipInterpolation`
  to the same model, because `Canonical`'s flag only forgives (`Lemmas/C08Canonical.canonical_mono`, over C03's model);
* the YAML-text entry `loadY` (`loadY_congr`, `loadY_variable_eq_literal`, `loadY_off_ignores_interp_options`): the same for
  files of `---` documents with `!reset` / `!override` tags, any split into files (uses `C04Whole.loadY_flatten`).
-/
namespace CV.Pipeline
open CV CV.Interp CV.TPath

/-! ## `Interpolate` on top-level documents (the `KVs` versions of the tree theorems) -/

/-- no `$` in any string value of the document -/
def DollarFree (kvs : List (String × Val)) : Prop := ∀ q s, (q, s) ∈ leavesKVs root kvs → '$' ∉ s.toList

/-- no string value of the document lies on a row of the cast table -/
def NoCastDoc (t : Table) (kvs : List (String × Val)) : Prop := ∀ q s, (q, s) ∈ leavesKVs root kvs → firstMatch t q = none

/-- the variable-bearing document `d'` of the literal document `d`: same keys, same shape, same non-string values; each
string leaf of `d'` is a well-formed template of the grammar evaluating (under `env`) to the leaf of `d` at the same path -/
def VariableDoc (env : CV.Template.Env) (d' d : List (String × Val)) : Prop :=
  LeafRelKVs (fun _ s t => IsTemplateOf env s t) root d' d

theorem variable_toplevel_is_literal (c : Interp.Cfg) (kvs' kvs : List (String × Val)) (h : VariableDoc c.env kvs' kvs) :
    interpolate c kvs' = castDocument c kvs := by
  unfold interpolate castDocument
  rw [interpKVs_eq_walk]
  refine walkKVs_congr (R := fun _ s t => IsTemplateOf c.env s t) ?_ kvs' kvs root h
  rintro q s t ⟨tm, hwf, rfl, he⟩
  have hs := CV.Template.subst_render c.env tm hwf
  simp only [CV.Template.evalOut, he] at hs
  rw [leaf_of_subst (by rw [String.toList_ofList]; exact hs), String.ofList_toList]

theorem dollar_free_toplevel_typed (c : Interp.Cfg) (kvs : List (String × Val)) (hd : DollarFree kvs) :
    interpolate c kvs = castDocument c kvs := by
  unfold interpolate castDocument
  rw [interpKVs_eq_walk]
  refine walkKVs_congr (R := fun _ s s' => s = s' ∧ '$' ∉ s.toList) ?_ kvs kvs root
    (leafRelKVs_self kvs root (fun q s hm => ⟨rfl, hd q s hm⟩))
  rintro q s s' ⟨rfl, h⟩
  rw [leaf_of_subst (CV.Template.subst_lit c.env _ (fun ch hc he => h (he ▸ hc))), String.ofList_toList]

/-- **the cast table is applied exactly at its rows**: with no string on a row, "nothing substituted" is the document -/
theorem castDocument_noCast (c : Interp.Cfg) (kvs : List (String × Val)) (h : NoCastDoc c.table kvs) :
    castDocument c kvs = .ok kvs := by
  have h1 := castTree_noCast c root (.map kvs) (by intro q s hm; exact h q s (by simpa only [leaves] using hm))
  unfold castTree at h1
  simp only [walk] at h1
  unfold castDocument
  split at h1 <;> first | (injection h1 with h1; injection h1 with h1; subst h1; assumption) | cases h1

/-! ## the interpolation stage of the pipeline -/

/-- the configuration with `SkipInterpolation := b` -/
def withSkip (b : Bool) (c : Cfg) : Cfg := { c with opts := { c.opts with skipInterpolation := b } }

/-- with `SkipInterpolation` the document is handed on as it is, whatever the cast table and the environment -/
theorem interpStage_off (c : Cfg) (h : c.opts.skipInterpolation = true) (cfg : Val.KVs) : interpStage c cfg = .ok cfg := by
  simp only [interpStage, h, if_true]

/-- on or off, the stage keeps the mapping keys of the document, in order -/
theorem interpStage_keys (c : Cfg) (cfg cfg' : Val.KVs) (h : interpStage c cfg = .ok cfg') :
    cfg'.map Prod.fst = cfg.map Prod.fst := by
  unfold interpStage at h
  split at h
  · cases h; rfl
  · cases hi : Interp.interpolate c.interp cfg with
    | ok r => rw [hi] at h; simp only [ofInterp] at h; cases h; exact sameShapeKVs_keys _ _ (interpKVs_shape c.interp cfg root _ hi)
    | err e => rw [hi] at h; simp only [ofInterp] at h; cases h
    | panic s => rw [hi] at h; simp only [ofInterp] at h; cases h

/-- **only string leaves change**: with interpolation on, the document handed on has the shape of the one read — same keys
in order at every level, same list lengths, null / bool / int / float identical, a string became a scalar -/
theorem interpStage_shape (c : Cfg) (hon : c.opts.skipInterpolation = false) (cfg cfg' : Val.KVs)
    (h : interpStage c cfg = .ok cfg') : SameShapeKVs cfg cfg' := by
  simp only [interpStage, hon, Bool.false_eq_true, if_false] at h
  cases hi : Interp.interpolate c.interp cfg with
  | ok r => rw [hi] at h; simp only [ofInterp] at h; cases h; exact interpKVs_shape c.interp cfg root _ hi
  | err e => rw [hi] at h; simp only [ofInterp] at h; cases h
  | panic s => rw [hi] at h; simp only [ofInterp] at h; cases h

/-- a document without `$`: the stage (on) is "cast the strings on the rows of the table", nothing else -/
theorem interpStage_dollar_free (c : Cfg) (hon : c.opts.skipInterpolation = false) (cfg : Val.KVs) (hd : DollarFree cfg) :
    interpStage c cfg = ofInterp (castDocument c.interp cfg) := by
  simp only [interpStage, hon, Bool.false_eq_true, if_false, dollar_free_toplevel_typed c.interp cfg hd]

/-- a variable-bearing document: the stage hands on what the literal document with nothing substituted is -/
theorem interpStage_variable (c : Cfg) (hon : c.opts.skipInterpolation = false) (cfg' cfg : Val.KVs)
    (h : VariableDoc c.interp.env cfg' cfg) : interpStage c cfg' = ofInterp (castDocument c.interp cfg) := by
  simp only [interpStage, hon, Bool.false_eq_true, if_false, variable_toplevel_is_literal c.interp cfg' cfg h]

/-- the escaped document (every `$` of a value written `$$`) -/
theorem interpStage_escaped (c : Cfg) (hon : c.opts.skipInterpolation = false) (cfg : Val.KVs) :
    interpStage c (escapeKVs cfg) = ofInterp (castDocument c.interp cfg) := by
  simp only [interpStage, hon, Bool.false_eq_true, if_false, escape_toplevel_typed]

/-- no `$`, no string on a cast row: the stage is the identity, on or off -/
theorem interpStage_fixed (c : Cfg) (cfg : Val.KVs) (hd : DollarFree cfg) (hn : NoCastDoc c.interp.table cfg) :
    interpStage c cfg = .ok cfg := by
  cases hs : c.opts.skipInterpolation with
  | true => exact interpStage_off c hs cfg
  | false => rw [interpStage_dollar_free c hs cfg hd, castDocument_noCast c.interp cfg hn]; rfl

/-! ## the pipeline reads a document only through its interpolation stage -/

/-- two lists of documents related one by one (same number of documents) -/
inductive DocsRel (R : Val.KVs → Val.KVs → Prop) : List Val.KVs → List Val.KVs → Prop where
  | nil : DocsRel R [] []
  | cons {d d' : Val.KVs} {r r' : List Val.KVs} : R d d' → DocsRel R r r' → DocsRel R (d :: r) (d' :: r')

theorem processDoc_congr (c : Cfg) (dict : Val) (cfg cfg' : Val.KVs) (h : interpStage c cfg = interpStage c cfg') :
    processDoc c dict cfg = processDoc c dict cfg' := by
  unfold processDoc; rw [h]

theorem processDocs_congr (c : Cfg) : ∀ (docs docs' : List Val.KVs) (dict : Val),
    DocsRel (fun d d' => interpStage c d = interpStage c d') docs docs' →
    processDocs c dict docs = processDocs c dict docs'
  | _, _, _, .nil => rfl
  | d :: r, d' :: r', dict, .cons hd hr => by
    simp only [processDocs, processDoc_congr c dict d d' hd]
    cases processDoc c dict d' with
    | ok dict' => exact processDocs_congr c r r' dict' hr
    | err e => rfl
    | panic s => rfl

/-- documents that the interpolation stage maps to the same outcome, one by one, load to the same outcome -/
theorem load_congr (c : Cfg) (docs docs' : List Val.KVs)
    (h : DocsRel (fun d d' => interpStage c d = interpStage c d') docs docs') : load c docs = load c docs' := by
  have he : docs.isEmpty = docs'.isEmpty := by cases h <;> rfl
  simp only [load, loadYamlModel, he, processDocs_congr c docs docs' (.map []) h]

/-! ## the property's clauses about the whole load -/

/-- **type transparency of the whole load**: every document's string leaves supplied through any well-formed templates of
the grammar (`${V}`, `$V`, `${UNSET:-lit}`, `pre${V}post`, nested, with tails …) that evaluate to the literal texts — the
load has the outcome of the load of the literal documents: the same model, or failure at the same stage, or the same panic
site.  Every option combination with interpolation on, any number of documents, any cast table and float reader. -/
theorem load_variable_eq_literal (c : Cfg) (hon : c.opts.skipInterpolation = false) (docs' docs : List Val.KVs)
    (h : DocsRel (fun d' d => VariableDoc c.interp.env d' d ∧ DollarFree d) docs' docs) :
    load c docs' = load c docs := by
  apply load_congr
  induction h with
  | nil => exact .nil
  | cons hd _ ih =>
    exact .cons (by rw [interpStage_variable c hon _ _ hd.1, interpStage_dollar_free c hon _ hd.2]) ih

/-- the `$$` clause, interpolation on on both sides: a document without `$` and the same document escaped are the same -/
theorem load_escaped_eq_literal (c : Cfg) (hon : c.opts.skipInterpolation = false) (docs : List Val.KVs)
    (h : ∀ d ∈ docs, DollarFree d) : load c (docs.map escapeKVs) = load c docs := by
  apply load_congr
  induction docs with
  | nil => exact .nil
  | cons d r ih =>
    refine .cons ?_ (ih (fun d hd => h d (List.mem_cons_of_mem _ hd)))
    rw [interpStage_escaped c hon, interpStage_dollar_free c hon d (h d (List.mem_cons_self ..))]

/-- the configuration with another lookup function for interpolation (`Options.Interpolate.LookupValue`) -/
def withInterpEnv (env : CV.Template.Env) (c : Cfg) : Cfg := { c with interp := { c.interp with env := env } }

theorem castDocument_env (c : Interp.Cfg) (env : CV.Template.Env) (kvs : Val.KVs) :
    castDocument { c with env := env } kvs = castDocument c kvs := by
  unfold castDocument
  exact walkKVs_congr (R := fun _ s s' => s = s') (fun q s s' h => by subst h; simp only [castOnly]) kvs kvs root
    (leafRelKVs_self kvs root (fun _ _ _ => rfl))

theorem processDocs_escaped_env (c : Cfg) (hon : c.opts.skipInterpolation = false) (env : CV.Template.Env) :
    ∀ (docs : List Val.KVs) (dict : Val),
    processDocs (withInterpEnv env c) dict (docs.map escapeKVs) = processDocs c dict (docs.map escapeKVs)
  | [], _ => rfl
  | d :: r, dict => by
    have h1 : processDoc (withInterpEnv env c) dict (escapeKVs d) = processDoc c dict (escapeKVs d) := by
      have e1 := interpStage_escaped (withInterpEnv env c) hon d
      have e2 := interpStage_escaped c hon d
      simp only [withInterpEnv, castDocument_env] at e1
      unfold processDoc
      rw [e2]
      show (interpStage (withInterpEnv env c) (escapeKVs d)).bind _ = _
      simp only [withInterpEnv]; rw [e1]; rfl
    simp only [List.map, processDocs, h1]
    cases processDoc c dict (escapeKVs d) with
    | ok dict' => exact processDocs_escaped_env c hon env r dict'
    | err e => rfl
    | panic s => rfl

/-- the escaped documents load to the same outcome under every environment handed to interpolation -/
theorem load_escaped_env_independent (c : Cfg) (hon : c.opts.skipInterpolation = false) (env : CV.Template.Env)
    (docs : List Val.KVs) : load (withInterpEnv env c) (docs.map escapeKVs) = load c (docs.map escapeKVs) := by
  simp only [load, loadYamlModel, processDocs_escaped_env c hon env docs]
  rfl

/-- the configuration with other interpolation options (cast table, float reader, lookup) -/
def withInterp (i : Interp.Cfg) (c : Cfg) : Cfg := { c with interp := i }

theorem processDocs_off_interp (c : Cfg) (hoff : c.opts.skipInterpolation = true) (i : Interp.Cfg) :
    ∀ (docs : List Val.KVs) (dict : Val), processDocs (withInterp i c) dict docs = processDocs c dict docs
  | [], _ => rfl
  | d :: r, dict => by
    have h1 : processDoc (withInterp i c) dict d = processDoc c dict d := by
      unfold processDoc
      rw [interpStage_off c hoff, interpStage_off (withInterp i c) hoff]
      rfl
    simp only [processDocs, h1]
    cases processDoc c dict d with
    | ok dict' => exact processDocs_off_interp c hoff i r dict'
    | err e => rfl
    | panic s => rfl

/-- **interpolation off**: the load does not depend on the interpolation options at all (no cast, no lookup) -/
theorem load_off_ignores_interp_options (c : Cfg) (hoff : c.opts.skipInterpolation = true) (i : Interp.Cfg)
    (docs : List Val.KVs) : load (withInterp i c) docs = load c docs := by
  simp only [load, loadYamlModel, processDocs_off_interp c hoff i docs]
  rfl

/-! ## interpolation on ≡ off

`opts.SkipInterpolation` is read twice by the glue: by the interpolation stage and as the `ignoreParseError` argument of
`transform.Canonical`.  `loadG ign` is `load` with the second use made a parameter. -/

def mergeStagesG (ign : Bool) (c : Cfg) (dict : Val) (cfg : Val.KVs) : Out Val :=
  (ofMerge "merge" (Merge.merge dict (.map cfg))).bind fun dict =>
  (ofMerge "unicity" (Unicity.enforceTop dict)).bind fun dict =>
  (schemaStage c.opts dict).bind fun dict =>
  (ofShort (Short.canonical ign dict)).bind fun dict =>
  (omitEmpty c.omitPats dict).bind fun dict =>
  ofMerge "unicity2" (Unicity.enforceTop dict)

def processDocG (ign : Bool) (c : Cfg) (dict : Val) (cfg : Val.KVs) : Out Val :=
  (interpStage c cfg).bind fun cfg => (extendsStage c cfg).bind (mergeStagesG ign c dict)

def processDocsG (ign : Bool) (c : Cfg) : Val → List Val.KVs → Out Val
  | dict, [] => .ok dict
  | dict, d :: r =>
    match processDocG ign c dict d with
    | .ok dict' => processDocsG ign c dict' r
    | .err e => .err e
    | .panic s => .panic s

def loadG (ign : Bool) (c : Cfg) (docs : List Val.KVs) : Out Val.KVs :=
  if docs.isEmpty then .err "nofiles"
  else ((processDocsG ign c (.map []) docs).bind (finishModel c)).bind (finishLoad c)

theorem processDocs_eq_G (c : Cfg) : ∀ (docs : List Val.KVs) (dict : Val),
    processDocs c dict docs = processDocsG c.opts.skipInterpolation c dict docs
  | [], _ => rfl
  | d :: r, dict => by
    have h1 : processDoc c dict d = processDocG c.opts.skipInterpolation c dict d := rfl
    simp only [processDocs, processDocsG, h1]
    cases processDocG c.opts.skipInterpolation c dict d with
    | ok dict' => exact processDocs_eq_G c r dict'
    | err e => rfl
    | panic s => rfl

/-- `load` is `loadG` at the flag: the flag enters the pipeline at the interpolation stage and at `Canonical`, nowhere else -/
theorem load_eq_loadG (c : Cfg) (docs : List Val.KVs) : load c docs = loadG c.opts.skipInterpolation c docs := by
  simp only [load, loadG, loadYamlModel, processDocs_eq_G c docs]

theorem processDocsG_on_off (ign : Bool) (c : Cfg) : ∀ (docs : List Val.KVs) (dict : Val),
    (∀ d ∈ docs, DollarFree d ∧ NoCastDoc c.interp.table d) →
    processDocsG ign (withSkip false c) dict docs = processDocsG ign (withSkip true c) dict docs
  | [], _, _ => rfl
  | d :: r, dict, h => by
    have hd := h d (List.mem_cons_self ..)
    have h1 : processDocG ign (withSkip false c) dict d = processDocG ign (withSkip true c) dict d := by
      unfold processDocG
      rw [interpStage_fixed (withSkip false c) d hd.1 hd.2, interpStage_fixed (withSkip true c) d hd.1 hd.2]
      rfl
    simp only [processDocsG, h1]
    cases processDocG ign (withSkip true c) dict d with
    | ok dict' => exact processDocsG_on_off ign c r dict' (fun d hd => h d (List.mem_cons_of_mem _ hd))
    | err e => rfl
    | panic s => rfl

/-- **interpolation on ≡ off on the whole pipeline**: documents without `$` in their values and without a string on a row of
the cast table load to the same outcome with interpolation on and off, `Canonical` being handed the same flag: the
interpolation stage contributes nothing, and `load (withSkip b c) = loadG b (withSkip b c)` (`load_eq_loadG`) -/
theorem load_on_eq_off (ign : Bool) (c : Cfg) (docs : List Val.KVs)
    (h : ∀ d ∈ docs, DollarFree d ∧ NoCastDoc c.interp.table d) :
    loadG ign (withSkip false c) docs = loadG ign (withSkip true c) docs := by
  simp only [loadG, processDocsG_on_off ign c docs (.map []) h]
  rfl


/-! ### on loads ⇒ off loads the same model (the flag of `Canonical` only forgives: `Lemmas/C08Canonical.lean`) -/

theorem Out.bind_ok {α β : Type} (o : Out α) (f : α → Out β) (b : β) (h : o.bind f = .ok b) :
    ∃ a, o = .ok a ∧ f a = .ok b := by
  cases o with
  | ok a => exact ⟨a, rfl, h⟩
  | err e => simp [Out.bind] at h
  | panic e => simp [Out.bind] at h

theorem mergeStagesG_mono (c : Cfg) (dict : Val) (cfg : Val.KVs) (r : Val)
    (h : mergeStagesG false c dict cfg = .ok r) : mergeStagesG true c dict cfg = .ok r := by
  unfold mergeStagesG at h ⊢
  obtain ⟨d1, h1, h⟩ := Out.bind_ok _ _ _ h
  obtain ⟨d2, h2, h⟩ := Out.bind_ok _ _ _ h
  obtain ⟨d3, h3, h⟩ := Out.bind_ok _ _ _ h
  obtain ⟨d4, h4, h⟩ := Out.bind_ok _ _ _ h
  have h4' : Short.canonical false d3 = .ok d4 := by
    cases hc : Short.canonical false d3 with
    | ok x => rw [hc] at h4; simp only [ofShort, Out.ok.injEq] at h4; rw [h4]
    | err e => rw [hc] at h4; simp [ofShort] at h4
    | panic e => rw [hc] at h4; simp [ofShort] at h4
  rw [h1]; simp only [Out.bind]
  rw [h2]; simp only [Out.bind]
  rw [h3]; simp only [Out.bind]
  rw [Short.canonical_mono d3 d4 h4']; simp only [ofShort, Out.bind]
  exact h

theorem processDocG_mono (c : Cfg) (dict : Val) (cfg : Val.KVs) (r : Val)
    (h : processDocG false c dict cfg = .ok r) : processDocG true c dict cfg = .ok r := by
  unfold processDocG at h ⊢
  obtain ⟨d1, h1, h⟩ := Out.bind_ok _ _ _ h
  obtain ⟨d2, h2, h⟩ := Out.bind_ok _ _ _ h
  rw [h1]; simp only [Out.bind]
  rw [h2]; simp only [Out.bind]
  exact mergeStagesG_mono c dict d2 r h

theorem processDocsG_mono (c : Cfg) : ∀ (docs : List Val.KVs) (dict r : Val),
    processDocsG false c dict docs = .ok r → processDocsG true c dict docs = .ok r
  | [], _, _, h => h
  | d :: rest, dict, r, h => by
    simp only [processDocsG] at h ⊢
    cases hp : processDocG false c dict d with
    | ok dict' =>
      rw [hp] at h
      rw [processDocG_mono c dict d dict' hp]
      exact processDocsG_mono c rest dict' r h
    | err e => rw [hp] at h; cases h
    | panic e => rw [hp] at h; cases h

theorem loadG_mono (c : Cfg) (docs : List Val.KVs) (m : Val.KVs) (h : loadG false c docs = .ok m) :
    loadG true c docs = .ok m := by
  unfold loadG at h ⊢
  split at h
  · cases h
  · rename_i hne
    simp only [hne, if_false, Bool.false_eq_true]
    obtain ⟨d1, h1, h⟩ := Out.bind_ok _ _ _ h
    obtain ⟨d0, h0, h1⟩ := Out.bind_ok _ _ _ h1
    rw [processDocsG_mono c docs _ d0 h0]; simp only [Out.bind]
    rw [h1]; simp only [Out.bind]
    exact h

/-- **interpolation on ⇒ off, on `load` itself**: documents without `$` and without a string on a cast row that load with
interpolation on load with `SkipInterpolation` to the same model.  (The converse — the direction "whenever the latter
loads" of the property's `$$` clause — needs in addition that `Canonical` meets no short form it cannot parse: with
`SkipInterpolation` such a string is kept, with interpolation on it is the error of stage `canonical`.) -/
theorem load_on_ok_imp_off_ok (c : Cfg) (docs : List Val.KVs) (m : Val.KVs)
    (h : ∀ d ∈ docs, DollarFree d ∧ NoCastDoc c.interp.table d)
    (hon : load (withSkip false c) docs = .ok m) : load (withSkip true c) docs = .ok m := by
  have e1 : load (withSkip false c) docs = loadG false (withSkip false c) docs := load_eq_loadG (withSkip false c) docs
  have e2 : load (withSkip true c) docs = loadG true (withSkip true c) docs := load_eq_loadG (withSkip true c) docs
  rw [e2, ← load_on_eq_off true c docs h]
  exact loadG_mono (withSkip false c) docs m (e1 ▸ hon)


/-! ## the YAML-text entry point `loadY` (files = lists of `---` documents, `!reset` / `!override` tags)

`processNode` reads a document node with C04's `Reset.readDoc` (tree without its `!reset` nodes + the recorded paths),
interpolates the tree, applies the recorded paths to the model built so far and merges. -/

/-- two document nodes that record the same reset paths and whose trees the interpolation stage maps to the same outcome -/
def NodeRel (c : Cfg) (n n' : Reset.YNode) : Prop :=
  ∃ cfg cfg' paths, Reset.readDoc n = (.map cfg, paths) ∧ Reset.readDoc n' = (.map cfg', paths) ∧
    interpStage c cfg = interpStage c cfg'

theorem processNode_congr (c : Cfg) (dict : Val) (n n' : Reset.YNode) (h : NodeRel c n n') :
    processNode c dict n = processNode c dict n' := by
  obtain ⟨cfg, cfg', paths, h1, h2, hi⟩ := h
  simp only [processNode, h1, h2, hi]

/-- two lists of document nodes related one by one -/
inductive NodesRel (R : Reset.YNode → Reset.YNode → Prop) : List Reset.YNode → List Reset.YNode → Prop where
  | nil : NodesRel R [] []
  | cons {n n' : Reset.YNode} {r r' : List Reset.YNode} : R n n' → NodesRel R r r' → NodesRel R (n :: r) (n' :: r')

theorem NodesRel.mono {R S : Reset.YNode → Reset.YNode → Prop} (hRS : ∀ a b, R a b → S a b) :
    ∀ {l l' : List Reset.YNode}, NodesRel R l l' → NodesRel S l l'
  | _, _, .nil => .nil
  | _, _, .cons h r => .cons (hRS _ _ h) (NodesRel.mono hRS r)

theorem processNodes_congr (c : Cfg) : ∀ (ns ns' : List Reset.YNode) (dict : Val), NodesRel (NodeRel c) ns ns' →
    processNodes c dict ns = processNodes c dict ns'
  | _, _, _, .nil => rfl
  | n :: r, n' :: r', dict, .cons hn hr => by
    simp only [processNodes, processNode_congr c dict n n' hn]
    cases processNode c dict n' with
    | ok dict' => exact processNodes_congr c r r' dict' hr
    | err e => rfl
    | panic s => rfl

/-- **`loadY` reads a document only through `readDoc` and the interpolation stage**: two non-empty file lists whose
documents (in order, whatever the split into files: `C04Whole.loadY_flatten`) are related node by node load alike -/
theorem loadY_congr (c : Cfg) (files files' : List (List Reset.YNode)) (hne : files ≠ []) (hne' : files' ≠ [])
    (h : NodesRel (NodeRel c) files.flatten files'.flatten) : loadY c files = loadY c files' := by
  rw [CV.C04.Whole.loadY_flatten c files hne, CV.C04.Whole.loadY_flatten c files' hne']
  simp only [loadY, loadYamlModelY, processFiles, List.isEmpty_cons, Bool.false_eq_true, if_false,
    processNodes_congr c _ _ (.map []) h]

/-- node-wise: the same recorded `!reset` paths, and the tree of `n'` is a variable-bearing version of the `$`-free tree of `n` -/
def VariableNode (c : Cfg) (n' n : Reset.YNode) : Prop :=
  ∃ cfg' cfg paths, Reset.readDoc n' = (.map cfg', paths) ∧ Reset.readDoc n = (.map cfg, paths) ∧
    VariableDoc c.interp.env cfg' cfg ∧ DollarFree cfg

/-- **type transparency through the YAML-text entry** (`!reset` / `!override` documents included, any split into files):
variable-bearing files load to the outcome of the literal files -/
theorem loadY_variable_eq_literal (c : Cfg) (hon : c.opts.skipInterpolation = false)
    (files' files : List (List Reset.YNode)) (hne' : files' ≠ []) (hne : files ≠ [])
    (h : NodesRel (VariableNode c) files'.flatten files.flatten) : loadY c files' = loadY c files := by
  refine loadY_congr c files' files hne' hne (h.mono ?_)
  rintro a b ⟨cfg', cfg, paths, h1, h2, hv, hd⟩
  exact ⟨cfg', cfg, paths, h1, h2, by rw [interpStage_variable c hon _ _ hv, interpStage_dollar_free c hon _ hd]⟩

/-- non-vacuity of `VariableNode`, in general: every pair of trees related by `VariableDoc`, written out as (untagged) YAML
document nodes, is related by `VariableNode` — so `loadY_variable_eq_literal` covers at least everything
`load_variable_eq_literal` covers, and documents with `!reset` nodes besides -/
theorem variableNode_of_trees (c : Cfg) (d' d : Val.KVs) (hv : VariableDoc c.interp.env d' d) (hd : DollarFree d) :
    VariableNode c (nodeOf (.map d')) (nodeOf (.map d)) := by
  have h' := nodeOf_spec (.map d')
  have h := nodeOf_spec (.map d)
  exact ⟨d', d, [], by rw [readDoc_untagged _ h'.1, h'.2], by rw [readDoc_untagged _ h.1, h.2], hv, hd⟩

/-- with `SkipInterpolation`, `loadY` ignores the interpolation options as well -/
theorem loadY_off_ignores_interp_options (c : Cfg) (hoff : c.opts.skipInterpolation = true) (i : Interp.Cfg)
    (files : List (List Reset.YNode)) : loadY (withInterp i c) files = loadY c files := by
  have hn : ∀ (dict : Val) (n : Reset.YNode), processNode (withInterp i c) dict n = processNode c dict n := by
    intro dict n
    unfold processNode
    split
    · rw [interpStage_off c hoff, interpStage_off (withInterp i c) hoff]; rfl
    · rfl
  have hns : ∀ (ns : List Reset.YNode) (dict : Val), processNodes (withInterp i c) dict ns = processNodes c dict ns := by
    intro ns
    induction ns with
    | nil => intro _; rfl
    | cons n r ih =>
      intro dict
      simp only [processNodes, hn]
      cases processNode c dict n with
      | ok d => exact ih d
      | err e => rfl
      | panic s => rfl
  have hfs : ∀ (fs : List (List Reset.YNode)) (dict : Val), processFiles (withInterp i c) dict fs = processFiles c dict fs := by
    intro fs
    induction fs with
    | nil => intro _; rfl
    | cons f r ih =>
      intro dict
      simp only [processFiles, hns]
      cases processNodes c dict f with
      | ok d => exact ih d
      | err e => rfl
      | panic s => rfl
  simp only [loadY, loadYamlModelY, hfs]
  rfl

/-! ## non-vacuity -/

private def cfgW : Interp.Cfg :=
  { table := [(["services", "*", "init"], "toBoolean"), (["services", "*", "scale"], "toInt")],
    fp := { f64 := fun _ => none, f32 := fun _ => none },
    env := fun k => if k = ['V'] then some ['y', 'e', 's'] else none }

/-- a variable-bearing document and its literal: `init: ${V}` with V=yes / `init: yes`; the literal is `$`-free -/
example : VariableDoc cfgW.env [("services", .map [("a", .map [("init", .str "${V}"), ("image", .str "i")])])]
      [("services", .map [("a", .map [("init", .str "yes"), ("image", .str "i")])])] ∧
    DollarFree [("services", .map [("a", .map [("init", .str "yes"), ("image", .str "i")])])] := by
  refine ⟨?_, ?_⟩
  · simp only [VariableDoc, LeafRelKVs, LeafRel]
    refine ⟨_, _, rfl, ⟨_, rfl, _, _, rfl, ⟨_, rfl, _, _, rfl, ⟨_, rfl, ?_⟩, _, _, rfl, ⟨_, rfl, ?_⟩, rfl⟩, rfl⟩, rfl⟩
    · exact isTemplateOf_var cfgW.env ['V'] "yes" (by decide) (by decide)
    · exact isTemplateOf_literal cfgW.env "i" (by decide)
  · intro q s hm
    simp only [leavesKVs, leaves, List.append_nil, List.mem_cons, List.mem_nil_iff, or_false, List.cons_append,
      List.nil_append, Prod.mk.injEq] at hm
    rcases hm with ⟨_, rfl⟩ | ⟨_, rfl⟩ <;> decide

/-- `NoCastDoc` holds e.g. for every document under the empty table; `DollarFree` for a document with a plain string -/
example : NoCastDoc [] [("services", .map [("a", .map [("image", .str "i")])])] := fun _ _ _ => rfl

example : DollarFree [("services", .map [("a", .map [("image", .str "i")])])] := by
  intro q s hm
  simp only [leavesKVs, leaves, List.append_nil, List.mem_cons, List.mem_nil_iff, or_false, Prod.mk.injEq] at hm
  obtain ⟨_, rfl⟩ := hm
  decide

end CV.Pipeline
