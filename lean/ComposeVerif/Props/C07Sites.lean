import ComposeVerif.Props.C07
import ComposeVerif.Lemmas.TemplateSites
import ComposeVerif.Gen.C07Sites
/-!
# C07 — the mapping the loader hands to `Substitute` at each of its call sites (round 5)

The property is observed at "string values in a project loaded from a document using the template".  Inside a load
`template.Substitute` is reached through `interp.Interpolate` from three places (the model of a compose file, the
project name, the model of an included file); what it sees is `ConfigDetails.LookupEnv` over the project
environment, and for an included file over `environment.Clone().Merge(envFromFile)`.  The grammar's variable
states {set non-empty, set empty, unset} only mean something if this glue keeps them apart.  The theorems say what
mapping each site uses — *the first layer that sets the variable wins, and set-to-empty is set* — and transfer the
refinement theorem to it.  The real glue is tied by the `substSite` oracle (`harness/p/c07/c07_sites.go`), which asks
the Lean model below (`siteSubst` / `layered`) for the expected value of every load.
-/
namespace CV.Template.Sites
open CV.Template

/-- the glue the model was written against is the glue in the source now -/
theorem loader_glue_is_modelled :
    CV.Gen.c07_LookupEnv =
      ["v, ok := cd.Environment[key]",
       "if !isCaseInsensitiveEnvVars || ok { return v, ok }",
       "lowerKey := strings.ToLower(key)",
       "for k, v := range cd.Environment { if strings.ToLower(k) == lowerKey { return v, true } }",
       "return \"\", false"] ∧
    CV.Gen.c07_isCaseInsensitiveEnvVars = "(runtime.GOOS == \"windows\")" ∧
    CV.Gen.c07_Mapping_Merge =
      ("Mapping func(o Mapping) Mapping",
       ["for k, v := range o { if _, set := m[k]; !set { m[k] = v } }", "return m"]) ∧
    CV.Gen.c07_GetEnvFromFile_lookup =
      ["v, ok := currentEnv[k]", "if ok { return v, true }", "v, ok = envMap[k]", "return v, ok"] ∧
    CV.Gen.c07_toOptions =
      "opts := &Options{ Interpolate: &interp.Options{ Substitute: template.Substitute, LookupValue: configDetails.LookupEnv, TypeCastMapping: interpolateTypeCastMapping, }, ResolvePaths: true, }" ∧
    CV.Gen.c07_include_env =
      ["loadOptions := options.clone()",
       "envFromFile, err := dotenv.GetEnvFromFile(environment, r.EnvFile)",
       "config := types.ConfigDetails{ WorkingDir: relworkingdir, ConfigFiles: types.ToConfigFiles(r.Path), Environment: environment.Clone().Merge(envFromFile), }",
       "loadOptions.Interpolate = &interp.Options{ Substitute: options.Interpolate.Substitute, LookupValue: config.LookupEnv, TypeCastMapping: options.Interpolate.TypeCastMapping, }",
       "workingDir, environment := config.WorkingDir, config.Environment",
       "loadYamlFile(ctx, file, opts, workingDir, environment, ct, dict, included)",
       "ApplyInclude(ctx, workingDir, environment, cfg, opts, included)"] ∧
    CV.Gen.c07_loader_interpolate_calls =
      ["loader.go: interp.Interpolate(cfg, *opts.Interpolate)",
       "loader.go: interp.Interpolate( map[string]interface{}{\"name\": pjNameFromConfigFile}, *opts.Interpolate, )"] ∧
    CV.Gen.c07_loader_skip_interpolation =
      ["loader.go: if opts.Interpolate != nil && !opts.SkipInterpolation",
       "loader.go: if !opts.SkipInterpolation"] :=
  ⟨rfl, rfl, rfl, rfl, rfl, rfl, rfl, rfl⟩

/-- `Mapping.Merge`: a key set in the receiver keeps its value (also the empty one); the argument only fills keys the
    receiver does not set -/
theorem merge_lookup (m o : GoMap) (k : Str) :
    lookupEnv (merge m o) k = match lookupEnv m k with | some v => some v | none => lookupEnv o k :=
  mlookup_merge m o k

/-- the lookup of an included file (any nesting depth of `include`): the project environment first, then the env file
    of the outermost include entry, … — the first layer that sets the variable decides -/
theorem include_lookup_is_layered (environment : GoMap) (envFiles : List GoMap) :
    lookupEnv (includeChain environment envFiles) = layered (environment :: envFiles) := by
  funext k; exact lookup_includeChain environment envFiles k

/-- a variable the project environment sets — to any value, the empty string included — is seen with that value in
    every included file, whatever the env files say -/
theorem include_parent_wins (environment : GoMap) (envFiles : List GoMap) (k v : Str)
    (h : mlookup environment k = some v) :
    lookupEnv (includeChain environment envFiles) k = some v := by
  rw [include_lookup_is_layered]; simp [layered, h]

/-- a variable no layer sets is unset in the included file -/
theorem include_unset_everywhere (environment : GoMap) (envFiles : List GoMap) (k : Str)
    (h : mlookup environment k = none) (hf : ∀ f ∈ envFiles, mlookup f k = none) :
    lookupEnv (includeChain environment envFiles) k = none := by
  rw [include_lookup_is_layered]
  simp only [layered, h]
  induction envFiles with
  | nil => rfl
  | cons f r ih =>
    simp only [layered, hf f (List.mem_cons_self)]
    exact ih (fun g hg => hf g (List.mem_cons_of_mem _ hg))

/-- **refinement at every call site**: a well-formed template in a string value of a compose file (no env files) or of
    an included file (env files of the enclosing include entries, outermost first) evaluates by the grammar in the
    layered environment -/
theorem site_render (environment : GoMap) (envFiles : List GoMap) (t : List Seg) (h : WF t = true) :
    siteSubst environment envFiles (renderL t) = evalOut (layered (environment :: envFiles)) t := by
  unfold siteSubst
  rw [subst_render _ t h, include_lookup_is_layered]

/-- no call site can panic, whatever the environment, the env files and the string -/
theorem site_never_panics (environment : GoMap) (envFiles : List GoMap) (s : Str) (p : PanicSite) :
    siteSubst environment envFiles s ≠ .panic p :=
  subst_never_panics _ s p

/-- **set-but-empty in the project environment is set inside an included file**, also when the include's env file
    gives the variable a value: `${n-d}` is empty, `${n+r}` is `r`, `${n?e}` is empty (no error), `${n:-d}` is `d` -/
theorem include_set_empty_is_set (environment : GoMap) (envFiles : List GoMap) (n : Str) (arg : List Seg) (d : Str)
    (hn : validName n = true) (harg : wfL true arg = true) (hl : mlookup environment n = some [])
    (hd : evalOut (layered (environment :: envFiles)) arg = .ok d) :
    siteSubst environment envFiles (Seg.op n .dash arg).render = .ok [] ∧
    siteSubst environment envFiles (Seg.op n .plus arg).render = .ok d ∧
    siteSubst environment envFiles (Seg.op n .q arg).render = .ok [] ∧
    siteSubst environment envFiles (Seg.op n .colonDash arg).render = .ok d := by
  have hv := include_parent_wins environment envFiles n [] hl
  have hd' : evalOut (lookupEnv (includeChain environment envFiles)) arg = .ok d := by
    rw [include_lookup_is_layered]; exact hd
  obtain ⟨h1, _, _, h4, _, _, h7, _, _, _, _, h12⟩ :=
    subst_op_table (lookupEnv (includeChain environment envFiles)) n arg d hn harg hd'
  unfold siteSubst
  exact ⟨h4 [] hv, h7 [] hv, h12 [] hv, h1 (Or.inr hv)⟩

/-- a variable only the env file of the include entry sets is *set* in the included file (to the file's value, the
    empty one included) and unset in the including file -/
theorem include_env_file_fills_unset (environment f : GoMap) (n v : Str) (arg : List Seg) (d : Str)
    (hn : validName n = true) (harg : wfL true arg = true)
    (hl : mlookup environment n = none) (hf : mlookup f n = some v)
    (hd : evalOut (layered [environment, f]) arg = .ok d) (hd0 : evalOut (layered [environment]) arg = .ok d) :
    siteSubst environment [f] (Seg.op n .dash arg).render = .ok v ∧
    siteSubst environment [f] (Seg.op n .plus arg).render = .ok d ∧
    siteSubst environment [] (Seg.op n .dash arg).render = .ok d ∧
    siteSubst environment [] (Seg.op n .plus arg).render = .ok [] := by
  have hv : lookupEnv (includeChain environment [f]) n = some v := by
    rw [include_lookup_is_layered]; simp [layered, hl, hf]
  have hv0 : lookupEnv (includeChain environment []) n = none := by
    rw [include_lookup_is_layered]; simp [layered, hl]
  have hd' : evalOut (lookupEnv (includeChain environment [f])) arg = .ok d := by
    rw [include_lookup_is_layered]; exact hd
  have hd0' : evalOut (lookupEnv (includeChain environment [])) arg = .ok d := by
    rw [include_lookup_is_layered]; exact hd0
  obtain ⟨_, _, _, h4, _, _, h7, _, _, _, _, _⟩ :=
    subst_op_table (lookupEnv (includeChain environment [f])) n arg d hn harg hd'
  obtain ⟨_, _, g3, _, _, _, _, g8, _, _, _, _⟩ :=
    subst_op_table (lookupEnv (includeChain environment [])) n arg d hn harg hd0'
  unfold siteSubst
  exact ⟨h4 v hv, h7 v hv, g3 hv0, g8 hv0⟩

/-- the lookup closure of `dotenv.GetEnvFromFile` is the same two-layer lookup: a variable of the current environment
    shadows the same variable of an env file read earlier, also when its value is empty -/
theorem envFileLookup_is_layered (currentEnv envMap : GoMap) :
    envFileLookup currentEnv envMap = layered [currentEnv, envMap] := by
  funext k
  simp only [envFileLookup, layered]
  cases mlookup currentEnv k with
  | some v => rfl
  | none => cases mlookup envMap k <;> rfl

/-! non-vacuity: `A` set to the empty string in the project environment, `A=w` in the include's env file -/
example : siteSubst [(['A'], [])] [[(['A'], ['w'])]] (Seg.op ['A'] .dash [.lit ['d']]).render = .ok [] :=
  (include_set_empty_is_set [(['A'], [])] [[(['A'], ['w'])]] ['A'] [.lit ['d']] ['d'] (by decide) (by decide) (by decide)
    (by decide)).1

example : siteSubst [] [[(['A'], ['w'])]] (Seg.op ['A'] .dash [.lit ['d']]).render = .ok ['w'] ∧
    siteSubst [] [] (Seg.op ['A'] .dash [.lit ['d']]).render = .ok ['d'] :=
  have h := include_env_file_fills_unset [] [(['A'], ['w'])] ['A'] ['w'] [.lit ['d']] ['d'] (by decide) (by decide)
    (by decide) (by decide) (by decide) (by decide)
  ⟨h.1, h.2.2.1⟩

end CV.Template.Sites

namespace CV.Template.Sites
open CV.Template

/-! ## interpolated values inside the include's env file -/

/-- one line `KEY="<well-formed template>"` of the env file: its value is the grammar's meaning in the environment
    "project environment first, lines so far second"; an error of the template is the error of the file -/
theorem envFile_line_render (environment : GoMap) (k : Str) (t : List Seg) (r : List (Str × Str)) (acc : GoMap)
    (h : WF t = true) :
    envFileValues environment ((k, renderL t) :: r) acc =
      match evalOut (layered [environment, acc]) t with
      | .ok v => envFileValues environment r ((k, v) :: acc)
      | o => .fail o := by
  simp only [envFileValues, subst_render _ t h]
  cases evalOut (layered [environment, acc]) t <;> rfl

/-- **set-but-empty in the project environment is set inside the env file too**: the line `X="${n-d}"` gives `X` the
    empty value, `X="${n+r}"` gives it `r`, `X="${n?e}"` does not fail — whatever the earlier lines say about `n` -/
theorem envFile_set_empty_is_set (environment acc : GoMap) (x n : Str) (arg : List Seg) (d : Str)
    (rest : List (Str × Str))
    (hn : validName n = true) (harg : wfL true arg = true) (hl : mlookup environment n = some [])
    (hd : evalOut (layered [environment, acc]) arg = .ok d) :
    envFileValues environment ((x, (Seg.op n .dash arg).render) :: rest) acc =
      envFileValues environment rest ((x, []) :: acc) ∧
    envFileValues environment ((x, (Seg.op n .plus arg).render) :: rest) acc =
      envFileValues environment rest ((x, d) :: acc) ∧
    envFileValues environment ((x, (Seg.op n .q arg).render) :: rest) acc =
      envFileValues environment rest ((x, []) :: acc) := by
  have hv : layered [environment, acc] n = some [] := by simp [layered, hl]
  obtain ⟨_, _, _, h4, _, _, h7, _, _, _, _, h12⟩ := subst_op_table (layered [environment, acc]) n arg d hn harg hd
  simp only [envFileValues, h4 [] hv, h7 [] hv, h12 [] hv, and_self]

/-- a variable that neither the project environment nor an earlier line sets is unset inside the env file -/
theorem envFile_unset_is_unset (environment acc : GoMap) (x n : Str) (arg : List Seg) (d : Str)
    (rest : List (Str × Str))
    (hn : validName n = true) (harg : wfL true arg = true)
    (hl : mlookup environment n = none) (ha : mlookup acc n = none)
    (hd : evalOut (layered [environment, acc]) arg = .ok d) :
    envFileValues environment ((x, (Seg.op n .dash arg).render) :: rest) acc =
      envFileValues environment rest ((x, d) :: acc) ∧
    envFileValues environment ((x, (Seg.op n .q arg).render) :: rest) acc = .fail (.err (.required n d)) := by
  have hv : layered [environment, acc] n = none := by simp [layered, hl, ha]
  obtain ⟨_, _, h3, _, _, _, _, _, _, _, h11, _⟩ := subst_op_table (layered [environment, acc]) n arg d hn harg hd
  simp only [envFileValues, h3 hv, h11 hv, and_self]

/-- the included file then sees the project environment first and the file's (interpolated) values second -/
theorem siteSubstRaw_render (environment : GoMap) (lines : List (Str × Str)) (f : GoMap) (t : List Seg)
    (hf : envFileValues environment lines [] = .ok f) (h : WF t = true) :
    siteSubstRaw environment lines (renderL t) = evalOut (layered [environment, f]) t := by
  unfold siteSubstRaw
  rw [hf]
  simp only
  rw [subst_render _ t h]
  have : lookupEnv (includeEnv environment f) = layered [environment, f] := by
    have := include_lookup_is_layered environment [f]
    simpa [includeChain] using this
  rw [this]

/-- the env file cannot make the load panic -/
theorem envFile_never_panics (environment : GoMap) (lines : List (Str × Str)) (acc : GoMap) (p : PanicSite) :
    envFileValues environment lines acc ≠ .fail (.panic p) := by
  induction lines generalizing acc with
  | nil => simp [envFileValues]
  | cons l r ih =>
    obtain ⟨k, tpl⟩ := l
    simp only [envFileValues]
    have hp := subst_never_panics (layered [environment, acc]) tpl
    cases hs : subst (layered [environment, acc]) tpl with
    | ok v => exact ih _
    | err e => simp
    | panic q => exact absurd hs (hp q)

/-! non-vacuity: `A` set to the empty string in the project environment; env file `X="${A-d}"`; label `[$X]` -/
example : siteSubstRaw [(['A'], [])] [(['X'], (Seg.op ['A'] .dash [.lit ['d']]).render)] ['[', '$', 'X', ']'] = .ok ['[', ']'] := by
  have h := (envFile_set_empty_is_set [(['A'], [])] [] ['X'] ['A'] [.lit ['d']] ['d'] [] (by decide) (by decide) (by decide) (by decide)).1
  have hf : envFileValues [(['A'], [])] [(['X'], (Seg.op ['A'] .dash [.lit ['d']]).render)] [] = .ok [(['X'], [])] := by
    rw [h]; rfl
  have := siteSubstRaw_render [(['A'], [])] _ _ [.lit ['['], .var ['X'] false, .lit [']']] hf (by decide)
  exact this.trans (by decide)

end CV.Template.Sites

namespace CV.Template.Sites
open CV.Template

/-- **refinement for a whole env file**: when every value is (the rendering of) a well-formed template, the values the
    code computes — and the first error, if any — are the grammar's, line by line, each line seeing the project
    environment first and the lines before it second -/
theorem envFileValues_render (environment : GoMap) (lines : List (Str × List Seg)) (acc : GoMap)
    (h : ∀ l ∈ lines, WF l.2 = true) :
    envFileValues environment (lines.map fun l => (l.1, renderL l.2)) acc = specFileValues environment lines acc := by
  induction lines generalizing acc with
  | nil => rfl
  | cons l r ih =>
    obtain ⟨k, t⟩ := l
    simp only [List.map_cons, specFileValues]
    rw [envFile_line_render environment k t _ acc (h (k, t) List.mem_cons_self)]
    cases evalOut (layered [environment, acc]) t with
    | ok v => exact ih _ (fun l hl => h l (List.mem_cons_of_mem _ hl))
    | err e => rfl
    | panic p => rfl

end CV.Template.Sites

namespace CV.Template.Sites
open CV.Template

/-! ## several env files in one include entry -/

theorem layered_nil_middle (environment acc : GoMap) : layered [environment, [], acc] = layered [environment, acc] := by
  funext k
  simp only [layered, mlookup]

/-- with no earlier file the general form is the single-file form -/
theorem envFileValues2_first_file (environment : GoMap) (lines : List (Str × Str)) (acc : GoMap) :
    envFileValues2 environment [] lines acc = envFileValues environment lines acc := by
  induction lines generalizing acc with
  | nil => rfl
  | cons l r ih =>
    obtain ⟨k, tpl⟩ := l
    simp only [envFileValues2, envFileValues, layered_nil_middle]
    cases subst (layered [environment, acc]) tpl with
    | ok v => exact ih _
    | err e => rfl
    | panic p => rfl

/-- hence one env file in the entry is the case treated above -/
theorem envFilesValues_single (environment : GoMap) (lines : List (Str × Str)) :
    envFilesValues environment [lines] [] =
      match envFileValues environment lines [] with
      | .ok m => .ok (m ++ [])
      | .fail o => .fail o := by
  simp only [envFilesValues, envFileValues2_first_file]
  all_goals (cases envFileValues environment lines [] <;> rfl)

/-- one line of a later env file: a well-formed value is the grammar's meaning under "project environment, then the
    earlier env files, then the lines so far" -/
theorem envFile2_line_render (environment envMap : GoMap) (k : Str) (t : List Seg) (r : List (Str × Str)) (acc : GoMap)
    (h : WF t = true) :
    envFileValues2 environment envMap ((k, renderL t) :: r) acc =
      match evalOut (layered [environment, envMap, acc]) t with
      | .ok v => envFileValues2 environment envMap r ((k, v) :: acc)
      | o => .fail o := by
  simp only [envFileValues2, subst_render _ t h]
  all_goals (cases evalOut (layered [environment, envMap, acc]) t <;> rfl)

/-- **a variable an earlier env file sets to the empty string is set in a later env file** (unless the project
    environment sets it): `X="${n-d}"` gives the empty value, `X="${n+r}"` gives `r`, `${n?e}` does not fail -/
theorem envFile2_earlier_file_set_empty_is_set (environment envMap acc : GoMap) (x n : Str) (arg : List Seg) (d : Str)
    (rest : List (Str × Str))
    (hn : validName n = true) (harg : wfL true arg = true)
    (hl : mlookup environment n = none) (hm : mlookup envMap n = some [])
    (hd : evalOut (layered [environment, envMap, acc]) arg = .ok d) :
    envFileValues2 environment envMap ((x, (Seg.op n .dash arg).render) :: rest) acc =
      envFileValues2 environment envMap rest ((x, []) :: acc) ∧
    envFileValues2 environment envMap ((x, (Seg.op n .plus arg).render) :: rest) acc =
      envFileValues2 environment envMap rest ((x, d) :: acc) ∧
    envFileValues2 environment envMap ((x, (Seg.op n .q arg).render) :: rest) acc =
      envFileValues2 environment envMap rest ((x, []) :: acc) := by
  have hv : layered [environment, envMap, acc] n = some [] := by simp [layered, hl, hm]
  obtain ⟨_, _, _, h4, _, _, h7, _, _, _, _, h12⟩ :=
    subst_op_table (layered [environment, envMap, acc]) n arg d hn harg hd
  simp only [envFileValues2, h4 [] hv, h7 [] hv, h12 [] hv, and_self]

/-- the env files cannot make the load panic -/
theorem envFiles_never_panic (environment : GoMap) (files : List (List (Str × Str))) (envMap : GoMap) (p : PanicSite) :
    envFilesValues environment files envMap ≠ .fail (.panic p) := by
  have one : ∀ (lines : List (Str × Str)) (em acc : GoMap), envFileValues2 environment em lines acc ≠ .fail (.panic p) := by
    intro lines em
    induction lines with
    | nil => intro acc; simp [envFileValues2]
    | cons l r ih =>
      intro acc
      obtain ⟨k, tpl⟩ := l
      simp only [envFileValues2]
      have hp := subst_never_panics (layered [environment, em, acc]) tpl
      cases hs : subst (layered [environment, em, acc]) tpl with
      | ok v => exact ih _
      | err e => simp
      | panic q => exact absurd hs (hp q)
  induction files generalizing envMap with
  | nil => simp [envFilesValues]
  | cons f fs ih =>
    simp only [envFilesValues]
    cases hf : envFileValues2 environment envMap f [] with
    | ok m => exact ih _
    | fail o =>
      intro h
      cases h
      exact one f envMap [] hf

/-! non-vacuity: first file `A=""`, second file `X="${A-d}"`, label `[$X]` — and with the project environment setting `A` -/
example : siteSubstRawFiles [] [[(['A'], [])], [(['X'], (Seg.op ['A'] .dash [.lit ['d']]).render)]] ['[', '$', 'X', ']'] = .ok ['[', ']'] := by
  decide
example : siteSubstRawFiles [(['A'], ['v'])] [[(['A'], [])], [(['X'], (Seg.op ['A'] .dash [.lit ['d']]).render)]] ['[', '$', 'X', ']'] = .ok ['[', 'v', ']'] := by
  decide

end CV.Template.Sites
