import ComposeVerif.Gen.AssertSites
import ComposeVerif.Gen.NilDerefs
import ComposeVerif.Gen.Schema
import ComposeVerif.Model.SchemaPaths
/-!
# C01 — `sites_covered`: every place where the loader pipeline can panic on the shape of its input has been looked at

`Gen/AssertSites.lean` is regenerated from the source on every run (translator/c01sites.go): every type assertion
without `, ok` and every index expression on a slice / array / string in the packages loader, override, transform,
paths, validation, interpolation and in the `DecodeMapstructure` methods of package types.
`reviewed` below is the hand-kept list; `sites_covered` says the two coincide (line numbers ignored), so a NEW
unchecked assertion — or the disappearance of a reviewed one — breaks the build until this file is edited.

Status of a row:
* `schema path kinds` — the site is only reached on a document that passed JSON-schema validation (validation.Validate
  runs under the same `!SkipValidation` test as schema.Validate, after it) and the schema allows exactly `kinds` at
  `path`; `schema_guards_hold` re-decides `kindsAt composeSchema path = kinds` against the schema as it is now;
* `code why` — the surrounding code establishes the shape (a length test, a `make` of the same length, a value the
  function built itself, an earlier stage that rejects the other shapes); theorems are named where they exist;
* `finding key` — reachable with the wrong shape: a recorded finding of findings/C01.txt (none at the moment: the
  sites that were findings in round 1 have been repaired and are gone from the generated list).
-/
namespace CV.C01.Sites
open CV CV.Schema

inductive Status where
  | schema (path : List String) (kinds : List Ty)
  | code (why : String)
  | finding (key : String)

structure Row where
  pkg : String
  fn : String
  kind : String
  expr : String
  status : Status

def reviewed : List Row := [
  ⟨"interpolation", "recursiveInterpolate", "index", "out[i]", .code "out := make([]interface{}, len(value)); i ranges over value"⟩,
  ⟨"loader", "ApplyInclude", "index", "included[0]", .code "inside the cycle error, right after included = append(included, path)"⟩,
  ⟨"loader", "LoadConfigFiles", "index", "config.ConfigFiles[i]", .code "ConfigFiles: make(…, len(configFiles)); i ranges over configFiles"⟩,
  ⟨"loader", "LoadConfigFiles", "index", "config.ConfigFiles[i]", .code "same"⟩,
  ⟨"loader", "OmitEmpty", "assert", "cleaned.(map[string]any)", .code "omitEmpty of a mapping is a mapping: Props/C01 omitEmpty_total"⟩,
  ⟨"loader", "applyServiceExtends", "assert", "ctx.Value(consts.ComposeFileKey{}).(string)", .code "loadYamlFile stores the file name in the context before ApplyExtends; a direct caller of the exported ApplyExtends must do the same"⟩,
  ⟨"loader", "applyServiceExtends", "assert", "deepClone(base).(map[string]any)", .code "base is the non-nil result of the recursive call, which only returns mappings (Model/C01Cycles Ext.resolve: ok with nil flag false)"⟩,
  ⟨"loader", "checkConsistency", "index", "s.HealthCheck.Test[0]", .code "guarded by len(s.HealthCheck.Test) > 0 in the same condition"⟩,
  ⟨"loader", "cycleTracker.Add", "index", "ct.loaded[0]", .code "inside the loop over ct.loaded, after a match: non-empty"⟩,
  ⟨"loader", "cycleTracker.Add", "index", "ct.loaded[0]", .code "same"⟩,
  ⟨"loader", "decoderHook", "assert", "to.Interface().(decoder)", .code "reached only when to (or its pointer) implements decoder, tested just above"⟩,
  ⟨"loader", "deepClone", "index", "cp[i]", .code "cp := make([]any, len(v)); i ranges over v"⟩,
  ⟨"loader", "load", "index", "configDetails.ConfigFiles[0]", .code "loadModelWithContext returns \"No files specified\" when len(ConfigFiles) < 1"⟩,
  ⟨"loader", "load", "index", "loaded[0]", .code "inside the loop over loaded, after append: non-empty"⟩,
  ⟨"loader", "parseYAML", "assert", "converted.(map[string]interface{})", .code "conversion of a mapping is a mapping: Props/C01 parseYAML_total"⟩,
  ⟨"loader", "parseYAML", "assert", "converted.(map[string]interface{})", .code "same"⟩,
  ⟨"loader", "projectName", "assert", "interpolated[\"name\"].(string)", .code "Interpolate of {name: <string>}: no cast is registered for the path `name`, a string stays a string"⟩,
  ⟨"loader", "resolvePaths", "index", "ret[i]", .code "ret := make(types.StringList, len(in)); i ranges over in"⟩,
  ⟨"loader", "sameResource", "assert", "m[key].(map[string]any)", .code "m[key] was set to a mapping literal a few lines above and paths.ResolveRelativePaths keeps a mapping a mapping; the closure also runs under a deferred recover (C06's repair of include conflicts)"⟩,
  ⟨"override", "EnforceUnicity", "assert", "uniq.(map[string]any)", .code "enforceUnicity of a mapping returns the mapping"⟩,
  ⟨"override", "ExtendService", "assert", "yaml.(map[string]any)", .code "mergeYaml of two mappings at the services.x path is mergeMappings: a mapping"⟩,
  ⟨"override", "Merge", "assert", "merged.(map[string]any)", .code "mergeYaml of two mappings at the root is mergeMappings: a mapping"⟩,
  ⟨"override", "convertIntoSequence", "assert", "a.(string)", .code "sort callback over seq, whose items were all built with fmt.Sprintf in this function"⟩,
  ⟨"override", "convertIntoSequence", "assert", "b.(string)", .code "same"⟩,
  ⟨"override", "enforceUnicity", "index", "seq[j]", .code "j comes from keys[key], set to len(seq)-1 when the entry was appended"⟩,
  ⟨"override", "mergeIPAMConfig", "assert", "a.(map[string]any)", .code "ipamConfigs only holds the mappings returned by ipamPools / mergeMappings"⟩,
  ⟨"override", "mergeIPAMConfig", "index", "ipamConfigs[index]", .code "index ≥ 0 is the result of slices.IndexFunc on ipamConfigs"⟩,
  ⟨"override", "mergeIPAMConfig", "assert", "ipamConfigs[index].(map[string]any)", .code "same two reasons"⟩,
  ⟨"override", "mergeIPAMConfig", "index", "ipamConfigs[index]", .code "same"⟩,
  ⟨"paths", "isWindowsAbs", "index", "path[0]", .code "after `if path == \"\" { return false }`"⟩,
  ⟨"paths", "volumeNameLen", "index", "path[0]", .code "after `if len(path) < 2 { return 0 }` (copy of path/filepath's Windows volumeNameLen; C12 models it)"⟩,
  ⟨"paths", "volumeNameLen", "index", "path[1]", .code "same"⟩,
  ⟨"paths", "volumeNameLen", "index", "path[0]", .code "guarded by l := len(path); l >= 5"⟩,
  ⟨"paths", "volumeNameLen", "index", "path[1]", .code "same"⟩,
  ⟨"paths", "volumeNameLen", "index", "path[2]", .code "same"⟩,
  ⟨"paths", "volumeNameLen", "index", "path[2]", .code "same"⟩,
  ⟨"paths", "volumeNameLen", "index", "path[n]", .code "loop condition n < l"⟩,
  ⟨"paths", "volumeNameLen", "index", "path[n]", .code "guarded by n < l-1"⟩,
  ⟨"paths", "volumeNameLen", "index", "path[n]", .code "loop condition n < l"⟩,
  ⟨"paths", "volumeNameLen", "index", "path[n]", .code "loop condition n < l"⟩,
  ⟨"transform", "Canonical", "assert", "canonical.(map[string]any)", .code "transform of a mapping at the root (no transformer matches the empty path) is transformMapping: the mapping"⟩,
  ⟨"transform", "SetDefaultValues", "assert", "result.(map[string]any)", .code "setDefaults of a mapping at the root returns the mapping"⟩,
  ⟨"types", "HealthCheckTest.DecodeMapstructure", "index", "seq[i]", .code "seq := make([]string, len(v)); i ranges over v"⟩,
  ⟨"types", "HostsList.DecodeMapstructure", "index", "hosts[j]", .code "hosts := make([]string, len(t)); j ranges over t"⟩,
  ⟨"types", "HostsList.DecodeMapstructure", "index", "s[i]", .code "s := make([]string, len(v)); i ranges over v"⟩,
  ⟨"types", "SSHConfig.DecodeMapstructure", "index", "result[i]", .code "result := make(SSHConfig, len(v)); i counts the entries of v"⟩,
  ⟨"types", "SSHConfig.DecodeMapstructure", "index", "result[i]", .code "sort.Slice callback: indices in range"⟩,
  ⟨"types", "SSHConfig.DecodeMapstructure", "index", "result[j]", .code "same"⟩,
  ⟨"types", "ShellCommand.DecodeMapstructure", "index", "cmd[i]", .code "cmd := make([]string, len(v)); i ranges over v"⟩,
  ⟨"types", "StringList.DecodeMapstructure", "index", "list[i]", .code "list := make([]string, len(v)); i ranges over v"⟩,
  ⟨"types", "StringOrNumberList.DecodeMapstructure", "index", "list[i]", .code "list := make([]string, len(v)); i ranges over v"⟩,
  ⟨"validation", "checkDeviceRequest", "assert", "value.(map[string]any)", .schema ["services", "*", "deploy", "resources", "reservations", "devices", "[]"] [.object]⟩,
  ⟨"validation", "checkFileObject", "assert", "value.(map[string]any)", .schema ["configs", "*"] [.object]⟩,
  ⟨"validation", "checkPath", "assert", "value.(string)", .schema ["services", "*", "develop", "watch", "[]", "path"] [.string]⟩]

def rowKey (r : Row) : String × String × String × String := (r.pkg, r.fn, r.kind, r.expr)

def siteKey (s : String × String × String × String × Nat) : String × String × String × String :=
  (s.1, s.2.1, s.2.2.1, s.2.2.2.1)

/-- sites of the source that nobody has looked at yet (shown by the `#eval` below when the build breaks) -/
def unreviewed : List (String × String × String × String × Nat) :=
  CV.Gen.assertSites.filter fun s => !(reviewed.map rowKey).contains (siteKey s)

/-- reviewed rows whose site no longer exists -/
def stale : List (String × String × String × String) :=
  (reviewed.map rowKey).filter fun k => !(CV.Gen.assertSites.map siteKey).contains k

#eval unreviewed
#eval stale

/-- **sites_covered**: the unchecked assertions / index expressions of the pipeline, as they are in the source now,
are exactly the reviewed ones — same rows, same order, same multiplicities -/
theorem sites_covered : CV.Gen.assertSites.map siteKey = reviewed.map rowKey := by decide

/-- no reviewed site is left as a known way to crash -/
theorem no_site_is_a_finding : reviewed.all (fun r => match r.status with | .finding _ => false | _ => true) = true := by
  decide

/-- the other `gpus` / `secrets` uses of the same checkers: the schema allows only the asserted kind at each pattern of
`validation.checks` that reaches an assertion -/
theorem validation_patterns_kinds :
    kindsAt CV.Gen.composeSchema ["secrets", "*"] = [.object] ∧
    kindsAt CV.Gen.composeSchema ["services", "*", "gpus", "[]"] = [.object] := by decide

/-- the `schema` rows: the schema, as regenerated now, allows exactly the asserted kind at the path -/
theorem schema_guards_hold :
    kindsAt CV.Gen.composeSchema ["services", "*", "deploy", "resources", "reservations", "devices", "[]"] = [.object] ∧
    kindsAt CV.Gen.composeSchema ["configs", "*"] = [.object] ∧
    kindsAt CV.Gen.composeSchema ["services", "*", "develop", "watch", "[]", "path"] = [.string] := by decide

/-- … and these are the kinds written in the rows -/
theorem schema_rows_match :
    (reviewed.filterMap fun r => match r.status with | .schema p k => some (p, k) | _ => none) =
      [(["services", "*", "deploy", "resources", "reservations", "devices", "[]"], [.object]),
       (["configs", "*"], [.object]),
       (["services", "*", "develop", "watch", "[]", "path"], [.string])] := by decide

/-! ## nil dereferences of pointer fields in loader/validate.go (`checkConsistency`)

`Gen/NilDerefs.lean` (translator/c01nil.go) lists every field selection `P.f` where `P` is a field chain of pointer
type, with the syntactic nil test on the same expression `P` that covers it: `cond` (earlier in the same `&&` / `||`
chain), `enclosing` (a conjunct `P != nil` of an enclosing `if`), `early` (an earlier `if P == nil { return/continue }`),
or `NONE`.  Seeded change C01-2 (`…Limits != nil && …Reservations.MemoryBytes`) shows up as a `NONE` row.
Approximation: assignments to `P` between test and use and aliases of `P` are not tracked; only loader/validate.go. -/

/-- every dereference of a possibly-nil pointer field in `checkConsistency` is covered by a nil test on that field -/
theorem nil_derefs_guarded : CV.Gen.nilDerefs.all (fun r => r.2.2.2.1 != "NONE") = true := by decide

/-- the pointer fields that are dereferenced are the reviewed ones (a new one has to be looked at) -/
theorem nil_deref_pointers_reviewed :
    (CV.Gen.nilDerefs.map (fun r => r.2.1)).eraseDups =
      ["s.Build", "s.HealthCheck", "s.Deploy", "s.Deploy.Resources.Limits", "s.Deploy.Resources.Reservations", "s.Develop"] := by
  decide

#eval CV.Gen.nilDerefs.filter (fun r => r.2.2.2.1 == "NONE")

end CV.C01.Sites
