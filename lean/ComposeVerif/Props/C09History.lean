import ComposeVerif.Model.RenderHistory
import ComposeVerif.Lemmas.SecretsRender
import ComposeVerif.Gen.SecretsFacts
/-!
# C09 — which renderings were made before does not matter  (round 6)

Property theorems only.  Model: `Model/RenderHistory.lean` over `Secrets.applyHeap` / `Secrets.render`.
The property speaks about "rendering a loaded project"; a project value is rendered many times by its consumers, with
different options.  Proved for every history of calls (any length, any mix of YAML / JSON, with / without
`WithSecretContent`) on any heap: the caller's project holds afterwards what it held before, and every rendering of
the history is the rendering the same call gives on a freshly loaded project.  The oracle stream `c09.history`
decides the same three statements on the real code (deep comparison of the project before / after each call, bytes
against a freshly loaded project's, reload of each plain rendering).
-/
namespace CV.History
open CV CV.Secrets

/-! ## 0. source tie -/

/-- `marshallOptions.apply`, `applyMarshallOptions` and the first statements of both project marshallers are the ones
the model mirrors (bodies regenerated from types/project.go on every run): `apply` flags the secrets of `p.deepCopy()`,
both marshallers encode what `applyMarshallOptions` returns.  An edit of how the options reach the encoder breaks this. -/
theorem history_model_is_source :
    CV.Gen.Secrets.body_marshallOptions_apply =
      "{ if opt.secretsContent { p = p.deepCopy() for name, config := range p.Secrets { config.marshallContent = true p.Secrets[name] = config } } return p }" ∧
    CV.Gen.Secrets.body_applyMarshallOptions =
      "{ opts := &marshallOptions{} for _, option := range options { option(opts) } p = opts.apply(p) return p }" ∧
    CV.Gen.Secrets.body_Project_MarshalYAML =
      "{ buf := bytes.NewBuffer([]byte{}) encoder := yaml.NewEncoder(buf) encoder.SetIndent(2) src := applyMarshallOptions(p, options...) err := encoder.Encode(src) if err != nil { return nil, err } return buf.Bytes(), nil }" ∧
    CV.Gen.Secrets.project_MarshalJSON_secrets_configs.head? = some "src := applyMarshallOptions(p, options...)" ∧
    CV.Gen.Secrets.project_MarshalJSON_receiver_uses = [] :=
  ⟨rfl, rfl, rfl, rfl, rfl⟩

/-! ## 1. the heap clause -/

/-- `apply` never frees an address: the caller's map stays allocated -/
theorem apply_next_le (b : Bool) (h : Heap) (p : Nat) : h.next ≤ (applyHeap b h p).1.next := by
  unfold applyHeap
  split
  · simp [Heap.copyMap, Heap.set]
  · exact Nat.le_refl _

/-- one `apply` leaves the caller's `Secrets` map as it was (the heap clause of `marshallOptions.apply`) -/
theorem apply_keeps_caller (b : Bool) (h : Heap) (p : Nat) (hp : p < h.next) : (applyHeap b h p).1.get p = h.get p := by
  unfold applyHeap
  split
  · simp only [Heap.copyMap]
    rw [Heap.get_set_ne _ (Nat.ne_of_lt hp)]
    have : (p == h.next) = false := by simpa using Nat.ne_of_lt hp
    simp [Heap.get, List.lookup, this]
  · rfl

/-- the map the encoder sees: the caller's own without the option, a flagged copy with it -/
theorem apply_encoded (b : Bool) (h : Heap) (p : Nat) :
    (applyHeap b h p).1.get (applyHeap b h p).2 = if b then setFlags (h.get p) else h.get p := by
  cases b
  · rfl
  · simp [applyHeap, Heap.copyMap, Heap.set, Heap.get, List.lookup]

/-- one call renders what a fresh project renders -/
theorem call_is_fresh (cfgs : List (String × FileObj)) (c : Call) (h : Heap) (p : Nat) :
    (callWith applyHeap cfgs c h p).2 = fresh cfgs (h.get p) c := by
  simp only [callWith, fresh, encode, apply_encoded]
  cases c.content <;> simp [render, applyOpts, withContent, setFlags]

/-- **the caller's project is not written to by any history of renderings** -/
theorem history_keeps_project (cfgs : List (String × FileObj)) (cs : List Call) (h : Heap) (p : Nat) (hp : p < h.next) :
    (run cfgs cs h p).1.get p = h.get p ∧ h.next ≤ (run cfgs cs h p).1.next := by
  induction cs generalizing h with
  | nil => exact ⟨rfl, Nat.le_refl _⟩
  | cons c cs ih =>
    have hle := apply_next_le c.content h p
    have := ih (applyHeap c.content h p).1 (Nat.lt_of_lt_of_le hp hle)
    simp only [run, runWith, callWith] at this ⊢
    exact ⟨this.1.trans (apply_keeps_caller c.content h p hp), Nat.le_trans hle this.2⟩

/-- **every rendering of a history equals the rendering of a freshly loaded project under the same options** -/
theorem history_renderings_fresh (cfgs : List (String × FileObj)) (cs : List Call) (h : Heap) (p : Nat) (hp : p < h.next) :
    (run cfgs cs h p).2 = cs.map (fresh cfgs (h.get p)) := by
  induction cs generalizing h with
  | nil => rfl
  | cons c cs ih =>
    have hle := apply_next_le c.content h p
    have hi := ih (applyHeap c.content h p).1 (Nat.lt_of_lt_of_le hp hle)
    have hc := call_is_fresh cfgs c h p
    simp only [run, runWith, List.map_cons] at hi ⊢
    rw [hc]
    simp only [callWith]
    rw [hi, apply_keeps_caller c.content h p hp]

/-- in particular a plain rendering made after any history is the plain rendering made before it: "rendering it again
gives identical bytes" holds across calls with other options in between -/
theorem plain_rendering_after_history (cfgs : List (String × FileObj)) (cs : List Call) (r : Renderer) (h : Heap) (p : Nat)
    (hp : p < h.next) :
    (callWith applyHeap cfgs ⟨r, false⟩ (run cfgs cs h p).1 p).2 = (callWith applyHeap cfgs ⟨r, false⟩ h p).2 := by
  rw [call_is_fresh, call_is_fresh, (history_keeps_project cfgs cs h p hp).1]

/-- non-vacuity: a heap with one project whose secret carries content; a history with both options -/
example :
    let s : FileObj := { name := "t", environment := "TOKEN", content := "s3cr3t" }
    let h : Heap := { maps := [(0, [("token", s)])], next := 1 }
    (run [] [⟨.yaml, true⟩, ⟨.json, false⟩, ⟨.yaml, false⟩] h 0).1.get 0 = [("token", s)] := by
  intro s h
  exact (history_keeps_project [] _ h 0 (by decide)).1

end CV.History
