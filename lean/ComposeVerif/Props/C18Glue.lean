import ComposeVerif.Model.DotenvGlue
import ComposeVerif.Lemmas.DotenvMore
import ComposeVerif.Gen.Dotenv
/-!
# C18 — the glue around the parser (round 6): entry points and the format registry

Tied to the code by the `dotenvGlue` stream (every entry point must give the outcome of `UnmarshalWithLookup`; an
unregistered format is an error with a nil map) and by the regenerated bodies below.
-/
namespace CV.Dotenv
open CV CV.Template

/-- the printed bodies of the six glue functions, regenerated on every run, are the ones the model was written against -/
theorem glue_functions_are_source :
    CV.Gen.dotenv_body_Parse = "{ return ParseWithLookup(r, nil) }" ∧
    CV.Gen.dotenv_body_UnmarshalBytesWithLookup = "{ return UnmarshalWithLookup(string(src), lookupFn) }" ∧
    CV.Gen.dotenv_body_ReadFile = "{ file, err := os.Open(filename) if err != nil { return nil, err } defer file.Close() return ParseWithLookup(file, lookupFn) }" ∧
    CV.Gen.dotenv_body_Read = "{ return ReadWithLookup(nil, filenames...) }" ∧
    CV.Gen.dotenv_body_RegisterFormat = "{ formats[format] = p }" ∧
    CV.Gen.dotenv_body_ParseWithFormat = "{ parser, ok := formats[format] if !ok { return nil, fmt.Errorf(\"unsupported env_file format %q\", format) } return parser(r, filename, resolve) }" :=
  ⟨rfl, rfl, rfl, rfl, rfl, rfl⟩

/-- every entry point is the parser on the contents without one leading BOM: no entry point panics -/
theorem parseWithLookup_never_panics (src : Str) (lookup : Env) (s : Site) : parseWithLookup src lookup ≠ .panic s :=
  parse_ne_panic _ lookup s

/-- a file without BOM: `ParseWithLookup` is `UnmarshalWithLookup` -/
theorem parseWithLookup_noBOM (src : Str) (lookup : Env) (h : src.head? ≠ some '\uFEFF') :
    parseWithLookup src lookup = parse src lookup := by
  unfold parseWithLookup
  cases src with
  | nil => rfl
  | cons c r =>
    have : c ≠ '\uFEFF' := fun e => h (by simp [e])
    simp only [stripBOM]
    split
    · rename_i heq; cases heq; exact absurd rfl this
    · rfl

/-- exactly one BOM is removed -/
theorem parseWithLookup_BOM (src : Str) (lookup : Env) : parseWithLookup ('\uFEFF' :: src) lookup = parse src lookup := rfl

/-- `ParseWithFormat` after `RegisterFormat`: the registered parser is called with the contents and the lookup unchanged -/
theorem parseWithFormat_registered (fs : Formats) (f : String) (p : FormatParser) (src : Str) (lookup : Env) :
    parseWithFormat (registerFormat fs f p) f src lookup = some (p src lookup) := by
  simp [parseWithFormat, registerFormat, List.lookup]

/-- registering one format leaves every other format as it was -/
theorem parseWithFormat_other (fs : Formats) (f g : String) (p : FormatParser) (src : Str) (lookup : Env) (h : g ≠ f) :
    parseWithFormat (registerFormat fs f p) g src lookup = parseWithFormat fs g src lookup := by
  have hl : ∀ l : Formats, (l.filter (fun e => e.1 != f)).lookup g = l.lookup g := by
    intro l
    induction l with
    | nil => rfl
    | cons e r ih =>
      obtain ⟨a, q⟩ := e
      by_cases he : a = f
      · subst he
        have hg : (g == a) = false := by simp [h]
        simp only [List.filter, bne_self_eq_false, List.lookup, hg, ih]
      · have : (a != f) = true := by simp [he]
        simp only [List.filter, this, List.lookup, ih]
  have hgf : (g == f) = false := by simp [h]
  simp only [parseWithFormat, registerFormat, List.lookup, hgf, hl]

/-- a format nobody registered is the "unsupported env_file format" error, whatever the contents -/
theorem parseWithFormat_unregistered (src : Str) (lookup : Env) (f : String) : parseWithFormat [] f src lookup = none := rfl

/-- the dotenv parser behind the registry never panics either -/
theorem parseWithFormat_dotenv_never_panics (fs : Formats) (f : String) (src : Str) (lookup : Env) (s : Site) :
    parseWithFormat (registerFormat fs f parseWithLookup) f src lookup ≠ some (.panic s) := by
  rw [parseWithFormat_registered]
  intro h
  exact parseWithLookup_never_panics src lookup s (Option.some.inj h)

example : parseWithFormat (registerFormat (registerFormat [] "a" (fun _ _ => .ok [])) "a" parseWithLookup) "a" ['K', '=', 'v'] (fun _ => none) =
    some (.ok [(['K'], ['v'])]) := by decide

end CV.Dotenv
