import ComposeVerif.Lemmas.Pipeline
import ComposeVerif.Props.C01Pipeline
import ComposeVerif.Props.C05
import ComposeVerif.Gen.PipelineSource
import ComposeVerif.Model.C01PipelineFS
/-!
# C01 — the composed pipeline has no panic outcome beyond the four reviewed sites

`Props/C01Pipeline.lean` states stage by stage that the panic constructor of each stage model is unreachable.
Here the stages are *composed* as the loader composes them (`Model/Pipeline.lean`: `processRawYaml`, `loadYamlModel`,
`load` with the option flags), and the statement is about the whole function, for every list of documents, every
configuration and every option combination: `Pipeline.load` returns a model or an error naming a stage, or it
panics at one of the four assertion sites that the site review (`Props/C01Sites.lean`) marks as guarded
(`transformKeyValue`: by the first `EnforceUnicity`; the three `validation` sites: by the schema).
The composition is tied to `loader.LoadModelWithContext` by the correspondence stream `pipeline.load`.
-/
namespace CV.C01.Whole
open CV CV.Pipeline

/-- the three reviewed assertion sites (a fourth, `transformKeyValue`'s `e.(string)`, was repaired in round 5:
`fix: transformKeyValue reports a non-string list item as an error instead of panicking`) -/
def reviewedSites : List String :=
  ["validation.init.checkFileObject", "validation.checkPath", "validation.checkDeviceRequest"]

theorem omitEmpty_never_panics (pats : List (List String)) (d : Val) (s : String) : Pipeline.omitEmpty pats d ≠ .panic s := by
  unfold Pipeline.omitEmpty
  split
  · split
    · intro h; cases h
    · intro h; cases h
    · rename_i h; exact absurd h (C01.omitEmpty_total _ _ _)
  · intro h; cases h

theorem schemaStage_never_panics (o : Opts) (d : Val) (s : String) : schemaStage o d ≠ .panic s := by
  unfold schemaStage
  split
  · intro h; cases h
  · split
    · split <;> (intro h; cases h)
    · intro h; cases h

theorem interpStage_never_panics (c : Cfg) (cfg : Val.KVs) (s : String) : interpStage c cfg ≠ .panic s := by
  unfold interpStage
  split
  · intro h; cases h
  · intro h; exact absurd (ofInterp_panic h) (C01.Pipeline.interpolate_never_panics _ _ _)

/-- `ApplyExtends` on the empty file system (same-file bases only): C05's `applyExtends_ok_or_err_real` -/
theorem extendsStage_never_panics (c : Cfg) (cfg : Val.KVs) (s : String) : extendsStage c cfg ≠ .panic s := by
  unfold extendsStage
  split
  · intro h; cases h
  · intro h
    have hp := ofExtends_panic h
    have hfs : ∀ f s, ¬ Extends.fsPanics ([] : Extends.FS) f s := by
      intro f s ⟨r, hr, _⟩; simp [Extends.fsLookup] at hr
    unfold Extends.applyExtends at hp
    split at hp
    · rename_i S hS
      rcases Extends.applyExtends_ok_or_err_real c.mainFile [] hfs (order := Val.keys S) (dict := cfg)
        (fun S' h' => by
          rw [hS] at h'; injection h' with h'; injection h' with h'; subst h'
          intro n
          rw [Ne, Merge.lookup_eq_none_iff, Classical.not_not]) with ⟨o, ho⟩ | ⟨e, he⟩
      · rw [ho] at hp; cases hp
      · rw [he] at hp; cases hp
    · rename_i hS
      rcases Extends.applyExtends_ok_or_err_real c.mainFile [] hfs (order := []) (dict := cfg)
        (fun S' h' => absurd h' (hS S')) with ⟨o, ho⟩ | ⟨e, he⟩
      · rw [ho] at hp; cases hp
      · rw [he] at hp; cases hp

theorem defaultsStage_never_panics (c : Cfg) (d : Val) (s : String) : defaultsStage c d ≠ .panic s := by
  unfold defaultsStage
  split
  · split
    · intro h; cases h
    · intro h; exact absurd (ofC11_panic h) (C01.Pipeline.setDefaultValues_never_panics _ _ _)
  · intro h; cases h

theorem pathsStage_never_panics (c : Cfg) (d : Val) (s : String) : pathsStage c d ≠ .panic s := by
  unfold pathsStage
  split
  · intro h; exact absurd (ofPaths_panic h) (Paths.resolve_never_panics _ _ _)
  · intro h; cases h

theorem envStage_never_panics (c : Cfg) (d : Val) (s : String) : envStage c d ≠ .panic s := by
  unfold envStage
  split <;> (intro h; cases h)

theorem validateStage_only_panic_sites (c : Cfg) (d : Val) (s : String) (h : validateStage c d = .panic s) :
    c.opts.skipValidation = false ∧
    s ∈ ["validation.init.checkFileObject", "validation.checkPath", "validation.checkDeviceRequest"] := by
  unfold validateStage at h
  split at h
  · cases h
  · rename_i hv
    exact ⟨by simpa using hv, C01.Pipeline.validate_only_panic_sites _ _ (ofValidate_panic h)⟩

theorem finishLoad_never_panics (c : Cfg) (d : Val.KVs) (s : String) : finishLoad c d ≠ .panic s := by
  unfold finishLoad
  split
  · intro h; cases h
  · split
    · intro h; cases h
    · split
      · intro h; cases h
      · intro h; exact absurd (ofC11_panic h) (C11.normalize_never_panics _ _ _ _)

theorem mergeStages_never_panics (c : Cfg) (dict : Val) (cfg : Val.KVs) (s : String)
    (h : mergeStages c dict cfg = .panic s) : False := by
  unfold mergeStages at h
  rcases bind_panic h with h1 | ⟨d1, _, h⟩
  · exact absurd (ofMerge_panic h1) (C04.merge_never_panics _ _ _)
  rcases bind_panic h with h1 | ⟨d2, _, h⟩
  · exact absurd (ofMerge_panic h1) (C04.enforceTop_never_panics _ _)
  rcases bind_panic h with h1 | ⟨d3, _, h⟩
  · exact absurd h1 (schemaStage_never_panics _ _ _)
  rcases bind_panic h with h1 | ⟨d4, _, h⟩
  · exact C01.Pipeline.canonical_never_panics _ _ _ (ofShort_panic h1)
  rcases bind_panic h with h1 | ⟨d5, _, h⟩
  · exact absurd h1 (omitEmpty_never_panics _ _ _)
  · exact absurd (ofMerge_panic h) (C04.enforceTop_never_panics _ _)

/-- one document: `processRawYaml` -/
theorem processDoc_only_panic_sites (c : Cfg) (dict : Val) (cfg : Val.KVs) (s : String)
    (h : processDoc c dict cfg = .panic s) : False := by
  unfold processDoc at h
  rcases bind_panic h with h1 | ⟨cfg', _, h⟩
  · exact absurd h1 (interpStage_never_panics _ _ _)
  rcases bind_panic h with h1 | ⟨cfg'', _, h⟩
  · exact absurd h1 (extendsStage_never_panics _ _ _)
  · exact mergeStages_never_panics _ _ _ _ h

/-- one document read from YAML text, `!reset` / `!override` included -/
theorem processNode_only_panic_sites (c : Cfg) (dict : Val) (n : Reset.YNode) (s : String)
    (h : processNode c dict n = .panic s) : False := by
  unfold processNode at h
  split at h
  · rcases bind_panic h with h1 | ⟨cfg', _, h⟩
    · exact absurd h1 (interpStage_never_panics _ _ _)
    rcases bind_panic h with h1 | ⟨cfg'', _, h⟩
    · exact absurd h1 (extendsStage_never_panics _ _ _)
    · exact mergeStages_never_panics _ _ _ _ h
  · cases h

theorem processNodes_only_panic_sites (c : Cfg) : ∀ (ns : List Reset.YNode) (dict : Val) (s : String),
    processNodes c dict ns = .panic s → False
  | [], _, _, h => by cases h
  | n :: r, dict, s, h => by
    unfold processNodes at h
    split at h
    · exact processNodes_only_panic_sites c r _ s h
    · cases h
    · rename_i s' hd
      cases h
      exact processNode_only_panic_sites c dict n s hd

theorem processFiles_only_panic_sites (c : Cfg) : ∀ (fs : List (List Reset.YNode)) (dict : Val) (s : String),
    processFiles c dict fs = .panic s → False
  | [], _, _, h => by cases h
  | f :: r, dict, s, h => by
    unfold processFiles at h
    split at h
    · exact processFiles_only_panic_sites c r _ s h
    · cases h
    · rename_i s' hd
      cases h
      exact processNodes_only_panic_sites c f dict s hd

theorem processDocs_only_panic_sites (c : Cfg) : ∀ (docs : List Val.KVs) (dict : Val) (s : String),
    processDocs c dict docs = .panic s → False
  | [], _, _, h => by cases h
  | d :: r, dict, s, h => by
    unfold processDocs at h
    split at h
    · exact processDocs_only_panic_sites c r _ s h
    · cases h
    · rename_i s' hd
      cases h
      exact processDoc_only_panic_sites c dict d s hd

/-- the tail of `loadYamlModel`: only `validation.Validate` can panic, and only when validation is on -/
theorem finishModel_only_panic_sites (c : Cfg) (dict : Val) (s : String) (h : finishModel c dict = .panic s) :
    c.opts.skipValidation = false ∧
    s ∈ ["validation.init.checkFileObject", "validation.checkPath", "validation.checkDeviceRequest"] := by
  unfold finishModel at h
  rcases bind_panic h with h1 | ⟨d1, _, h⟩
  · exact absurd h1 (defaultsStage_never_panics _ _ _)
  rcases bind_panic h with h1 | ⟨d2, _, h⟩
  · exact validateStage_only_panic_sites _ _ _ h1
  rcases bind_panic h with h1 | ⟨d3, _, h⟩
  · exact absurd h1 (pathsStage_never_panics _ _ _)
  · exact absurd h (envStage_never_panics _ _ _)

/-- where a panic of the whole function can come from -/
theorem load_panic_origin (c : Cfg) (docs : List Val.KVs) (s : String) (h : load c docs = .panic s) :
    c.opts.skipValidation = false ∧
      s ∈ ["validation.init.checkFileObject", "validation.checkPath", "validation.checkDeviceRequest"] := by
  unfold load at h
  split at h
  · cases h
  rcases bind_panic h with h1 | ⟨d, _, h⟩
  · unfold loadYamlModel at h1
    rcases bind_panic h1 with h2 | ⟨d0, _, h2⟩
    · exact (processDocs_only_panic_sites c docs _ s h2).elim
    · exact finishModel_only_panic_sites c d0 s h2
  · exact absurd h (finishLoad_never_panics _ _ _)

/-- **C01, composed**: for every configuration, every option combination and every list of documents, the whole
dictionary pipeline of `loader.LoadModelWithContext` yields a model or a stage error — the only panic outcomes the
composed model has are the four reviewed assertion sites -/
theorem load_only_panic_sites (c : Cfg) (docs : List Val.KVs) (s : String) (h : load c docs = .panic s) :
    s ∈ reviewedSites := by
  exact (load_panic_origin c docs s h).2

/-- with validation skipped the three `validation` sites are out of reach as well: no panic outcome is left -/
theorem load_skipValidation_never_panics (c : Cfg) (docs : List Val.KVs) (s : String)
    (hv : c.opts.skipValidation = true) : load c docs ≠ .panic s := by
  intro h
  have h2 := (load_panic_origin c docs s h).1
  rw [hv] at h2; cases h2


/-- the same for files given as YAML text (several `---` documents per file, `!reset` / `!override` tags) -/
theorem loadY_panic_origin (c : Cfg) (files : List (List Reset.YNode)) (s : String) (h : loadY c files = .panic s) :
    c.opts.skipValidation = false ∧
      s ∈ ["validation.init.checkFileObject", "validation.checkPath", "validation.checkDeviceRequest"] := by
  unfold loadY at h
  split at h
  · cases h
  rcases bind_panic h with h1 | ⟨d, _, h⟩
  · unfold loadYamlModelY at h1
    rcases bind_panic h1 with h2 | ⟨d0, _, h2⟩
    · exact (processFiles_only_panic_sites c files _ s h2).elim
    · exact finishModel_only_panic_sites c d0 s h2
  · exact absurd h (finishLoad_never_panics _ _ _)

theorem loadY_only_panic_sites (c : Cfg) (files : List (List Reset.YNode)) (s : String) (h : loadY c files = .panic s) :
    s ∈ reviewedSites := by
  exact (loadY_panic_origin c files s h).2

theorem loadY_skipValidation_never_panics (c : Cfg) (files : List (List Reset.YNode)) (s : String)
    (hv : c.opts.skipValidation = true) : loadY c files ≠ .panic s := by
  intro h
  have h2 := (loadY_panic_origin c files s h).1
  rw [hv] at h2; cases h2

/-! ## round 6 — `extends` from OTHER FILES inside the composed function (`Model/C01PipelineFS.lean`)

`getExtendsBaseFromFile` sends the referenced file through the same per-document pipeline under a cloned option set and
then through `ResolveRelativePaths`; `PipeFS.fsOf` computes C05's file-system parameter from the raw documents of the
files, so the hypothesis "loading the extended files does not panic" of C05's `applyExtends_ok_or_err_real` is no longer
a hypothesis: it is PROVED from the totality of the per-document pipeline (`processDocs_only_panic_sites`) and of C12's
`Paths.resolve`. -/
section FS
open CV.C01PipeFS

/-- loading a referenced file the way `getExtendsBaseFromFile` does never panics — neither in `loadYamlFile` nor in
`ResolveRelativePaths` — whatever the file holds -/
theorem loadBase_never_panics (c : Cfg) (b : BaseFile) : (loadBase c b).panicSite? = none := by
  unfold loadBase
  split
  · rfl
  · rename_i s h; exact (processDocs_only_panic_sites _ _ _ _ h).elim
  · split
    · rfl
    · rfl
    · rfl
    · rename_i s h; exact absurd h (Paths.resolve_never_panics _ _ _)
  · rfl

/-- the computed file system has no panicking entry: the hypothesis of C05's totality theorem, discharged -/
theorem fsOf_never_panics (c : Cfg) : ∀ (bs : List BaseFile) (f s : String), ¬ Extends.fsPanics (fsOf c bs) f s
  | [], f, s => by
    intro ⟨r, hr, _⟩; simp [fsOf, Extends.fsLookup] at hr
  | b :: bs, f, s => by
    intro ⟨r, hr, hp⟩
    simp only [fsOf, List.map_cons, Extends.fsLookup] at hr
    split at hr
    · injection hr with hr; subst hr
      rw [loadBase_never_panics] at hp; cases hp
    · exact fsOf_never_panics c bs f s ⟨r, hr, hp⟩

/-- `ApplyExtends` with other files reachable: C05's `applyExtends_ok_or_err_real` on the computed file system -/
theorem extendsStageFS_never_panics (c : Cfg) (bs : List BaseFile) (cfg : Val.KVs) (s : String) :
    extendsStageFS c bs cfg ≠ .panic s := by
  unfold extendsStageFS
  split
  · intro h; cases h
  · intro h
    have hp : Extends.applyExtends (Extends.realEnv c.mainFile (fsOf c bs)) cfg = .panic s := by
      revert h; cases Extends.applyExtends (Extends.realEnv c.mainFile (fsOf c bs)) cfg <;> simp [ofExtendsFS]
    have hfs := fsOf_never_panics c bs
    unfold Extends.applyExtends at hp
    split at hp
    · rename_i S hS
      rcases Extends.applyExtends_ok_or_err_real c.mainFile (fsOf c bs) hfs (order := Val.keys S) (dict := cfg)
        (fun S' h' => by
          rw [hS] at h'; injection h' with h'; injection h' with h'; subst h'
          intro n
          rw [Ne, Merge.lookup_eq_none_iff, Classical.not_not]) with ⟨o, ho⟩ | ⟨e, he⟩
      · rw [ho] at hp; cases hp
      · rw [he] at hp; cases hp
    · rename_i hS
      rcases Extends.applyExtends_ok_or_err_real c.mainFile (fsOf c bs) hfs (order := []) (dict := cfg)
        (fun S' h' => absurd h' (hS S')) with ⟨o, ho⟩ | ⟨e, he⟩
      · rw [ho] at hp; cases hp
      · rw [he] at hp; cases hp

theorem processDocFS_never_panics (c : Cfg) (bs : List BaseFile) (dict : Val) (cfg : Val.KVs) (s : String)
    (h : processDocFS c bs dict cfg = .panic s) : False := by
  unfold processDocFS at h
  rcases bind_panic h with h1 | ⟨cfg', _, h⟩
  · exact absurd h1 (interpStage_never_panics _ _ _)
  rcases bind_panic h with h1 | ⟨cfg'', _, h⟩
  · exact absurd h1 (extendsStageFS_never_panics _ _ _ _)
  · exact mergeStages_never_panics _ _ _ _ h

theorem processDocsFS_never_panics (c : Cfg) (bs : List BaseFile) : ∀ (docs : List Val.KVs) (dict : Val) (s : String),
    processDocsFS c bs dict docs = .panic s → False
  | [], _, _, h => by cases h
  | d :: r, dict, s, h => by
    unfold processDocsFS at h
    split at h
    · exact processDocsFS_never_panics c bs r _ s h
    · cases h
    · rename_i s' hd
      cases h
      exact processDocFS_never_panics c bs dict d s hd

/-- **C01, composed, with cross-file `extends`**: for every configuration, option combination, list of documents AND
every set of files an `extends.file` can name (any content), the composed function returns a model or a stage error;
the only panic outcomes are the three `validation` sites, and only with validation on -/
theorem loadFS_panic_origin (c : Cfg) (bs : List BaseFile) (docs : List Val.KVs) (s : String)
    (h : loadFS c bs docs = .panic s) :
    c.opts.skipValidation = false ∧ s ∈ reviewedSites := by
  unfold loadFS at h
  split at h
  · cases h
  rcases bind_panic h with h1 | ⟨d, _, h⟩
  · unfold loadYamlModelFS at h1
    rcases bind_panic h1 with h2 | ⟨d0, _, h2⟩
    · exact (processDocsFS_never_panics c bs docs _ s h2).elim
    · exact finishModel_only_panic_sites c d0 s h2
  · exact absurd h (finishLoad_never_panics _ _ _)

theorem loadFS_skipValidation_never_panics (c : Cfg) (bs : List BaseFile) (docs : List Val.KVs) (s : String)
    (hv : c.opts.skipValidation = true) : loadFS c bs docs ≠ .panic s := by
  intro h
  have h2 := (loadFS_panic_origin c bs docs s h).1
  rw [hv] at h2; cases h2

/-- same outcome up to the NAME of the failing stage (the wrapper keeps the stage of an error raised inside a referenced
file; the integrator's `ofExtends` calls every extends-time error `extends`) -/
def SameUpToStage {α : Type} : Pipeline.Out α → Pipeline.Out α → Prop
  | .ok a, .ok b => a = b
  | .err _, .err _ => True
  | .panic s, .panic t => s = t
  | _, _ => False

theorem SameUpToStage.bind {α β : Type} {x y : Pipeline.Out α} (f : α → Pipeline.Out β) (hf : ∀ a, SameUpToStage (f a) (f a))
    (h : SameUpToStage x y) : SameUpToStage (x.bind f) (y.bind f) := by
  cases x <;> cases y <;> simp_all [SameUpToStage, Out.bind]

theorem SameUpToStage.rfl' {α : Type} (x : Pipeline.Out α) : SameUpToStage x x := by
  cases x <;> simp [SameUpToStage]

theorem processDocFS_nil (c : Cfg) (dict : Val) (d : Val.KVs) :
    SameUpToStage (processDocFS c [] dict d) (processDoc c dict d) := by
  unfold processDocFS processDoc
  cases interpStage c d with
  | err e => simp [Out.bind, SameUpToStage]
  | panic t => simp [Out.bind, SameUpToStage]
  | ok cfg =>
    simp only [Out.bind]
    refine SameUpToStage.bind _ (fun a => SameUpToStage.rfl' _) ?_
    unfold extendsStageFS extendsStage
    have hfs : fsOf c [] = [] := rfl
    rw [hfs]
    split
    · simp [SameUpToStage]
    · cases Extends.applyExtends (Extends.realEnv c.mainFile []) cfg <;> simp [ofExtendsFS, ofExtends, SameUpToStage]

theorem processDocsFS_nil (c : Cfg) : ∀ (docs : List Val.KVs) (dict : Val),
    SameUpToStage (processDocsFS c [] dict docs) (processDocs c dict docs)
  | [], _ => by simp [processDocsFS, processDocs, SameUpToStage]
  | d :: r, dict => by
    have h := processDocFS_nil c dict d
    unfold processDocsFS processDocs
    cases h1 : processDocFS c [] dict d <;> cases h2 : processDoc c dict d <;>
      simp_all [SameUpToStage]
    exact processDocsFS_nil c r _

/-- the wrapper is conservative: with no other file on disk it is the integrator's `Pipeline.load` — same model, same
panic site, an error exactly when that one has an error -/
theorem loadFS_nil_same_as_load (c : Cfg) (docs : List Val.KVs) : SameUpToStage (loadFS c [] docs) (load c docs) := by
  unfold loadFS load loadYamlModelFS loadYamlModel
  split
  · simp [SameUpToStage]
  · exact SameUpToStage.bind _ (fun a => SameUpToStage.rfl' _)
      (SameUpToStage.bind _ (fun a => SameUpToStage.rfl' _) (processDocsFS_nil c docs _))

end FS

/-- **the glue is the source**: the stage calls of `loadYamlFile` (with its closure `processRawYaml`), `loadYamlModel`,
`load`, `loadModelWithContext` and `ResolveEnvironment` — in source order, each with the option tests that guard it,
regenerated from loader/loader.go and loader/environment.go on every run — are the skeleton `Model/Pipeline.lean`
composes.  Reordering two stages, dropping one or changing a guard breaks this obligation. -/
theorem glue_skeleton_is_modelled :
    CV.Gen.pipeline_skeleton_loadYamlFile = skeletonLoadYamlFile ∧
    CV.Gen.pipeline_skeleton_loadYamlModel = skeletonLoadYamlModel ∧
    CV.Gen.pipeline_skeleton_load = skeletonLoad ∧
    CV.Gen.pipeline_skeleton_loadModelWithContext = skeletonLoadModelWithContext ∧
    CV.Gen.pipeline_skeleton_ResolveEnvironment = skeletonResolveEnvironment := by
  refine ⟨?_, ?_, ?_, ?_, ?_⟩ <;> decide

/-- the empty list of files and the empty model are *errors* (never a crash, never an empty project) -/
theorem load_no_files (c : Cfg) : load c [] = .err "nofiles" := rfl

/-- a configuration for the non-vacuity examples: no variables, working directory `/w` -/
def exampleCfg : Cfg where
  opts := {}
  interp := ⟨[], ⟨fun _ => none, fun _ => none⟩, fun _ => none⟩
  paths := { wd := "/w".toList, home := none }
  env := []
  projectName := "p"
  clean := id
  omitPats := []

/-! non-vacuity: the composed model loads a small project end to end (defaults, canonical forms, normalisation) … -/
-- (a *test*, evaluated by the interpreter: the kernel does not unfold the well-founded recursions of two stage models)
#guard (load exampleCfg [[("services", .map [("a", .map [("image", .str "x")])])]]).stage == "ok"

/-! … reports the stage of a failure … -/
example : (load exampleCfg [[("services", .map [("a", .map [("image", .str "${")])])]]).stage = "err:interpolate" := by decide +kernel
example : (load exampleCfg [[("servicez", .map [])]]).stage = "err:schema" := by decide +kernel
#guard (load { exampleCfg with projectName := "" } [[("services", .map [("a", .map [("image", .str "x")])])]]).stage == "err:name"

/-- … and the panic constructor *is* reachable in the composed model where the site review says so: with validation
skipped the schema no longer stands in front of `transformKeyValue`'s `e.(string)`… but the first `EnforceUnicity`
does (`keyValueIndexer` rejects the non-string item): the composed model returns an error, not the panic the
`Canonical` stage model alone has on this tree (`Props/C01Pipeline.lean`) -/
example : (load { exampleCfg with opts := { skipValidation := true } }
    [[("services", .map [("a", .map [("build", .map [("additional_contexts", .seq [.int 1])])])])]]).stage = "err:unicity" := by decide +kernel

/-- a reference to a file that is not there is an ERROR of the extends stage (the property's "missing file" clause for
`extends.file`, on the composed function, end to end) … -/
example : (CV.C01PipeFS.loadFS { exampleCfg with opts := { skipExtends := false } } []
    [[("services", .map [("a", .map [("extends", .map [("file", .str "base.yaml"), ("service", .str "b")])])])]]).stage
    = "err:extends" := by decide +kernel


/-! … a file that is there is read, sent through the per-document pipeline and merged (non-vacuity of `loadFS_panic_origin`:
the composed function does reach the cross-file branch and loads) … -/
#guard (CV.C01PipeFS.loadFS { exampleCfg with opts := { skipExtends := false } }
    [⟨"base.yaml", ".", [[("services", .map [("b", .map [("image", .str "x"), ("build", .str "./ctx")])])]]⟩]
    [[("services", .map [("a", .map [("extends", .map [("file", .str "base.yaml"), ("service", .str "b")])])])]]).stage == "ok"
/-! … and a file that is there but lacks the service, or does not go through its own pipeline, is an error as well -/
#guard (CV.C01PipeFS.loadFS { exampleCfg with opts := { skipExtends := false } }
    [⟨"base.yaml", ".", [[("services", .map [("c", .map [("image", .str "x")])])]]⟩]
    [[("services", .map [("a", .map [("extends", .map [("file", .str "base.yaml"), ("service", .str "b")])])])]]).stage == "err:extends"
#guard (CV.C01PipeFS.loadFS { exampleCfg with opts := { skipExtends := false } }
    [⟨"base.yaml", ".", [[("services", .map [("b", .map [("image", .str "${")])])]]⟩]
    [[("services", .map [("a", .map [("extends", .map [("file", .str "base.yaml"), ("service", .str "b")])])])]]).stage == "err:interpolate"

end CV.C01.Whole
