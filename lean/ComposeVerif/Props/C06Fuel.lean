import ComposeVerif.Model.IncludePipe
import ComposeVerif.Props.C06
/-!
# C06 — the executable world of the driver: more fuel never changes an answer

`loadYaml D n` is the sub-load used by the correspondence driver; `n` bounds the nesting depth.  A successful load
with fuel `n` is the same load with any larger fuel, so the fuel the driver passes (number of files + 2) is not
part of the semantics being compared with the real loader.
-/
namespace CV.Include
open CV CV.Val

abbrev LoadFn := String → String → List String → Env → List String → Out KVs

def LoadLe (lm lm' : LoadFn) : Prop := ∀ a b c d e r, lm a b c d e = .ok r → lm' a b c d e = .ok r

theorem worldOf_withLoad (D : FSData) (lm lm' : LoadFn) : (worldOf D lm).withLoad lm' = worldOf D lm' := rfl

theorem loadDocs_mono (D : FSData) (lm lm' : LoadFn) (hle : LoadLe lm lm') (wd L : String) (env : Env) (chain : List String) :
    ∀ (docs : List Val) (dict r : KVs), loadDocs (worldOf D lm) wd L env chain docs dict = .ok r →
      loadDocs (worldOf D lm') wd L env chain docs dict = .ok r
  | [], dict, r, h => h
  | .map doc :: rest, dict, r, h => by
    simp only [loadDocs] at h ⊢
    obtain ⟨cfg, h1, h⟩ := bind_eq_ok h
    obtain ⟨cfg', h2, h⟩ := bind_eq_ok h
    have h2' := include_nested_mono (worldOf D lm) lm' hle wd L env chain _ _ h2
    rw [worldOf_withLoad] at h2'
    simp only [h1, bind_ok, h2']
    exact loadDocs_mono D lm lm' hle wd L env chain rest _ r h
  | .null :: _, _, _, h | .bool _ :: _, _, _, h | .int _ :: _, _, _, h | .float _ :: _, _, _, h
  | .str _ :: _, _, _, h | .seq _ :: _, _, _, h => by simp [loadDocs] at h

theorem loadFiles_mono (D : FSData) (lm lm' : LoadFn) (hle : LoadLe lm lm') (wd L : String) (env : Env) (chain : List String) :
    ∀ (files : List String) (dict r : KVs), loadFiles D (worldOf D lm) wd L env chain files dict = .ok r →
      loadFiles D (worldOf D lm') wd L env chain files dict = .ok r
  | [], dict, r, h => h
  | f :: rest, dict, r, h => by
    simp only [loadFiles] at h ⊢
    split at h
    · cases h
    · rename_i hd
      simp only [hd, if_false]
      split at h
      · split at h <;> cases h
      · rename_i docs hdocs
        obtain ⟨dict', h1, h⟩ := bind_eq_ok h
        simp only [loadDocs_mono D lm lm' hle wd L env _ docs dict dict' h1, bind_ok]
        exact loadFiles_mono D lm lm' hle wd L env chain rest dict' r h

/-- **loadYaml_fuel_mono**: a load that succeeds with fuel `n` gives the same result with fuel `n + 1` -/
theorem loadYaml_fuel_succ (D : FSData) : ∀ n, LoadLe (loadYaml D n) (loadYaml D (n + 1))
  | 0 => by intro a b c d e r h; simp [loadYaml] at h
  | n + 1 => by
    intro wd L files env chain r h
    simp only [loadYaml] at h ⊢
    obtain ⟨dict, h1, h⟩ := bind_eq_ok h
    have := loadFiles_mono D (loadYaml D n) (loadYaml D (n + 1)) (loadYaml_fuel_succ D n) wd L env chain files [] dict h1
    simp only [loadYaml] at this
    simp only [this, bind_ok]
    exact h

/-- … hence with any larger fuel -/
theorem loadYaml_fuel_mono (D : FSData) (n m : Nat) (hnm : n ≤ m) : LoadLe (loadYaml D n) (loadYaml D m) := by
  induction m with
  | zero => have : n = 0 := by omega
            subst this; intro a b c d e r h; exact h
  | succ m ih =>
    by_cases hc : n = m + 1
    · subst hc; intro a b c d e r h; exact h
    · have hle : n ≤ m := by omega
      intro a b c d e r h
      exact loadYaml_fuel_succ D m a b c d e r (ih hle a b c d e r h)

/-- the driver's top-level call: `applyInclude` in the world with fuel `n` agrees with any larger fuel -/
theorem applyInclude_fuel_mono (D : FSData) (n m : Nat) (hnm : n ≤ m) (wd L : String) (env : Env) (chain : List String)
    (model r : KVs) (h : applyInclude (world D n) wd L env chain model = .ok r) :
    applyInclude (world D m) wd L env chain model = .ok r := by
  have := include_nested_mono (world D n) (loadYaml D m) (loadYaml_fuel_mono D n m hnm) wd L env chain model r h
  exact this

end CV.Include
