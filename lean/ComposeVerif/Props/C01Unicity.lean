import ComposeVerif.Lemmas.C01Unicity
import ComposeVerif.Gen.C01Source
/-!
# C01 — `override.enforceUnicity`'s unchecked store `seq[j] = entry` is always in range (round 5)

`Model/C01Unicity.lean` models the `seq` / `keys` loop as the code runs it (recorded indices, `panic` for an index
outside the slice).  Here: the panic is unreachable for every list of (key, entry) pairs — unbounded, any keys, any
repetition pattern — because every index recorded in `keys` stays inside `seq`; and the loop computes exactly C04's
`Unicity.dedup` (`foldl insert`), so `Unicity.enforceTop` (whose `enforceTop_never_panics` is used by the pipeline
theorem) and this index-level model describe one function.  The body of `enforceUnicity` is pinned to the text the
model was compared with.  Seeded change C01-6 (`keys[key] = i`) is the definition `recordedInputIndex`: the model
panics on `[A, A, B, B]`, as the code then does.
Tie by execution: stream `c01unicityLoop` (harness/p/c01/c01_unicity.go).
-/
namespace CV.C01
open CV

/-- `unicityLoop_never_panics`: for every list of entries with their keys the loop ends with a sequence — the store
`seq[j] = entry` is never out of range -/
theorem unicityLoop_never_panics (kes : List (String × Val)) (site : String) : Uniq.run kes ≠ .panic site := by
  obtain ⟨st, h, _⟩ := Uniq.loop_rel kes 0 ⟨[], []⟩ [] Uniq.rel_init
  simp only [Uniq.run, Uniq.loop, h]
  intro e; cases e

/-- `unicityLoop_index_invariant`: … because at the end of every run each index recorded in `keys` is inside `seq` -/
theorem unicityLoop_index_invariant (kes : List (String × Val)) (st : Uniq.St) (h : Uniq.loop kes = some st)
    (k : String) (j : Nat) (hj : Uniq.lookupIdx k st.keys = some j) : j < st.seq.length := by
  obtain ⟨st', h', hs, hk⟩ := Uniq.loop_rel kes 0 ⟨[], []⟩ [] Uniq.rel_init
  simp only [Uniq.loop] at h
  rw [h] at h'
  cases h'
  rw [hs, List.length_map]
  exact Uniq.idx_lt ((hk k).symm.trans hj)

/-- `unicityLoop_refines_dedup`: the index-keeping loop computes C04's `dedup` (one entry per key, a later entry
replacing the earlier one at the earlier position) -/
theorem unicityLoop_refines_dedup (ks : List String) (xs : List Val) :
    Uniq.run (ks.zip xs) = .ok (Unicity.dedup ks xs) := by
  obtain ⟨st, h, hs, _⟩ := Uniq.loop_rel (ks.zip xs) 0 ⟨[], []⟩ [] Uniq.rel_init
  simp only [Uniq.run, Uniq.loop, h, hs, Unicity.dedup, Unicity.dedupKVs]

/-- the result is never longer than the input (each iteration appends at most one element) -/
theorem unicityLoop_length_le (ks : List String) (xs : List Val) : (Unicity.dedup ks xs).length ≤ (ks.zip xs).length := by
  have key : ∀ (l : List (String × Val)) (acc : Val.KVs),
      (l.foldl (fun acc e => Val.insert e.1 e.2 acc) acc).length ≤ acc.length + l.length := by
    intro l
    induction l with
    | nil => intro acc; simp
    | cons e r ih =>
      intro acc
      have hins : ∀ (acc : Val.KVs), (Val.insert e.1 e.2 acc).length ≤ acc.length + 1 := by
        intro acc
        induction acc with
        | nil => simp [Val.insert]
        | cons a t iht =>
          unfold Val.insert
          split <;> simp only [List.length_cons] <;> omega
      have := ih (Val.insert e.1 e.2 acc)
      have := hins acc
      simp only [List.foldl_cons, List.length_cons]
      omega
  have := key (ks.zip xs) []
  simpa [Unicity.dedup, Unicity.dedupKVs] using this

/-! non-vacuity and sensitivity -/

example : Uniq.run [("A", .str "A=1"), ("A", .str "A=2"), ("B", .str "B=1"), ("B", .str "B=2")]
    = .ok [.str "A=2", .str "B=2"] := by rfl
example : Uniq.run [("A", .str "A=1"), ("B", .str "B=1"), ("A", .str "A=2"), ("C", .str "C"), ("B", .str "B=2")]
    = .ok [.str "A=2", .str "B=2", .str "C"] := by rfl
/-- with the index of seeded change C01-6 the same loop leaves the slice -/
example : Uniq.runInputIndex [("A", .str "A=1"), ("A", .str "A=2"), ("B", .str "B=1"), ("B", .str "B=2")]
    = .panic "override.enforceUnicity" := by rfl
/-- … or silently overwrites another entry (`[A A B C B]`: the second `B` lands on `C`'s slot) -/
example : Uniq.runInputIndex [("A", .str "a1"), ("A", .str "a2"), ("B", .str "b1"), ("C", .str "c1"), ("B", .str "b2")]
    = .ok [.str "a2", .str "b1", .str "b2"] := by rfl

/-- `unicity_loop_is_source`: the body of `enforceUnicity` is the text `Model/C01Unicity.lean` was compared with -/
theorem unicity_loop_is_source :
    CV.Gen.c01_body_enforceUnicity =
      "{ switch v := value.(type) { case map[string]any: for k, e := range v { u, err := enforceUnicity(e, p.Next(k)) if err != nil { return nil, err } v[k] = u } return v, nil case []any: for pattern, indexer := range unique { if p.Matches(pattern) { seq := []any{} keys := map[string]int{} for i, entry := range v { key, err := indexer(entry, p.Next(fmt.Sprintf(\"[%d]\", i))) if err != nil { return nil, err } if j, ok := keys[key]; ok { seq[j] = entry } else { seq = append(seq, entry) keys[key] = len(seq) - 1 } } return seq, nil } } } return value, nil }" :=
  rfl

end CV.C01
