import ComposeVerif.Props.C04Rows
import ComposeVerif.Props.C04Frame
/-!
# C04 — `services.*.ulimits.*`: the closed form for a `{soft, hard}` mapping

`mergeUlimit` merges the later file's mapping *with itself* (`mergeMappings(o, o, p)`).  For a mapping whose keys are
distinct and whose values are scalars — every valid ulimit — that self-merge is the identity: **the later file's ulimit
replaces the earlier one as a whole** (`ulimit_mapping_replaces`).  With a nested list the self-merge doubles it
(`Neg.ulimit_list_doubled`), which is why the scalar hypothesis is needed.
-/
namespace CV.C04.Rows
open CV CV.Val CV.Merge CV.C04

/-- table fact: no custom merge rule sits at a pattern longer than 4 parts -/
theorem rules_at_length_four_or_less : ∀ r ∈ CV.Gen.mergeSpecials, r.1.length ≤ 4 := by decide

theorem ruleAt_long (p : TPath) (h : 5 ≤ p.length) : ruleAt p = none := by
  unfold ruleAt ruleAtIn
  cases hf : TPath.firstMatch CV.Gen.mergeSpecials p with
  | none => rfl
  | some n =>
    obtain ⟨pat, hm, hx⟩ := TPath.firstMatch_some_mem hf
    have h4 := rules_at_length_four_or_less (pat, n) hm
    have := pmatch_length pat p hx
    simp only at h4
    omega

def isScalar : Val → Bool
  | .seq _ => false
  | .map _ => false
  | _ => true

/-- a scalar merged onto itself where no rule applies is itself -/
theorem scalar_self_merge (n : Nat) (v : Val) (p : TPath) (hp : ruleAt p = none) (hv : isScalar v = true) :
    mergeYaml (n + 1) v v p = .ok v := by
  cases v <;> simp_all [mergeYaml, mergeStep, defaultStep, isScalar]

theorem insert_same : ∀ (a : KVs) (k : String) (v : Val), lookup k a = some v → Val.insert k v a = a
  | [], k, v, h => by simp [lookup] at h
  | (k', v') :: r, k, v, h => by
    simp only [lookup] at h
    simp only [Val.insert]
    by_cases hk : k = k'
    · simp only [hk, if_true] at h ⊢
      cases h; rfl
    · simp only [hk, if_false] at h ⊢
      rw [insert_same r k v h]

/-- the loop of `mergeMappings(a, r, p)` when every entry of `r` is already in `a` with the same scalar value -/
theorem mergeKVs_sub_self (n : Nat) (p : TPath) (hp : ∀ k, ruleAt (next p k) = none) (a : KVs) : ∀ r : KVs,
    (∀ k v, (k, v) ∈ r → lookup k a = some v ∧ isScalar v = true) → mergeKVs (n + 1) a r p = .ok a
  | [], _ => by simp [mergeKVs, mergeKVsWith]
  | (k, v) :: r, h => by
    obtain ⟨hl, hs⟩ := h k v (by simp)
    have ih := mergeKVs_sub_self n p hp a r (fun k' v' hm => h k' v' (by simp [hm]))
    simp only [mergeKVs] at ih ⊢
    simp only [mergeKVsWith, hl]
    split
    · rw [insert_same a k v hl]; exact ih
    · rw [scalar_self_merge n v _ (hp k) hs]
      simp only [Out.bind]
      rw [insert_same a k v hl]; exact ih

theorem lookup_of_mem_nodup : ∀ (a : KVs) (k : String) (v : Val), (keys a).Nodup → (k, v) ∈ a → lookup k a = some v
  | [], _, _, _, h => by cases h
  | (k', v') :: r, k, v, hnd, h => by
    simp only [keys, List.map_cons, List.nodup_cons] at hnd
    simp only [List.mem_cons, Prod.mk.injEq] at h
    simp only [lookup]
    rcases h with ⟨rfl, rfl⟩ | h
    · simp
    · have : k ≠ k' := by
        intro e; subst e
        exact hnd.1 (List.mem_map.mpr ⟨(k, v), h, rfl⟩)
      simp only [this, if_false]
      exact lookup_of_mem_nodup r k v hnd.2 h

/-- **a `{soft, hard}` ulimit of the later file replaces the earlier one as a whole** — any service, any ulimit name,
whatever the earlier files held (a number, another mapping, nothing) -/
theorem ulimit_mapping_replaces (s u : String) (n : Nat) (e : Val) (kvs : KVs) (hnd : (keys kvs).Nodup)
    (hsc : ∀ k v, (k, v) ∈ kvs → isScalar v = true) :
    mergeYaml (n + 2) e (.map kvs) ["services", s, "ulimits", u] = .ok (.map kvs) := by
  have hr : ruleAt ["services", s, "ulimits", u] = some .ulimit :=
    row_rule (pat := ["services", "*", "ulimits", "*"]) (name := "mergeUlimit") (by decide) _ (by simp [TPath.pmatch])
  have hlong : ∀ k, ruleAt (next ["services", s, "ulimits", u] k) = none := by
    intro k
    apply ruleAt_long
    simp [next, TPath.root]
  have := mergeKVs_sub_self n ["services", s, "ulimits", u] hlong kvs kvs
    (fun k v hm => ⟨lookup_of_mem_nodup kvs k v hnd hm, hsc k v hm⟩)
  simp only [mergeKVs] at this
  show mergeStep (mergeKVsWith (mergeYaml (n + 1))) e (.map kvs) ["services", s, "ulimits", u] = .ok (.map kvs)
  simp only [mergeStep, hr, specialStep, this, Out.bind]

example : mergeYaml 2 (.int 5) (.map [("soft", .int 10), ("hard", .int 20)]) ["services", "web", "ulimits", "nofile"]
    = .ok (.map [("soft", .int 10), ("hard", .int 20)]) :=
  ulimit_mapping_replaces "web" "nofile" 0 _ _ (by decide) (by intro k v h; simp at h; rcases h with ⟨_, rfl⟩ | ⟨_, rfl⟩ <;> rfl)

end CV.C04.Rows
