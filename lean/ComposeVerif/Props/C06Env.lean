import ComposeVerif.Model.Include
import ComposeVerif.Props.C06
/-!
# C06 — the environment of the included project, down to the files (`dotenv.GetEnvFromFile`), and its options

`Props/C06.lean` proves the environment clause of the property for *any* `GetEnvFromFile` (a world parameter).  Here the
loop of `dotenv.GetEnvFromFile` itself is the model (`getEnvLoop`, `Model/Include.lean`; file system and the parser of
one file are parameters), and the clause is closed:

  a variable of the included project = the parent's value if the parent defines it, else the value given by the **last**
  declared `env_file` (or the project directory's `.env`) that defines it; every file is parsed with a lookup that asks the
  parent environment first, then the files before it; a missing file / a directory / an unreadable file is an error.

Second part: the options of the included load (`Options.clone()` + the three forced flags).
-/
namespace CV.Include
open CV

/-! ## `map[string]string` updates -/

theorem envSet_get (k v : String) (m : Env) (x : String) :
    Env.get (envSet k v m) x = if x = k then some v else Env.get m x := by
  induction m with
  | nil => simp only [envSet, Env.get]
  | cons p r ih =>
    obtain ⟨k', v'⟩ := p
    simp only [envSet]
    by_cases hk : k = k'
    · subst hk
      simp only [if_true, Env.get]
      by_cases hx : x = k <;> simp only [hx, if_true, if_false]
    · simp only [hk, if_false, Env.get, ih]
      by_cases hx : x = k'
      · subst hx
        have : ¬ x = k := fun h => hk h.symm
        simp only [if_true, this, if_false]
      · simp only [hx, if_false]

/-- the value the *last* entry for `x` gives (a Go map has one entry per key; a list may repeat it) -/
def Env.getLast : Env → String → Option String
  | [], _ => none
  | (k, v) :: r, x =>
    match Env.getLast r x with
    | some w => some w
    | none => if x = k then some v else none

/-- `for k, v := range env { envMap[k] = v }`: the file's variables replace, the others stay -/
theorem envOverride_get (acc env : Env) (x : String) :
    Env.get (envOverride acc env) x = match Env.getLast env x with
      | some w => some w
      | none => Env.get acc x := by
  simp only [envOverride]
  induction env generalizing acc with
  | nil => simp only [List.foldl_nil, Env.getLast]
  | cons p r ih =>
    obtain ⟨k, v⟩ := p
    simp only [List.foldl_cons, Env.getLast]
    rw [ih, envSet_get]
    cases Env.getLast r x with
    | some w => rfl
    | none =>
      by_cases hx : x = k
      · simp only [hx, if_true]
      · simp only [hx, if_false]

/-! ## the loop of `GetEnvFromFile` -/

variable {C : Type}

/-- no file: the empty map, no access to the file system -/
theorem getEnvFromFile_nil (E : EnvWorld C) (cur : Env) : getEnvFromFile E cur [] = .ok [] := rfl

/-- one step on a regular, readable, well-formed file -/
theorem getEnvLoop_file (E : EnvWorld C) (cur : Env) (all rest : List String) (f : String) (acc env : Env) (c : C)
    (hs : E.stat (E.abs f) = .file) (hr : E.read (E.abs f) = .ok c) (hp : E.parse c (envLookup cur acc) = .ok env) :
    getEnvLoop E cur all (f :: rest) acc = getEnvLoop E cur all rest (envOverride acc env) := by
  simp only [getEnvLoop, hs, hr, hp]

/-- the lookup handed to the parser of every file asks the *current* (parent) environment first … -/
theorem envLookup_parent_first (cur acc : Env) (k v : String) (h : Env.get cur k = some v) :
    envLookup cur acc k = some v := by
  simp only [envLookup, h]

/-- … and only then the variables of the files read before -/
theorem envLookup_then_earlier_files (cur acc : Env) (k : String) (h : Env.get cur k = none) :
    envLookup cur acc k = Env.get acc k := by
  simp only [envLookup, h]

/-- `Parsed E cur files acc es r`: every file of `files` is a regular readable file whose parse — with the lookup
"parent first, then the files before" — is the corresponding element of `es`, and `r` accumulates them onto `acc` -/
inductive Parsed (E : EnvWorld C) (cur : Env) : List String → Env → List Env → Env → Prop
  | nil (acc : Env) : Parsed E cur [] acc [] acc
  | cons {f rest acc c env es r} :
      E.stat (E.abs f) = .file → E.read (E.abs f) = .ok c → E.parse c (envLookup cur acc) = .ok env →
      Parsed E cur rest (envOverride acc env) es r → Parsed E cur (f :: rest) acc (env :: es) r

/-- success of the loop ⇔ every file parses in turn (`all ≠ []`: inside the loop `filenames` is not empty, so the
`len(filenames) == 0` escape for a directory is dead code) -/
theorem getEnvLoop_ok_iff (E : EnvWorld C) (cur : Env) (all files : List String) (acc r : Env) (hall : all ≠ []) :
    getEnvLoop E cur all files acc = .ok r ↔ ∃ es, Parsed E cur files acc es r := by
  induction files generalizing acc with
  | nil =>
    simp only [getEnvLoop]
    constructor
    · intro h; cases h; exact ⟨[], .nil _⟩
    · rintro ⟨es, h⟩; cases h; rfl
  | cons f rest ih =>
    have hlen : ¬ all.length = 0 := by
      cases all with
      | nil => exact absurd rfl hall
      | cons a l => simp
    constructor
    · intro h
      simp only [getEnvLoop] at h
      cases hs : E.stat (E.abs f) with
      | missing => simp only [hs] at h; cases h
      | other => simp only [hs] at h; cases h
      | dir => simp only [hs, hlen, if_false] at h; cases h
      | file =>
        simp only [hs] at h
        cases hr : E.read (E.abs f) with
        | err e => simp only [hr] at h; cases h
        | panic s => simp only [hr] at h; cases h
        | ok c =>
          simp only [hr] at h
          cases hp : E.parse c (envLookup cur acc) with
          | err e => simp only [hp] at h; cases h
          | panic s => simp only [hp] at h; cases h
          | ok env =>
            simp only [hp] at h
            obtain ⟨es, hes⟩ := (ih (envOverride acc env)).mp h
            exact ⟨env :: es, .cons hs hr hp hes⟩
    · rintro ⟨es, h⟩
      cases h with
      | cons hs hr hp hrest =>
        rw [getEnvLoop_file E cur all rest f acc _ _ hs hr hp]
        exact (ih _).mpr ⟨_, hrest⟩

/-- **GetEnvFromFile succeeds ⇔ every declared file is a regular, readable file that parses** (in order, each with
the lookup "parent environment first, then the earlier files") -/
theorem getEnvFromFile_ok_iff (E : EnvWorld C) (cur : Env) (files : List String) (r : Env) :
    getEnvFromFile E cur files = .ok r ↔ ∃ es, Parsed E cur files [] es r := by
  cases files with
  | nil =>
    simp only [getEnvFromFile, getEnvLoop]
    constructor
    · intro h; cases h; exact ⟨[], .nil []⟩
    · rintro ⟨es, h⟩; cases h; rfl
  | cons f rest => exact getEnvLoop_ok_iff E cur (f :: rest) (f :: rest) [] r (by simp)

/-- the value the last of the parsed files defining `x` gives -/
def lastDefined : List Env → String → Option String
  | [], _ => none
  | e :: es, x =>
    match lastDefined es x with
    | some w => some w
    | none => Env.getLast e x

/-- the accumulated map: the last file that defines a variable wins, what no file defines keeps its value -/
theorem parsed_get {E : EnvWorld C} {cur : Env} {files : List String} {acc r : Env} {es : List Env}
    (h : Parsed E cur files acc es r) (x : String) :
    Env.get r x = match lastDefined es x with
      | some w => some w
      | none => Env.get acc x := by
  induction h with
  | nil acc => simp only [lastDefined]
  | cons hs hr hp _ ih =>
    rw [ih, envOverride_get]
    simp only [lastDefined]
    split <;> rfl

/-- every file of a successful call exists and is a regular file -/
theorem parsed_all_files {E : EnvWorld C} {cur : Env} {files : List String} {acc r : Env} {es : List Env}
    (h : Parsed E cur files acc es r) : ∀ f ∈ files, E.stat (E.abs f) = .file := by
  induction h with
  | nil acc => intro f hf; cases hf
  | cons hs _ _ _ ih =>
    intro g hg
    rcases List.mem_cons.mp hg with rfl | hg
    · exact hs
    · exact ih g hg

/-- **closed form of `GetEnvFromFile`**: on success, `result[x]` = the value given by the last file that defines `x` -/
theorem getEnvFromFile_last_wins (E : EnvWorld C) (cur : Env) (files : List String) (r : Env)
    (h : getEnvFromFile E cur files = .ok r) :
    ∃ es, Parsed E cur files [] es r ∧ ∀ x, Env.get r x = lastDefined es x := by
  obtain ⟨es, hes⟩ := (getEnvFromFile_ok_iff E cur files r).mp h
  refine ⟨es, hes, fun x => ?_⟩
  rw [parsed_get hes x]
  cases lastDefined es x <;> rfl

/-- a declared file that does not exist, is a directory or cannot be stat'ed makes the call fail -/
theorem getEnvFromFile_not_regular_fails (E : EnvWorld C) (cur : Env) (files : List String) (f : String)
    (hf : f ∈ files) (hs : E.stat (E.abs f) ≠ .file) : ∀ r, getEnvFromFile E cur files ≠ .ok r := by
  intro r h
  obtain ⟨es, hes⟩ := (getEnvFromFile_ok_iff E cur files r).mp h
  exact hs (parsed_all_files hes f hf)

/-- the first file decides the class of the failure: missing / directory -/
theorem getEnvFromFile_first_missing (E : EnvWorld C) (cur : Env) (f : String) (rest : List String)
    (hs : E.stat (E.abs f) = .missing) : getEnvFromFile E cur (f :: rest) = .err "envNotFound" := by
  simp only [getEnvFromFile, getEnvLoop, hs]

theorem getEnvFromFile_first_dir (E : EnvWorld C) (cur : Env) (f : String) (rest : List String)
    (hs : E.stat (E.abs f) = .dir) : getEnvFromFile E cur (f :: rest) = .err "isDir" := by
  simp only [getEnvFromFile, getEnvLoop, hs, List.length_cons]
  rfl

/-- `GetEnvFromFile` has no panic of its own -/
theorem getEnvLoop_noPanic (E : EnvWorld C) (cur : Env) (all files : List String) (acc : Env)
    (hread : ∀ p s, E.read p ≠ .panic s) (hparse : ∀ c lk s, E.parse c lk ≠ .panic s) :
    ∀ s, getEnvLoop E cur all files acc ≠ .panic s := by
  induction files generalizing acc with
  | nil => intro s h; cases h
  | cons f rest ih =>
    intro s h
    simp only [getEnvLoop] at h
    cases hs : E.stat (E.abs f) with
    | missing => simp only [hs] at h; cases h
    | other => simp only [hs] at h; cases h
    | dir => simp only [hs] at h; split at h <;> cases h
    | file =>
      simp only [hs] at h
      cases hr : E.read (E.abs f) with
      | err e => simp only [hr] at h; cases h
      | panic s' => exact hread _ _ hr
      | ok c =>
        simp only [hr] at h
        cases hp : E.parse c (envLookup cur acc) with
        | err e => simp only [hp] at h; cases h
        | panic s' => exact hparse _ _ _ hp
        | ok env => simp only [hp] at h; exact ih _ s h

theorem getEnvFromFile_noPanic (E : EnvWorld C) (cur : Env) (files : List String)
    (hread : ∀ p s, E.read p ≠ .panic s) (hparse : ∀ c lk s, E.parse c lk ≠ .panic s) :
    ∀ s, getEnvFromFile E cur files ≠ .panic s :=
  getEnvLoop_noPanic E cur files files [] hread hparse

/-! ## the environment clause of the property, closed over the files -/

/-- **include_env_closed_form**: in a world whose `GetEnvFromFile` is the modelled loop, the environment `env'` the
included project is interpolated with gives every variable the parent's value if the parent defines it, and
otherwise the value of the last of the entry's env files (declared `env_file`s joined to the including project's
directory, or `<project directory>/.env` when none is declared and that file exists) that defines it — each of those
files having been parsed with the lookup "parent first, then the files before" -/
theorem include_env_closed_form (W : World) (E : EnvWorld C) (hW : W.envFromFile = getEnvFromFile E)
    (wd pd : String) (env env' : Env) (ef : List String) (h : includeEnv W wd pd env ef = .ok env') :
    ∃ efs fromFile es, envFiles W wd pd ef = .ok efs ∧ Parsed E env efs [] es fromFile ∧
      ∀ x, Env.get env' x = match Env.get env x with
        | some v => some v
        | none => lastDefined es x := by
  obtain ⟨efs, ff, h1, h2, hp, hn⟩ := include_env_precedence W wd pd env env' ef h
  rw [hW] at h2
  obtain ⟨es, hes, hget⟩ := getEnvFromFile_last_wins E env efs ff h2
  refine ⟨efs, ff, es, h1, hes, fun x => ?_⟩
  cases hx : Env.get env x with
  | some v => exact hp x v hx
  | none => rw [hn x hx, hget x]

/-- **include_env_nested** (nested includes compose, environment clause): the project included at depth 2 is
interpolated with `env2`, computed from the depth-1 project's environment `env1`, itself computed from the root
environment `env`.  Every variable has the root's value if the root defines it, else the value of the last env file of
the depth-1 entry that defines it, else the value of the last env file of the depth-2 entry that defines it -/
theorem include_env_nested (W1 W2 : World) (E : EnvWorld C)
    (h1W : W1.envFromFile = getEnvFromFile E) (h2W : W2.envFromFile = getEnvFromFile E)
    (wd1 pd1 wd2 pd2 : String) (env env1 env2 : Env) (ef1 ef2 : List String)
    (h1 : includeEnv W1 wd1 pd1 env ef1 = .ok env1) (h2 : includeEnv W2 wd2 pd2 env1 ef2 = .ok env2) :
    ∃ efs1 ff1 es1 efs2 ff2 es2, Parsed E env efs1 [] es1 ff1 ∧ Parsed E env1 efs2 [] es2 ff2 ∧
      ∀ x, Env.get env2 x = match Env.get env x with
        | some v => some v
        | none => match lastDefined es1 x with
          | some w => some w
          | none => lastDefined es2 x := by
  obtain ⟨efs1, ff1, es1, _, hp1, hg1⟩ := include_env_closed_form W1 E h1W wd1 pd1 env env1 ef1 h1
  obtain ⟨efs2, ff2, es2, _, hp2, hg2⟩ := include_env_closed_form W2 E h2W wd2 pd2 env1 env2 ef2 h2
  refine ⟨efs1, ff1, es1, efs2, ff2, es2, hp1, hp2, fun x => ?_⟩
  rw [hg2 x, hg1 x]
  cases Env.get env x with
  | some v => rfl
  | none =>
    cases lastDefined es1 x with
    | some w => rfl
    | none => rfl

/-- non-vacuity: parent `V=p`; `a.env` gives `V=a, W=a`; `b.env` gives `W=b` — the project sees `V=p` (parent), `W=b`
(last file), and `b.env` was parsed while `W=a` was visible -/
example :
    let E : EnvWorld (List (String × String)) :=
      { abs := fun p => "/" ++ p, stat := fun p => if p = "/a.env" ∨ p = "/b.env" then .file else .missing,
        read := fun p => if p = "/a.env" then .ok [("V", "a"), ("W", "a")] else .ok [("W", "b")],
        parse := fun c _ => .ok c }
    (getEnvFromFile E [("V", "p")] ["a.env", "b.env"]).bind (fun ff => .ok (envMerge [("V", "p")] ff))
      = .ok [("V", "p"), ("W", "b")] ∧
    getEnvFromFile E [] ["a.env", "nope.env"] = .err "envNotFound" := by decide

/-! ## the options of the included load -/

/-- `Options.clone()` copies every option -/
theorem clone_eq (o : Opts) : o.clone = o := rfl

/-- **include_options_inherited**: the included project is loaded with the caller's options, except that paths are
resolved, normalisation and the consistency check are left to the caller, and resource loaders / interpolation lookup
are those of the included project -/
theorem include_options_inherited (o : Opts) (ld ip : Nat) :
    o.forInclude ld ip = { o with resolvePaths := true, skipNormalization := true, skipConsistencyCheck := true,
                                  resourceLoaders := ld, interpolate := ip } := rfl

/-- in particular every `Skip*` flag the sub-load consults is the caller's -/
theorem include_options_flags (o : Opts) (ld ip : Nat) :
    (o.forInclude ld ip).skipValidation = o.skipValidation ∧
    (o.forInclude ld ip).skipInterpolation = o.skipInterpolation ∧
    (o.forInclude ld ip).skipExtends = o.skipExtends ∧
    (o.forInclude ld ip).skipInclude = o.skipInclude ∧
    (o.forInclude ld ip).skipDefaultValues = o.skipDefaultValues ∧
    (o.forInclude ld ip).skipResolveEnvironment = o.skipResolveEnvironment ∧
    (o.forInclude ld ip).convertWindowsPaths = o.convertWindowsPaths ∧
    (o.forInclude ld ip).discardEnvFiles = o.discardEnvFiles ∧
    (o.forInclude ld ip).profiles = o.profiles ∧
    (o.forInclude ld ip).projectName = o.projectName ∧
    (o.forInclude ld ip).projectNameImperativelySet = o.projectNameImperativelySet ∧
    (o.forInclude ld ip).knownExtensions = o.knownExtensions ∧
    (o.forInclude ld ip).listeners = o.listeners :=
  ⟨rfl, rfl, rfl, rfl, rfl, rfl, rfl, rfl, rfl, rfl, rfl, rfl, rfl⟩

/-- nested includes compose: the options at depth 2 are the options the root's include would compute directly (with
the inner project's loaders and interpolation) — every level is loaded under the same flags -/
theorem include_options_nested (o : Opts) (ld1 ip1 ld2 ip2 : Nat) :
    (o.forInclude ld1 ip1).forInclude ld2 ip2 = o.forInclude ld2 ip2 := rfl

/-- `Opts.flag` reads the field of that name -/
theorem clone_flag (o : Opts) (n : String) : o.clone.flag n = o.flag n := rfl

end CV.Include
