import ComposeVerif.Model.C02History
/-!
# C02 — a load does not depend on the loads that ran before it in the process

`Model/C02History.lean`: the default long form of a short-syntax dependency, with the aliasing that decides whether
earlier loads can show.  Tie to the code: the regenerated fact `packageVars_reviewed` (every package-level variable of the
module, `Props/C02.lean`) and the stream `c02.loadSeq` (sequences of real loads in one process against a fresh process).
-/
namespace CV.Det.History.Props
open CV.Det.History

/-- **the class**: if the result of a step does not read the state it is handed, then the result of a load is the same
after *every* history of loads as in a process that has run nothing (`s₀`), whatever the steps do to the state -/
theorem history_independent_of_blind_step {S I P : Type} (step : S → I → S × P)
    (blind : ∀ s s' i, (step s i).2 = (step s' i).2) (s₀ : S) :
    ∀ (hist : List I) (s : S) (i : I), runSeq step s hist i = (step s₀ i).2
  | [], s, i => blind s s₀ i
  | _ :: t, s, i => history_independent_of_blind_step step blind s₀ t _ i

def lift (es : List (String × KS)) : List (String × Ref) := es.map fun e => (e.1, Ref.own e.2)

theorem lookupR_lift (n : String) : ∀ es, lookupR n (lift es) = (lookupP n es).map Ref.own
  | [] => rfl
  | (k, r) :: t => by
    simp only [lift, List.map_cons, lookupR, lookupP]
    split
    · rfl
    · exact lookupR_lift n t

theorem setR_lift (n : String) (x : KS) : ∀ es, setR n (.own x) (lift es) = lift (setP n x es)
  | [] => rfl
  | (k, r) :: t => by
    simp only [lift, List.map_cons, setR, setP]
    split
    · rfl
    · simp only [List.map_cons, List.cons.injEq, true_and]; exact setR_lift n x t

/-- with a fresh mapping per entry, the merge never touches the package-level mapping and computes the pure merge -/
theorem mergeAll_lift (g : KS) : ∀ (over : List (String × KS)) (es : List (String × KS)),
    mergeAll g (lift es) over = (g, lift (over.foldl mergeOneP es))
  | [], _ => rfl
  | o :: r, es => by
    have step : mergeOne (g, lift es) o = (g, lift (mergeOneP es o)) := by
      simp only [mergeOne, mergeOneP, lookupR_lift]
      cases h : lookupP o.1 es with
      | none => simp only [Option.map_none, lift, List.map_append, List.map_cons, List.map_nil]
      | some m => simp only [Option.map_some, setR_lift]
    have := mergeAll_lift g r (mergeOneP es o)
    simp only [mergeAll, List.foldl_cons] at this ⊢
    rw [step]; exact this

theorem readOut_lift (g : KS) : ∀ es, readOut g (lift es) = es
  | [] => rfl
  | (k, r) :: t => by
    have := readOut_lift g t
    simp only [readOut, lift, List.map_cons, deref, List.map_map] at this ⊢
    rw [this]

/-- **the code as it is** (`d[name] = map[string]any{…}`: a fresh mapping per entry): a load leaves the package-level
state alone and its result is a function of its input only -/
theorem load_fresh_is_pure (g : KS) (i : In) : load false g i = (g, loadPure i) := by
  have e : (i.short.map fun n => (n, if false = true then Ref.global else Ref.own dfltLit)) = lift (i.short.map fun n => (n, dfltLit)) := by
    simp [lift, List.map_map, Function.comp_def]
  simp only [load, e, mergeAll_lift, readOut_lift, loadPure]

/-- … hence **its result is the same after every sequence of other loads** as in a fresh process -/
theorem load_fresh_history_independent (hist : List In) (g g₀ : KS) (i : In) :
    runSeq (load false) g hist i = (load false g₀ i).2 :=
  history_independent_of_blind_step (load false) (fun s s' j => by rw [load_fresh_is_pure, load_fresh_is_pure]) g₀ hist g i

/-- non-vacuity: the merge does change entries (the result is not the short list with defaults) -/
example : loadPure ⟨["store"], [("store", [("condition", "service_healthy")])]⟩ =
    [("store", [("condition", "service_healthy"), ("required", "true")])] := by decide

end CV.Det.History.Props
