import ComposeVerif.Gen.Globals
/-!
# C01 — loading is total when several loads overlap in one process (round 7)

"Loading never crashes" is a statement about the *process*: a Go map written by two goroutines at once ends it with the
unrecoverable `fatal error: concurrent map writes` — no project, no error, nothing `recover()` can catch.  Two loads with
fully independent arguments share exactly one thing: the package-level variables of the packages on the load path.  The
translator pass `translator/globals.go` (shared with C02 / C19) regenerates, on every run, from the source tree

* `packageVars`   — every package-level `var` of the non-test packages,
* `globalWrites`  — every store into one of them from a function body (direct, through a local alias, or by a callee that
                    is handed the variable): writer, kind, `init`?, `Lock()` held?, reachable from a load entry point?

The obligations below pin the part of that fact C01 depends on: **after package initialisation, no function reachable
from `loader.Load*` / `cli.ProjectOptions.LoadProject` / `dotenv.*` stores into a package-level variable unless a mutex is
held**; the complete list of post-init writers is the reviewed one.  A memo table, a lazily filled cache, a "seen" set or
a counter added at package level on the load path changes the regenerated fact and breaks these theorems (the concurrent
stream `c01conc` of `harness/p/c01/c01_conc.go` then supplies the failing input: the loads whose process dies).
-/
namespace CV.C01.Conc
open CV.Gen

/-- the stores into package-level variables that happen AFTER package initialisation: (package, variable, writer, kind, a `Lock()` is held, reachable from a load entry point) -/
def postInitWrites : List (String × String × String × String × Bool × Bool) :=
  globalWrites.filterMap fun (p, v, w, k, ini, guarded, reach) => if ini then none else some (p, v, w, k, guarded, reach)

/-- the package-level variables that a load can store into: post-init, reachable from a load entry point -/
def loadPathWrittenVars : List (String × String) :=
  (postInitWrites.filter fun (_, _, _, _, _, reach) => reach).map fun (p, v, _, _, _, _) => (p, v)

/-- **pinned fact**: the complete list of post-init stores into package-level variables, as regenerated from the tree.
    Only two exist: `dotenv.RegisterFormat` (an explicit registration API, not on the load path) and the de-duplication
    list of the obsolete-`version` warning, written under `versionWarningMu`. -/
theorem post_init_writes_pinned :
    postInitWrites =
      [("dotenv", "formats", "dotenv.RegisterFormat", "element-assign", false, false),
       ("loader", "versionWarning", "loader.Options.warnObsoleteVersion", "append", true, true)] := by
  decide

/-- the only package-level variable a load ever stores into is `loader.versionWarning` -/
theorem load_path_written_vars_pinned : loadPathWrittenVars = [("loader", "versionWarning")] := by
  decide

/-- **every store a load can make into a package-level variable is made under a held mutex**: two overlapping loads
    cannot write one Go map / slice header at the same time, so the runtime's `concurrent map writes` abort is excluded
    at its source.  (Reads of a variable written under a lock are pinned locked as well: second theorem.) -/
theorem load_never_writes_a_global_unlocked :
    ∀ w ∈ postInitWrites, w.2.2.2.2.2 = true → w.2.2.2.2.1 = true := by
  decide

theorem locked_vars_are_read_locked :
    lockGuardedVars = loadPathWrittenVars.map (fun (p, v) => p ++ "." ++ v) ∧ unguardedAccessesOfGuardedVars = [] := by
  decide

/-- the variables written after init are declared ones (the fact is self-consistent: a writer of an unknown variable
    would mean the two lists come from different trees) -/
theorem post_init_writes_are_package_vars : ∀ w ∈ postInitWrites, (w.1, w.2.1) ∈ packageVars := by
  decide

/-- non-vacuity: the pinned list is not empty and does contain a reachable (guarded) writer -/
example : ∃ w ∈ postInitWrites, w.2.2.2.2.2 = true := by decide

end CV.C01.Conc
