import ComposeVerif.Spec.Frame
import ComposeVerif.Props.C04Stage
/-!
# C04 — "Anything a later file does not mention is preserved unchanged", at any depth

`merge_absent_preserved` (`Props/C04.lean`) is the frame law one level deep.  Here it is composed along a whole key path:

* `deep_frame` — if the later file does not mention `path` (`Unmentioned`: its mappings end before the path does) and no
  custom rule / `x-` key lies on the way, the value at `path` in the merged model is the earlier value, untouched —
  for any trees, any fuel, any depth;
* `merge_deep_frame` — the same for `override.Merge` (whole documents);
* `service_attr_frame_partial` — instantiated for `services.<svc>.<attr>`, every service and attribute name: a later file
  that does not mention the service, or mentions the service but not the attribute, leaves the attribute as it was —
  **provided neither name starts with `x-`**.  The full-strength statement (no such proviso) is false on the unchanged
  tree: `mergeMappings` treats every key starting with `x-` as an extension and replaces its value as a whole, also
  where the key is a user-chosen service name (`Neg/C04Frame.lean`: `not_service_attr_frame`,
  `xprefix_service_is_replaced`; finding `xprefix-name-replaced:services`, replayed on the real loader by
  `corpus/C04/finding-xprefix-service-replaced.json`).
-/
namespace CV.C04
open CV CV.Val CV.Merge CV.Unicity CV.Reset CV.Override

theorem deep_frame : ∀ (path : List String) (n : Nat) (p : TPath) (e o m v : Val),
    mergeYaml n e o p = .ok m → getPath e path = some v → Unmentioned o path → RuleFree p path →
    getPath m path = some v
  | [], _, _, _, o, _, _, _, _, hu, _ => by cases o <;> simp [Unmentioned] at hu
  | k :: r, n, p, e, o, m, v, hm, hg, hu, hf => by
    cases o with
    | map b =>
      cases e with
      | map a =>
        cases n with
        | zero => simp [mergeYaml] at hm
        | succ n' =>
          obtain ⟨hrule, hx, hfree⟩ := hf
          rw [merge_map_unfold n' a b p hrule] at hm
          obtain ⟨m', hm', hmeq⟩ := out_bind_ok hm
          simp only [Out.ok.injEq] at hmeq; subst hmeq
          obtain ⟨hnd, hcase⟩ := hu
          simp only [getPath] at hg ⊢
          cases hb : lookup k b with
          | none =>
            rw [merge_absent_preserved n' a b m' p hnd hm' k hb]; exact hg
          | some y =>
            rw [hb] at hcase
            cases ha : lookup k a with
            | none => rw [ha] at hg; simp at hg
            | some x =>
              rw [ha] at hg
              obtain ⟨z, hz, hlz⟩ := merge_common_key_recursive n' a b m' p hnd hm' k x y ha hb hx
              rw [hlz]
              exact deep_frame r n' (next p k) x y z v hz hg hcase hfree
      | null => simp [getPath] at hg
      | bool _ => simp [getPath] at hg
      | int _ => simp [getPath] at hg
      | float _ => simp [getPath] at hg
      | str _ => simp [getPath] at hg
      | seq _ => simp [getPath] at hg
    | null => simp [Unmentioned] at hu
    | bool _ => simp [Unmentioned] at hu
    | int _ => simp [Unmentioned] at hu
    | float _ => simp [Unmentioned] at hu
    | str _ => simp [Unmentioned] at hu
    | seq _ => simp [Unmentioned] at hu

/-- the frame law for `override.Merge` on whole documents -/
theorem merge_deep_frame (base over m v : Val) (path : List String)
    (h : merge base over = .ok m) (hg : getPath base path = some v) (hu : Unmentioned over path)
    (hf : RuleFree TPath.root path) : getPath m path = some v := by
  unfold merge at h
  cases base with
  | map a =>
    cases over with
    | map b => exact deep_frame path _ _ _ _ _ _ h hg hu hf
    | _ => cases path <;> simp [Unmentioned] at hu
  | _ => cases over <;> simp at h

/-- table fact (re-checked whenever the Go table changes): every custom merge rule sits at a pattern of length ≥ 3 -/
theorem rules_at_length_three_or_more : ∀ r ∈ CV.Gen.mergeSpecials, 3 ≤ r.1.length := by decide

theorem ruleAt_short (p : TPath) (h : p.length ≤ 2) : ruleAt p = none := by
  unfold ruleAt ruleAtIn
  cases hf : TPath.firstMatch CV.Gen.mergeSpecials p with
  | none => rfl
  | some n =>
    obtain ⟨pat, hm, hx⟩ := TPath.firstMatch_some_mem hf
    have h3 := rules_at_length_three_or_more (pat, n) hm
    have := pmatch_length pat p hx
    simp only at h3
    omega

/-- on the way to `services.<svc>.<attr>` no custom rule intervenes, whatever the names (dots included) -/
theorem service_attr_rule_free (svc attr : String) (hs : hasXPrefix svc = false) (ha : hasXPrefix attr = false) :
    RuleFree TPath.root ["services", svc, attr] := by
  have h1 : next TPath.root "services" = ["services"] := by decide
  have h2 : next ["services"] svc = ["services", esc svc] := by simp [next, TPath.root]
  refine ⟨root_has_no_rule, by decide, ?_, hs, ?_, ha, trivial⟩
  · rw [h1]; exact ruleAt_short _ (by simp)
  · rw [h1, h2]; exact ruleAt_short _ (by simp)

/-- **a later file that does not mention `services.<svc>.<attr>` leaves it unchanged** (names not starting with `x-`) — whether it has no `services`
section, does not mention the service, or mentions the service without the attribute; every name, every value -/
theorem service_attr_frame_partial (base over m v : Val) (svc attr : String)
    (hs : hasXPrefix svc = false) (ha : hasXPrefix attr = false)
    (h : merge base over = .ok m) (hg : getPath base ["services", svc, attr] = some v)
    (hu : Unmentioned over ["services", svc, attr]) : getPath m ["services", svc, attr] = some v :=
  merge_deep_frame base over m v _ h hg hu (service_attr_rule_free svc attr hs ha)

/-- non-vacuity: the later file mentions the service (another attribute) but not `image` -/
example : Unmentioned (.map [("services", .map [("web", .map [("command", .str "x")])])]) ["services", "web", "image"] := by
  simp [Unmentioned, keys, lookup]

end CV.C04
