import ComposeVerif.Model.Pipeline
import ComposeVerif.Props.C11
import ComposeVerif.Props.C17Options
/-!
# C17 — the name decision inside the composed pipeline (round 6)

`Model/Pipeline.lean` (the integrator's composition of the stage models in the loader's order) ends in `finishLoad`:
empty model → error, **empty project name → error**, then `dict["name"] = projectName; Normalize`.  The clauses of the
property that speak about the whole load, stated about `Pipeline.load` / `Pipeline.loadY`:

* no load succeeds with an empty project name, whatever the files contain (`pipeline_empty_name_is_error`);
* the `name:` of the merged model has **no influence** on the tail of the load — it is overwritten by the decided name
  before anything reads it (`finishLoad_ignores_file_name`); the volumes / configs / secrets sections of a loaded model
  are the declared ones named after the *decided* name (`pipeline_resources_named_after_decided_name`, through C11's
  `normalized_resources`);
* composed with the decision of this property: with the pipeline configured by the name `loadX` decided (cli options →
  `withNamePrecedenceLoad` → `loader.projectName`), the name test never fires and the name that names the resources is
  the one `Spec.decide` selects (`decided_name_passes_pipeline`).
-/
namespace CV.Name
open CV CV.Val CV.Pipeline

theorem insert_insert (k : String) (v x : Val) (m : KVs) : Val.insert k v (Val.insert k x m) = Val.insert k v m := by
  induction m with
  | nil => simp [Val.insert]
  | cons e r ih =>
    obtain ⟨k', v'⟩ := e
    by_cases h : k = k'
    · subst h; simp [Val.insert]
    · simp [Val.insert, h, ih]

theorem insert_ne_nil (k : String) (v : Val) (m : KVs) : (Val.insert k v m).isEmpty = false := by
  cases m with
  | nil => rfl
  | cons e r =>
    obtain ⟨k', v'⟩ := e
    simp only [Val.insert]
    split <;> rfl

/-- the tail of `load` with an empty project name is an error, whatever the model -/
theorem finishLoad_empty_name (c : Cfg) (h : c.projectName = "") (dict d : KVs) : finishLoad c dict ≠ .ok d := by
  unfold finishLoad
  split
  · intro hh; cases hh
  · intro hh
    first
      | cases hh
      | (simp only [h, if_true] at hh; cases hh)

/-- **a successful load always has a non-empty name** — at the whole pipeline: with `opts.projectName = ""` no list of
    documents loads -/
theorem pipeline_empty_name_is_error (c : Cfg) (h : c.projectName = "") (docs : List KVs) (d : KVs) :
    Pipeline.load c docs ≠ .ok d := by
  unfold Pipeline.load
  split
  · intro hh; cases hh
  · cases loadYamlModel c docs with
    | ok dict => exact finishLoad_empty_name c h dict d
    | err e => intro hh; cases hh
    | panic s => intro hh; cases hh

/-- the same for files given as YAML text -/
theorem pipelineY_empty_name_is_error (c : Cfg) (h : c.projectName = "") (files : List (List Reset.YNode)) (d : KVs) :
    Pipeline.loadY c files ≠ .ok d := by
  unfold Pipeline.loadY
  split
  · intro hh; cases hh
  · cases loadYamlModelY c files with
    | ok dict => exact finishLoad_empty_name c h dict d
    | err e => intro hh; cases hh
    | panic s => intro hh; cases hh

/-- **the `name:` of the files never reaches `Normalize`**: whatever value `x` the merged model carries under `name`
    (the `name:` of a compose file that lost against an imperative name, say), the tail of the load is the same as
    without it — the decided name overwrites it first.  (Seed C11-7 — "only when the model has no `name`" — falsifies
    exactly this.) -/
theorem finishLoad_ignores_file_name (c : Cfg) (x : Val) (dict : KVs) (hne : dict.isEmpty = false)
    (hnorm : c.opts.skipNormalization = false) :
    finishLoad c (Val.insert "name" x dict) = finishLoad c dict := by
  unfold finishLoad
  simp only [insert_ne_nil, hne, Bool.false_eq_true, if_false, hnorm, insert_insert]

theorem ofC11_ok {α : Type} (stage : String) (o : C11.Out α) (a : α) (h : ofC11 stage o = .ok a) : o = .ok a := by
  cases o with
  | ok b => simp only [ofC11, Out.ok.injEq] at h; rw [h]
  | err e => cases h
  | panic s => cases h

/-- what a successful tail of the load returns: the pure normal form of the model **with the decided name in it** -/
theorem finishLoad_ok (c : Cfg) (dict d : KVs) (hnorm : c.opts.skipNormalization = false)
    (h : finishLoad c dict = .ok d) :
    c.projectName ≠ "" ∧ d = C11.normalizePure c.clean c.env (Val.insert "name" (.str c.projectName) dict) := by
  unfold finishLoad at h
  split at h
  · cases h
  · split at h
    · cases h
    · rename_i hn
      simp only [hnorm, Bool.false_eq_true, if_false] at h
      refine ⟨hn, ?_⟩
      have h2 := ofC11_ok _ _ _ h
      have ho := C11.normalize_outcome c.clean c.env (Val.insert "name" (.str c.projectName) dict)
      cases h1 : C11.shapeNN (Val.insert "name" (.str c.projectName) dict) with
      | false => rw [ho.2.1 h1] at h2; cases h2
      | true =>
        cases h3 : C11.shapeServices (Val.insert "name" (.str c.projectName) dict) with
        | false => rw [ho.2.2.1 h1 h3] at h2; cases h2
        | true =>
          cases h4 : C11.shapeNames (Val.insert "name" (.str c.projectName) dict) with
          | false => rw [ho.2.2.2 h1 h3 h4] at h2; cases h2
          | true =>
            rw [ho.1 ⟨h1, h3, h4⟩] at h2
            cases h2; rfl

/-- **the decided name names the resources of the loaded model**: the `volumes` / `configs` / `secrets` section of a
    successfully loaded model is the declared section with every resource named by C11's rule for the project name
    `opts.projectName` — not for the `name` the files wrote -/
theorem pipeline_resources_named_after_decided_name (c : Cfg) (dict d : KVs)
    (hnorm : c.opts.skipNormalization = false) (h : finishLoad c dict = .ok d) (r : String)
    (hr : r = "volumes" ∨ r = "configs" ∨ r = "secrets") :
    lookup r d = (lookup r dict).map (C11.nameSectionV (some (.str c.projectName))) := by
  obtain ⟨_, hd⟩ := finishLoad_ok c dict d hnorm h
  have hne : r ≠ "name" := by rcases hr with h | h | h <;> subst h <;> decide
  rw [hd, C11.normalized_resources c.clean c.env _ r hr, lookup_insert_self, lookup_insert_ne hne]

/-- and `name` of the loaded model is the decided name -/
theorem pipeline_name_is_decided_name (c : Cfg) (dict d : KVs)
    (hnorm : c.opts.skipNormalization = false) (h : finishLoad c dict = .ok d) :
    lookup "name" d = some (.str c.projectName) := by
  obtain ⟨_, hd⟩ := finishLoad_ok c dict d hnorm h
  rw [hd, C11.normalize_top_frame c.clean c.env _ "name" (by decide) (by decide) (by decide), lookup_insert_self]

/-- **composition with the decision**: configure the pipeline with the name the cli + `loader.projectName` decided
    (`loadX`, any option sequence, either position of the interpolation switch).  Then that name is the one
    `Spec.decide` selects from the four sources, it is valid and non-empty — the pipeline's name test passes — and a
    successful tail of the load carries it under `name` and names the volumes / configs / secrets after it -/
theorem decided_name_passes_pipeline (w : World) (o : PO) (skip : Bool) (r : Loaded) (h : loadX w o skip = .ok r)
    (c : Cfg) (hc : c.projectName = String.ofList r.name) (hnorm : c.opts.skipNormalization = false) :
    (∃ files, readConfigs w o.configs = .ok files ∧ Spec.decide (sourcesOfX w o files skip) = .name r.name) ∧
    validName r.name = true ∧ c.projectName ≠ "" ∧
    ∀ dict d, finishLoad c dict = .ok d →
      lookup "name" d = some (.str (String.ofList r.name)) ∧
      ∀ s, s = "volumes" ∨ s = "configs" ∨ s = "secrets" →
        lookup s d = (lookup s dict).map (C11.nameSectionV (some (.str (String.ofList r.name)))) := by
  obtain ⟨files, _, hf, hd⟩ := name_decision_any_interpolation w o skip r h
  have hv : validName r.name = true ∧ r.name ≠ [] := by
    unfold loadX at h
    split at h
    · cases h
    · split at h
      · cases h
      · exact loader_entry_name_valid _ _ _ _ r h
  refine ⟨⟨files, hf, hd⟩, hv.1, ?_, ?_⟩
  · rw [hc]
    intro he
    have : (String.ofList r.name).toList = "".toList := by rw [he]
    simp only [String.toList_ofList] at this
    exact hv.2 this
  · intro dict d hfin
    rw [← hc]
    exact ⟨pipeline_name_is_decided_name c dict d hnorm hfin,
      fun s hs => pipeline_resources_named_after_decided_name c dict d hnorm hfin s hs⟩

/-! non-vacuity: a model that loads, with a losing `name:` in it -/
example : C11.nameSectionV (some (.str "cli")) (.map [("v", .null)]) = .map [("v", .map [("name", .str "cli_v")])] := by rfl

end CV.Name
